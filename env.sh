# sourced by every command registered in MANIFEST.json
export GOFLAGS=-mod=mod GOPROXY=off GOSUMDB=off GOTOOLCHAIN=local GONOSUMDB=* GONOSUMCHECK=1 GOFLAGS=-mod=mod
unset GOWORK
export CGO_ENABLED=0
