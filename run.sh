#!/bin/bash
# usage: run.sh <property> <quick|thorough>
# Builds the checker if needed (offline, from /verif/checker) and analyses /repo's current working tree.
cd "$(dirname "$0")"
. ./env.sh
if [ ! -x bin/safecheck ] || [ -n "$(find checker -newer bin/safecheck -name '*.go' -print -quit 2>/dev/null)" ]; then
  (cd checker && go build -o ../bin/safecheck .) || { echo "checker build failed"; exit 2; }
fi
exec bin/safecheck -p "$1" -tier "${2:-quick}"
