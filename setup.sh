#!/bin/bash
# Offline build of the checker from files on disk only, followed by the
# regular-language engine's self-test against package regexp (checker and
# standard library only; no repository code is involved).
cd "$(dirname "$0")"
. ./env.sh
mkdir -p bin evidence
(cd checker && go build -o ../bin/safecheck .) || exit 1
(cd checker && go test -count=1 ./relang/) || { echo "relang self-test failed"; exit 1; }
bin/safecheck -list
