#!/bin/bash
# Offline build of the checker from files on disk only.
cd "$(dirname "$0")"
. ./env.sh
mkdir -p bin evidence
(cd checker && go build -o ../bin/safecheck .) || exit 1
bin/safecheck -list
