#!/usr/bin/env python3
"""Regenerates /verif/MANIFEST.json from the table below (single source of truth)."""
import json, subprocess, os
V = os.path.dirname(os.path.dirname(os.path.abspath(__file__)))
implemented = subprocess.run([os.path.join(V, "bin/safecheck"), "-list"], capture_output=True, text=True).stdout.split()
meta = json.load(open(os.path.join(V, "tools/checks.json")))
props = [json.loads(l)["id"] for l in open(os.path.join(V, "properties.jsonl"))]
checks, na = [], []
for pid in props:
    m = meta.get(pid)
    if pid in implemented and m and not m.get("not_applicable"):
        checks.append({
            "property_id": pid,
            "quick_cmd": f"./run.sh {pid} quick",
            "thorough_cmd": f"./run.sh {pid} thorough",
            "evidence_file": f"evidence/{pid}.json",
            "replay_cmd_template": f"./run.sh {pid} quick  # re-derives the obligations listed in {{path}} from /repo's current tree",
            "engine": "safecheck",
            "level_claimed": {"category": m["level"], "text": m["text"], "design_ref": m.get("design_ref", "DESIGN.md §3 " + pid)},
            "level_note": m["note"],
            "technique": m["technique"],
        })
    else:
        na.append({"property_id": pid, "reason": (m or {}).get("na_reason", "static check for this property is not built yet (work in progress); no verdict is claimed")})
man = {
    "version": 1,
    "setup_cmd": "./setup.sh",
    "hooks": {"guard": "verif", "enable": "none needed: static analysis reads /repo's sources, no instrumentation is compiled in",
              "baseline_off_cmd": "cd /repo && GOFLAGS=-mod=mod GOPROXY=off go test -vet=off -count=1 ./...", "source_commits": [], "add_only": True},
    "engines": [{"name": "safecheck", "path": "checker/", "serves_properties": [c["property_id"] for c in checks],
                 "kind_free_text": "repository-specific static analyser (go/packages + go/types + go/ssa + regular-language engine over all Unicode); never executes /repo code"}],
    "checks": checks,
    "not_applicable": na,
    "notes": "All checks are static: they load /repo's current working tree with go/packages, and decide obligations from the syntax tree, the type-checked program, SSA and the constants in the source. See DESIGN.md.",
}
json.dump(man, open(os.path.join(V, "MANIFEST.json"), "w"), indent=1)
print("checks:", [c["property_id"] for c in checks], "na:", [n["property_id"] for n in na])
