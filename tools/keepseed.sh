#!/bin/bash
# usage: keepseed.sh <src-dir> <name> "<caught by / notes>"
src=$1; name=$2; note=$3
mkdir -p /verif/seeded/$name
cp $src/patch.diff /verif/seeded/$name/
cp $src/demo_* /verif/seeded/$name/ 2>/dev/null
python3 - "$src/meta.json" "/verif/seeded/$name/meta.json" "$note" <<'PY'
import json,sys
m=json.load(open(sys.argv[1]))
m['confirmed_by_me']={'how':'tools/seedcheck.sh: fresh worktree of /repo HEAD; suite passes with the patch; demo passes without and fails with the patch','checks':sys.argv[3]}
json.dump(m,open(sys.argv[2],'w'),indent=1)
PY
echo kept $name
