#!/bin/bash
# usage: at.sh <commit> <prop,...> : run checks against a scratch worktree of /repo at <commit> (development helper)
. /verif/env.sh
d=$(mktemp -d /tmp/at.XXXXXX)
git -C /repo worktree add -q --detach "$d/w" "$1" || exit 2
for p in ${2//,/ }; do VERIF_REPO="$d/w" VERIF_OUT="$d/.e" /verif/bin/safecheck -p $p | sed "s|$d/w/||g" | cut -c1-400; done
git -C /repo worktree remove --force "$d/w"; rm -rf "$d"
