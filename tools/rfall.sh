#!/bin/bash
# usage: rfall.sh <root dir with CxxR/refactor_N.diff> : runs every refactoring through all checks, prints one line per diff
out=$(mktemp -d /tmp/rfa.XXXXXX)
ls $1/*/refactor_*.diff | xargs -P ${2:-8} -I{} bash -c 'f={}; n=$(basename $(dirname $f))_$(basename $f .diff); /verif/tools/rfcheck.sh $f all > '$out'/$n.txt 2>&1; if grep -q "PATCH DOES NOT APPLY" '$out'/$n.txt; then echo "NOAPPLY $n"; elif grep -q "^suite:" '$out'/$n.txt; then echo "SUITEFAIL $n"; elif grep -q "failing=[1-9]" '$out'/$n.txt; then echo "ALARM $n $(grep -o "^C[0-9]* tier" '$out'/$n.txt | cut -c1-3 | tr "\n" " ")"; else echo "silent $n"; fi'
echo "logs in $out"
