// mutgen lists small syntactic mutants of the non-test Go files under a directory, one JSON object per line:
// {"file","start","end","repl","kind","func","line"}. It is a development aid for the checker (which mutants
// the test suite lets through and no rule sees); it decides nothing about any property.
package main

import (
	"encoding/json"
	"fmt"
	"go/ast"
	"go/parser"
	"go/token"
	"os"
	"path/filepath"
	"strconv"
	"strings"
)

type mutant struct {
	File  string `json:"file"`
	Start int    `json:"start"`
	End   int    `json:"end"`
	Repl  string `json:"repl"`
	Kind  string `json:"kind"`
	Func  string `json:"func"`
	Line  int    `json:"line"`
}

func main() {
	root := os.Args[1]
	enc := json.NewEncoder(os.Stdout)
	filepath.Walk(root, func(path string, info os.FileInfo, err error) error {
		if err != nil {
			return nil
		}
		if info.IsDir() {
			if n := info.Name(); n == "testdata" || n == "testconversions" || n == "uncheckedconversions" || n == "legacyconversions" || n == "raw" || strings.HasPrefix(n, ".") && path != root {
				return filepath.SkipDir
			}
			return nil
		}
		if !strings.HasSuffix(path, ".go") || strings.HasSuffix(path, "_test.go") {
			return nil
		}
		fset := token.NewFileSet()
		src, _ := os.ReadFile(path)
		f, err := parser.ParseFile(fset, path, src, parser.ParseComments)
		if err != nil {
			return nil
		}
		rel, _ := filepath.Rel(root, path)
		off := func(p token.Pos) int { return fset.Position(p).Offset }
		for _, d := range f.Decls {
			fd, ok := d.(*ast.FuncDecl)
			if !ok || fd.Body == nil {
				continue
			}
			name := fd.Name.Name
			if fd.Recv != nil && len(fd.Recv.List) == 1 {
				switch t := fd.Recv.List[0].Type.(type) {
				case *ast.StarExpr:
					if id, ok := t.X.(*ast.Ident); ok {
						name = "(*" + id.Name + ")." + name
					}
				case *ast.Ident:
					name = t.Name + "." + name
				}
			}
			emit := func(s, e token.Pos, repl, kind string) {
				enc.Encode(mutant{File: rel, Start: off(s), End: off(e), Repl: repl, Kind: kind, Func: name, Line: fset.Position(s).Line})
			}
			ast.Inspect(fd.Body, func(n ast.Node) bool {
				if os.Getenv("MUTGEN_SET") == "2" {
					switch n.(type) {
					case *ast.BasicLit, *ast.UnaryExpr:
					default:
						return true
					}
				}
				switch x := n.(type) {
				case *ast.IfStmt:
					emit(x.Cond.Pos(), x.Cond.End(), "!("+string(src[off(x.Cond.Pos()):off(x.Cond.End())])+")", "negate-if")
				case *ast.BinaryExpr:
					var r string
					switch x.Op {
					case token.LAND:
						r = "||"
					case token.LOR:
						r = "&&"
					case token.EQL:
						r = "!="
					case token.NEQ:
						r = "=="
					case token.LSS:
						r = "<="
					case token.LEQ:
						r = "<"
					case token.GTR:
						r = ">="
					case token.GEQ:
						r = ">"
					case token.ADD:
						if bl, ok := x.Y.(*ast.BasicLit); ok && bl.Kind == token.INT {
							r = "-"
						}
					case token.SUB:
						if bl, ok := x.Y.(*ast.BasicLit); ok && bl.Kind == token.INT {
							r = "+"
						}
					}
					if r != "" {
						emit(x.OpPos, x.OpPos+token.Pos(len(x.Op.String())), r, "binop "+x.Op.String()+"→"+r)
					}
				case *ast.ExprStmt:
					if _, ok := x.X.(*ast.CallExpr); ok {
						emit(x.Pos(), x.End(), "", "delete-call")
					}
				case *ast.AssignStmt:
					if x.Tok != token.DEFINE {
						emit(x.Pos(), x.End(), "", "delete-assign")
					}
				case *ast.IncDecStmt:
					emit(x.Pos(), x.End(), "", "delete-incdec")
				case *ast.Ident:
					if x.Name == "true" {
						emit(x.Pos(), x.End(), "false", "true→false")
					} else if x.Name == "false" {
						emit(x.Pos(), x.End(), "true", "false→true")
					}
				case *ast.BasicLit:
					if os.Getenv("MUTGEN_SET") == "2" && x.Kind == token.INT {
						if n, err := strconv.Atoi(x.Value); err == nil && n < 1000 {
							emit(x.Pos(), x.End(), strconv.Itoa(n+1), "int "+x.Value+"→"+strconv.Itoa(n+1))
							if n > 0 {
								emit(x.Pos(), x.End(), strconv.Itoa(n-1), "int "+x.Value+"→"+strconv.Itoa(n-1))
							}
						}
					}
				case *ast.UnaryExpr:
					if os.Getenv("MUTGEN_SET") == "2" && x.Op == token.NOT {
						emit(x.OpPos, x.OpPos+1, "", "drop-not")
					}
				case *ast.BranchStmt:
					if x.Tok == token.CONTINUE && x.Label == nil {
						emit(x.Pos(), x.End(), "break", "continue→break")
					} else if x.Tok == token.BREAK && x.Label == nil {
						emit(x.Pos(), x.End(), "continue", "break→continue")
					}
				case *ast.ReturnStmt:
					_ = x
				}
				return true
			})
		}
		return nil
	})
	fmt.Fprintln(os.Stderr, "done")
}
