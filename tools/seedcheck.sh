#!/bin/bash
# usage: seedcheck.sh <seed-dir containing patch.diff, demo_*.go, meta.json> [props|all]
# Confirms a seeded change in a scratch worktree (builds, suite passes, demo fails with / passes without) and runs the checks against it.
. /verif/env.sh
sd=$(readlink -f "$1"); props=${2:-all}
d=$(mktemp -d /tmp/sc.XXXXXX); trap 'git -C /repo worktree remove --force "$d/w" 2>/dev/null; rm -rf "$d"' EXIT
git -C /repo worktree add -q --detach "$d/w" HEAD || exit 2
pkgdir=$(python3 -c "import json;print(json.load(open('$sd/meta.json')).get('demo_package_dir','.'))")
demo=$(ls $sd/demo_test.go $sd/demo_main.go 2>/dev/null | head -1)
rundemo() { # $1 = label
  if [[ "$demo" == *_test.go ]]; then
    cp "$demo" "$d/w/$pkgdir/zz_seed_demo_test.go"
    (cd "$d/w" && CGO_ENABLED=1 go test -vet=off -count=1 ${SEED_RACE:+-race} ${SEED_TAGS:+-tags $SEED_TAGS} -run "${SEED_RUN:-.}" ./$pkgdir/ >"$d/demo_$1.log" 2>&1); rc=$?
    rm -f "$d/w/$pkgdir/zz_seed_demo_test.go"
  else
    mkdir -p "$d/m"; cp "$demo" "$d/m/main.go"; printf 'module demo\ngo 1.23\nrequire github.com/google/safehtml v0.0.0\nreplace github.com/google/safehtml => %s\n' "$d/w" > "$d/m/go.mod"; cp /repo/go.sum "$d/m/"
    (cd "$d/m" && CGO_ENABLED=1 go run ${SEED_RACE:+-race} ${SEED_TAGS:+-tags $SEED_TAGS} . >"$d/demo_$1.log" 2>&1); rc=$?
  fi
  echo "demo[$1] exit=$rc"; tail -3 "$d/demo_$1.log" | cut -c1-200
}
rundemo without
(cd "$d/w" && git apply "$sd/patch.diff") || { echo "PATCH DOES NOT APPLY"; exit 3; }
(cd "$d/w" && go build ./... 2>&1 | head -3; go test -vet=off -count=1 ./... 2>&1 | grep -v "no test files" | sed 's/^/suite: /')
rundemo with
if [ "$props" = all ]; then props="C01 C02 C03 C04 C05 C06 C07 C08 C09 C10 C11 C12 C13 C14 C15 C16 C17 C18 C19 C20"; fi
for p in ${props//,/ }; do VERIF_REPO="$d/w" VERIF_OUT="$d/.evid" ${SC:-/verif/bin/safecheck} -p $p | grep -v '^KNOWN' | sed "s|$d/w/||g" | cut -c1-300 | grep -v "failing=0" | head -${SEED_LINES:-4}; done
echo "== done"
