#!/bin/bash
# usage: refactor.sh <props> <python-file-with-edits>  : applies a behaviour-preserving multi-file edit (python script gets the copy dir as argv[1]) and runs checks; expects tests to pass and checks to stay silent
. /verif/env.sh
props=$1; script=$2
d=$(mktemp -d /tmp/rf.XXXXXX); trap 'rm -rf "$d"' EXIT
rsync -a --exclude .git /repo/ "$d/"
python3 "$script" "$d" || { echo "edit failed"; exit 3; }
(cd "$d" && go build ./... 2>&1 | head -5 && go test -vet=off -count=1 ./... 2>&1 | grep -v '^ok\|no test files' | head -5)
for p in ${props//,/ }; do VERIF_REPO="$d" VERIF_OUT="$d/.evid" /verif/bin/safecheck -p $p | grep -v '^KNOWN' | sed "s|$d/||g" | cut -c1-260 | head -4; done
