import json,sys
pid=sys.argv[1]; variant=sys.argv[2] if len(sys.argv)>2 else 'r'
p=json.load(open('/tmp/seedout/prop_%s.json'%pid))
tag=pid+variant
EXTRA=''
if variant=='t':
    EXTRA=' Two earlier campaigns already tried plain extract/inline/rename/move, switch-for-if, equivalent standard-library calls, tables of checks, policy structs, hand-written scanners for regular expressions, table builders and cursor objects. Prefer OTHER kinds this time, for example: changing a data representation without changing behaviour (a bool flag for a sentinel value, a small enum type for two bools, a named type with methods for a bare string or map); turning a function into a method or a method into a function; introducing or removing an intermediate variable, a named result or a defer; splitting a long function into phases that pass a small struct; converting between value and pointer receivers where nothing observes the difference; replacing a package-level variable by a function returning the same value (or by a constant); merging two similar functions into one with a parameter, or splitting one such function into two; changing error construction (fmt.Errorf vs errors.New with the same text) or wrapping an error without changing its message; generics or small interfaces where they remove duplication; reordering struct fields or declarations; using a keyed composite literal for a positional one.'

print(f'''You are helping to test a verification tool for false alarms. Your working directory is /tmp/wt_{tag} — a scratch git worktree of the Go library github.com/google/safehtml at a pinned version. You may read and edit files ONLY under /tmp/wt_{tag}, and write your results under /tmp/rfout/{tag}/ (create it). Do NOT read or touch /repo, /verif, /root, or any other /tmp/wt_* , /tmp/seedout/* or /tmp/rfout/* directory.

The property below is a JSON record; 'statement' is a property of the library that currently HOLDS, 'anchors' point at the code that makes it hold:

{json.dumps(p, indent=1)}

TASK: produce FOUR different, realistic, BEHAVIOUR-PRESERVING refactorings of the anchored code (and of helpers it relies on), each as its own patch against the pristine worktree. After each refactoring the library must behave exactly as before for every input (so the property still holds), it must compile (`go build ./...`) and the unedited test suite must pass (`go test -vet=off -count=1 ./...` from the worktree root). Make them the kind of change a maintainer really makes, and make the four of them different in kind, for example:
 - extract part of a function into a new helper function (or inline an existing helper);
 - rename functions/variables/constants, or move code to another file of the same package;
 - restructure control flow (early return vs if/else, switch vs if chain, loop form, De Morgan on a condition, reorder independent checks);
 - replace a standard-library call by an equivalent one (strings.ContainsRune vs strings.IndexByte >= 0, strings.Builder vs bytes.Buffer, fmt.Sprintf vs concatenation, a regexp written differently but matching exactly the same language, a map replaced by a switch or a lookup table with the same entries);
 - wrap a check in a small predicate function; split or merge regular expressions without changing what is accepted.
'''+EXTRA+''' Each patch should touch roughly 10-60 lines. Be careful that each one REALLY preserves behaviour for all inputs (including error values/messages where the property or tests care) — think about edge cases; if in doubt choose a safer refactoring. Do not edit or delete existing *_test.go files.

PROCEDURE for each refactoring i = 1..4: start from the pristine tree (`git checkout -- . && git clean -fdq`), make the edit, run build and tests, save it with `git diff > /tmp/rfout/{tag}/refactor_i.diff` (if you add new files, `git add -N` them first so they appear in the diff), then restore the pristine tree. Do NOT use git stash (it is shared between worktrees and other agents are working in parallel).

DELIVERABLES in /tmp/rfout/{tag}/ : refactor_1.diff … refactor_4.diff and meta.json = {{"property": "{pid}", "refactors": [{{"file": "refactor_1.diff", "kind": "<kind>", "summary": "<what it does and why behaviour is unchanged>", "suite_passes": true}}, …]}}.

ENVIRONMENT: there is no network. Before any go command run: export GOFLAGS=-mod=mod GOPROXY=off GOSUMDB=off GOTOOLCHAIN=local ; unset GOWORK. When you finish, leave the worktree pristine. Reply with a short summary of the four refactorings.''')
