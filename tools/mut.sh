#!/bin/bash
# usage: mut.sh <prop[,prop]> <file-relative-to-repo> <python-regex-sub-from> <to>   (development helper)
# Applies one textual edit to a scratch copy of /repo, checks it builds and passes tests, runs the checker.
set -u
. /verif/env.sh
props=$1; file=$2; from=${3-$FROM}; to=${4-$TO}
d=$(mktemp -d /tmp/mut.XXXXXX)
trap 'rm -rf "$d"' EXIT
rsync -a --exclude .git /repo/ "$d/"
python3 - "$d/$file" "$from" "$to" <<'PY'
import sys,re
p,f,t=sys.argv[1:4]
s=open(p).read()
n=s.count(f)
if n==0:
    print("MUT: pattern not found"); sys.exit(3)
s=s.replace(f,t,1)
open(p,'w').write(s)
PY
[ $? -eq 0 ] || exit 3
(cd "$d" && go build ./... 2>&1 | head -5 && go test -vet=off -count=1 ./... 2>&1 | grep -v '^ok\|no test files' | head -10)
for p in ${props//,/ }; do
  VERIF_REPO="$d" VERIF_OUT="$d/.evid" /verif/bin/safecheck -p $p | grep -v '^KNOWN' | sed "s|$d/||g" | head -${MUT_LINES:-8}
done
