#!/bin/bash
# usage: probe.sh <main.go>   — runs the program against /repo's working tree and against /repo's HEAD (uncommitted changes stashed)
. /verif/env.sh
d=$(mktemp -d /tmp/probe.XXXX); cp "$1" $d/main.go
cat > $d/go.mod <<'EOM'
module probe
go 1.23
require github.com/google/safehtml v0.0.0
replace github.com/google/safehtml => /repo
EOM
cp /repo/go.sum $d/
trap "" PIPE; echo "== working tree:"; (cd $d && go run . 2>&1 | head -${PROBE_LINES:-12})
if [ -n "$(git -C /repo status --porcelain)" ]; then
  git -C /repo stash -q; echo "== HEAD:"; (cd $d && go run . 2>&1 | head -${PROBE_LINES:-12}); git -C /repo stash pop -q
fi
rm -rf $d
