#!/bin/bash
# usage: rfdir.sh <dir with refactor_*.diff> [props|all]
for f in $1/refactor_*.diff; do echo "#### $f"; /verif/tools/rfcheck.sh $f ${2:-all} 2>&1 | grep -v "^== done" | cut -c1-330; done
