#!/bin/bash
# usage: rfcheck.sh <patch.diff> [props|all] : applies a (claimed) behaviour-preserving patch to a scratch worktree of /repo HEAD, runs build+suite, then the checks, which must stay silent
. /verif/env.sh
pf=$(readlink -f "$1"); props=${2:-all}
d=$(mktemp -d /tmp/rc.XXXXXX); trap 'git -C /repo worktree remove --force "$d/w" 2>/dev/null; rm -rf "$d"' EXIT
git -C /repo worktree add -q --detach "$d/w" HEAD || exit 2
(cd "$d/w" && (git apply "$pf" 2>/dev/null || git apply -3 "$pf" >/dev/null 2>&1)) || { echo "PATCH DOES NOT APPLY"; exit 3; }
(cd "$d/w" && go build ./... 2>&1 | head -3; go test -vet=off -count=1 ./... 2>&1 | grep -v "no test files\|^ok" | sed 's/^/suite: /')
if [ "$props" = all ]; then props="C01 C02 C03 C04 C05 C06 C07 C08 C09 C10 C11 C12 C13 C14 C15 C16 C17 C18 C19 C20"; fi
for p in ${props//,/ }; do VERIF_REPO="$d/w" VERIF_OUT="$d/.evid" ${SC:-/verif/bin/safecheck} -p $p | grep -v '^KNOWN' | sed "s|$d/w/||g" | cut -c1-400 | grep -v "failing=0" | head -${SEED_LINES:-6}; done
echo "== done $(basename $pf)"
