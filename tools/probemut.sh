#!/bin/bash
# usage: FROM=.. TO=.. probemut.sh <file-rel> <main.go> : runs a probe program against a scratch copy of /repo with one textual edit, and against the unmodified copy
. /verif/env.sh
d=$(mktemp -d /tmp/pm.XXXX); trap 'rm -rf $d' EXIT
rsync -a --exclude .git /repo/ $d/r/
mkdir $d/m; cp "$2" $d/m/main.go
printf 'module probe\ngo 1.23\nrequire github.com/google/safehtml v0.0.0\nreplace github.com/google/safehtml => %s\n' $d/r > $d/m/go.mod; cp /repo/go.sum $d/m/
echo "== unmodified:"; (cd $d/m && go run . 2>&1 | head -${PROBE_LINES:-12})
python3 - "$d/r/$1" "$FROM" "$TO" <<'PY' || exit 3
import sys
p,f,t=sys.argv[1:4]
s=open(p).read()
assert f in s, "pattern not found"
open(p,'w').write(s.replace(f,t,1))
PY
echo "== mutated:"; (cd $d/m && go run . 2>&1 | head -${PROBE_LINES:-12})
