#!/usr/bin/env python3
"""apply.py <mutants.jsonl> <worktree> <file> <line> [kind-substring] [nth]: apply one listed mutant to a worktree."""
import json, sys, os
muts = [json.loads(l) for l in open(sys.argv[1])]
w, f, line = sys.argv[2], sys.argv[3], int(sys.argv[4])
kind = sys.argv[5] if len(sys.argv) > 5 else ''
nth = int(sys.argv[6]) if len(sys.argv) > 6 else 0
c = [m for m in muts if m['file'] == f and m['line'] == line and kind in m['kind']]
if not c:
    sys.exit('no such mutant')
m = c[nth]
p = os.path.join(w, m['file'])
src = open(p, 'rb').read()
open(p, 'wb').write(src[:m['start']] + m['repl'].encode() + src[m['end']:])
print('applied', m['kind'], 'of', len(c))
