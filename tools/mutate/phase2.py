#!/usr/bin/env python3
"""phase2.py <phase1.jsonl> <out.jsonl> [workers]: runs the twenty checks (quick tier) on every mutant that the test
suite lets through and records which fire. SC = checker binary. Development aid only."""
import json, os, subprocess, sys, tempfile, shutil, re
from multiprocessing import Pool

ENV = dict(os.environ, GOFLAGS='-mod=mod', GOPROXY='off', GOSUMDB='off', GOTOOLCHAIN='local')
ENV.pop('GOWORK', None)
SC = os.environ.get('SC', '/verif/bin/safecheck')
PROPS = ['C%02d' % i for i in range(1, 21)]

def work(args):
    wid, muts = args
    d = tempfile.mkdtemp(prefix='mx.', dir='/tmp')
    w = d + '/w'
    subprocess.run(['git', '-C', '/repo', 'worktree', 'add', '-q', '--detach', w, 'HEAD'], check=True)
    out = []
    try:
        for m in muts:
            p = os.path.join(w, m['file'])
            src = open(p, 'rb').read()
            open(p, 'wb').write(src[:m['start']] + m['repl'].encode() + src[m['end']:])
            fired = {}
            try:
                for pr in PROPS:
                    env = dict(ENV, VERIF_REPO=w, VERIF_OUT=d + '/.evid')
                    r = subprocess.run([SC, '-p', pr], env=env, capture_output=True, text=True, timeout=600)
                    if r.returncode != 0 or 'VIOLATION' in r.stdout:
                        rules = sorted(set(re.findall(r'^\s+(?:VIOLATED|UNDECIDED)\s+(\S+)', r.stdout, re.M)))
                        fired[pr] = rules or ['rc=%d' % r.returncode]
            finally:
                open(p, 'wb').write(src)
            m['fired'] = fired
            out.append(m)
            print(wid, m['file'], m['line'], m['func'], m['kind'], 'CAUGHT' if fired else 'SILENT', ' '.join(sorted(fired)), flush=True)
    finally:
        subprocess.run(['git', '-C', '/repo', 'worktree', 'remove', '--force', w])
        shutil.rmtree(d, ignore_errors=True)
    return out

if __name__ == '__main__':
    muts = [json.loads(l) for l in open(sys.argv[1])]
    muts = [m for m in muts if m.get('status') == 'survived']
    n = int(sys.argv[3]) if len(sys.argv) > 3 else 6
    chunks = [(i, muts[i::n]) for i in range(n)]
    with Pool(n) as pool:
        res = pool.map(work, chunks)
    with open(sys.argv[2], 'w') as f:
        for r in res:
            for m in r:
                f.write(json.dumps(m) + '\n')
