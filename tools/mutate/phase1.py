#!/usr/bin/env python3
"""phase1.py <mutants.jsonl> <out.jsonl> [workers]: which mutants compile and pass the pinned test suite.
Development aid for the checker (finds candidate defects that no rule sees); decides nothing about a property."""
import json, os, subprocess, sys, tempfile, shutil
from multiprocessing import Pool

ENV = dict(os.environ, GOFLAGS='-mod=mod', GOPROXY='off', GOSUMDB='off', GOTOOLCHAIN='local')
ENV.pop('GOWORK', None)

def work(args):
    wid, muts = args
    d = tempfile.mkdtemp(prefix='mw.', dir='/tmp')
    w = d + '/w'
    subprocess.run(['git', '-C', '/repo', 'worktree', 'add', '-q', '--detach', w, 'HEAD'], check=True)
    out = []
    try:
        for m in muts:
            p = os.path.join(w, m['file'])
            src = open(p, 'rb').read()
            open(p, 'wb').write(src[:m['start']] + m['repl'].encode() + src[m['end']:])
            try:
                r = subprocess.run('go build ./... 2>&1 | head -3', shell=True, cwd=w, env=ENV, capture_output=True, text=True, timeout=300)
                if r.stdout.strip():
                    m['status'] = 'nobuild'
                else:
                    try:
                        t = subprocess.run('go test -count=1 -vet=off -timeout 60s ./... 2>&1 | grep -v "no test files" | grep -v "^ok"', shell=True, cwd=w, env=ENV, capture_output=True, text=True, timeout=400)
                        m['status'] = 'killed' if t.stdout.strip() else 'survived'
                    except subprocess.TimeoutExpired:
                        m['status'] = 'killed'
            finally:
                open(p, 'wb').write(src)
            out.append(m)
            print(wid, m['file'], m['line'], m['kind'], m['status'], flush=True)
    finally:
        subprocess.run(['git', '-C', '/repo', 'worktree', 'remove', '--force', w])
        shutil.rmtree(d, ignore_errors=True)
    return out

if __name__ == '__main__':
    muts = [json.loads(l) for l in open(sys.argv[1])]
    n = int(sys.argv[3]) if len(sys.argv) > 3 else 6
    chunks = [(i, muts[i::n]) for i in range(n)]
    with Pool(n) as pool:
        res = pool.map(work, chunks)
    with open(sys.argv[2], 'w') as f:
        for r in res:
            for m in r:
                f.write(json.dumps(m) + '\n')
