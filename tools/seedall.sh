#!/bin/bash
# usage: seedall.sh [jobs] : re-confirms every kept seed against /repo HEAD (applies, suite passes, demo passes without / fails with) and that some check fires
cd /verif/seeded; out=$(mktemp -d /tmp/sa.XXXXXX)
ls -d [A-Z]*/ | sed 's|/||' | xargs -P ${1:-8} -I{} bash -c '
  d={}; m=/verif/seeded/$d/meta.json
  run=$(python3 -c "import json,re;m=json.load(open(\"$m\"));c=m.get(\"demo_run_cmd\",\"\");r=re.search(r\"-run[ =]+[\\x27\\\"]?([^ \\x27\\\"]+)\",c);print(r.group(1) if r else \".\")")
  race=$(python3 -c "import json;m=json.load(open(\"$m\"));print(1 if \"-race\" in m.get(\"demo_run_cmd\",\"\") else \"\")")
  tags=$(python3 -c "import json,re;m=json.load(open(\"$m\"));c=m.get(\"demo_run_cmd\",\"\");r=re.search(r\"-tags[ =]+([^ ]+)\",c);print(r.group(1) if r else \"\")")
  SEED_TAGS=$tags SEED_RACE=$race SEED_RUN="$run" /verif/tools/seedcheck.sh /verif/seeded/$d all > '$out'/$d.txt 2>&1
  wo=$(grep -o "demo\[without\] exit=[0-9]*" '$out'/$d.txt | grep -o "[0-9]*$"); wi=$(grep -o "demo\[with\] exit=[0-9]*" '$out'/$d.txt | grep -o "[0-9]*$")
  sf=$(grep -c "^suite: FAIL\|^suite: ---\|PATCH DOES NOT APPLY" '$out'/$d.txt); fired=$(grep -c "failing=[1-9]" '$out'/$d.txt)
  st=OK; [ "$wo" = 0 ] && [ "$wi" != 0 ] && [ -n "$wi" ] && [ "$sf" = 0 ] && [ "$fired" -gt 0 ] || st=PROBLEM
  echo "$st $d without=$wo with=$wi suitefail=$sf checks_fired=$fired"
'
echo "logs in $out"
