#!/usr/bin/env python3
"""mktriage.py <phase2_second.jsonl>: writes mutation/triage.md from the first run, the second run over the
mutants that were silent in the first, and the verdicts read by hand (verdicts.py)."""
import json, sys, os, collections
here = os.path.dirname(os.path.abspath(__file__))
sys.path.insert(0, here)
from verdicts import V
first = [json.loads(l) for l in open(os.path.join(here, 'phase2_first.jsonl'))]
second = {(m['file'], m['start'], m['repl']): m for m in map(json.loads, open(sys.argv[1]))}
p1 = collections.Counter(json.loads(l)['status'] for l in open(os.path.join(here, 'phase1.jsonl')))
sil = [m for m in first if not m['fired']]
names = {'H': 'harmless for every listed property', 'O': 'outside every listed property', 'R': 'real'}
out = ['# Mutation sweep: the survivors no check flagged in the first run', '',
       'Mutants: %d listed, %d killed by the pinned suite, %d do not build, %d survive.' % (sum(p1.values()), p1['killed'], p1['nobuild'], p1['survived']),
       'First run of the twenty checks over the survivors: %d flagged, %d silent.' % (len(first) - len(sil), len(sil)), '']
now = collections.Counter()
rows = []
for m in sorted(sil, key=lambda m: (m['file'], m['line'], m['kind'])):
    cls, note = V[(m['file'], m['line'])]
    s = second.get((m['file'], m['start'], m['repl']))
    fired = s['fired'] if s else {}
    rules = sorted({r for rs in fired.values() for r in rs})
    state = ('flagged: ' + ' '.join(rules)) if fired else 'silent'
    now[(cls, bool(fired))] += 1
    rows.append('| `%s:%d` | %s | %s | %s | %s | %s |' % (m['file'], m['line'], m['func'], m['kind'], names[cls], note, state))
out += ['Second run (final checker) over those %d: %d flagged, %d silent.' % (len(sil), sum(v for (c, f), v in now.items() if f), sum(v for (c, f), v in now.items() if not f)), '',
        'By verdict: ' + '; '.join('%s: %d flagged / %d silent' % (names[c], now[(c, True)], now[(c, False)]) for c in 'RHO'), '',
        'A harmless mutant that is flagged is flagged because it changes a structure a rule relies on (the rule reports what it no longer recognises); none of these is a behaviour-preserving rewrite a maintainer would make.', '',
        '| site | function | mutation | verdict | why | final checker |', '|---|---|---|---|---|---|'] + rows
open(os.path.join(here, 'triage.md'), 'w').write('\n'.join(out) + '\n')
print(out[2]); print(out[3]); print(out[5]); print(out[7])
