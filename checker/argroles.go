package main

// checkLookupArgumentRoles (C02.R22 / C04.R12): the policy lookup takes an element name, an attribute name and the
// link relation. At every call site each argument must come from the context fields of that role: the element
// candidates (element.name / element.names), the attribute candidates (attr.name / attr.names) and linkRel. A
// call that passes the element name in the attribute position looks up a pair that does not exist, gets an error —
// and callers that skip on error ("the action itself has been refused") then skip their own check.
import (
	"fmt"
	"go/token"
	"sort"
	"strings"

	"golang.org/x/tools/go/ssa"
)

// fieldOrigins: the context field paths ("attr.name", "element.names", …) a string value can come from; other is set
// when some origin is not a field load.
func fieldOrigins(v ssa.Value, out map[string]bool, other *[]string, seen map[ssa.Value]bool, depth int) {
	if depth > 12 || seen[v] {
		return
	}
	seen[v] = true
	fieldPath := func(fa *ssa.FieldAddr) string {
		path := fieldName(fa.X.Type(), fa.Field)
		x := fa.X
		for i := 0; i < 3; i++ {
			in, ok := x.(*ssa.FieldAddr)
			if !ok {
				break
			}
			path = fieldName(in.X.Type(), in.Field) + "." + path
			x = in.X
		}
		return path
	}
	switch x := v.(type) {
	case *ssa.UnOp:
		if x.Op != token.MUL {
			*other = append(*other, x.String())
			return
		}
		switch a := x.X.(type) {
		case *ssa.FieldAddr:
			out[fieldPath(a)] = true
		case *ssa.IndexAddr:
			fieldOrigins(a.X, out, other, seen, depth+1)
		case *ssa.Alloc:
			for _, ref := range *a.Referrers() {
				if st, ok := ref.(*ssa.Store); ok && st.Addr == ssa.Value(a) {
					fieldOrigins(st.Val, out, other, seen, depth+1)
				}
			}
		default:
			*other = append(*other, x.String())
		}
	case *ssa.Field:
		// a field of a struct value: the path through nested Field instructions down to a parameter
		path := fieldName(x.X.Type(), x.Field)
		cur := x.X
		for i := 0; i < 3; i++ {
			f, ok := cur.(*ssa.Field)
			if !ok {
				break
			}
			path = fieldName(f.X.Type(), f.Field) + "." + path
			cur = f.X
		}
		out[path] = true
	case *ssa.Phi:
		for _, e := range x.Edges {
			fieldOrigins(e, out, other, seen, depth+1)
		}
	case *ssa.Slice:
		if al, ok := x.X.(*ssa.Alloc); ok {
			// a slice literal: its elements
			for _, ref := range *al.Referrers() {
				if ia, ok := ref.(*ssa.IndexAddr); ok {
					for _, rr := range *ia.Referrers() {
						if st, ok := rr.(*ssa.Store); ok && st.Addr == ssa.Value(ia) {
							fieldOrigins(st.Val, out, other, seen, depth+1)
						}
					}
				}
			}
			return
		}
		fieldOrigins(x.X, out, other, seen, depth+1)
	case *ssa.Index:
		fieldOrigins(x.X, out, other, seen, depth+1)
	case *ssa.Extract:
		// an element produced by ranging over a slice / map
		if nx, ok := x.Tuple.(*ssa.Next); ok {
			if rg, ok := nx.Iter.(*ssa.Range); ok {
				fieldOrigins(rg.X, out, other, seen, depth+1)
				return
			}
		}
		*other = append(*other, x.String())
	case *ssa.Const:
		*other = append(*other, "constant "+x.String())
	default:
		*other = append(*other, v.String())
	}
}

func checkLookupArgumentRoles(p *Program, r *Report, rule string) {
	lookup := p.Func("template", "sanitizationContextForAttrVal")
	if lookup == nil || len(lookup.Params) < 3 {
		r.Undec(rule, "template.sanitizationContextForAttrVal", "", "anchor not found")
		return
	}
	roles := []struct {
		what    string
		allowed map[string]bool
	}{
		{"element name", map[string]bool{"element.name": true, "element.names": true}},
		{"attribute name", map[string]bool{"attr.name": true, "attr.names": true}},
		{"link relation", map[string]bool{"linkRel": true}},
	}
	n := 0
	for _, fn := range p.SrcFuncs() {
		if fn.Pkg == nil || fn.Pkg != lookup.Pkg {
			continue
		}
		for _, b := range fn.Blocks {
			for _, in := range b.Instrs {
				call, ok := in.(ssa.CallInstruction)
				if !ok || staticCallee(call.Common()) != lookup {
					continue
				}
				n++
				site := fmt.Sprintf("%s#lookup-arguments", strings.TrimPrefix(fnName(fn), pkgTemplate+"."))
				for i, role := range roles {
					if i >= len(call.Common().Args) {
						break
					}
					origins := map[string]bool{}
					var other []string
					fieldOrigins(call.Common().Args[i], origins, &other, map[ssa.Value]bool{}, 0)
					var bad []string
					for o := range origins {
						if !role.allowed[o] {
							bad = append(bad, o)
						}
					}
					sort.Strings(bad)
					c := fmt.Sprintf("%s:%s", site, strings.ReplaceAll(role.what, " ", "-"))
					switch {
					case len(bad) > 0:
						r.Viol(rule, c, p.Pos(in.Pos()), fmt.Sprintf("the %s handed to the policy lookup comes from the context field(s) %v: the pair looked up is not the element and attribute the action is in, so the check that depends on the answer is skipped or made for another attribute", role.what, bad), "")
					case len(origins) == 0 || len(other) > 0:
						// parameters of helpers and the like: not followed
						r.OK(rule, c, p.Pos(in.Pos()), "not a context field at this site (a value handed in by the caller)")
					default:
						r.OK(rule, c, p.Pos(in.Pos()), "comes from the context fields of its role")
					}
				}
			}
		}
	}
	if n == 0 {
		r.Undec(rule, "template.sanitizationContextForAttrVal#call-sites", "", "no call site found")
	}
}
