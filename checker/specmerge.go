package main

import (
	"fmt"
	"go/types"
	"sort"
	"strings"

	"golang.org/x/tools/go/ssa"
)

// checkSpeculativeMerge: a function that analyses part of a template with a
// private escaper (a local value of type escaper) and afterwards copies that
// escaper's maps into its receiver must do so all-or-nothing:
//   - every map of the escaper is copied back (the memo of analysed templates,
//     the derived copies, the set of called templates and the three kinds of
//     pending edits belong together: a memo entry without its edits leaves a
//     template "analysed" but unsanitised; edits without the called set hide a
//     recursive call from the end-context check), and
//   - every copy is guarded by the acceptance result that the function reports.
func checkSpeculativeMerge(p *Program, r *Report, rule string) {
	tsp := p.SSAPkg("template")
	escObj := p.Pkg("template").Types.Scope().Lookup("escaper")
	if escObj == nil {
		r.Undec(rule, "template.escaper", "", "anchor not found")
		return
	}
	st, ok := escObj.Type().Underlying().(*types.Struct)
	if !ok {
		r.Undec(rule, "template.escaper", "", "not a struct")
		return
	}
	var mapFields []string
	var collect func(st *types.Struct, depth int)
	collect = func(st *types.Struct, depth int) {
		for i := 0; i < st.NumFields(); i++ {
			switch ft := st.Field(i).Type().Underlying().(type) {
			case *types.Map:
				mapFields = append(mapFields, st.Field(i).Name())
			case *types.Struct:
				// maps grouped in a struct held by value belong to the escaper all the same
				if depth < 2 {
					collect(ft, depth+1)
				}
			}
		}
	}
	collect(st, 0)
	sites := 0
	for _, f := range p.SrcFuncs() {
		if f.Pkg != tsp {
			continue
		}
		for _, b := range f.Blocks {
			for _, in := range b.Instrs {
				al, ok := in.(*ssa.Alloc)
				if !ok || !isNamed(al.Type().(*types.Pointer).Elem(), pkgTemplate, "escaper") {
					continue
				}
				if mergesFrom(p, f, al, nil) == nil {
					continue // a private escaper that is never merged into another one
				}
				sites++
				checkMergeSite(p, r, rule, f, al, mapFields)
			}
		}
	}
	if sites == 0 {
		r.OK(rule, "template#no-speculative-escaper", "", "no function merges a private escaper into its receiver")
	}
}

// mapFieldOf: v is a load of field F of an escaper; returns the escaper base and F.
func mapFieldOf(v ssa.Value) (ssa.Value, string, bool) {
	u, ok := v.(*ssa.UnOp)
	if !ok {
		return nil, "", false
	}
	fa, ok := u.X.(*ssa.FieldAddr)
	if !ok {
		return nil, "", false
	}
	base, ok := hostedIn(fa, pkgTemplate, "escaper")
	if !ok {
		return nil, "", false
	}
	return base, fieldName(fa.X.Type(), fa.Field), true
}

type mergeWrite struct {
	At    ssa.Instruction
	Field string
}

// fieldsWrittenBy: the escaper map fields of parameter #idx that g updates.
func fieldsWrittenBy(g *ssa.Function, idx int) map[string]bool {
	out := map[string]bool{}
	if g == nil || g.Blocks == nil || idx >= len(g.Params) {
		return out
	}
	for _, b := range g.Blocks {
		for _, in := range b.Instrs {
			if mu, ok := in.(*ssa.MapUpdate); ok {
				if base, fld, ok := mapFieldOf(mu.Map); ok && base == ssa.Value(g.Params[idx]) {
					out[fld] = true
					continue
				}
				// the receiver is a part of the escaper (a struct of maps nested in it)
				if u, ok := mu.Map.(*ssa.UnOp); ok {
					if fa, ok := u.X.(*ssa.FieldAddr); ok {
						root := fa.X
						for i := 0; i < 3; i++ {
							if inner, ok := root.(*ssa.FieldAddr); ok {
								root = inner.X
							}
						}
						if root == ssa.Value(g.Params[idx]) {
							out[fieldName(fa.X.Type(), fa.Field)] = true
						}
					}
				}
			}
		}
	}
	return out
}

// mergesFrom lists the writes into another escaper that belong to a loop over a
// map of the private escaper src (directly, or inside a callee that receives src).
// only != nil restricts to the given function-local base.
func mergesFrom(p *Program, f *ssa.Function, src ssa.Value, seen map[*ssa.Function]bool) []mergeWrite {
	var out []mergeWrite
	for _, b := range f.Blocks {
		for _, in := range b.Instrs {
			rg, ok := in.(*ssa.Range)
			if !ok {
				continue
			}
			base, _, ok := mapFieldOf(rg.X)
			if !ok || base != src {
				continue
			}
			// instructions that use a key or value of this iteration
			for _, b2 := range f.Blocks {
				for _, in2 := range b2.Instrs {
					switch w := in2.(type) {
					case *ssa.MapUpdate:
						wb, wf, ok := mapFieldOf(w.Map)
						if ok && wb != src && (fromRange(w.Key, rg) || fromRange(w.Value, rg)) {
							out = append(out, mergeWrite{w, wf})
						}
					case *ssa.Call:
						g := staticCallee(w.Common())
						if g == nil || g.Pkg != f.Pkg || len(w.Common().Args) == 0 {
							continue
						}
						recv := w.Common().Args[0]
						if recv == src {
							continue
						}
						if !isNamed(recv.Type(), pkgTemplate, "escaper") {
							// a part of another escaper handed to its own method
							rfa, ok := recv.(*ssa.FieldAddr)
							if !ok {
								continue
							}
							rb, ok := hostedIn(rfa, pkgTemplate, "escaper")
							if !ok || rb == src {
								continue
							}
						}
						uses := false
						for _, a := range w.Common().Args[1:] {
							if fromRange(a, rg) {
								uses = true
							}
						}
						if !uses {
							continue
						}
						for fld := range fieldsWrittenBy(g, 0) {
							out = append(out, mergeWrite{w, fld})
						}
					}
				}
			}
		}
	}
	// a map of src handed, together with a map of another escaper, to a helper that copies one into the other
	// (dst.addAll(src) of a named map type)
	for _, b := range f.Blocks {
		for _, in := range b.Instrs {
			c, ok := in.(*ssa.Call)
			if !ok {
				continue
			}
			g := staticCallee(c.Common())
			if g == nil || g.Blocks == nil || g.Pkg != f.Pkg {
				continue
			}
			for j, aj := range c.Common().Args {
				sb, _, ok := mapFieldOf(aj)
				if !ok || sb != src {
					continue
				}
				for i, ai := range c.Common().Args {
					db, df, ok := mapFieldOf(ai)
					if !ok || db == src || i == j {
						continue
					}
					if copiesMapParam(g, j, i) {
						out = append(out, mergeWrite{c, df})
					}
				}
			}
		}
	}
	// a helper that receives both escapers
	if seen == nil {
		seen = map[*ssa.Function]bool{}
	}
	for _, b := range f.Blocks {
		for _, in := range b.Instrs {
			c, ok := in.(*ssa.Call)
			if !ok {
				continue
			}
			g := staticCallee(c.Common())
			if g == nil || g.Pkg != f.Pkg || g.Blocks == nil || seen[g] {
				continue
			}
			// … both escapers: src and another one
			other := false
			for _, a := range c.Common().Args {
				if a != src && isNamed(a.Type(), pkgTemplate, "escaper") {
					other = true
				}
			}
			if !other {
				continue
			}
			for i, a := range c.Common().Args {
				if a != src || i >= len(g.Params) {
					continue
				}
				seen[g] = true
				for _, mw := range mergesFrom(p, g, g.Params[i], seen) {
					out = append(out, mergeWrite{c, mw.Field})
				}
			}
		}
	}
	return out
}

// fromRange: v is computed from an element produced by iterating rg.
func fromRange(v ssa.Value, rg *ssa.Range) bool {
	seen := map[ssa.Value]bool{}
	var walk func(ssa.Value) bool
	walk = func(y ssa.Value) bool {
		if seen[y] {
			return false
		}
		seen[y] = true
		if nx, ok := y.(*ssa.Next); ok {
			return nx.Iter == ssa.Value(rg)
		}
		in, ok := y.(ssa.Instruction)
		if !ok {
			return false
		}
		for _, op := range in.Operands(nil) {
			if *op != nil && walk(*op) {
				return true
			}
		}
		return false
	}
	return walk(v)
}

func checkMergeSite(p *Program, r *Report, rule string, f *ssa.Function, al *ssa.Alloc, mapFields []string) {
	short := strings.TrimPrefix(fnName(f), pkgTemplate+".")
	pos := p.Pos(al.Pos())
	// the acceptance result: the boolean the function returns
	res := f.Signature.Results()
	boolIdx := -1
	for i := 0; i < res.Len(); i++ {
		if b, ok := res.At(i).Type().Underlying().(*types.Basic); ok && b.Kind() == types.Bool {
			boolIdx = i
		}
	}
	if boolIdx < 0 {
		r.Undec(rule, short+"#acceptance", pos, "the function merges a private escaper but reports no acceptance result")
		return
	}
	// a write is accepted-only when every return it can reach reports acceptance
	acceptedOnly := func(at ssa.Instruction) bool {
		guards := GuardsOf(at.Block())
		for _, ret := range Returns(f) {
			if ret.Block() != at.Block() && !blockReaches(at.Block(), ret.Block()) {
				continue
			}
			rv := ret.Results[boolIdx]
			if k, ok := constBool(rv); ok {
				if !k {
					return false
				}
				continue
			}
			held := false
			for _, g := range guards {
				if g.Pol && g.Cond == rv {
					held = true
				}
			}
			if !held {
				return false
			}
		}
		return true
	}
	merged := map[string]bool{}
	for _, mw := range mergesFrom(p, f, al, nil) {
		guarded := acceptedOnly(mw.At)
		c := fmt.Sprintf("%s#merge:%s", short, mw.Field)
		if guarded {
			merged[mw.Field] = true
			r.OK(rule, c, p.Pos(mw.At.Pos()), "copied into the receiver only when the private analysis is accepted")
		} else {
			r.Viol(rule, c, p.Pos(mw.At.Pos()), "escaper."+mw.Field+" of a private (speculative) analysis is copied into the receiver without the acceptance test: results of a discarded analysis survive while its pending edits are thrown away (templates recorded as analysed run without their sanitizers)", "")
		}
	}
	var missing []string
	for _, fld := range mapFields {
		if !merged[fld] {
			missing = append(missing, fld)
		}
	}
	sort.Strings(missing)
	r.Check(len(missing) == 0, rule, short+"#merge-complete", pos, fmt.Sprintf("all %d maps of the private escaper are copied back on acceptance", len(mapFields)),
		fmt.Sprintf("an accepted private analysis is copied back without %v: the memo, the derived copies, the called set and the pending edits belong together (a missing called set hides recursive calls from the end-context check; missing edits leave analysed templates unsanitised)", missing))
}

// blockReaches: b is reachable from a along CFG edges (back edges included).
func blockReaches(a, b *ssa.BasicBlock) bool {
	seen := map[*ssa.BasicBlock]bool{}
	var dfs func(x *ssa.BasicBlock) bool
	dfs = func(x *ssa.BasicBlock) bool {
		if x == b {
			return true
		}
		if seen[x] {
			return false
		}
		seen[x] = true
		for _, s := range x.Succs {
			if dfs(s) {
				return true
			}
		}
		return false
	}
	return dfs(a)
}

// copiesMapParam: g ranges over its map parameter #from and updates its map parameter #to with what the iteration yields.
func copiesMapParam(g *ssa.Function, from, to int) bool {
	if from >= len(g.Params) || to >= len(g.Params) {
		return false
	}
	for _, b := range g.Blocks {
		for _, in := range b.Instrs {
			rg, ok := in.(*ssa.Range)
			if !ok || rg.X != ssa.Value(g.Params[from]) {
				continue
			}
			for _, b2 := range g.Blocks {
				for _, in2 := range b2.Instrs {
					if mu, ok := in2.(*ssa.MapUpdate); ok && mu.Map == ssa.Value(g.Params[to]) && (fromRange(mu.Key, rg) || fromRange(mu.Value, rg)) {
						return true
					}
				}
			}
		}
	}
	return false
}
