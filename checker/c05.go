package main

import (
	"fmt"
	"go/token"
	"go/types"
	"strings"

	"golang.org/x/tools/go/ssa"
)

func init() { register("C05", "other", runC05) }

const pkgTemplate = modulePath + "/template"

func callsIn(fn *ssa.Function, full string) []*ssa.Call {
	var out []*ssa.Call
	for _, b := range fn.Blocks {
		for _, in := range b.Instrs {
			if c, ok := isCallTo2(in, full); ok {
				out = append(out, c)
			}
		}
	}
	return out
}

// storesToField lists the stores in fn into field `field` of (a pointer to) the
// named struct pkg.typ.
func storesToField(fn *ssa.Function, pkg, typ, field string) []*ssa.Store {
	var out []*ssa.Store
	for _, b := range fn.Blocks {
		for _, in := range b.Instrs {
			st, ok := in.(*ssa.Store)
			if !ok {
				continue
			}
			fa, ok := st.Addr.(*ssa.FieldAddr)
			if !ok {
				continue
			}
			if _, ok := hostedIn(fa, pkg, typ); ok && fieldName(fa.X.Type(), fa.Field) == field {
				out = append(out, st)
			}
		}
	}
	return out
}

// hostedIn: fa addresses a field of a value of the named type (pkg, typ), directly or inside structs nested in it
// by value (embedded or named sub-structs): the base value of that type.
func hostedIn(fa *ssa.FieldAddr, pkg, typ string) (ssa.Value, bool) {
	x := fa.X
	for i := 0; i < 4; i++ {
		if isNamed(x.Type(), pkg, typ) {
			return x, true
		}
		inner, ok := x.(*ssa.FieldAddr)
		if !ok {
			return nil, false
		}
		// the intermediate field must be a struct held by value
		pt, ok := inner.Type().Underlying().(*types.Pointer)
		if !ok {
			return nil, false
		}
		if _, isStruct := pt.Elem().Underlying().(*types.Struct); !isStruct {
			return nil, false
		}
		x = inner.X
	}
	return nil, false
}

func pathPassesAny[T ssa.Instruction](p *cfgPath, ins []T) bool {
	for _, in := range ins {
		if p.Passes(in) {
			return true
		}
	}
	return false
}

func runC05(p *Program, r *Report) {
	r.Trusted = []string{"go/types + go/ssa", "text/template executes only the tree it is given and stops at the first error", "sync.Mutex"}
	r.NotDecided = []string{"\"writes nothing\" for run-time (not analysis) errors of Execute/ExecuteTemplate: text/template may have written a prefix; only the *ToHTML variants buffer"}
	r.Explain = "Path rules over a predicate abstraction of the gate functions: every feasible path of the package-level escapeTemplate that returns a non-nil error has stored the sticky error, emptied both trees (when the template is in the set) and recorded an error context as the template's memoised output, and every nil path has committed and stored errEscapeOK; the two gate functions return nil only on paths where escapeErr == errEscapeOK or escapeTemplate returned nil; every text/template execution call is dominated by the nil result of a gate on the same template; the *ToHTML wrappers return the zero HTML on error and convert only on success."
	for _, m := range []struct {
		r string
		n int
	}{{"C05.R1", 4}, {"C05.R2", 4}, {"C05.R3", 2}, {"C05.R4", 4}, {"C05.R5", 1}, {"C05.R7", 7}, {"C05.R8", 1}, {"C05.R9", 1}, {"C05.R10", 15}} {
		r.Min(m.r, m.n)
	}
	checkSpeculativeMerge(p, r, "C05.R7")
	checkEscapedMarkOnlyForAnalysed(p, r, "C05.R8")
	checkNoRecover(p, r, "C05.R9")
	// an error context that keeps a delimiter, an attribute or an element is taken for a live context by the
	// text scanner at the next closing quote or end tag, and the failure is forgotten
	checkErrorContextsCanonical(p, r, "C05.R10")
	// branches that end in different contexts must fail to join: a context still before an attribute value is not
	// nudged into an unquoted value
	checkJoinNudge(p, r, "C05.R11")
	// ---- R1 / R5: package-level escapeTemplate ------------------------------------
	et := p.Func("template", "escapeTemplate")
	if et == nil {
		r.Undec("C05.R1", "template.escapeTemplate", "", "anchor not found")
		return
	}
	const cn = "template.escapeTemplate"
	pe := newPathExplorer(p, et)
	pe.Inline = true
	paths := pe.Paths()
	if pe.Trunc {
		r.Undec("C05.R1", cn, p.Pos(et.Pos()), "path enumeration truncated")
	}
	// the stores and calls the rule looks for may sit in helpers whose paths were spliced in
	var errStores, treeStores, textTreeStores []*ssa.Store
	var commits []*ssa.Call
	for _, g := range pe.Funcs() {
		errStores = append(errStores, storesToField(g, pkgTemplate, "Template", "escapeErr")...)
		treeStores = append(treeStores, storesToField(g, pkgTemplate, "Template", "Tree")...)
		textTreeStores = append(textTreeStores, storesToField(g, "text/template", "Template", "Tree")...)
		commits = append(commits, callsIn(g, "(*"+pkgTemplate+".escaper).commit")...)
	}
	// the record of the outcome in the template, by what the root analysis stores (statusabs.go)
	ts := discoverTmplStatus(p)
	if ts.problem != "" {
		r.Undec("C05.R1", cn+"#outcome-record", p.Pos(et.Pos()), ts.problem)
	} else {
		var fv []string
		for _, f := range ts.fails {
			fv = append(fv, f.render(ts))
		}
		r.OK("C05.R1", cn+"#outcome-record", p.Pos(et.Pos()), "the outcome is recorded in the template as "+ts.ok.render(ts)+" on success and "+strings.Join(fv, " / ")+" on failure; a fresh template has "+ts.fresh.render(ts))
	}
	_ = errStores
	var nilTree, nilTextTree []*ssa.Store
	for _, st := range treeStores {
		if isNilConst(st.Val) {
			nilTree = append(nilTree, st)
		}
	}
	for _, st := range textTreeStores {
		if isNilConst(st.Val) {
			nilTextTree = append(nilTextTree, st)
		}
	}
	// memo update: esc.output[name] = context{state: stateError, …}
	var memoErr []*ssa.MapUpdate
	var allBlocks []*ssa.BasicBlock
	for _, g := range pe.Funcs() {
		allBlocks = append(allBlocks, g.Blocks...)
	}
	for _, b := range allBlocks {
		for _, in := range b.Instrs {
			mu, ok := in.(*ssa.MapUpdate)
			if !ok {
				continue
			}
			e := pe.pv.Of(mu.Map)
			if e.Op != "field" || e.Name != "output" {
				continue
			}
			if mu.Key != ssa.Value(et.Params[2]) {
				continue
			}
			// value: load of a context literal whose state store is stateError
			isErrCtx := false
			if u, ok := mu.Value.(*ssa.UnOp); ok {
				if al, ok := u.X.(*ssa.Alloc); ok {
					for _, ref := range *al.Referrers() {
						if fa, ok := ref.(*ssa.FieldAddr); ok && fieldName(fa.X.Type(), fa.Field) == "state" {
							for _, rr := range *fa.Referrers() {
								if st, ok := rr.(*ssa.Store); ok {
									if k, ok := constInt(st.Val); ok && k == stateConst(p, "stateError") {
										isErrCtx = true
									}
								}
							}
						}
					}
				}
			}
			if isErrCtx {
				memoErr = append(memoErr, mu)
			}
		}
	}
	inSet := func(name string, val bool) bool {
		// lookup of the template in the set: (== lookup(…set…, name) nil)
		return strings.Contains(name, "lookup(") && strings.Contains(name, ".set") && strings.Contains(name, " nil)") && !val
	}
	nErr, nOK := 0, 0
	for _, pth := range paths {
		v, zero, ok := pth.ResultValue(0)
		if !ok {
			continue
		}
		isNil := zero || isNilConst(v)
		pos := p.Pos(pth.End().Pos())
		if !isNil {
			nErr++
			member := pth.HasMatching(inSet)
			c := fmt.Sprintf("%s#error-path[%s]", cn, shortPath(pth))
			// two consistent ways to fail: (A) the body could not be analysed — the trees are emptied and the
			// memo records an error context, so callers fail as well; (B) the body was analysed without error
			// and only the end context is not text — the analysis is committed (the body can run, sanitised,
			// as a callee) and only the sticky error stops direct execution.
			bodyClean := pth.HasMatching(func(name string, val bool) bool {
				return val && strings.HasPrefix(name, "(== ") && strings.Contains(name, "escapeTree(") && strings.HasSuffix(strings.Split(name, "@")[0], ".err nil)")
			})
			final, _ := ts.finalStatus(pth)
			isFailRecord := false
			for _, f := range ts.fails {
				if f.equal(final, ts.fields) {
					isFailRecord = true
				}
			}
			sticky := !member || (ts.problem == "" && isFailRecord && !final.equal(ts.ok, ts.fields) && !final.equal(ts.fresh, ts.fields))
			emptied := !member || (pathPassesAny(pth, nilTree) && pathPassesAny(pth, nilTextTree))
			keptTree := !pathPassesAny(pth, nilTree) && !pathPassesAny(pth, nilTextTree)
			okMemo := false
			for _, mu := range memoErr {
				if pth.Passes(mu) {
					okMemo = true
				}
			}
			modeB := bodyClean && keptTree && pathPassesAny(pth, commits) && !okMemo
			if modeB {
				r.Check(sticky, "C05.R1", c, pos, "the body was analysed without error and only the end context is not text: the analysis is committed and the sticky error stops direct execution", "a path returns an end-context error without storing it in escapeErr")
				r.OK("C05.R5", c+"#memo", pos, "the memo keeps the (committed) analysis: the template remains usable as a callee")
			} else {
				r.Check(sticky && emptied, "C05.R1", c, pos, "a failing analysis stores the sticky error and empties both trees of the template (when it is in the set)", "a path returns an analysis error without storing it in escapeErr and emptying both parse trees (and without committing a clean body analysis)")
				r.Check(okMemo, "C05.R5", c+"#memo", pos, "a failing analysis leaves an error context as the template's memoised output, so callers analysed later fail too", "a failing analysis leaves the stale \"already analysed\" memo entry: a template that calls the failed one is later declared fine and executes its emptied tree")
			}
		} else {
			nOK++
			member := pth.HasMatching(inSet)
			c := fmt.Sprintf("%s#success-path[%s]", cn, shortPath(pth))
			final, _ := ts.finalStatus(pth)
			okC := pathPassesAny(pth, commits) && (!member || (ts.problem == "" && final.equal(ts.ok, ts.fields)))
			r.Check(okC, "C05.R1", c, pos, "success commits the edits and stores errEscapeOK", "a nil return without commit() / errEscapeOK")
		}
	}
	if nErr == 0 || nOK == 0 {
		r.Undec("C05.R1", cn, p.Pos(et.Pos()), fmt.Sprintf("expected error and success paths, found %d/%d", nErr, nOK))
	}
	// a template that ends in a non-text context must be known as such to later (direct) executions
	checkMemoOutput(p, r, "C05.R6")
	// ---- R2 gates ----------------------------------------------------------------------
	gates := []*ssa.Function{p.Func("template", "(*Template).escape"), p.Func("template", "(*Template).lookupAndEscapeTemplate")}
	for _, g := range gates {
		if g == nil {
			r.Undec("C05.R2", "template.gate", "", "anchor not found: escape / lookupAndEscapeTemplate")
			continue
		}
		gn := fnName(g)
		gpe := newPathExplorer(p, g)
		gpe.Inline = true
		gpe.Atomic = map[*ssa.Function]bool{et: true}
		errIdx := g.Signature.Results().Len() - 1
		calls := callsIn(g, pkgTemplate+".escapeTemplate")
		// the template the gate is about: the one it hands to the analysis
		ts := ts
		if len(calls) > 0 && len(calls[0].Common().Args) > 0 {
			ts = ts.withSubject(gpe, calls[0].Common().Args[0])
		}
		n := 0
		for _, pth := range gpe.Paths() {
			v, zero, ok := pth.ResultValue(errIdx)
			if !ok {
				continue
			}
			if !ts.pathFeasible(gpe, pth) {
				continue // the conditions assumed about the template's record contradict each other
			}
			n++
			pos := p.Pos(pth.End().Pos())
			c := fmt.Sprintf("%s#path[%s]", gn, shortPath(pth))
			escOK := ts.pathImplies(gpe, pth, "ok")
			analysedOK := pth.HasMatching(func(name string, val bool) bool {
				return val && strings.HasPrefix(name, "(== "+pkgTemplate+".escapeTemplate(")
			})
			switch {
			case zero || isNilConst(v):
				r.Check(escOK || analysedOK, "C05.R2", c, pos, "nil only after escapeErr == errEscapeOK or a successful analysis", "the gate returns nil on a path where the template is neither marked escaped nor was just analysed successfully")
			default:
				// a non-constant error: the analysis result itself, or the stored sticky error
				isCall := false
				for _, cl := range calls {
					if v == ssa.Value(cl) {
						isCall = true
					}
				}
				e := gpe.pv.Of(v)
				_, isErrorf := isCallTo(v, "fmt.Errorf")
				isSticky := false
				if u, isLoad := v.(*ssa.UnOp); isLoad && u.Op == token.MUL {
					if _, isStatus := ts.statusFieldAddr(u.X); isStatus && isErrorType(v.Type()) {
						isSticky = true
					}
				}
				_ = e
				if isSticky {
					// must not be a nil or "OK" value on this path: the path is only possible for a failed template
					notNil := ts.pathImplies(gpe, pth, "failed")
					r.Check(notNil, "C05.R2", c, pos, "returns the stored sticky error", "returns escapeErr on a path where it may be nil")
				} else {
					r.Check(isCall || isErrorf, "C05.R2", c, pos, "returns the analysis result or a fresh error", "returns an error value of unknown origin: "+e.String())
				}
			}
		}
		if n == 0 {
			r.Undec("C05.R2", gn, p.Pos(g.Pos()), "no return paths found")
		}
	}
	// ---- R3 execution is gated ----------------------------------------------------------
	nExec := 0
	for _, f := range p.SrcFuncs() {
		if f.Pkg == nil || f.Pkg.Pkg.Path() != pkgTemplate {
			continue
		}
		for _, b := range f.Blocks {
			for _, in := range b.Instrs {
				c, ok := in.(*ssa.Call)
				if !ok {
					continue
				}
				cal := staticCallee(c.Common())
				if cal == nil {
					continue
				}
				n := fnName(cal)
				if n != "(*text/template.Template).Execute" && n != "(*text/template.Template).ExecuteTemplate" {
					continue
				}
				nExec++
				cc := fnName(f) + "#exec"
				pv := NewProv(p)
				pv.NoInline = true
				recv := pv.Of(c.Common().Args[0]) // X.text
				gated := false
				var why string
				for _, a := range pv.Atoms(b) {
					if !a.Pol || a.E.Op != "binop" || a.E.Name != "==" || a.E.Args[1].Op != "const" || a.E.Args[1].Const != nil {
						continue
					}
					g := a.E.Args[0]
					// direct: (*Template).escape(t) == nil, receiver t.text
					if g.Op == "call" && g.Fn != nil && g.Fn == gates[0] && recv.Op == "field" && recv.Name == "text" && recv.Args[0].Val == g.Args[0].Val {
						gated = true
					}
					// lookup: extract#1 of lookupAndEscapeTemplate == nil, receiver (extract#0).text
					if g.Op == "extract" && g.Idx == 1 && g.Args[0].Op == "call" && g.Args[0].Fn == gates[1] {
						if recv.Op == "field" && recv.Name == "text" && recv.Args[0].Op == "extract" && recv.Args[0].Idx == 0 && recv.Args[0].Args[0].Val == g.Args[0].Val {
							gated = true
						}
					}
					why = a.String()
				}
				if n == "(*text/template.Template).ExecuteTemplate" {
					gated = false // executes a template chosen by name without its own gate
				}
				r.Check(gated, "C05.R3", cc, p.Pos(c.Pos()), "executed only after the gate for the same template returned nil", "text/template execution is not dominated by a nil gate result for the template it executes ("+why+")")
			}
		}
	}
	if nExec == 0 {
		r.Undec("C05.R3", "template#exec-sites", "", "no text/template execution call found")
	}
	// ---- R4 *ToHTML -----------------------------------------------------------------------
	conv := "github.com/google/safehtml/uncheckedconversions.HTMLFromStringKnownToSatisfyTypeContract"
	for _, name := range []string{"(*Template).ExecuteToHTML", "(*Template).ExecuteTemplateToHTML"} {
		f := p.Func("template", name)
		if f == nil {
			r.Undec("C05.R4", "template."+name, "", "anchor not found")
			continue
		}
		// both wrappers may share one helper that is handed the execution as a function value
		if h, ok := sharedCollectHelper(p, f); ok {
			okH, why := checkCollectHelper(p, f, h, conv)
			r.Check(okH, "C05.R4", fnName(f)+"#via:"+h.Name(), p.Pos(f.Pos()), "the result is that of "+h.Name()+", which converts its private buffer only after the execution it was handed returned nil", why)
			r.Check(okH, "C05.R4", fnName(f)+"#via:"+h.Name()+"#error", p.Pos(f.Pos()), "error ⇒ zero HTML (the partial buffer is discarded)", why)
			continue
		}
		fpe := newPathExplorer(p, f)
		for _, pth := range fpe.Paths() {
			v1, zero1, ok := pth.ResultValue(1)
			if !ok {
				continue
			}
			v0, _, _ := pth.ResultValue(0)
			c := fmt.Sprintf("%s#path[%s]", fnName(f), shortPath(pth))
			pos := p.Pos(pth.End().Pos())
			if zero1 || isNilConst(v1) {
				cl, isConv := isCallTo(v0, conv)
				okBuf := false
				if isConv {
					// argument is the buffer the execution wrote to
					if sc, ok := isCallTo(cl.Common().Args[0], "(*bytes.Buffer).String"); ok {
						_ = sc
						okBuf = true
					}
				}
				execOK := pth.HasMatching(func(n string, val bool) bool {
					return val && strings.HasPrefix(n, "(== (*"+pkgTemplate+".Template).Execute") && strings.Contains(n, " nil)")
				})
				r.Check(isConv && okBuf && execOK, "C05.R4", c, pos, "HTML is produced from the buffer only after the execution returned nil", "a nil-error return does not come from a successful buffered execution")
			} else {
				k, isZero := v0.(*ssa.Const)
				r.Check(isZero && k.Value == nil, "C05.R4", c, pos, "error ⇒ zero HTML (the partial buffer is discarded)", "an error return carries a non-zero HTML")
			}
		}
	}
	// conversion called only from the two wrappers
	for _, f := range p.SrcFuncs() {
		if f.Pkg == nil || f.Pkg.Pkg.Path() != pkgTemplate {
			continue
		}
		if len(callsIn(f, conv)) > 0 {
			ok := f.Name() == "ExecuteToHTML" || f.Name() == "ExecuteTemplateToHTML" || helperOnlyOf(p, f, isToHTMLWrapper, 0)
			r.Check(ok, "C05.R4", fnName(f)+"#unchecked-conversion", p.Pos(f.Pos()), "the unchecked conversion is used by a buffered *ToHTML wrapper", "the unchecked HTML conversion is called outside the two buffered wrappers")
		}
	}
}

func shortPath(p *cfgPath) string {
	var bs []string
	for _, b := range p.Blocks {
		bs = append(bs, fmt.Sprint(b.Index))
	}
	return strings.Join(bs, ">")
}

func stateConst(p *Program, name string) int64 {
	tpk := p.Pkg("template")
	o := tpk.Types.Scope().Lookup("state")
	if o == nil {
		return -1
	}
	for k, v := range ConstNames(tpk, o.Type()) {
		if v == name {
			return k
		}
	}
	return -1
}

func isToHTMLWrapper(g *ssa.Function) bool {
	return g != nil && g.Pkg != nil && g.Pkg.Pkg.Path() == pkgTemplate && (g.Name() == "ExecuteToHTML" || g.Name() == "ExecuteTemplateToHTML")
}

// sharedCollectHelper: every return of the wrapper hands on both results of one call of a helper that only
// the wrappers use.
func sharedCollectHelper(p *Program, f *ssa.Function) (*ssa.Function, bool) {
	var h *ssa.Function
	for _, ret := range Returns(f) {
		if len(ret.Results) != 2 {
			return nil, false
		}
		e0, ok0 := ret.Results[0].(*ssa.Extract)
		e1, ok1 := ret.Results[1].(*ssa.Extract)
		if !ok0 || !ok1 || e0.Tuple != e1.Tuple || e0.Index != 0 || e1.Index != 1 {
			return nil, false
		}
		call, ok := e0.Tuple.(*ssa.Call)
		if !ok {
			return nil, false
		}
		g := staticCallee(call.Common())
		if g == nil || g.Pkg != f.Pkg || (h != nil && h != g) {
			return nil, false
		}
		h = g
	}
	if h == nil || !helperOnlyOf(p, h, isToHTMLWrapper, 0) {
		return nil, false
	}
	return h, true
}

// checkCollectHelper: h(render) runs render against a buffer of its own, converts the buffer only where
// render returned nil, returns the zero HTML with every non-nil error; the function value the wrapper
// passes does nothing but return the gated Execute/ExecuteTemplate of the package on that writer.
func checkCollectHelper(p *Program, wrapper, h *ssa.Function, conv string) (bool, string) {
	var dyn *ssa.Call
	var convCall *ssa.Call
	for _, b := range h.Blocks {
		for _, in := range b.Instrs {
			c, ok := in.(*ssa.Call)
			if !ok {
				continue
			}
			if _, isPrm := c.Common().Value.(*ssa.Parameter); isPrm && !c.Common().IsInvoke() {
				if dyn != nil {
					return false, "more than one call of a function parameter in " + h.Name()
				}
				dyn = c
			}
			if g := staticCallee(c.Common()); g != nil && fnName(g) == conv {
				if convCall != nil {
					return false, "more than one conversion in " + h.Name()
				}
				convCall = c
			}
		}
	}
	if dyn == nil || convCall == nil || len(dyn.Common().Args) != 1 {
		return false, h.Name() + " does not call the function it is handed on a writer and convert the result"
	}
	sc, ok := isCallTo(convCall.Common().Args[0], "(*bytes.Buffer).String")
	if !ok || unIface(dyn.Common().Args[0]) != sc.Common().Args[0] {
		return false, "the converted string is not the contents of the buffer the execution wrote to"
	}
	if _, fresh := sc.Common().Args[0].(*ssa.Alloc); !fresh {
		return false, "the buffer is not private to " + h.Name()
	}
	nilChecked := false
	for _, g := range GuardsOf(convCall.Block()) {
		if bo, ok := g.Cond.(*ssa.BinOp); ok && bo.X == ssa.Value(dyn) {
			if k, ok := bo.Y.(*ssa.Const); ok && k.Value == nil && ((bo.Op == token.EQL) == g.Pol) {
				nilChecked = true
			}
		}
	}
	if !nilChecked {
		return false, "the buffer is converted without a test that the execution returned nil"
	}
	for _, ret := range Returns(h) {
		if len(ret.Results) != 2 {
			return false, "unexpected results"
		}
		if k, ok := ret.Results[1].(*ssa.Const); ok && k.Value == nil {
			if ret.Results[0] != ssa.Value(convCall) {
				return false, "a nil-error return does not carry the converted buffer"
			}
			continue
		}
		if k, ok := ret.Results[0].(*ssa.Const); !ok || k.Value != nil {
			return false, "an error return carries a non-zero HTML"
		}
	}
	// the function value passed by the wrapper
	for _, b := range wrapper.Blocks {
		for _, in := range b.Instrs {
			c, ok := in.(*ssa.Call)
			if !ok || staticCallee(c.Common()) != h {
				continue
			}
			mc, ok := c.Common().Args[0].(*ssa.MakeClosure)
			if !ok {
				return false, "the execution handed to " + h.Name() + " is not a function literal"
			}
			lit := mc.Fn.(*ssa.Function)
			rets := Returns(lit)
			if len(rets) != 1 || len(lit.Params) != 1 {
				return false, "the function literal is not a single return"
			}
			ec, ok := rets[0].Results[0].(*ssa.Call)
			g := (*ssa.Function)(nil)
			if ok {
				g = staticCallee(ec.Common())
			}
			if g == nil || g.Pkg != wrapper.Pkg || (g.Name() != "Execute" && g.Name() != "ExecuteTemplate") || len(ec.Common().Args) < 2 || unIface(ec.Common().Args[1]) != ssa.Value(lit.Params[0]) {
				return false, "the function literal does not return the package's Execute/ExecuteTemplate on the writer it is given"
			}
		}
	}
	return true, ""
}
