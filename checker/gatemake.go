package main

// C19.R11: the gate type is never manufactured from run-time text. Inside the module a value is
// converted to a gate type (the unexported string type that only untyped constants can take from
// outside) in a few places. Each operand must be a constant, a value that already has a gate type,
// the content of one of the module's own trusted types read through a statically resolved method or
// field (not through an interface a client can implement), or bytes returned by a reader callback of
// an unexported function whose every caller passes a function of the module.

import (
	"fmt"
	"go/types"
	"strings"

	"golang.org/x/tools/go/ssa"
)

func checkGateManufacture(p *Program, r *Report, rule string, gates map[*types.TypeName]bool) {
	safe := map[*types.TypeName]bool{}
	for rel, names := range safeTypeDecls {
		pk := p.Pkg(rel)
		if pk == nil {
			continue
		}
		for _, n := range names {
			if o, ok := pk.Types.Scope().Lookup(n).(*types.TypeName); ok {
				safe[o] = true
			}
		}
	}
	isSafe := func(t types.Type) bool {
		if pt, ok := t.(*types.Pointer); ok {
			t = pt.Elem()
		}
		n, ok := t.(*types.Named)
		return ok && safe[n.Obj()]
	}
	callersPassModuleFuncs := func(fn *ssa.Function, prm *ssa.Parameter) (bool, string) {
		if fn.Object() != nil && fn.Object().Exported() {
			return false, "the reader callback belongs to an exported function"
		}
		idx := -1
		for i, q := range fn.Params {
			if q == prm {
				idx = i
			}
		}
		n := 0
		for _, g := range p.SrcFuncs() {
			for _, b := range g.Blocks {
				for _, in := range b.Instrs {
					c, ok := in.(ssa.CallInstruction)
					if !ok || staticCallee(c.Common()) != fn || idx >= len(c.Common().Args) {
						continue
					}
					n++
					a := c.Common().Args[idx]
					for {
						if ct, ok := a.(*ssa.ChangeType); ok {
							a = ct.X
							continue
						}
						break
					}
					var h *ssa.Function
					switch y := a.(type) {
					case *ssa.Function:
						h = y
					case *ssa.MakeClosure:
						h, _ = y.Fn.(*ssa.Function)
					case *ssa.Call:
						// a reader made by a function of the module
						h = staticCallee(y.Common())
					}
					if h != nil && h.Pkg == nil && h.Parent() == nil && h.Object() != nil && h.Object().Pkg() != nil && strings.HasPrefix(h.Object().Pkg().Path(), modulePath) {
						continue // a method value of a type of the module
					}
					if h == nil || h.Pkg == nil && h.Parent() == nil {
						return false, "a caller passes a reader that is not a function of the module: " + p.Pos(c.Pos())
					}
					root := h
					for root.Parent() != nil {
						root = root.Parent()
					}
					if root.Pkg == nil || !strings.HasPrefix(root.Pkg.Pkg.Path(), modulePath) {
						return false, "a caller passes a reader from outside the module: " + p.Pos(c.Pos())
					}
				}
			}
		}
		return n > 0, "no caller found"
	}
	activeParams := map[*ssa.Parameter]bool{}
	var classify func(v ssa.Value, fn *ssa.Function, depth int) (bool, string)
	classify = func(v ssa.Value, fn *ssa.Function, depth int) (bool, string) {
		if depth > 6 {
			return false, "provenance too deep"
		}
		switch x := v.(type) {
		case *ssa.Const:
			return true, "constant"
		case *ssa.Convert:
			return classify(x.X, fn, depth+1)
		case *ssa.ChangeType:
			return classify(x.X, fn, depth+1)
		case *ssa.Parameter:
			if isGateType(x.Type(), gates) {
				return true, "gate-typed parameter"
			}
			// a parameter of an unexported function: what every caller in the module passes
			pf := x.Parent()
			if pf != nil && (pf.Object() == nil || !pf.Object().Exported()) && !activeParams[x] {
				activeParams[x] = true
				defer delete(activeParams, x)
				idx := -1
				for i, q := range pf.Params {
					if q == x {
						idx = i
					}
				}
				n := 0
				for _, g := range p.SrcFuncs() {
					for _, b := range g.Blocks {
						for _, in := range b.Instrs {
							c, ok := in.(ssa.CallInstruction)
							if !ok || staticCallee(c.Common()) != pf || idx >= len(c.Common().Args) {
								continue
							}
							n++
							if ok, why := classify(c.Common().Args[idx], g, depth+1); !ok {
								return false, "passed to " + fnName(pf) + " at " + p.Pos(c.Pos()) + ": " + why
							}
						}
					}
				}
				if n > 0 && !addressTaken(p, pf) {
					return true, "every caller of the unexported " + pf.Name() + " passes permitted text"
				}
			}
			return false, "parameter " + x.Name() + " of type " + types.TypeString(x.Type(), shortQual)
		case *ssa.Extract:
			return classify(x.Tuple, fn, depth+1)
		case *ssa.Slice:
			// a part of permitted text
			return classify(x.X, fn, depth+1)
		case *ssa.Phi:
			for _, e := range x.Edges {
				if ok, why := classify(e, fn, depth+1); !ok {
					return false, why
				}
			}
			return true, "merge of permitted values"
		case *ssa.Call:
			c := x.Common()
			if c.IsInvoke() {
				return false, "result of the interface method " + c.Method.Name() + " (any type that satisfies the interface, including a client's, supplies the text)"
			}
			if g := staticCallee(c); g != nil {
				if recv := g.Signature.Recv(); recv != nil && isSafe(recv.Type()) && g.Pkg != nil && strings.HasPrefix(g.Pkg.Pkg.Path(), modulePath) {
					return true, "content of " + types.TypeString(recv.Type(), shortQual)
				}
				// an accessor that hands its only parameter back converted to string (c.str()): what the parameter is
				if identityAccessor(g) && len(c.Args) == 1 {
					return classify(c.Args[0], fn, depth+1)
				}
				return false, "result of " + fnName(g)
			}
			// a call through a function value
			fv := c.Value
			if prm, ok := fv.(*ssa.Parameter); ok && prm.Parent() == fn {
				if ok, why := callersPassModuleFuncs(fn, prm); ok {
					return true, "bytes from a reader callback that only the module supplies"
				} else {
					return false, why
				}
			}
			return false, "result of a call through a function value"
		case *ssa.UnOp:
			if fa, ok := x.X.(*ssa.FieldAddr); ok && isSafe(fa.X.Type()) {
				return true, "field of a trusted type"
			}
		case *ssa.Field:
			if isSafe(x.X.Type()) {
				return true, "field of a trusted type"
			}
		}
		return false, fmt.Sprintf("%s", v)
	}
	n := 0
	for _, fn := range p.SrcFuncs() {
		for _, b := range fn.Blocks {
			for _, in := range b.Instrs {
				var res ssa.Value
				var opnd ssa.Value
				switch x := in.(type) {
				case *ssa.Convert:
					res, opnd = x, x.X
				case *ssa.ChangeType:
					res, opnd = x, x.X
				default:
					continue
				}
				if !isGateType(res.Type(), gates) || isGateType(opnd.Type(), gates) {
					continue
				}
				if c, isConst := opnd.(*ssa.Const); isConst && c != nil {
					continue // typed constants of the package itself
				}
				n++
				ok, why := classify(opnd, fn, 0)
				c := strings.TrimPrefix(fnName(fn), modulePath+"/") + "#to-gate-type"
				r.Check(ok, rule, c, p.Pos(in.Pos()), "converted to the gate type: "+why, "run-time text is converted to the gate type, which only untyped constants may take: "+why)
			}
		}
	}
	r.Analysed["gate_conversions"] = n
	// the sinks: text handed to text/template's parser anywhere in package template
	ns := 0
	for _, fn := range p.SrcFuncs() {
		root := fn
		for root.Parent() != nil {
			root = root.Parent()
		}
		if root.Pkg == nil || root.Pkg.Pkg.Path() != modulePath+"/template" {
			continue
		}
		for _, b := range fn.Blocks {
			for _, in := range b.Instrs {
				c, ok := in.(ssa.CallInstruction)
				if !ok {
					continue
				}
				g := staticCallee(c.Common())
				if g == nil || fnName(g) != "(*text/template.Template).Parse" || len(c.Common().Args) < 2 {
					continue
				}
				ns++
				ok2, why := classify(c.Common().Args[1], fn, 0)
				cn := strings.TrimPrefix(fnName(fn), modulePath+"/") + "#parses-text"
				r.Check(ok2, rule, cn, p.Pos(in.Pos()), "text handed to the parser: "+why, "run-time text reaches text/template's parser: "+why)
			}
		}
	}
	r.Analysed["parser_sinks"] = ns
	if n+ns == 0 {
		r.Undec(rule, "template#template-text", "", "neither a conversion to the gate type nor a call of text/template's parser was found")
	}
}

// addressTaken: fn is used as a value somewhere in the module (then its callers are not all known).
func addressTaken(p *Program, fn *ssa.Function) bool {
	for _, g := range p.SrcFuncs() {
		for _, b := range g.Blocks {
			for _, in := range b.Instrs {
				for _, op := range in.Operands(nil) {
					if *op != ssa.Value(fn) {
						continue
					}
					if c, ok := in.(ssa.CallInstruction); ok && c.Common().Value == ssa.Value(fn) {
						continue
					}
					return true
				}
			}
		}
	}
	return false
}

// checkNoExportedTreeAccess (C19.R12): the parse tree of a template is trusted text in parsed form. An exported
// field of an exported type of package template through which a client reaches a text/template or
// text/template/parse object lets it add nodes with run-time text to a template whose output ExecuteToHTML wraps
// as safehtml.HTML.
func checkNoExportedTreeAccess(p *Program, r *Report, rule string) {
	pk := p.Pkg("template")
	if pk == nil {
		r.Undec(rule, "template", "", "package not found")
		return
	}
	foreign := func(t types.Type) string {
		seen := map[types.Type]bool{}
		var walk func(t types.Type, depth int) string
		walk = func(t types.Type, depth int) string {
			if depth > 4 || seen[t] {
				return ""
			}
			seen[t] = true
			switch u := t.(type) {
			case *types.Pointer:
				return walk(u.Elem(), depth+1)
			case *types.Slice:
				return walk(u.Elem(), depth+1)
			case *types.Map:
				if s := walk(u.Key(), depth+1); s != "" {
					return s
				}
				return walk(u.Elem(), depth+1)
			case *types.Named:
				if o := u.Obj(); o.Pkg() != nil && (o.Pkg().Path() == "text/template" || o.Pkg().Path() == "text/template/parse") {
					if _, isStruct := u.Underlying().(*types.Struct); isStruct {
						return o.Pkg().Path() + "." + o.Name()
					}
				}
			}
			return ""
		}
		return walk(t, 0)
	}
	n := 0
	sc := pk.Types.Scope()
	for _, name := range sc.Names() {
		o, ok := sc.Lookup(name).(*types.TypeName)
		if !ok || !o.Exported() || o.IsAlias() {
			continue
		}
		st, ok := o.Type().Underlying().(*types.Struct)
		if !ok {
			continue
		}
		for i := 0; i < st.NumFields(); i++ {
			f := st.Field(i)
			if !f.Exported() {
				continue
			}
			n++
			c := "template." + name + "." + f.Name() + "#exported-field"
			what := foreign(f.Type())
			r.Check(what == "", rule, c, p.Pos(f.Pos()), "the exported field does not expose a text/template object", "the exported field gives clients the live "+what+" of the template: nodes with run-time text appended to it (t."+f.Name()+".Root.Nodes = append(…, &parse.TextNode{Text: []byte(s)})) are executed as trusted template text and returned by ExecuteToHTML as safehtml.HTML")
		}
	}
	if n == 0 {
		r.OK(rule, "template#exported-fields", "", "no exported struct field in package template")
	}
}

// checkExportedTreeOnlyTested (C19.R13): what a client stores in the exported field Template.Tree must never become
// what is executed: the library may write the field and test it against nil, nothing else.
func checkExportedTreeOnlyTested(p *Program, r *Report, rule string) {
	n := 0
	for _, fn := range p.SrcFuncs() {
		root := fn
		for root.Parent() != nil {
			root = root.Parent()
		}
		if root.Pkg == nil || root.Pkg.Pkg.Path() != modulePath+"/template" {
			continue
		}
		for _, b := range fn.Blocks {
			for _, in := range b.Instrs {
				ld, ok := in.(*ssa.UnOp)
				if !ok {
					continue
				}
				fa, ok := ld.X.(*ssa.FieldAddr)
				if !ok || !isNamed(fa.X.Type(), pkgTemplate, "Template") || fieldName(fa.X.Type(), fa.Field) != "Tree" {
					continue
				}
				n++
				okUse := true
				for _, ref := range *ld.Referrers() {
					bo, isCmp := ref.(*ssa.BinOp)
					if isCmp && (isNilConst(bo.X) || isNilConst(bo.Y)) {
						continue
					}
					if _, isDbg := ref.(*ssa.DebugRef); isDbg {
						continue
					}
					okUse = false
				}
				c := strings.TrimPrefix(fnName(fn), modulePath+"/") + "#reads-exported-tree"
				r.Check(okUse, rule, c, p.Pos(in.Pos()), "the exported Tree field is only tested against nil", "the exported field Template.Tree is read for more than a nil test: a tree that a client stored there (tmpl.Tree = treeParsedFromRuntimeText) becomes part of what is executed")
			}
		}
	}
	if n == 0 {
		r.OK(rule, "template#reads-exported-tree", "", "the exported Tree field is never read by the library")
	}
}

// identityAccessor: g has one parameter (its receiver, say) and returns it, at most converted between string types.
func identityAccessor(g *ssa.Function) bool {
	if g == nil || g.Blocks == nil || len(g.Params) != 1 || g.Pkg == nil || !strings.HasPrefix(g.Pkg.Pkg.Path(), modulePath) {
		return false
	}
	rets := Returns(g)
	if len(rets) != 1 || len(rets[0].Results) != 1 {
		return false
	}
	v := rets[0].Results[0]
	for i := 0; i < 3; i++ {
		switch x := v.(type) {
		case *ssa.ChangeType:
			if isStringish(x.X.Type()) && isStringish(x.Type()) {
				v = x.X
				continue
			}
		case *ssa.Convert:
			if isStringish(x.X.Type()) && isStringish(x.Type()) {
				v = x.X
				continue
			}
		}
		break
	}
	return v == ssa.Value(g.Params[0])
}
