package main

import (
	"encoding/json"
	"fmt"
	"os"
	"path/filepath"
	"sort"
	"strings"
	"time"
)

type Status string

const (
	Discharged Status = "discharged"
	Violated   Status = "violated"
	Undecided  Status = "undecided"
)

// Obligation is one rule instance.
type Obligation struct {
	Property  string `json:"property"`
	Rule      string `json:"rule"`      // e.g. C11.R4
	Construct string `json:"construct"` // pkg.Func#role — never a line number
	Status    Status `json:"status"`
	Detail    string `json:"detail,omitempty"`
	Pos       string `json:"pos,omitempty"` // file:line, for humans only
	Witness   string `json:"witness,omitempty"`
	Known     string `json:"known_finding,omitempty"`
}

type KnownFinding struct {
	ID        string `json:"id"`
	Property  string `json:"property"`
	Rule      string `json:"rule"`
	Construct string `json:"construct"`
	WhatFails string `json:"what_fails"`
	Status    string `json:"status"` // known | fixed
	Commit    string `json:"commit,omitempty"`
	Line      string `json:"line,omitempty"` // the "fixed: property=… <commit> …" line
}

type Report struct {
	Property string
	Tier     string
	Seed     int64
	Level    string
	start    time.Time

	Obls       []Obligation
	Counts     map[string]int // rule -> instances
	MinCounts  map[string]int // rule -> minimum confirmed by hand
	Analysed   map[string]interface{}
	Trusted    []string
	Assume     []string
	NotDecided []string
	Explain    string
	known      []KnownFinding
}

func NewReport(prop, tier string, seed int64) *Report {
	r := &Report{Property: prop, Tier: tier, Seed: seed, start: time.Now(),
		Counts: map[string]int{}, MinCounts: map[string]int{}, Analysed: map[string]interface{}{}}
	r.known = loadKnown()
	return r
}

func verifDir() string {
	if d := os.Getenv("VERIF_DIR"); d != "" {
		return d
	}
	return "/verif"
}

func evidenceDir() string {
	if d := os.Getenv("VERIF_OUT"); d != "" {
		return d
	}
	return filepath.Join(verifDir(), "evidence")
}

func loadKnown() []KnownFinding {
	b, err := os.ReadFile(filepath.Join(verifDir(), "known_findings.json"))
	if err != nil {
		return nil
	}
	var f struct {
		Findings []KnownFinding `json:"findings"`
	}
	if err := json.Unmarshal(b, &f); err != nil {
		fmt.Fprintf(os.Stderr, "known_findings.json: %v\n", err)
		os.Exit(2)
	}
	return f.Findings
}

func (r *Report) add(rule, construct string, st Status, pos, detail, witness string) {
	r.Obls = append(r.Obls, Obligation{Property: r.Property, Rule: rule, Construct: construct, Status: st, Detail: detail, Pos: pos, Witness: witness})
	r.Counts[rule]++
}

func (r *Report) OK(rule, construct, pos, detail string) {
	r.add(rule, construct, Discharged, pos, detail, "")
}
func (r *Report) Viol(rule, construct, pos, detail, witness string) {
	r.add(rule, construct, Violated, pos, detail, witness)
}
func (r *Report) Undec(rule, construct, pos, detail string) {
	r.add(rule, construct, Undecided, pos, detail, "")
}

// Check records discharged or violated.
func (r *Report) Check(ok bool, rule, construct, pos, okDetail, badDetail string) bool {
	if ok {
		r.OK(rule, construct, pos, okDetail)
	} else {
		r.Viol(rule, construct, pos, badDetail, "")
	}
	return ok
}

// Min declares the minimum number of instances of a rule confirmed by hand.
func (r *Report) Min(rule string, n int) { r.MinCounts[rule] = n }

// Finish writes evidence, prints the verdict and returns the exit code.
func (r *Report) Finish() int {
	// vacuity guards
	var rules []string
	for rule := range r.MinCounts {
		rules = append(rules, rule)
	}
	sort.Strings(rules)
	for _, rule := range rules {
		if r.Counts[rule] < r.MinCounts[rule] {
			r.Obls = append(r.Obls, Obligation{Property: r.Property, Rule: rule, Construct: "vacuity-guard", Status: Undecided,
				Detail: fmt.Sprintf("rule matched %d instances, fewer than the %d confirmed by hand", r.Counts[rule], r.MinCounts[rule])})
		}
	}
	// known findings
	bad := 0
	discharged := 0
	var fresh []Obligation
	knownHit := map[string]bool{}
	for i := range r.Obls {
		o := &r.Obls[i]
		switch o.Status {
		case Discharged:
			discharged++
			continue
		}
		matched := false
		if o.Status == Violated {
			for _, k := range r.known {
				if k.Status == "known" && k.Property == o.Property && k.Rule == o.Rule && k.Construct == o.Construct {
					o.Known = k.ID
					matched = true
					if !knownHit[k.ID+o.Construct] {
						knownHit[k.ID+o.Construct] = true
						fmt.Printf("KNOWN-FINDING: property=%s %s [%s %s %s] %s\n", o.Property, k.ID, o.Rule, o.Construct, o.Pos, k.WhatFails)
					}
					break
				}
			}
		}
		if !matched {
			bad++
			fresh = append(fresh, *o)
		}
	}
	replayPath := ""
	if bad > 0 {
		dir := filepath.Join(evidenceDir(), "replay")
		os.MkdirAll(dir, 0o755)
		replayPath = filepath.Join(dir, r.Property+".json")
		b, _ := json.MarshalIndent(map[string]interface{}{"property": r.Property, "tier": r.Tier, "violations": fresh}, "", " ")
		os.WriteFile(replayPath, b, 0o644)
	}
	// evidence
	samples := []interface{}{}
	seenRule := map[string]int{}
	for _, o := range r.Obls {
		if seenRule[o.Rule] < 2 && len(samples) < 40 {
			seenRule[o.Rule]++
			samples = append(samples, o)
		}
	}
	ruleCounts := map[string]int{}
	for k, v := range r.Counts {
		ruleCounts[k] = v
	}
	cov := map[string]interface{}{
		"obligations":         len(r.Obls),
		"discharged":          discharged,
		"known_findings":      len(r.Obls) - discharged - bad,
		"rule_instances":      ruleCounts,
		"rule_minimums":       r.MinCounts,
		"samples":             samples,
		"all_obligations":     r.Obls,
		"analysed":            r.Analysed,
		"checker_cmd":         fmt.Sprintf("bin/safecheck -p %s -tier %s", r.Property, r.Tier),
		"trusted_base":        r.Trusted,
		"not_decided":         r.NotDecided,
		"explanation":         r.Explain,
		"evaluations":         len(r.Obls),
		"distinct_nontrivial": distinctObls(r.Obls),
		"rule":                "one evaluation = one rule instance (obligation) extracted from /repo's current source; distinct = distinct (rule, construct, detail) triples; all are non-trivial in the sense that each names a construct found in the tree on this run",
	}
	ev := map[string]interface{}{
		"property_id": r.Property,
		"tier":        r.Tier,
		"seed":        r.Seed,
		"level":       r.Level,
		"coverage":    cov,
		"assumptions": append(append([]string{}, r.Assume...), r.Trusted...),
		"wall_s":      time.Since(r.start).Seconds(),
		"violations":  bad,
	}
	b, _ := json.MarshalIndent(ev, "", " ")
	os.MkdirAll(evidenceDir(), 0o755)
	if err := os.WriteFile(filepath.Join(evidenceDir(), r.Property+".json"), b, 0o644); err != nil {
		fmt.Fprintf(os.Stderr, "cannot write evidence: %v\n", err)
		return 2
	}
	fmt.Printf("%s tier=%s obligations=%d discharged=%d known=%d failing=%d wall=%.1fs\n", r.Property, r.Tier, len(r.Obls), discharged, len(r.Obls)-discharged-bad, bad, time.Since(r.start).Seconds())
	if bad > 0 {
		for _, o := range fresh {
			fmt.Printf("  %s %s %s @%s: %s", strings.ToUpper(string(o.Status)), o.Rule, o.Construct, o.Pos, o.Detail)
			if o.Witness != "" {
				fmt.Printf(" witness=%s", o.Witness)
			}
			fmt.Println()
		}
		fmt.Printf("VIOLATION property=%s replay=%s\n", r.Property, replayPath)
		return 1
	}
	return 0
}

func distinctObls(obls []Obligation) int {
	m := map[string]bool{}
	for _, o := range obls {
		m[o.Rule+"|"+o.Construct+"|"+o.Detail] = true
	}
	return len(m)
}
