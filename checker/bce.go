package main

// Index expressions the compiler cannot prove in bounds. The compiler's own prove pass removes the bounds check
// of every index and slice expression it can show to be in range on all paths; `-d=ssa/check_bce` lists the ones
// that remain. For the small scanners of the root package a remaining check is either one of the few argued by
// hand below or a place where some input may panic — and a panic is a string for which "the result is …" does
// not hold. Nothing is executed: the compiler's intermediate representation is the oracle.

import (
	"bytes"
	"fmt"
	"go/ast"
	"go/printer"
	"go/token"
	"go/types"
	"os"
	"os/exec"
	"path/filepath"
	"regexp"
	"strconv"
	"strings"

	"golang.org/x/tools/go/ssa"
)

type bceSite struct {
	File      string
	Line, Col int
	Kind      string
}

var bceCache map[string][]bceSite
var bceErr error

func unprovenBounds(p *Program) (map[string][]bceSite, error) {
	if bceCache != nil || bceErr != nil {
		return bceCache, bceErr
	}
	cmd := exec.Command("go", "build", "-gcflags="+modulePath+"=-d=ssa/check_bce/debug=1 -d=ssa/prove/debug=1", ".")
	cmd.Dir = p.RepoDir
	cmd.Env = append(os.Environ(), "GOFLAGS=-mod=mod", "GOPROXY=off", "GOSUMDB=off", "GOTOOLCHAIN=local", "GOOS=", "GOARCH=")
	var out bytes.Buffer
	cmd.Stdout, cmd.Stderr = &out, &out
	runErr := cmd.Run()
	re := regexp.MustCompile(`^\./([^:]+):(\d+):(\d+): (?:Found|Disproved) (IsInBounds|IsSliceInBounds)`)
	res := map[string][]bceSite{}
	n := 0
	for _, ln := range strings.Split(out.String(), "\n") {
		m := re.FindStringSubmatch(ln)
		if m == nil {
			continue
		}
		l, _ := strconv.Atoi(m[2])
		c, _ := strconv.Atoi(m[3])
		kind := m[4]
		if strings.Contains(ln, ": Disproved ") {
			kind = "Disproved"
		}
		res[m[1]] = append(res[m[1]], bceSite{m[1], l, c, kind})
		n++
	}
	if runErr != nil {
		bceErr = fmt.Errorf("go build failed: %v", runErr)
		return nil, bceErr
	}
	if n == 0 {
		bceErr = fmt.Errorf("the compiler printed no bounds-check listing (flag not understood?)")
		return nil, bceErr
	}
	bceCache = res
	return res, nil
}

// bceArgued: the remaining bounds checks of the pinned tree, by file, enclosing function and expression, each
// with the reason it cannot fail.
var bceArgued = map[string]map[string]string{
	"urlset.go": {
		"appendURLToSet url[left]":       "the only caller passes a URL that it tested to be non-empty (C12.R3)",
		"appendURLToSet url[left:right]": "left ∈ {0,1}, right ∈ {n-1,n}, and right is only decremented under left < right",
	},
	"style.go": {
		"StyleFromProperties name[1:len(name)-1]": "under len(name) >= 3",
	},
	"stylesheet.go": {
		"CSSRule matches[0]": "a non-nil submatch slice has the whole match at index 0",
	},
	"trustedresourceurl.go": {
		"TrustedResourceURLWithParams url[i:]":                              "i is a non-negative result of strings.IndexByte",
		"trustedResourceURLFormat match[len(\"%{\"):len(match)-len(\"}\")]": "match is a match of the pattern %{…}, at least three bytes long",
	},
}

func checkBoundsProven(p *Program, r *Report, rule, file string) {
	sites, err := unprovenBounds(p)
	if err != nil {
		r.Undec(rule, "safehtml/"+file+"#bounds", "", "the compiler's list of remaining bounds checks is not available: "+err.Error())
		return
	}
	pkg := p.Pkg("")
	var af *ast.File
	for _, f := range pkg.Syntax {
		if filepath.Base(p.Fset.Position(f.Pos()).Filename) == file {
			af = f
		}
	}
	if af == nil {
		r.Undec(rule, "safehtml/"+file+"#bounds", "", "file not found in the package")
		return
	}
	nIdx := 0
	ast.Inspect(af, func(n ast.Node) bool {
		switch n.(type) {
		case *ast.IndexExpr, *ast.SliceExpr:
			nIdx++
		}
		return true
	})
	seen := map[string]int{}
	var skipped []string
	for _, s := range sites[file] {
		// the index or slice expression whose "[" is at the reported position (others are bounds checks of
		// library code inlined here)
		var hit ast.Node
		var fn *ast.FuncDecl
		for _, d := range af.Decls {
			fd, ok := d.(*ast.FuncDecl)
			if !ok || fd.Body == nil {
				continue
			}
			ast.Inspect(fd.Body, func(n ast.Node) bool {
				var lb token.Pos
				switch x := n.(type) {
				case *ast.IndexExpr:
					lb = x.Lbrack
				case *ast.SliceExpr:
					lb = x.Lbrack
				default:
					return true
				}
				if ps := p.Fset.Position(lb); ps.Line == s.Line && ps.Column == s.Col {
					hit, fn = n, fd
				} else if s.Kind == "Disproved" && hit == nil {
					// the prove pass reports the position of the operand, not of the bracket
					a, b := p.Fset.Position(n.Pos()), p.Fset.Position(n.End())
					if a.Line == s.Line && b.Line == s.Line && a.Column <= s.Col && s.Col < b.Column {
						hit, fn = n, fd
					}
				}
				return true
			})
		}
		if hit == nil {
			continue
		}
		var sb strings.Builder
		printer.Fprint(&sb, p.Fset, hit)
		expr := strings.Join(strings.Fields(sb.String()), "")
		expr = strings.ReplaceAll(expr, " ", "")
		name := fn.Name.Name
		if o := pkg.Types.Scope().Lookup(name); o != nil && fn.Recv == nil {
			name = canonName(o)
		}
		if s.Kind == "Disproved" {
			r.Viol(rule, fmt.Sprintf("safehtml.%s#in-bounds:%s", name, expr), fmt.Sprintf("%s:%d", file, s.Line), "the compiler proves this index out of range where it is evaluated: every execution that reaches it panics", "")
			continue
		}
		if bl := baselineFuncs[pkg.PkgPath]; bl != nil && !bl[name] {
			// a function the pinned tree does not have: its callers' guards are not followed, so an index the
			// compiler cannot prove locally says nothing; not decided (and said so)
			skipped = append(skipped, name+" "+expr)
			continue
		}
		key := name + " " + expr
		seen[key]++
		cn := fmt.Sprintf("safehtml.%s#in-bounds:%s", name, expr)
		if seen[key] > 1 {
			cn += fmt.Sprintf("#%d", seen[key])
		}
		pos := fmt.Sprintf("%s:%d", file, s.Line)
		if why, ok := bceArgued[file][key]; ok {
			if key == "appendURLToSet url[left:right]" {
				if bad := sliceEndsStayOrdered(p, fn.Name.Name, s); bad != "" {
					r.Viol(rule, cn, pos, "the argument for this slice expression no longer holds: "+bad+" — URLSetSanitized(\",\") slices url[1:0] and panics", "")
					continue
				}
			}
			r.OK(rule, cn, pos, "not proven by the compiler; argued: "+why)
		} else if indexOfSameString(p, fn.Name.Name, s) {
			r.OK(rule, cn, pos, "not proven by the compiler; argued: a non-negative result of strings.Index* on the indexed string is a valid index of it")
		} else if s.Kind == "IsSliceInBounds" || !integerGuarded(p, fn.Name.Name, s) {
			// slice expressions need 0 ≤ lo ≤ hi ≤ len, which the prove pass rarely gets from the guards people
			// write (a result of strings.Index*, a cursor advanced by a rune size): only element indexes are judged
			// no comparison of the length or of the index guards it: the range is established some other way
			// (strings.HasPrefix, a caller's test) that neither the compiler nor this rule follows
			skipped = append(skipped, name+" "+expr)
		} else {
			r.Undec(rule, cn, pos, "the compiler cannot prove this index in range on every path and it is not one of the expressions argued by hand: some input may panic here instead of yielding a result")
		}
	}
	note := ""
	if len(skipped) > 0 {
		note = "; not decided, in functions the pinned tree does not have: " + strings.Join(skipped, ", ")
	}
	r.OK(rule, "safehtml/"+file+"#bounds", file, fmt.Sprintf("%d index and slice expressions; the compiler proves all of them in range except those listed%s", nIdx, note))
}

// integerGuarded: the index or slice expression at the site is reached under a branch condition that compares the
// length of the indexed value, or the index itself — the author guards it with integer arithmetic, and the
// compiler's prove pass (which reasons about exactly that) still cannot show it in range.
func integerGuarded(p *Program, fname string, s bceSite) bool {
	f := p.Func("", fname)
	if f == nil {
		return true
	}
	var x ssa.Value
	var idx []ssa.Value
	var blk *ssa.BasicBlock
	for _, b := range f.Blocks {
		for _, in := range b.Instrs {
			ps := p.Fset.Position(in.Pos())
			if ps.Line != s.Line || ps.Column != s.Col {
				continue
			}
			switch y := in.(type) {
			case *ssa.Index:
				x, idx, blk = y.X, []ssa.Value{y.Index}, b
			case *ssa.Lookup:
				x, idx, blk = y.X, []ssa.Value{y.Index}, b
			case *ssa.IndexAddr:
				x, idx, blk = y.X, []ssa.Value{y.Index}, b
			case *ssa.Slice:
				x, blk = y.X, b
				for _, v := range []ssa.Value{y.Low, y.High} {
					if v != nil {
						idx = append(idx, v)
					}
				}
			}
		}
	}
	if blk == nil {
		return true // not found: judge it
	}
	related := func(v ssa.Value, depth int) bool { return false }
	related = func(v ssa.Value, depth int) bool {
		if depth > 3 || v == nil {
			return false
		}
		for _, i := range idx {
			if v == i {
				return true
			}
		}
		if lv, ok := isLenOf(v); ok && lv == x {
			return true
		}
		switch y := v.(type) {
		case *ssa.BinOp:
			return related(y.X, depth+1) || related(y.Y, depth+1)
		case *ssa.Phi:
			for _, e := range y.Edges {
				if related(e, depth+1) {
					return true
				}
			}
		}
		return false
	}
	// the index may itself be computed from a phi that a guard compares
	var more []ssa.Value
	for _, i := range idx {
		if bo, ok := i.(*ssa.BinOp); ok {
			more = append(more, bo.X, bo.Y)
		}
	}
	idx = append(idx, more...)
	for _, gd := range GuardsOf(blk) {
		bo, ok := gd.Cond.(*ssa.BinOp)
		if !ok {
			continue
		}
		switch bo.Op {
		case token.LSS, token.LEQ, token.GTR, token.GEQ, token.EQL, token.NEQ:
			if related(bo.X, 0) || related(bo.Y, 0) {
				return true
			}
		}
	}
	return false
}

// sliceEndsStayOrdered re-checks the hand argument for x[lo:hi] where hi is len(x) or len(x)-1: the edge that
// lowers hi is taken only under lo < hi (strictly), so lo ≤ hi afterwards.
func sliceEndsStayOrdered(p *Program, fname string, s bceSite) string {
	f := p.Func("", fname)
	if f == nil {
		return ""
	}
	var sl *ssa.Slice
	for _, b := range f.Blocks {
		for _, in := range b.Instrs {
			if y, ok := in.(*ssa.Slice); ok {
				if ps := p.Fset.Position(y.Pos()); ps.Line == s.Line && ps.Column == s.Col {
					sl = y
				}
			}
		}
	}
	if sl == nil || sl.Low == nil || sl.High == nil {
		return ""
	}
	hp, ok := sl.High.(*ssa.Phi)
	if !ok {
		return ""
	}
	for i, e := range hp.Edges {
		bo, ok := e.(*ssa.BinOp)
		if !ok || bo.Op != token.SUB {
			continue
		}
		if lv, isLen := isLenOf(bo.X); !isLen || lv != sl.X {
			continue
		}
		pred := hp.Block().Preds[i]
		okEdge := false
		for _, gd := range append(GuardsOf(pred), Guard{}) {
			c, ok := gd.Cond.(*ssa.BinOp)
			if !ok || !gd.Pol {
				continue
			}
			lo, hi := c.X, c.Y
			switch c.Op {
			case token.LSS:
			case token.GTR:
				lo, hi = hi, lo
			default:
				continue
			}
			if lv, isLen := isLenOf(hi); isLen && lv == sl.X && (lo == sl.Low || samePhiValue(lo, sl.Low)) {
				okEdge = true
			}
		}
		if !okEdge {
			return "the upper bound is lowered to len-1 (" + p.Pos(bo.Pos()) + ") on a path that is not guarded by lower < len"
		}
	}
	return ""
}

func samePhiValue(a, b ssa.Value) bool {
	pa, ok1 := a.(*ssa.Phi)
	pb, ok2 := b.(*ssa.Phi)
	return ok1 && ok2 && pa == pb
}

// checkNoDisprovedBounds (C08): the compiler's prove pass finds no index or slice expression of the package that is
// out of range on the path on which it is evaluated (a certain panic). Nothing is executed.
func checkNoDisprovedBounds(p *Program, r *Report, rule string, rels ...string) {
	for _, rel := range rels {
		cn := "safehtml/" + rel + "#no-index-proved-out-of-range"
		cmd := exec.Command("go", "build", "-gcflags="+modulePath+"/...=-d=ssa/prove/debug=1", "./"+rel)
		cmd.Dir = p.RepoDir
		cmd.Env = append(os.Environ(), "GOFLAGS=-mod=mod", "GOPROXY=off", "GOSUMDB=off", "GOTOOLCHAIN=local", "GOOS=", "GOARCH=")
		var out bytes.Buffer
		cmd.Stdout, cmd.Stderr = &out, &out
		if err := cmd.Run(); err != nil {
			r.Undec(rule, cn, "", "go build failed: "+err.Error())
			continue
		}
		re := regexp.MustCompile(`^(?:\./)?([^:]+):(\d+):(\d+): Disproved (IsInBounds|IsSliceInBounds)`)
		facts, bad := 0, ""
		for _, ln := range strings.Split(out.String(), "\n") {
			if strings.Contains(ln, ": Proved ") || strings.Contains(ln, ": Disproved ") {
				facts++
			}
			if m := re.FindStringSubmatch(ln); m != nil && bad == "" {
				bad = m[1] + ":" + m[2]
			}
		}
		if facts == 0 {
			r.Undec(rule, cn, "", "the compiler printed no facts of its prove pass (flag not understood?)")
			continue
		}
		r.Check(bad == "", rule, cn, rel, fmt.Sprintf("none of the index and slice expressions of the package is proved out of range (%d facts of the prove pass read)", facts), "the compiler proves an index or slice expression out of range where it is evaluated ("+bad+"): every execution that reaches it panics")
	}
}

// checkLoopsMakeProgress: in the scanners of a file of the root package, no loop has only loop-invariant exit
// conditions (conditions computed from values defined outside the loop, without calls or loads inside it): such a
// loop ends in its first turn or never — a deleted increment, an index that is not the loop variable.
func checkLoopsMakeProgress(p *Program, r *Report, rule, file string) {
	pkg := p.SSAPkg("")
	if pkg == nil {
		r.Undec(rule, "safehtml/"+file+"#loops", "", "package not found")
		return
	}
	n := 0
	for _, f := range p.SrcFuncs() {
		if f.Pkg != pkg || filepath.Base(p.Fset.Position(f.Pos()).Filename) != file {
			continue
		}
		for _, h := range loopHeaders(f) {
			in := loopBlocks(h)
			pure := true // no store and no call inside the loop: what is loaded there does not change
			for b := range in {
				for _, ins := range b.Instrs {
					switch y := ins.(type) {
					case *ssa.Store, *ssa.MapUpdate, *ssa.Send, *ssa.Go, *ssa.Defer:
						pure = false
					case *ssa.Call:
						if _, isLen := isLenOf(y); !isLen {
							pure = false
						}
					}
				}
			}
			var invariant func(v ssa.Value, depth int) bool
			invariant = func(v ssa.Value, depth int) bool {
				if depth > 6 {
					return false
				}
				switch x := v.(type) {
				case *ssa.Const, *ssa.Parameter, *ssa.Global, *ssa.FreeVar, *ssa.Function:
					return true
				case ssa.Instruction:
					if !in[x.Block()] {
						return true
					}
					switch y := x.(type) {
					case *ssa.BinOp:
						return invariant(y.X, depth+1) && invariant(y.Y, depth+1)
					case *ssa.UnOp:
						if y.Op == token.MUL {
							return pure && invariant(y.X, depth+1)
						}
						return y.Op != token.ARROW && invariant(y.X, depth+1)
					case *ssa.IndexAddr:
						return invariant(y.X, depth+1) && invariant(y.Index, depth+1)
					case *ssa.FieldAddr:
						return invariant(y.X, depth+1)
					case *ssa.Alloc:
						return true
					case *ssa.Index:
						return invariant(y.X, depth+1) && invariant(y.Index, depth+1)
					case *ssa.Lookup:
						if _, isMap := y.X.Type().Underlying().(*types.Map); isMap {
							return false
						}
						return invariant(y.X, depth+1) && invariant(y.Index, depth+1)
					case *ssa.Convert:
						return invariant(y.X, depth+1)
					case *ssa.Call:
						if lv, isLen := isLenOf(y); isLen {
							return invariant(lv, depth+1)
						}
					}
				}
				return false
			}
			exits, variant := 0, false
			for b := range in {
				for _, su := range b.Succs {
					if in[su] {
						continue
					}
					exits++
					iff, ok := b.Instrs[len(b.Instrs)-1].(*ssa.If)
					if !ok || !invariant(iff.Cond, 0) {
						variant = true
					}
				}
			}
			if exits == 0 {
				continue // for { … } left by return or panic only: not this rule's business
			}
			n++
			short := strings.TrimPrefix(fnName(f), modulePath+".")
			r.Check(variant, rule, fmt.Sprintf("%s#loop-makes-progress@%d", short, h.Index), p.Pos(f.Pos()), "some condition under which the loop is left changes from turn to turn", "every condition under which the loop is left is computed from values that do not change inside it: the loop ends in its first turn or never (a deleted increment, an index that is not the loop variable)")
		}
	}
	if n == 0 {
		r.OK(rule, "safehtml/"+file+"#loops", file, "no loops")
	}
}

// indexOfSameString: x[i] where i is the result of a strings/bytes Index* search in x itself and a branch on the
// path has excluded the negative result.
func indexOfSameString(p *Program, fname string, s bceSite) bool {
	f := p.Func("", fname)
	if f == nil {
		return false
	}
	for _, b := range f.Blocks {
		for _, in := range b.Instrs {
			ps := p.Fset.Position(in.Pos())
			if ps.Line != s.Line || ps.Column != s.Col {
				continue
			}
			var x, idx ssa.Value
			switch y := in.(type) {
			case *ssa.Index:
				x, idx = y.X, y.Index
			case *ssa.Lookup:
				x, idx = y.X, y.Index
			case *ssa.IndexAddr:
				x, idx = y.X, y.Index
			default:
				continue
			}
			c, ok := idx.(*ssa.Call)
			if !ok {
				return false
			}
			g := staticCallee(c.Common())
			if g == nil || g.Pkg == nil || (g.Pkg.Pkg.Path() != "strings" && g.Pkg.Pkg.Path() != "bytes") || !strings.Contains(g.Name(), "Index") || len(c.Common().Args) == 0 || c.Common().Args[0] != x {
				return false
			}
			for _, gd := range GuardsOf(b) {
				bo, ok := gd.Cond.(*ssa.BinOp)
				if !ok || bo.X != idx {
					continue
				}
				k, isK := constInt(bo.Y)
				if !isK {
					continue
				}
				switch {
				case bo.Op == token.LSS && k == 0 && !gd.Pol, bo.Op == token.GEQ && k == 0 && gd.Pol,
					bo.Op == token.EQL && k == -1 && !gd.Pol, bo.Op == token.NEQ && k == -1 && gd.Pol,
					bo.Op == token.GTR && k == -1 && gd.Pol, bo.Op == token.LEQ && k == -1 && !gd.Pol:
					return true
				}
			}
		}
	}
	return false
}

// checkScansStartAtZero (C12.R1): a function of the file that walks over a string parameter by an index looks at
// the string from its first byte: the index variable enters the loop as 0. (A scan that starts at 1 skips a byte
// unseen: consumeIn would swallow the first byte of a URL whatever it is.)
func checkScansStartAtZero(p *Program, r *Report, rule, file string) {
	pkg := p.SSAPkg("")
	n := 0
	for _, f := range p.SrcFuncs() {
		if pkg == nil || f.Pkg != pkg || filepath.Base(p.Fset.Position(f.Pos()).Filename) != file {
			continue
		}
		seen := map[*ssa.Phi]bool{}
		for _, b := range f.Blocks {
			for _, in := range b.Instrs {
				var x, idx ssa.Value
				switch y := in.(type) {
				case *ssa.Index:
					x, idx = y.X, y.Index
				case *ssa.Lookup:
					x, idx = y.X, y.Index
				default:
					continue
				}
				prm, ok := x.(*ssa.Parameter)
				if !ok || !isStringish(prm.Type()) {
					continue
				}
				ph, ok := idx.(*ssa.Phi)
				if !ok || seen[ph] {
					continue
				}
				seen[ph] = true
				h := ph.Block()
				okStart, isLoop := true, false
				for i, pr := range h.Preds {
					if h.Dominates(pr) {
						isLoop = true
						continue
					}
					if k, isK := constInt(ph.Edges[i]); !isK || k != 0 {
						// a scan from the end, or from a position handed in, is not this rule's business
						if _, isConst := ph.Edges[i].(*ssa.Const); isConst {
							okStart = false
						}
					}
				}
				if !isLoop {
					continue
				}
				n++
				short := strings.TrimPrefix(fnName(f), modulePath+".")
				r.Check(okStart, rule, short+"#scan-starts-at-the-first-byte", p.Pos(f.Pos()), "the index with which the string parameter is walked enters the loop as 0", "the scan over the string starts at a constant position other than 0: the bytes before it are consumed unseen (consumeIn would swallow the first byte of a URL whatever it is)")
			}
		}
	}
	if n == 0 {
		r.OK(rule, "safehtml/"+file+"#scans", file, "no function walks over a string parameter by an index from a constant position")
	}
}
