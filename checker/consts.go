package main

// E2: constant and table evaluator over the syntax tree + types.Info.

import (
	"fmt"
	"go/ast"
	"go/constant"
	"go/token"
	"go/types"
	"os"
	"sort"
	"strconv"
	"strings"

	"golang.org/x/tools/go/packages"
	"golang.org/x/tools/go/types/typeutil"
)

// RegexConst is a package-level variable initialised by regexp.MustCompile of
// a constant.
type RegexConst struct {
	Pkg  string // import path
	Name string
	Src  string
	Pos  token.Pos
}

// AllRegexes finds every regexp.MustCompile / regexp.Compile call in the
// repository and resolves the constant argument. unresolved lists call sites
// whose argument is not a constant.
func (p *Program) AllRegexes() (byName map[string]*RegexConst, unresolved []string) {
	byName = map[string]*RegexConst{}
	for _, pk := range p.Pkgs {
		for _, f := range pk.Syntax {
			// map call expr -> var name for package-level var initialisers
			owner := map[*ast.CallExpr]string{}
			for _, d := range f.Decls {
				gd, ok := d.(*ast.GenDecl)
				if !ok || gd.Tok != token.VAR {
					continue
				}
				for _, s := range gd.Specs {
					vs := s.(*ast.ValueSpec)
					for i, n := range vs.Names {
						if i < len(vs.Values) {
							if ce, ok := ast.Unparen(vs.Values[i]).(*ast.CallExpr); ok {
								owner[ce] = n.Name
							}
						}
					}
				}
			}
			ast.Inspect(f, func(n ast.Node) bool {
				ce, ok := n.(*ast.CallExpr)
				if !ok {
					return true
				}
				fn, _ := typeutil.Callee(pk.TypesInfo, ce).(*types.Func)
				if fn == nil || fn.Pkg() == nil || fn.Pkg().Path() != "regexp" {
					return true
				}
				switch fn.Name() {
				case "MustCompile", "Compile", "MustCompilePOSIX", "CompilePOSIX":
				default:
					return true
				}
				name, isVar := owner[ce]
				src, okSrc := p.foldString(pk, ce.Args[0], nil, 0)
				if !okSrc || !isVar || strings.Contains(fn.Name(), "POSIX") {
					unresolved = append(unresolved, p.Pos(ce.Pos()))
					return true
				}
				byName[pk.Types.Name()+"."+name] = &RegexConst{Pkg: pk.PkgPath, Name: name, Src: src, Pos: ce.Pos()}
				return true
			})
		}
	}
	sort.Strings(unresolved)
	return
}

// Lit is an evaluated composite literal.
type Lit struct {
	Kind  string // map array struct const ident func nil
	Const constant.Value
	Obj   types.Object // for ident/func references
	Keys  []*Lit       // map / keyed array (array keys are int constants)
	Vals  []*Lit
	Field []string // struct field names
	Type  types.Type
	Pos   token.Pos
	Err   string
}

func (l *Lit) Str() (string, bool) {
	if l != nil && l.Kind == "const" && l.Const != nil && l.Const.Kind() == constant.String {
		return constant.StringVal(l.Const), true
	}
	return "", false
}

func (l *Lit) Int() (int64, bool) {
	if l != nil && l.Kind == "const" && l.Const != nil && l.Const.Kind() == constant.Int {
		v, ok := constant.Int64Val(l.Const)
		return v, ok
	}
	return 0, false
}

func (l *Lit) Bool() (bool, bool) {
	if l != nil && l.Kind == "const" && l.Const != nil && l.Const.Kind() == constant.Bool {
		return constant.BoolVal(l.Const), true
	}
	return false, false
}

// EvalLit evaluates an expression made of constants, composite literals and
// references to package-level functions/variables.
func EvalLit(pk *packages.Package, e ast.Expr, hint types.Type) *Lit {
	info := pk.TypesInfo
	e = ast.Unparen(e)
	tv, ok := info.Types[e]
	if ok && tv.Value != nil {
		return &Lit{Kind: "const", Const: tv.Value, Type: tv.Type, Pos: e.Pos()}
	}
	switch e := e.(type) {
	case *ast.CallExpr:
		// a set constructor of the package: f("a", "b", …) where f only does m[x] = true for each argument
		if l := evalSetConstructor(pk, e); l != nil {
			return l
		}
		// conversion of a constant, e.g. []byte("…")
		if len(e.Args) == 1 {
			if ftv, ok := info.Types[e.Fun]; ok && ftv.IsType() {
				if atv, ok := info.Types[e.Args[0]]; ok && atv.Value != nil {
					return &Lit{Kind: "const", Const: atv.Value, Type: ftv.Type, Pos: e.Pos()}
				}
			}
		}
	case *ast.CompositeLit:
		t := hint
		if ok && tv.Type != nil {
			t = tv.Type
		}
		if t == nil {
			return &Lit{Kind: "err", Err: "untyped composite literal", Pos: e.Pos()}
		}
		switch u := t.Underlying().(type) {
		case *types.Map:
			l := &Lit{Kind: "map", Type: t, Pos: e.Pos()}
			for _, el := range e.Elts {
				kv, ok := el.(*ast.KeyValueExpr)
				if !ok {
					return &Lit{Kind: "err", Err: "map element without key", Pos: el.Pos()}
				}
				l.Keys = append(l.Keys, EvalLit(pk, kv.Key, u.Key()))
				l.Vals = append(l.Vals, EvalLit(pk, kv.Value, u.Elem()))
			}
			return l
		case *types.Array, *types.Slice:
			var elem types.Type
			if a, ok := u.(*types.Array); ok {
				elem = a.Elem()
			} else {
				elem = u.(*types.Slice).Elem()
			}
			l := &Lit{Kind: "array", Type: t, Pos: e.Pos()}
			idx := int64(0)
			for _, el := range e.Elts {
				var val ast.Expr = el
				if kv, ok := el.(*ast.KeyValueExpr); ok {
					k := EvalLit(pk, kv.Key, nil)
					ki, ok := k.Int()
					if !ok {
						return &Lit{Kind: "err", Err: "non-constant array index", Pos: kv.Pos()}
					}
					idx = ki
					val = kv.Value
				}
				l.Keys = append(l.Keys, &Lit{Kind: "const", Const: constant.MakeInt64(idx), Pos: el.Pos()})
				l.Vals = append(l.Vals, EvalLit(pk, val, elem))
				idx++
			}
			return l
		case *types.Struct:
			l := &Lit{Kind: "struct", Type: t, Pos: e.Pos()}
			for i, el := range e.Elts {
				if kv, ok := el.(*ast.KeyValueExpr); ok {
					name := kv.Key.(*ast.Ident).Name
					var ft types.Type
					for j := 0; j < u.NumFields(); j++ {
						if u.Field(j).Name() == name {
							ft = u.Field(j).Type()
						}
					}
					l.Field = append(l.Field, name)
					l.Vals = append(l.Vals, EvalLit(pk, kv.Value, ft))
				} else if i < u.NumFields() {
					l.Field = append(l.Field, u.Field(i).Name())
					l.Vals = append(l.Vals, EvalLit(pk, el, u.Field(i).Type()))
				}
			}
			return l
		case *types.Pointer:
			return EvalLit(pk, e, u.Elem())
		}
		return &Lit{Kind: "err", Err: fmt.Sprintf("unsupported literal type %s", t), Pos: e.Pos()}
	case *ast.UnaryExpr:
		if e.Op == token.AND {
			return EvalLit(pk, e.X, nil)
		}
	case *ast.Ident:
		obj := info.Uses[e]
		switch obj.(type) {
		case *types.Func:
			return &Lit{Kind: "func", Obj: obj, Pos: e.Pos()}
		case *types.Var:
			return &Lit{Kind: "ident", Obj: obj, Pos: e.Pos()}
		case *types.Nil:
			return &Lit{Kind: "nil", Pos: e.Pos()}
		}
	case *ast.SelectorExpr:
		obj := info.Uses[e.Sel]
		switch obj.(type) {
		case *types.Func:
			return &Lit{Kind: "func", Obj: obj, Pos: e.Pos()}
		case *types.Var:
			return &Lit{Kind: "ident", Obj: obj, Pos: e.Pos()}
		}
	}
	return &Lit{Kind: "err", Err: fmt.Sprintf("unsupported expression %T", e), Pos: e.Pos()}
}

// VarLit evaluates the initialiser of a package-level variable.
func (p *Program) VarLit(rel, name string) (*Lit, error) {
	e, pk := p.PkgVarInit(rel, name)
	if e == nil {
		return nil, fmt.Errorf("anchor not found: variable %s in package %q", name, rel)
	}
	var hint types.Type
	for _, n := range pk.Types.Scope().Names() {
		if o := pk.Types.Scope().Lookup(n); canonName(o) == name {
			if _, isVar := o.(*types.Var); isVar {
				hint = o.Type()
			}
		}
	}
	l := EvalLit(pk, e, hint)
	if err := litErr(l); err != "" {
		return nil, fmt.Errorf("variable %s: %s", name, err)
	}
	return l, nil
}

func litErr(l *Lit) string {
	if l == nil {
		return "nil literal"
	}
	if l.Kind == "err" {
		return l.Err
	}
	for _, k := range l.Keys {
		if e := litErr(k); e != "" {
			return e
		}
	}
	for _, v := range l.Vals {
		if e := litErr(v); e != "" {
			return e
		}
	}
	return ""
}

// StringBoolSet reads a map[string]bool literal as the set of keys mapped to true.
func (l *Lit) StringBoolSet() (map[string]bool, error) {
	if l.Kind != "map" {
		return nil, fmt.Errorf("not a map literal")
	}
	out := map[string]bool{}
	for i, k := range l.Keys {
		ks, ok := k.Str()
		if !ok {
			return nil, fmt.Errorf("non-constant key")
		}
		b, ok := l.Vals[i].Bool()
		if !ok {
			return nil, fmt.Errorf("non-constant value for %q", ks)
		}
		if b {
			out[ks] = true
		}
	}
	return out, nil
}

// ConstName returns the name of the package-level constant of type T with the
// given integer value (for enum-like types), e.g. sanitizationContextURL.
func ConstNames(pk *packages.Package, T types.Type) map[int64]string {
	out := map[int64]string{}
	sc := pk.Types.Scope()
	for _, n := range sc.Names() {
		c, ok := sc.Lookup(n).(*types.Const)
		if !ok {
			continue
		}
		if !types.Identical(c.Type(), T) {
			// enum declared with an untyped iota: accept constants named after the type
			tn, isNamed := T.(*types.Named)
			b, isBasic := c.Type().(*types.Basic)
			if !isNamed || !isBasic || b.Kind() != types.UntypedInt || !strings.HasPrefix(n, tn.Obj().Name()) || n == tn.Obj().Name() {
				continue
			}
		}
		if v, ok := constant.Int64Val(c.Val()); ok {
			cn := canonName(c)
			if old, dup := out[v]; !dup || cn < old {
				out[v] = cn
			}
		}
	}
	return out
}

// foldString evaluates a string expression that is constant up to calls of pure string-building
// helpers of the repository: constants, + , parentheses, package-level variables that are
// initialised once and never assigned, and calls of functions whose body is a single
// "return <expr>" over their (constant) arguments.
func (p *Program) foldString(pk *packages.Package, e ast.Expr, env map[types.Object]string, depth int) (v string, ok bool) {
	if os.Getenv("DBG_FOLD") != "" {
		defer func() { fmt.Printf("%*sfold %T depth=%d -> %q %v\n", depth*2, "", e, depth, v, ok) }()
	}
	if depth > 6 {
		return "", false
	}
	e = ast.Unparen(e)
	if tv, ok := pk.TypesInfo.Types[e]; ok && tv.Value != nil && tv.Value.Kind() == constant.String {
		return constant.StringVal(tv.Value), true
	}
	switch x := e.(type) {
	case *ast.Ident:
		obj := pk.TypesInfo.Uses[x]
		if obj == nil {
			return "", false
		}
		if v, ok := env[obj]; ok {
			return v, true
		}
		if vr, ok := obj.(*types.Var); ok && vr.Parent() == vr.Pkg().Scope() {
			// package-level variable: its initialiser, if nothing assigns to it
			dpk := p.Pkgs[vr.Pkg().Path()]
			if dpk == nil || p.assignedAnywhere(dpk, vr) {
				return "", false
			}
			for _, f := range dpk.Syntax {
				for _, d := range f.Decls {
					gd, ok := d.(*ast.GenDecl)
					if !ok || gd.Tok != token.VAR {
						continue
					}
					for _, sp := range gd.Specs {
						vs := sp.(*ast.ValueSpec)
						for i, n := range vs.Names {
							if dpk.TypesInfo.Defs[n] == obj && i < len(vs.Values) && len(vs.Values) == len(vs.Names) {
								return p.foldString(dpk, vs.Values[i], nil, depth+1)
							}
						}
					}
				}
			}
		}
	case *ast.BasicLit:
		if x.Kind == token.STRING {
			if v, err := strconv.Unquote(x.Value); err == nil {
				return v, true
			}
		}
	case *ast.BinaryExpr:
		if x.Op == token.ADD {
			a, ok1 := p.foldString(pk, x.X, env, depth)
			b, ok2 := p.foldString(pk, x.Y, env, depth)
			return a + b, ok1 && ok2
		}
	case *ast.CallExpr:
		// string(<constant rune slice>) etc. are left to go/types; here: calls of one-line helpers
		fn, _ := typeutil.Callee(pk.TypesInfo, x).(*types.Func)
		if fn == nil || fn.Pkg() == nil {
			return "", false
		}
		dpk := p.Pkgs[fn.Pkg().Path()]
		if dpk == nil {
			return "", false
		}
		for _, f := range dpk.Syntax {
			for _, d := range f.Decls {
				fd, ok := d.(*ast.FuncDecl)
				if !ok || dpk.TypesInfo.Defs[fd.Name] != types.Object(fn) || fd.Body == nil || len(fd.Body.List) != 1 {
					continue
				}
				ret, ok := fd.Body.List[0].(*ast.ReturnStmt)
				if !ok || len(ret.Results) != 1 {
					return "", false
				}
				env2 := map[types.Object]string{}
				i := 0
				for _, fl := range fd.Type.Params.List {
					for _, n := range fl.Names {
						if i >= len(x.Args) {
							return "", false
						}
						v, ok := p.foldString(pk, x.Args[i], env, depth+1)
						if !ok {
							return "", false
						}
						env2[dpk.TypesInfo.Defs[n]] = v
						i++
					}
				}
				return p.foldString(dpk, ret.Results[0], env2, depth+1)
			}
		}
	}
	return "", false
}

// assignedAnywhere: some statement of the package assigns to (or takes the address of) the variable.
func (p *Program) assignedAnywhere(pk *packages.Package, v *types.Var) bool {
	found := false
	for _, f := range pk.Syntax {
		ast.Inspect(f, func(n ast.Node) bool {
			switch x := n.(type) {
			case *ast.AssignStmt:
				for _, l := range x.Lhs {
					if id, ok := ast.Unparen(l).(*ast.Ident); ok && pk.TypesInfo.Uses[id] == types.Object(v) {
						found = true
					}
				}
			case *ast.UnaryExpr:
				if x.Op == token.AND {
					if id, ok := ast.Unparen(x.X).(*ast.Ident); ok && pk.TypesInfo.Uses[id] == types.Object(v) {
						found = true
					}
				}
			case *ast.IncDecStmt:
				if id, ok := ast.Unparen(x.X).(*ast.Ident); ok && pk.TypesInfo.Uses[id] == types.Object(v) {
					found = true
				}
			}
			return !found
		})
	}
	return found
}

// evalSetConstructor: call of a function of the same package with one variadic string parameter whose body
// makes a map[string]bool, sets m[x] = true for every x of the parameter and returns m — evaluated as the
// map literal {arg: true, …}.
func evalSetConstructor(pk *packages.Package, call *ast.CallExpr) *Lit {
	id, ok := ast.Unparen(call.Fun).(*ast.Ident)
	if !ok {
		return nil
	}
	fobj, ok := pk.TypesInfo.Uses[id].(*types.Func)
	if !ok || fobj.Pkg() != pk.Types {
		return nil
	}
	sig := fobj.Type().(*types.Signature)
	if !sig.Variadic() || sig.Params().Len() != 1 || sig.Results().Len() != 1 || call.Ellipsis.IsValid() {
		return nil
	}
	mt, ok := sig.Results().At(0).Type().Underlying().(*types.Map)
	if !ok || !isStringish(mt.Key()) {
		return nil
	}
	if b, ok := mt.Elem().Underlying().(*types.Basic); !ok || b.Kind() != types.Bool {
		return nil
	}
	var fd *ast.FuncDecl
	for _, f := range pk.Syntax {
		for _, d := range f.Decls {
			if x, ok := d.(*ast.FuncDecl); ok && pk.TypesInfo.Defs[x.Name] == fobj {
				fd = x
			}
		}
	}
	if fd == nil || fd.Body == nil {
		return nil
	}
	// body: m := make(...); for _, x := range param { m[x] = true }; return m
	var mObj types.Object
	nRange, nRet, okBody := 0, 0, true
	prm := sig.Params().At(0)
	for _, st := range fd.Body.List {
		switch s := st.(type) {
		case *ast.AssignStmt:
			if len(s.Lhs) == 1 && len(s.Rhs) == 1 {
				if c, ok := s.Rhs[0].(*ast.CallExpr); ok {
					if fn, ok := c.Fun.(*ast.Ident); ok && fn.Name == "make" {
						if lid, ok := s.Lhs[0].(*ast.Ident); ok {
							mObj = pk.TypesInfo.Defs[lid]
							continue
						}
					}
				}
			}
			okBody = false
		case *ast.RangeStmt:
			nRange++
			xid, ok := ast.Unparen(s.X).(*ast.Ident)
			if !ok || pk.TypesInfo.Uses[xid] != prm || s.Value == nil || len(s.Body.List) != 1 {
				okBody = false
				continue
			}
			as, ok := s.Body.List[0].(*ast.AssignStmt)
			if !ok || len(as.Lhs) != 1 || len(as.Rhs) != 1 {
				okBody = false
				continue
			}
			ix, ok := as.Lhs[0].(*ast.IndexExpr)
			tv := pk.TypesInfo.Types[as.Rhs[0]]
			if !ok || tv.Value == nil || tv.Value.Kind() != constant.Bool || !constant.BoolVal(tv.Value) {
				okBody = false
				continue
			}
			mid, ok1 := ix.X.(*ast.Ident)
			kid, ok2 := ix.Index.(*ast.Ident)
			vid, ok3 := s.Value.(*ast.Ident)
			if !ok1 || !ok2 || !ok3 || mObj == nil || pk.TypesInfo.Uses[mid] != mObj || pk.TypesInfo.Uses[kid] != pk.TypesInfo.Defs[vid] {
				okBody = false
			}
		case *ast.ReturnStmt:
			nRet++
			if len(s.Results) != 1 {
				okBody = false
				continue
			}
			rid, ok := ast.Unparen(s.Results[0]).(*ast.Ident)
			if !ok || mObj == nil || pk.TypesInfo.Uses[rid] != mObj {
				okBody = false
			}
		default:
			okBody = false
		}
	}
	if !okBody || nRange != 1 || nRet != 1 {
		return nil
	}
	l := &Lit{Kind: "map", Type: sig.Results().At(0).Type(), Pos: call.Pos()}
	for _, a := range call.Args {
		k := EvalLit(pk, a, mt.Key())
		if _, ok := k.Str(); !ok {
			return nil
		}
		l.Keys = append(l.Keys, k)
		l.Vals = append(l.Vals, &Lit{Kind: "const", Const: constant.MakeBool(true), Pos: a.Pos()})
	}
	return l
}
