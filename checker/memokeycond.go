package main

import (
	"fmt"
	"sort"
	"strings"

	"golang.org/x/tools/go/ssa"
)

// topFieldsOf: top-level fields of the struct parameter #idx of fn addressed by the instructions
// of each block (the parameter is spilled by go/ssa when its fields are addressed).
func topFieldOfAddr(v ssa.Value, roots map[ssa.Value]bool) (string, bool) {
	for depth := 0; depth < 8; depth++ {
		switch x := v.(type) {
		case *ssa.FieldAddr:
			if roots[x.X] {
				return fieldName(x.X.Type(), x.Field), true
			}
			v = x.X
		case *ssa.Field:
			if roots[x.X] {
				return fieldName(x.X.Type(), x.Field), true
			}
			v = x.X
		case *ssa.UnOp:
			v = x.X
		default:
			return "", false
		}
	}
	return "", false
}

// fieldsUnder collects the top-level fields of the rooted struct that v is computed from.
func fieldsUnder(v ssa.Value, roots map[ssa.Value]bool, out map[string]bool, seen map[ssa.Value]bool) {
	if v == nil || seen[v] {
		return
	}
	seen[v] = true
	if f, ok := topFieldOfAddr(v, roots); ok {
		out[f] = true
		return
	}
	in, ok := v.(ssa.Instruction)
	if !ok {
		return
	}
	if _, isPhi := v.(*ssa.Phi); isPhi {
		return
	}
	for _, op := range in.Operands(nil) {
		if *op != nil {
			fieldsUnder(*op, roots, out, seen)
		}
	}
}

// checkMemoKeyConditional: every context field that takes part in the key of
// context-specific template copies must take part whenever it is set. A field that is
// appended only under a test of a *different* field is missing from the key in all the
// contexts where that other field is empty.
func checkMemoKeyConditional(p *Program, r *Report, rule string) {
	mangle := findMangle(p)
	const c = "template.mangle#key-unconditional"
	if mangle == nil || len(mangle.Params) == 0 {
		r.Undec(rule, c, "", "anchor not found: mangle")
		return
	}
	prm := mangle.Params[0]
	roots := map[ssa.Value]bool{prm: true}
	for _, ref := range *prm.Referrers() {
		if st, ok := ref.(*ssa.Store); ok && st.Val == ssa.Value(prm) {
			roots[st.Addr] = true
		}
	}
	n := 0
	var bad []string
	for _, b := range mangle.Blocks {
		reads := map[string]bool{}
		for _, in := range b.Instrs {
			if _, isIf := in.(*ssa.If); isIf {
				continue
			}
			if v, ok := in.(ssa.Value); ok {
				if f, ok := topFieldOfAddr(v, roots); ok {
					// reads made only to evaluate the block's own branch condition are not contributions
					reads[f] = true
				}
			}
		}
		// fields used by this block's own terminating condition
		if iff, ok := b.Instrs[len(b.Instrs)-1].(*ssa.If); ok {
			own := map[string]bool{}
			fieldsUnder(iff.Cond, roots, own, map[ssa.Value]bool{})
			contributes := false
			for _, in := range b.Instrs {
				if bo, ok := in.(*ssa.BinOp); ok && isStringish(bo.Type()) {
					contributes = true
				}
			}
			if !contributes {
				for f := range own {
					delete(reads, f)
				}
			}
		}
		if len(reads) == 0 {
			continue
		}
		guardFields := map[string]bool{}
		for _, g := range GuardsOf(b) {
			fieldsUnder(g.Cond, roots, guardFields, map[ssa.Value]bool{})
		}
		for f := range reads {
			n++
			for g := range guardFields {
				if g != f && g != "state" {
					bad = append(bad, fmt.Sprintf("%s<-%s", f, g))
				}
			}
		}
	}
	sort.Strings(bad)
	if n == 0 {
		r.Undec(rule, c, p.Pos(mangle.Pos()), "no context field contributes to the key")
		return
	}
	if len(bad) == 0 {
		r.OK(rule, c, p.Pos(mangle.Pos()), "each context field of the key is appended under a test of that field (or of the state) only")
	} else {
		r.Viol(rule, c+"["+strings.Join(bad, ",")+"]", p.Pos(mangle.Pos()), fmt.Sprintf("a context field is part of the key only when another field is set (%v, read field<-guarding field): in contexts where the guarding field is empty, call sites that differ in the guarded field share one analysed copy and run each other's sanitizers", bad),
			`{{define "t"}}src="{{.}}"{{end}}<img {{template "t" .}}><script {{template "t" .}}></script>`)
	}
}
