package main

// Rules added after the ninth seed round, from the agents' remarks about the unchanged tree (findings F34–F36).

import (
	"fmt"
	"go/types"
	"strings"

	"golang.org/x/tools/go/ssa"
)

// checkCommentKeepsElement (C04): the policy for element contents is chosen from context.element. An HTML
// comment inside an element does not end the element for the browser, so the context the text scanner hands to the
// comment state, and the context the comment state hands back when the comment ends, must carry the element of
// the incoming context: a literal without it makes the action after "<x><!-- -->" an action in no element at
// all, which the default text sanitizer accepts for every x.
func checkCommentKeepsElement(p *Program, r *Report, rule string) {
	tpk := p.Pkg("template")
	stObj := tpk.Types.Scope().Lookup("state")
	disp, _, err := stateDispatch(p)
	if stObj == nil || err != nil {
		r.Undec(rule, "template.transitionFunc", "", "anchor not found")
		return
	}
	var cmtState int64 = -1
	var textFn, cmtFn *ssa.Function
	for v, n := range ConstNames(tpk, stObj.Type()) {
		switch n {
		case "stateHTMLCmt":
			cmtState = v
			cmtFn = disp[v]
		case "stateText":
			textFn = disp[v]
		}
	}
	if cmtState < 0 || textFn == nil || cmtFn == nil {
		r.Undec(rule, "template.transitionFunc[stateHTMLCmt]", "", "anchor not found")
		return
	}
	// fromParam: v is (a load of) the element field of the function's context parameter
	fromParam := func(fn *ssa.Function, v ssa.Value) bool {
		seen := map[ssa.Value]bool{}
		var walk func(y ssa.Value, depth int) bool
		walk = func(y ssa.Value, depth int) bool {
			if y == nil || seen[y] || depth > 8 {
				return false
			}
			seen[y] = true
			switch x := y.(type) {
			case *ssa.Parameter:
				return x == fn.Params[0]
			case *ssa.UnOp:
				return walk(x.X, depth+1)
			case *ssa.FieldAddr:
				return walk(x.X, depth+1)
			case *ssa.Field:
				return walk(x.X, depth+1)
			case *ssa.Alloc:
				if st := singleStoreLoose(x); st != nil {
					return walk(st.Val, depth+1)
				}
			}
			return false
		}
		return walk(v, 0)
	}
	n := 0
	for _, fn := range []*ssa.Function{textFn, cmtFn} {
		short := strings.TrimPrefix(fnName(fn), pkgTemplate+".")
		k := 0
		for _, ret := range Returns(fn) {
			if kz, isK := ret.Results[0].(*ssa.Const); isK && kz.Value == nil && fn == cmtFn {
				// context{}: the zero context, without the element
				n++
				c := fmt.Sprintf("%s#comment-keeps-element%d", short, k)
				k++
				r.Viol(rule, c, p.Pos(ret.Pos()), "the end of an HTML comment returns the zero context: the escaper forgets the element the comment is in, so the action after <object><!-- --> is sanitized as text outside any element and the default-deny policy for element contents is bypassed for every element", "<video><!-- c -->{{.X}}</video>")
				continue
			}
			u, ok := ret.Results[0].(*ssa.UnOp)
			if !ok {
				continue
			}
			al, ok := u.X.(*ssa.Alloc)
			if !ok || !isNamed(al.Type(), pkgTemplate, "context") {
				continue
			}
			if st := singleStoreLoose(al); st != nil {
				continue // the (copy of the) incoming context handed on
			}
			states := storedField(al, "state")
			isCmt := false
			isZero := len(states) == 0
			for _, sv := range states {
				if kv, ok := constInt(sv); ok && kv == cmtState {
					isCmt = true
				}
			}
			relevant := (fn == textFn && isCmt) || (fn == cmtFn && (isZero || isCmt))
			if !relevant {
				continue
			}
			n++
			c := fmt.Sprintf("%s#comment-keeps-element%d", short, k)
			k++
			kept := false
			for _, ev := range storedField(al, "element") {
				if fromParam(fn, ev) {
					kept = true
				}
			}
			r.Check(kept, rule, c, p.Pos(ret.Pos()), "the context around an HTML comment keeps the element it is in", "an HTML comment makes the escaper forget the element it is in: the action after <object><!-- --> is sanitized as text outside any element, so the default-deny policy for element contents is bypassed for every element")
		}
	}
	if n == 0 {
		r.Undec(rule, "template.transitionFunc[stateHTMLCmt]#comment-keeps-element", "", "no context literal for the comment state found")
	}
}

// actionStartFlags: the boolean fields of context.attr that escapeAction sets to true (the record that an action has
// written into the current attribute value).
func actionStartFlags(p *Program) []string {
	ea := p.Func("template", "(*escaper).escapeAction")
	if ea == nil {
		return nil
	}
	seen := map[string]bool{}
	var out []string
	for _, f := range actionTailFuncs(p) {
		for _, b := range f.Blocks {
			for _, in := range b.Instrs {
				st, ok := in.(*ssa.Store)
				if !ok {
					continue
				}
				fa, ok := st.Addr.(*ssa.FieldAddr)
				if !ok || !isNamed(fa.X.Type(), pkgTemplate, "attr") {
					continue
				}
				if bv, ok := constBool(st.Val); ok && bv {
					if n := fieldName(fa.X.Type(), fa.Field); !seen[n] {
						seen[n] = true
						out = append(out, n)
					}
				}
			}
		}
	}
	return out
}

// actionTailFuncs: escapeAction and the functions of the package it hands a context to (the bookkeeping after an
// action may live in a helper such as c.afterAction()).
func actionTailFuncs(p *Program) []*ssa.Function {
	ea := p.Func("template", "(*escaper).escapeAction")
	if ea == nil {
		return nil
	}
	fns := []*ssa.Function{ea}
	for i := 0; i < len(fns) && len(fns) < 8; i++ {
		for _, b := range fns[i].Blocks {
			for _, in := range b.Instrs {
				c, ok := in.(*ssa.Call)
				if !ok {
					continue
				}
				g := staticCallee(c.Common())
				if g == nil || g.Pkg != ea.Pkg || g.Blocks == nil {
					continue
				}
				takes := false
				for _, a := range c.Common().Args {
					t := a.Type()
					if pt, ok := t.Underlying().(*types.Pointer); ok {
						t = pt.Elem()
					}
					if isNamed(t, pkgTemplate, "context") || isNamed(t, pkgTemplate, "attr") {
						takes = true
					}
				}
				dup := false
				for _, h := range fns {
					if h == g {
						dup = true
					}
				}
				if takes && !dup && g.Signature.Results().Len() <= 1 && (g.Signature.Results().Len() == 0 || isNamed(g.Signature.Results().At(0).Type(), pkgTemplate, "context") || isNamed(g.Signature.Results().At(0).Type(), pkgTemplate, "attr")) {
					fns = append(fns, g)
				}
			}
		}
	}
	return fns
}

// checkTagEndTablesSeeAllNames (C04): when a tag ends, the tag function decides from name tables what the text
// that follows belongs to (an opaque body; nothing at all, for a void element, in which case the element is
// forgotten). After a join of branches that spell different element names only element.name is one name among
// several (element.names). Every name table that is consulted with element.name on the way to a store into the
// returned context must also be consulted with the other names, and the answers compared: otherwise
// {{if .C}}<object{{else}}<img{{end}}>{{.X}} is analysed as the void element and X lands, unchecked, in the content
// of an element the policy does not list.
func checkTagEndTablesSeeAllNames(p *Program, r *Report, rule string) {
	tmp := NewReport(r.Property, r.Tier, r.Seed)
	tagFn, _ := findOpaqueBodyTable(p, tmp, rule)
	if tagFn == nil {
		r.Undec(rule, "template.transitionFunc[stateTag]", "", "anchor not found")
		return
	}
	short := strings.TrimPrefix(fnName(tagFn), pkgTemplate+".")
	fromField := func(v ssa.Value, field string) bool {
		found := false
		seen := map[ssa.Value]bool{}
		var walk func(ssa.Value)
		walk = func(y ssa.Value) {
			if y == nil || seen[y] || found {
				return
			}
			seen[y] = true
			switch x := y.(type) {
			case *ssa.FieldAddr:
				if fieldName(x.X.Type(), x.Field) == field && isNamed(x.X.Type(), pkgTemplate, "element") {
					found = true
					return
				}
			case *ssa.Field:
				if fieldName(x.X.Type(), x.Field) == field && isNamed(x.X.Type(), pkgTemplate, "element") {
					found = true
					return
				}
			}
			if in, ok := y.(ssa.Instruction); ok {
				for _, op := range in.Operands(nil) {
					walk(*op)
				}
			}
		}
		walk(v)
		return found
	}
	type tableKey struct {
		g    *ssa.Global
		want string
	}
	nameTests := map[tableKey][]ssa.Value{}
	namesTests := map[tableKey][]ssa.Value{}
	var scopeBlocks []*ssa.BasicBlock
	for _, g := range opaqueScope {
		scopeBlocks = append(scopeBlocks, g.Blocks...)
	}
	for _, b := range scopeBlocks {
		for _, in := range b.Instrs {
			v, ok := in.(ssa.Value)
			if !ok {
				continue
			}
			g, want, key, ok := memberTestOf(v, 0)
			if !ok {
				continue
			}
			k := tableKey{g, ""}
			if want != nil {
				k.want = want.Value.ExactString()
			}
			if fromField(key, "names") {
				namesTests[k] = append(namesTests[k], v)
			} else if fromField(key, "name") {
				nameTests[k] = append(nameTests[k], v)
			}
		}
	}
	// the tables whose answer for element.name guards a store into a context built by the tag function
	n := 0
	for k, tests := range nameTests {
		decides := false
		for _, tv := range tests {
			in, ok := tv.(ssa.Instruction)
			if !ok {
				continue
			}
			for _, d := range in.Parent().Blocks {
				guarded := false
				for _, gd := range GuardsOf(d) {
					if gd.Cond == tv {
						guarded = true
					}
					// the test may be one operand of a compound condition: name != "" && table[name]
					if ph, ok := gd.Cond.(*ssa.Phi); ok {
						for _, e := range ph.Edges {
							if e == tv {
								guarded = true
							}
						}
					}
				}
				if !guarded {
					continue
				}
				for _, in2 := range d.Instrs {
					if st, ok := in2.(*ssa.Store); ok {
						if fa, ok := st.Addr.(*ssa.FieldAddr); ok && isNamed(fa.X.Type(), pkgTemplate, "context") {
							decides = true
						}
					}
				}
			}
		}
		if !decides {
			continue
		}
		n++
		c := fmt.Sprintf("%s#names-agree-on:%s", short, cname(k.g))
		cmp := false
		for _, b := range scopeBlocks {
			for _, in := range b.Instrs {
				bo, ok := in.(*ssa.BinOp)
				if !ok {
					continue
				}
				isIn := func(v ssa.Value, list []ssa.Value) bool {
					for _, l := range list {
						if l == v {
							return true
						}
					}
					return false
				}
				if (isIn(bo.X, namesTests[k]) && isIn(bo.Y, tests)) || (isIn(bo.Y, namesTests[k]) && isIn(bo.X, tests)) {
					cmp = true
				}
			}
		}
		// or the answer for the other names decides, next to the answer for element.name, whether the store happens
		if !cmp {
			for _, b := range scopeBlocks {
				iff, ok := b.Instrs[len(b.Instrs)-1].(*ssa.If)
				if !ok {
					continue
				}
				for _, nt := range namesTests[k] {
					if iff.Cond == nt {
						cmp = true
					}
				}
			}
		}
		r.Check(cmp, rule, c, p.Pos(tagFn.Pos()), "every name the element can have after a join is looked up in "+k.g.Name()+" as well (compared with the answer for element.name, or deciding next to it) before the end of the tag acts on it",
			"when a tag ends, "+k.g.Name()+" is consulted with element.name only; the other names the element can have after a join of branches (element.names) are never compared with it: `{{if .C}}<object{{else}}<img{{end}}>{{.X}}` is analysed as the void element, the element is forgotten, and X is accepted in the content of an element the policy does not list")
	}
	if n == 0 {
		r.Undec(rule, short+"#names-agree", p.Pos(tagFn.Pos()), "no name table decides anything at the end of a tag")
	}
}

// checkLinkRelSeesAllNames (C02): the rel values of a <link> decide whether its href takes plain URLs. They are
// recorded from the first attribute named rel. After a join of branches that spell the attribute name differently
// attr.name is one name among several (attr.names): `<link {{if .C}}title{{else}}rel{{end}}="icon" rel="stylesheet"
// href="{{.X}}">` is a stylesheet link in one branch and an icon link in the other. The function that records the
// rel values must consult attr.names on the way to the store.
func checkLinkRelSeesAllNames(p *Program, r *Report, rule string) {
	tsp := p.SSAPkg("template")
	n := 0
	for _, f := range p.SrcFuncs() {
		if f.Pkg != tsp {
			continue
		}
		var stores []*ssa.Store
		for _, st := range storesToField(f, pkgTemplate, "context", "linkRel") {
			// a computed value (not the incoming linkRel handed on, not the empty reset)
			if k, ok := constString(st.Val); ok && k == "" {
				continue
			}
			if u, ok := st.Val.(*ssa.UnOp); ok {
				if fa, ok := u.X.(*ssa.FieldAddr); ok && fieldName(fa.X.Type(), fa.Field) == "linkRel" {
					continue
				}
			}
			if fl, ok := st.Val.(*ssa.Field); ok && fieldName(fl.X.Type(), fl.Field) == "linkRel" {
				continue
			}
			stores = append(stores, st)
		}
		if len(stores) == 0 {
			continue
		}
		short := strings.TrimPrefix(fnName(f), pkgTemplate+".")
		// does the function look at attr.names at all, before the stores?
		readsNames := false
		for _, b := range f.Blocks {
			for _, in := range b.Instrs {
				var x ssa.Value
				field := -1
				switch y := in.(type) {
				case *ssa.FieldAddr:
					x, field = y.X, y.Field
				case *ssa.Field:
					x, field = y.X, y.Field
				}
				if field < 0 || !isNamed(x.Type(), pkgTemplate, "attr") || fieldName(x.Type(), field) != "names" {
					continue
				}
				for _, st := range stores {
					if b == st.Block() || blockReaches(b, st.Block()) {
						readsNames = true
					}
				}
			}
		}
		n++
		r.Check(readsNames, rule, short+"#link-rel-names", p.Pos(stores[0].Pos()), "the rel values of a link are recorded with regard to every name the attribute can have after a join",
			"the rel values of a <link> are recorded from an attribute whose name is only compared with attr.name; after a join of branches that spell the name differently (attr.names) the attribute is a rel attribute in one branch only: `<link {{if .C}}title{{else}}rel{{end}}=\"icon\" rel=\"stylesheet\" href=\"{{.X}}\">` takes a plain URL for a stylesheet")
	}
	if n == 0 {
		r.Undec(rule, "template#link-rel-recording", "", "no function records the rel values of a link")
	}
}

// checkSlashSeparatesAttributes (C02): the HTML tokenizer leaves the attribute-name state at "/" and skips it
// between attributes, so `<link/rel="stylesheet" rel="icon" href=…>` has the first rel attribute "stylesheet". The
// attribute-name scanner of the tag state must stop at "/" (or the tag function must skip it) or the escaper and the
// browser disagree about which attribute is the first rel.
func checkSlashSeparatesAttributes(p *Program, r *Report, rule string) {
	ean := p.Func("template", "eatAttrName")
	if ean == nil {
		r.Undec(rule, "template.eatAttrName", "", "anchor not found")
		return
	}
	// the byte looked at in the loop: s[j] with j the loop index
	var bv ssa.Value
	for _, b := range ean.Blocks {
		for _, in := range b.Instrs {
			switch x := in.(type) {
			case *ssa.UnOp:
				if ia, ok := x.X.(*ssa.IndexAddr); ok && ia.X == ssa.Value(ean.Params[0]) {
					if _, isPhi := ia.Index.(*ssa.Phi); isPhi && bv == nil {
						bv = x
					}
				}
			case *ssa.Index:
				if x.X == ssa.Value(ean.Params[0]) {
					if _, isPhi := x.Index.(*ssa.Phi); isPhi && bv == nil {
						bv = x
					}
				}
			}
		}
	}
	if bv == nil {
		r.Undec(rule, "template.eatAttrName#scan", p.Pos(ean.Pos()), "the byte the attribute-name scanner looks at was not found")
		return
	}
	start := bv.(ssa.Instruction).Block()
	hs := loopHeaders(ean)
	if len(hs) != 1 {
		r.Undec(rule, "template.eatAttrName#scan", p.Pos(ean.Pos()), "the attribute-name scanner is not a single loop")
		return
	}
	header := hs[0]
	leaves := decisionTable(start, dtConfig{Var: bv, Dom: byteDomain(), Leaf: func(b *ssa.BasicBlock) (string, bool) {
		if b != start && b == header {
			return "goes-on", true
		}
		for _, su := range b.Succs {
			if su == header && b != start {
				return "goes-on", true
			}
		}
		return "", false
	}})
	goesOn := effectSet(leaves, "goes-on", nil)
	for _, u := range undecidedLeaves(leaves) {
		r.Undec(rule, "template.eatAttrName#scan", p.Pos(ean.Pos()), u)
	}
	slashGoesOn := goesOn.Contains('/')
	// the tag function may skip the slash itself before it looks for a name
	skips := false
	tmp := NewReport(r.Property, r.Tier, r.Seed)
	if tagFn, _ := findOpaqueBodyTable(p, tmp, rule); tagFn != nil {
		for _, b := range tagFn.Blocks {
			for _, in := range b.Instrs {
				if bo, ok := in.(*ssa.BinOp); ok {
					if k, ok := constInt(bo.Y); ok && k == '/' {
						skips = true
					}
				}
			}
		}
	}
	r.Check(!slashGoesOn || skips, rule, "template.eatAttrName#slash-ends-name", p.Pos(ean.Pos()), "a '/' does not become part of an attribute name",
		"the attribute-name scanner reads '/' as part of the name: `<link/rel=\"stylesheet\" rel=\"icon\" href=\"{{.X}}\">` is analysed as having an attribute \"/rel\" and the first rel attribute \"icon\", while the browser skips the slash and takes rel=\"stylesheet\": a plain URL is accepted as the href of a stylesheet link")
}
