package main

import (
	"fmt"
	"math/rand"
	"regexp"
	"strings"

	"safecheck/relang"
)

// engineConsistency (thorough tier): for every regular-expression constant of
// the repository, the DFA built by relang is compared with package regexp on
// random strings over the pattern's own alphabet classes (plus a few fixed
// troublemakers). This exercises the checker's model of Go regexps against the
// installed standard library; it runs no repository code. A disagreement makes
// every language obligation untrustworthy and is reported as undecided.
func engineConsistency(p *Program, r *Report, rule string, only func(name string) bool) {
	if r.Tier != "thorough" {
		return
	}
	regs, _ := p.AllRegexes()
	rng := rand.New(rand.NewSource(r.Seed + 1))
	for _, name := range sortedKeys(regs) {
		if only != nil && !only(name) {
			continue
		}
		rc := regs[name]
		re, err := relang.Parse(rc.Src)
		if err != nil {
			r.Undec(rule, "engine:"+name, p.Pos(rc.Pos), err.Error())
			continue
		}
		b := relang.NewBuilder()
		for _, s := range re.Sets() {
			b.AddSet(s)
		}
		a := b.Build()
		d := re.Compile(a, relang.Search)
		gre, err := regexp.Compile(rc.Src)
		if err != nil {
			r.Undec(rule, "engine:"+name, p.Pos(rc.Pos), err.Error())
			continue
		}
		var syms []string
		for c := 0; c < a.N(); c++ {
			if !a.Impossible[c] {
				syms = append(syms, string(a.Bytes([]int{c})))
			}
		}
		syms = append(syms, "ſ", "K", "\n", "\xff", "İ", "\x00", " ", "a", "Z", "0", "%", "&", ":", "/", ".")
		const N = 4000
		bad := ""
		for i := 0; i < N && bad == ""; i++ {
			var sb strings.Builder
			for k := rng.Intn(9); k > 0; k-- {
				sb.WriteString(syms[rng.Intn(len(syms))])
			}
			s := sb.String()
			if d.Accepts(s) != gre.MatchString(s) {
				bad = fmt.Sprintf("%+q", s)
			}
		}
		if bad == "" {
			r.OK(rule, "engine:"+name, p.Pos(rc.Pos), fmt.Sprintf("relang's automaton agrees with package regexp on %d random strings over the pattern's alphabet classes", N))
		} else {
			r.Undec(rule, "engine:"+name, p.Pos(rc.Pos), "relang's automaton disagrees with package regexp on "+bad)
		}
	}
}
