package main

import (
	"fmt"
	"os"
)

func init() {
	register("DBGPATHS", "other", func(p *Program, r *Report) {
		fn := p.Func(os.Getenv("DBG_PKG"), os.Getenv("DBG_FN"))
		if fn == nil {
			fmt.Println("not found")
			return
		}
		pe := newPathExplorer(p, fn)
		pe.Inline = true
		for _, pth := range pe.Paths() {
			fmt.Printf("%s => %T\n   %s\n", shortPath(pth), pth.End(), pth.String())
		}
	})
}
