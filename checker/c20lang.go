package main

import (
	"fmt"
	"os"

	"safecheck/relang"

	"golang.org/x/tools/go/ssa"
)

// runC20 first applies the rules written for the current spelling; when they do not recognise the code the
// same clauses are decided on the result: with the dynamic parts replaced by placeholders, every non-empty
// result is one path join whose last element is exactly the filename and whose other elements do not depend on
// it, and the filename is written only under conditions that exclude separators and "..".
func runC20(p *Program, r *Report) {
	shape := NewReport("C20", r.Tier, r.Seed)
	runC20Shape(p, shape)
	if !reportFails(shape) && os.Getenv("C20_FORCE_LANG") == "" {
		lang := NewReport("C20", r.Tier, r.Seed)
		c20ByLanguage(p, lang)
		crossCheck(shape, lang)
		mergeReport(r, shape)
		return
	}
	lang := NewReport("C20", r.Tier, r.Seed)
	if c20ByLanguage(p, lang) && !reportFails(lang) {
		mergeReport(r, lang)
		return
	}
	if os.Getenv("C20_FORCE_LANG") != "" {
		for _, o := range lang.Obls {
			fmt.Printf("LANG %s %s %s: %s %s\n", o.Status, o.Rule, o.Construct, o.Detail, o.Witness)
		}
	}
	mergeReport(r, shape)
}

func c20ByLanguage(p *Program, r *Report) bool {
	r.Trusted = []string{"go/types + go/ssa", "lemma (paper): if the last element contains no path separator then Clean(Join(d, s, f)) is Clean(Join(d, s)) (f ∈ {\"\", \".\"}), its parent (only f = \"..\"), or a direct child", "path/filepath.Join joins with Separator and cleans", "the String accessor of a safe type returns its content (C19)"}
	r.NotDecided = []string{"GOOS=windows, where '/' is a second separator (observation O2)"}
	r.Explain = "Decided on the result: every returned TrustedSource is the zero value or one filepath.Join whose last element is exactly the dynamic filename and whose other elements do not derive from it (helpers, methods on local structs and named results are followed); the conditions under which the filename is written into the result, as a regular language, exclude the path and list separators and \"..\"."
	r.Min("C20.R1", 1)
	r.Min("C20.R2", 1)
	const cname = "template.TrustedSourceFromConstantDir"
	fn := p.Func("template", "TrustedSourceFromConstantDir")
	if fn == nil {
		r.Undec("C20.R1", cname, "", "anchor not found")
		return false
	}
	fnIdx := -1
	for i, prm := range fn.Params {
		if isStringish(prm.Type()) && !isNamed(prm.Type(), modulePath+"/template", "stringConstant") {
			fnIdx = i
		}
	}
	if fnIdx < 0 {
		r.Undec("C20.R1", cname, p.Pos(fn.Pos()), "dynamic filename parameter not found")
		return false
	}
	regs, _ := p.AllRegexes()
	s := NewSummarizer(p, regs)
	oe := newOutEval(p, s)
	oe.Markers = true
	fr := oe.topFrame(fn)
	var alts []*lx
	for _, ret := range Returns(fn) {
		if len(ret.Results) == 2 && certainlyNonNil(ret.Results[1], ret.Block()) {
			// an error return: the zero value
			r.Check(zeroResultAt(ret, 0), "C20.R1", fmt.Sprintf("%s#error-return@%s", cname, p.Pos(ret.Pos())), p.Pos(ret.Pos()), "error path returns the zero TrustedSource", "an error return carries a non-zero TrustedSource")
			continue
		}
		if _, isErrCall := ret.Results[1].(*ssa.Call); isErrCall && provenError(ret.Results[1]) {
			r.Check(zeroResultAt(ret, 0), "C20.R1", fmt.Sprintf("%s#error-return@%s", cname, p.Pos(ret.Pos())), p.Pos(ret.Pos()), "error path returns the zero TrustedSource", "an error return carries a non-zero TrustedSource")
			continue
		}
		alts = append(alts, oe.strLx(ret.Results[0], ret.Block(), fr))
	}
	if len(alts) == 0 {
		r.Undec("C20.R1", cname, p.Pos(fn.Pos()), "no return that can carry a result")
		return false
	}
	x := lxAlt(alts...)
	pos := p.Pos(fn.Pos())
	fm := string(markerRune(Term{Param: fnIdx}.Key()))
	d, L, err := oe.Language(x, func(L *Lang) {
		L.AddString(fm + string([]rune{joinOpen, joinSep, joinClose}))
	})
	if err != nil {
		r.Undec("C20.R1", cname+"#join", pos, "the result could not be evaluated: "+err.Error())
		return false
	}
	if len(oe.Problems) > 0 || lxHasAny(x) {
		why := "Σ*"
		if len(oe.Problems) > 0 {
			why = oe.Problems[0]
		}
		r.Undec("C20.R1", cname+"#join", pos, "the result is built in a way the evaluator cannot follow ("+why+"): "+trunc(x.String(), 200))
		return false
	}
	// ⟦ (no filename, no brackets)* ‖ … ‖ filename ⟧   or the zero value
	all := L.All()
	lit := func(s string) *relang.DFA { return relang.Literal(L.A, s) }
	special := relang.Union(relang.Union(lit(fm), lit(string(joinOpen))), relang.Union(lit(string(joinClose)), lit(string(joinSep))))
	hasSpecial := relang.Concat(relang.Concat(all, special), all)
	plain := relang.Minus(all, hasSpecial) // an element without filename and without join symbols
	elems := relang.Star(relang.Concat(plain, lit(string(joinSep))))
	want := relang.Union(lit(""), relang.Concat(relang.Concat(relang.Concat(lit(string(joinOpen)), elems), lit(fm)), lit(string(joinClose)))).Minimize()
	if ok, w := relang.Subset(d, want); ok {
		r.OK("C20.R1", cname+"#join", pos, "every result "+trunc(x.String(), 160)+" is the zero value or one Join(…, filename) with the dynamic filename as last element and nowhere else")
	} else {
		r.Viol("C20.R1", cname+"#join", pos, "a result is not filepath.Join(…, filename) with the filename last and only there: "+trunc(x.String(), 200), w)
	}
	// R2: the conditions under which the filename is written
	forms := oe.termForms[Term{Param: fnIdx}.Key()]
	if len(forms) == 0 {
		r.Viol("C20.R2", cname+"#guards", pos, "the filename is never written under a condition", "")
		return true
	}
	sep, ok1 := stdConstRune(p, "path/filepath", "Separator")
	lsep, ok2 := stdConstRune(p, "path/filepath", "ListSeparator")
	osSep, ok3 := stdConstRune(p, "os", "PathSeparator")
	if !ok1 || !ok2 || !ok3 {
		r.Undec("C20.R2", cname+"#separators", "", "separator constants of the target not found")
		return true
	}
	f := fOr(forms...)
	L2 := NewLang()
	if err := registerSumm(L2, s, f); err != nil {
		r.Undec("C20.R2", cname+"#guards", pos, err.Error())
		return true
	}
	seps := relang.SetOfRunes(sep, lsep, osSep)
	L2.AddSet(seps)
	L2.AddString("..")
	L2.Build()
	per, _ := splitByParam(f)
	g := per[Term{Param: fnIdx}.Key()]
	if g == nil {
		r.Viol("C20.R2", cname+"#guards", pos, "no guard on the filename holds where it is joined", "")
		return true
	}
	dg, amb, err := L2.Eval(g)
	if err != nil || len(amb) > 0 {
		r.Undec("C20.R2", cname+"#guards", pos, fmt.Sprintf("%v %v", err, amb))
		return true
	}
	forbidden := relang.Union(relang.ContainsSym(L2.A, seps), relang.Literal(L2.A, ".."))
	if ok, w := relang.Disjoint(dg, forbidden); ok {
		r.OK("C20.R2", cname+"#guards", pos, fmt.Sprintf("accepted filenames %s contain none of %q %q and are not \"..\"", trunc(g.String(), 200), sep, lsep))
	} else if len(s.Inexact) > 0 {
		r.Undec("C20.R2", cname+"#guards", pos, "a guard on the way could not be modelled ("+s.Inexact[0]+"); with the remaining ones a forbidden filename would pass")
	} else {
		r.Viol("C20.R2", cname+"#guards", pos, fmt.Sprintf("a filename that contains a separator (%q, %q) or equals \"..\" reaches the Join; guards: %s", sep, lsep, trunc(g.String(), 200)), w)
	}
	r.Analysed["separators"] = fmt.Sprintf("%q %q (GOOS=%s)", sep, lsep, p.GOOS)
	return true
}
