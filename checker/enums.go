package main

import (
	"go/token"

	"golang.org/x/tools/go/ssa"
)

// enumSanitizer recognises the membership shape: input := Stringify(args...);
// if set[input] { return input, nil }; return "", error. Returns the global
// set variable.
func enumSanitizerSet(f *ssa.Function) (*ssa.Global, bool) {
	if f == nil || f.Blocks == nil {
		return nil, false
	}
	var set *ssa.Global
	okShape := true
	nOK := 0
	for _, ret := range Returns(f) {
		if len(ret.Results) != 2 {
			return nil, false
		}
		if k, ok := ret.Results[1].(*ssa.Const); ok && k.Value == nil {
			// success: must return the stringified input under set[input]
			in, ok := isCallTo(ret.Results[0], pkgUtil+".Stringify")
			if !ok || in.Common().Args[0] != ssa.Value(f.Params[0]) {
				okShape = false
				continue
			}
			found := false
			for _, g := range GuardsOf(ret.Block()) {
				if lk, ok := g.Cond.(*ssa.Lookup); ok && g.Pol && !lk.CommaOk && lk.Index == ssa.Value(in) {
					if u, ok := lk.X.(*ssa.UnOp); ok && u.Op == token.MUL {
						if gl, ok := u.X.(*ssa.Global); ok {
							set = gl
							found = true
						}
					}
				}
			}
			if !found {
				okShape = false
			}
			nOK++
		} else if k, ok := constString(ret.Results[0]); !ok || k != "" {
			okShape = false
		}
	}
	return set, okShape && nOK >= 1 && set != nil
}

// enumValueSets: context display name -> allowed words, for every context
// whose sanitizer has the membership shape.
func enumValueSets(p *Program, pl *Policy) map[string][]string {
	out := map[string][]string{}
	for v, inf := range pl.Info {
		f := pl.SanitizerFunc(v)
		g, ok := enumSanitizerSet(f)
		if !ok {
			continue
		}
		lit, err := p.VarLit("template", g.Name())
		if err != nil {
			continue
		}
		set, err := lit.StringBoolSet()
		if err != nil {
			continue
		}
		out[inf.Name] = sortedKeys(set)
	}
	return out
}
