package main

import (
	"go/token"
	"go/types"
	"sort"

	"golang.org/x/tools/go/ssa"

	"safecheck/relang"
)

// enumSanitizer recognises the membership shape: input := Stringify(args...);
// if set[input] { return input, nil }; return "", error. Returns the global
// set variable.
func enumSanitizerSet(f *ssa.Function) (*ssa.Global, bool) {
	if f == nil || f.Blocks == nil {
		return nil, false
	}
	var set *ssa.Global
	okShape := true
	nOK := 0
	for _, ret := range Returns(f) {
		if len(ret.Results) != 2 {
			return nil, false
		}
		if k, ok := ret.Results[1].(*ssa.Const); ok && k.Value == nil {
			// success: must return the stringified input under set[input]
			in, ok := isCallTo(ret.Results[0], pkgUtil+".Stringify")
			if !ok || in.Common().Args[0] != ssa.Value(f.Params[0]) {
				okShape = false
				continue
			}
			found := false
			for _, g := range GuardsOf(ret.Block()) {
				if lk, ok := g.Cond.(*ssa.Lookup); ok && g.Pol && !lk.CommaOk && lk.Index == ssa.Value(in) {
					if u, ok := lk.X.(*ssa.UnOp); ok && u.Op == token.MUL {
						if gl, ok := u.X.(*ssa.Global); ok {
							set = gl
							found = true
						}
					}
				}
			}
			if !found {
				okShape = false
			}
			nOK++
		} else if k, ok := constString(ret.Results[0]); !ok || k != "" {
			okShape = false
		}
	}
	return set, okShape && nOK >= 1 && set != nil
}

// enumValueSets: context display name -> allowed words, for every context
// whose sanitizer has the membership shape.
func enumValueSets(p *Program, pl *Policy) map[string][]string {
	out := map[string][]string{}
	for v, inf := range pl.Info {
		f := pl.SanitizerFunc(v)
		g, ok := enumSanitizerSet(f)
		if !ok {
			// not the map-lookup spelling: decide by language
			if words, ok := enumWordsOf(p, f); ok {
				out[inf.Name] = words
			}
			continue
		}
		lit, err := p.VarLit("template", cname(g))
		if err != nil {
			continue
		}
		set, err := lit.StringBoolSet()
		if err != nil {
			continue
		}
		out[inf.Name] = sortedKeys(set)
	}
	return out
}

// enumWordsOf decides, by language, whether a sanitizer func(args ...interface{}) (string, error)
// returns its stringified input unchanged exactly when the input is one of finitely many words
// (whatever the spelling: a map lookup, ==, a switch). It returns the words.
func enumWordsOf(p *Program, f *ssa.Function) ([]string, bool) {
	if f == nil || f.Blocks == nil || len(f.Params) != 1 || f.Signature.Results().Len() != 2 {
		return nil, false
	}
	regs, _ := p.AllRegexes()
	s := NewSummarizer(p, regs)
	env := termEnv{f.Params[0]: Term{Param: 0}}
	n := 0
	for _, ret := range Returns(f) {
		if k, ok := ret.Results[1].(*ssa.Const); ok && k.Value == nil {
			t, ok := s.termOf(ret.Results[0], env)
			if !ok || t != (Term{Param: 0}) {
				return nil, false // a success return that is not the input itself
			}
			n++
		}
	}
	if n == 0 {
		return nil, false
	}
	cond := s.NilResultForm(f, 1, env)
	if u, _ := cond.HasUnknown(); u || len(s.Inexact) > 0 {
		return nil, false
	}
	L := NewLang()
	if err := registerSumm(L, s, cond); err != nil {
		return nil, false
	}
	L.Build()
	d, amb, err := L.Eval(cond)
	if err != nil || len(amb) > 0 || L.Overapprox {
		return nil, false
	}
	return finiteLanguage(d.Minimize(), 64)
}

// finiteLanguage enumerates the accepted strings of d if there are at most max of them.
func finiteLanguage(d *relang.DFA, max int) ([]string, bool) {
	n := len(d.Trans)
	// co-reachable states
	co := make([]bool, n)
	changed := true
	for q := 0; q < n; q++ {
		co[q] = d.Acc[q]
	}
	for changed {
		changed = false
		for q := 0; q < n; q++ {
			if co[q] {
				continue
			}
			for _, t := range d.Trans[q] {
				if co[t] {
					co[q] = true
					changed = true
					break
				}
			}
		}
	}
	var out []string
	onPath := make([]bool, n)
	infinite := false
	var walk func(q int, word []int)
	walk = func(q int, word []int) {
		if infinite || len(out) > max {
			return
		}
		if !co[q] {
			return
		}
		if onPath[q] {
			infinite = true
			return
		}
		if d.Acc[q] {
			out = append(out, string(d.A.Bytes(word)))
		}
		onPath[q] = true
		for c, t := range d.Trans[q] {
			if d.A.Impossible[c] {
				continue
			}
			if co[t] {
				// the class must be a single symbol for the word to be exact
				walk(int(t), append(append([]int{}, word...), c))
			}
		}
		onPath[q] = false
	}
	walk(d.Start, nil)
	if infinite || len(out) > max {
		return nil, false
	}
	sort.Strings(out)
	return out, true
}

var _ types.Type
