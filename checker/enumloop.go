package main

// Loops over constant collections. A loop
//
//	for _, check := range checks { if err := check(x); err != nil { return err } }
//	for _, sep := range []string{"/", "\\"} { if strings.Contains(x, sep) { … } }
//	for i := 0; i < len(table); i++ { … table[i].pattern … }
//
// whose collection is a literal of the function or a package-level variable that only its
// initialiser writes is not a loop as far as the conditions on x are concerned: it is the
// sequence of its bodies, one per element. Guard summaries unroll it: the condition of
// leaving the loop normally is the conjunction, over the elements, of the conditions under
// which the body goes round again; the condition of leaving it early along an edge is the
// disjunction over the elements k of "the first k bodies went round and the k-th takes the
// edge". While a body is evaluated for element k, the SSA values that hold the current
// element (or a field of it) are bound to the k-th constant.

import (
	"fmt"
	"go/constant"
	"go/token"
	"go/types"
	"os"

	"golang.org/x/tools/go/ssa"
)

type enumElem struct {
	Val    ssa.Value
	Fields map[int]ssa.Value
}

type enumLoop struct {
	Header *ssa.BasicBlock
	Body   *ssa.BasicBlock
	Exit   *ssa.BasicBlock
	Blocks map[*ssa.BasicBlock]bool
	Elems  []enumElem
	// Cur: values inside the loop that hold the current element (field -1) or one of its fields
	Cur map[ssa.Value]int
	// Idx: values inside the loop that hold the current index
	Idx []ssa.Value
	// ParamDependent: the collection was found through the binding of a parameter at one call site
	ParamDependent bool
}

// elemBind binds, while one iteration of an unrolled loop is evaluated, element-valued SSA values to constants.
var elemBind map[ssa.Value]ssa.Value

func boundElem(v ssa.Value) ssa.Value {
	for i := 0; i < 4 && elemBind != nil; i++ {
		w, ok := elemBind[v]
		if !ok {
			break
		}
		v = w
	}
	return v
}

const maxEnumElems = 24

// enumLoopAt recognises a loop over a constant collection with header h.
func enumLoopAt(p *Program, fn *ssa.Function, h *ssa.BasicBlock, s *Summarizer) *enumLoop {
	if len(h.Instrs) == 0 || len(h.Succs) != 2 {
		return enumDbg(1)
	}
	iff, ok := h.Instrs[len(h.Instrs)-1].(*ssa.If)
	if !ok {
		return enumDbg(2)
	}
	cmp, ok := iff.Cond.(*ssa.BinOp)
	if !ok || cmp.Op != token.LSS {
		return enumDbg(3)
	}
	in := loopBlocks(h)
	if !in[h.Succs[0]] || in[h.Succs[1]] {
		return enumDbg(4)
	}
	// no nested loops
	for b := range in {
		if b == h {
			continue
		}
		for _, su := range b.Succs {
			if su != h && su.Dominates(b) && in[su] {
				return enumDbg(5)
			}
		}
	}
	// the index: a header phi starting at 0 and stepping by 1 (compared directly), or starting at -1 with the
	// incremented value compared (the form range loops take)
	var idx ssa.Value
	isStep := func(v ssa.Value, phi *ssa.Phi) bool {
		bo, ok := v.(*ssa.BinOp)
		if !ok || bo.Op != token.ADD || bo.X != ssa.Value(phi) {
			return false
		}
		k, ok := constInt(bo.Y)
		return ok && k == 1
	}
	phiOK := func(phi *ssa.Phi, start int64) bool {
		if phi.Block() != h || len(phi.Edges) != len(h.Preds) {
			return false
		}
		for i, e := range phi.Edges {
			if in[h.Preds[i]] {
				if !isStep(e, phi) {
					return false
				}
			} else if k, ok := constInt(e); !ok || k != start {
				return false
			}
		}
		return true
	}
	var idxVals []ssa.Value
	switch x := cmp.X.(type) {
	case *ssa.Phi:
		if !phiOK(x, 0) {
			return enumDbg(6)
		}
		idx = x
	case *ssa.BinOp:
		phi, ok := x.X.(*ssa.Phi)
		if !ok || !isStep(x, phi) || !phiOK(phi, -1) || x.Block() != h {
			return enumDbg(7)
		}
		idx = x
	default:
		return enumDbg(8)
	}
	idxVals = append(idxVals, idx)
	// nothing else is carried round the loop
	for _, ins := range h.Instrs {
		if phi, ok := ins.(*ssa.Phi); ok && ssa.Value(phi) != idx {
			if bo, isBo := idx.(*ssa.BinOp); !isBo || bo.X != ssa.Value(phi) {
				return nil
			}
		}
	}
	// the bound: a constant or the length of the collection
	var coll ssa.Value
	var n int64 = -1
	if k, ok := constInt(cmp.Y); ok {
		n = k
	} else if c, ok := isLenOf(cmp.Y); ok {
		coll = c
	} else {
		return enumDbg(9)
	}
	l := &enumLoop{Header: h, Body: h.Succs[0], Exit: h.Succs[1], Blocks: in, Cur: map[ssa.Value]int{}, Idx: idxVals}
	// uses of the collection inside the loop
	sameColl := func(v ssa.Value) bool {
		if coll == nil {
			return false
		}
		if v == coll {
			return true
		}
		// two loads of one package-level variable
		a, ok1 := v.(*ssa.UnOp)
		b, ok2 := coll.(*ssa.UnOp)
		return ok1 && ok2 && a.Op == token.MUL && b.Op == token.MUL && a.X == b.X && isGlobal(a.X)
	}
	for b := range in {
		for _, ins := range b.Instrs {
			if ix, ok := ins.(*ssa.Index); ok && ix.Index == idx {
				// an element of an array value (range over a copy of a package-level array)
				if coll == nil {
					coll = ix.X
				} else if !sameColl(ix.X) {
					return enumDbg(10)
				}
				l.Cur[ix] = -1
				for _, rr := range *ix.Referrers() {
					if f, ok := rr.(*ssa.Field); ok {
						l.Cur[f] = f.Field
					}
				}
				continue
			}
			ia, ok := ins.(*ssa.IndexAddr)
			if !ok || ia.Index != idx {
				continue
			}
			if coll == nil {
				coll = ia.X
			} else if !sameColl(ia.X) {
				// indexing another collection with the loop index: only arrays/slices of the same constant kind
				// would be fine; not followed
				return enumDbg(11)
			}
			for _, ref := range *ia.Referrers() {
				switch r := ref.(type) {
				case *ssa.UnOp:
					if r.Op != token.MUL {
						return enumDbg(12)
					}
					l.Cur[r] = -1
					for _, rr := range *r.Referrers() {
						if f, ok := rr.(*ssa.Field); ok {
							l.Cur[f] = f.Field
						}
						// the element copied into the loop variable, whose fields are then read
						if st, ok := rr.(*ssa.Store); ok && st.Val == ssa.Value(r) {
							al, isLocal := st.Addr.(*ssa.Alloc)
							if !isLocal || singleStoreLoose(al) != st || !onlyFieldReads(al) {
								continue
							}
							for _, ar := range *al.Referrers() {
								switch q := ar.(type) {
								case *ssa.FieldAddr:
									for _, r3 := range *q.Referrers() {
										if ld, ok := r3.(*ssa.UnOp); ok && ld.Op == token.MUL && in[ld.Block()] {
											l.Cur[ld] = q.Field
										}
									}
								case *ssa.UnOp:
									if q.Op == token.MUL && in[q.Block()] {
										l.Cur[q] = -1
									}
								}
							}
						}
					}
				case *ssa.FieldAddr:
					for _, rr := range *r.Referrers() {
						ld, ok := rr.(*ssa.UnOp)
						if !ok || ld.Op != token.MUL {
							return enumDbg(13) // a write into the table
						}
						l.Cur[ld] = r.Field
					}
				default:
					return enumDbg(14)
				}
			}
		}
	}
	if coll == nil {
		return enumDbg(15)
	}
	elems, ok := constElems(p, fn, coll)
	if !ok && s != nil {
		// a field of a package-level struct that a parameter of fn stands for at this call
		if init, ok2 := s.boundStructField(coll); ok2 {
			elems, ok = constElems(p, fn, init)
			l.ParamDependent = true
		}
	}
	if !ok || len(elems) == 0 || len(elems) > maxEnumElems || (n >= 0 && int(n) != len(elems)) {
		return enumDbg(16)
	}
	l.Elems = elems
	return l
}

func isGlobal(v ssa.Value) bool { _, ok := v.(*ssa.Global); return ok }

// constElems: the elements of a collection that is a literal of fn or a package-level variable written only by
// its initialiser.
func constElems(p *Program, fn *ssa.Function, coll ssa.Value) ([]enumElem, bool) {
	switch x := coll.(type) {
	case *ssa.Slice:
		al, ok := x.X.(*ssa.Alloc)
		if !ok || x.Low != nil || x.High != nil {
			return nil, false
		}
		return literalElems(al, nil)
	case *ssa.Alloc:
		return literalElems(x, nil)
	case *ssa.UnOp:
		if x.Op != token.MUL {
			return nil, false
		}
		switch y := x.X.(type) {
		case *ssa.Global:
			return globalElems(p, y)
		case *ssa.Alloc:
			// a local variable holding the literal: one store
			if st := singleStoreLoose(y); st != nil {
				return constElems(p, fn, st.Val)
			}
		}
	case *ssa.Global:
		return globalElems(p, x)
	}
	return nil, false
}

// literalElems reads the stores that fill the backing array al of a composite literal. only, if given, restricts
// the accepted stores to one function (the package initialiser).
func literalElems(al ssa.Value, only *ssa.Function) ([]enumElem, bool) {
	pt, ok := al.Type().Underlying().(*types.Pointer)
	if !ok {
		return nil, enumDbg2(101)
	}
	arr, ok := pt.Elem().Underlying().(*types.Array)
	if !ok || arr.Len() > maxEnumElems {
		return nil, enumDbg2(102)
	}
	out := make([]enumElem, arr.Len())
	okElem := constElemOK
	refs := al.Referrers()
	if refs == nil {
		return nil, enumDbg2(103)
	}
	for _, ref := range *refs {
		switch r := ref.(type) {
		case *ssa.IndexAddr:
			k, isConst := constInt(r.Index)
			if !isConst {
				// read accesses with a variable index are the loops we are looking for
				for _, rr := range *r.Referrers() {
					switch q := rr.(type) {
					case *ssa.UnOp:
					case *ssa.FieldAddr:
						for _, r3 := range *q.Referrers() {
							if _, isLoad := r3.(*ssa.UnOp); !isLoad {
								return nil, enumDbg2(104)
							}
						}
					default:
						return nil, enumDbg2(105)
					}
				}
				continue
			}
			if k < 0 || k >= arr.Len() {
				return nil, enumDbg2(106)
			}
			for _, rr := range *r.Referrers() {
				switch q := rr.(type) {
				case *ssa.Store:
					if q.Addr != ssa.Value(r) || out[k].Val != nil || !okElem(q.Val) || (only != nil && q.Parent() != only) {
						return nil, enumDbg2(107)
					}
					out[k].Val = q.Val
				case *ssa.FieldAddr:
					for _, r3 := range *q.Referrers() {
						st, ok := r3.(*ssa.Store)
						if !ok || st.Addr != ssa.Value(q) || !okElem(st.Val) || (only != nil && st.Parent() != only) {
							return nil, enumDbg2(108)
						}
						if out[k].Fields == nil {
							out[k].Fields = map[int]ssa.Value{}
						}
						if _, dup := out[k].Fields[q.Field]; dup {
							return nil, enumDbg2(109)
						}
						out[k].Fields[q.Field] = st.Val
					}
				case *ssa.UnOp:
				default:
					return nil, enumDbg2(110)
				}
			}
		case *ssa.Slice:
			// the slice may be read (len, range, index) and stored into the variable; it must not be handed on
			for _, rr := range *r.Referrers() {
				switch q := rr.(type) {
				case *ssa.IndexAddr:
					for _, r3 := range *q.Referrers() {
						switch q3 := r3.(type) {
						case *ssa.UnOp:
						case *ssa.FieldAddr:
							for _, r4 := range *q3.Referrers() {
								if _, isLoad := r4.(*ssa.UnOp); !isLoad {
									return nil, enumDbg2(111)
								}
							}
						default:
							return nil, enumDbg2(112)
						}
					}
				case *ssa.Call:
					if _, isLen := isLenOf(q); !isLen {
						return nil, enumDbg2(113)
					}
				case *ssa.Store:
					if q.Val != ssa.Value(r) {
						return nil, enumDbg2(114)
					}
				case *ssa.DebugRef:
				default:
					return nil, enumDbg2(115)
				}
			}
		case *ssa.DebugRef:
		case *ssa.UnOp:
			// the whole array is read (copied into the variable, ranged over)
			if r.Op != token.MUL {
				return nil, enumDbg2(116)
			}
		default:
			return nil, enumDbg2(117)
		}
	}
	elemT := arr.Elem().Underlying()
	_, isStruct := elemT.(*types.Struct)
	for i := range out {
		if out[i].Val == nil && !isStruct {
			return nil, enumDbg2(118) // an element left at its zero value: not a table we can enumerate safely
		}
	}
	return out, true
}

// constElemOK: v is a value an element of a constant collection may have.
func constElemOK(v ssa.Value) bool {
	for {
		switch y := v.(type) {
		case *ssa.ChangeType:
			v = y.X
			continue
		case *ssa.Convert:
			v = y.X
			continue
		case *ssa.MakeInterface:
			v = y.X
			continue
		}
		break
	}
	switch y := v.(type) {
	case *ssa.Const, *ssa.Function:
		return true
	case *ssa.MakeClosure:
		return len(y.Bindings) == 0
	case *ssa.UnOp:
		// a load of a package-level variable (a compiled pattern, a table): resolved by its users
		_, isG := y.X.(*ssa.Global)
		return y.Op == token.MUL && isG
	case *ssa.Call:
		// a pattern compiled in place from a constant: resolved by its users
		if f := y.Common().StaticCallee(); f != nil && f.Pkg != nil && f.Pkg.Pkg.Path() == "regexp" && len(y.Common().Args) == 1 {
			_, isConst := y.Common().Args[0].(*ssa.Const)
			return isConst
		}
	}
	return false
}

var globalElemsCache = map[*ssa.Global]*[]enumElem{}

// globalElems: the elements of a package-level slice or array that only its package initialiser fills and that
// nothing else in the module writes.
func globalElems(p *Program, g *ssa.Global) ([]enumElem, bool) {
	if c, ok := globalElemsCache[g]; ok {
		if c == nil {
			return nil, enumDbg2(119)
		}
		return *c, true
	}
	globalElemsCache[g] = nil
	if g.Pkg == nil {
		return nil, enumDbg2(120)
	}
	initFn := g.Pkg.Func("init")
	if initFn == nil {
		return nil, enumDbg2(121)
	}
	// writers of g anywhere in the module
	var backing ssa.Value
	direct := false
	var directElems map[int64]*enumElem
	for _, fn := range p.SrcFuncs() {
		for _, b := range fn.Blocks {
			for _, ins := range b.Instrs {
				switch x := ins.(type) {
				case *ssa.Store:
					if x.Addr == ssa.Value(g) {
						if fn != initFn || backing != nil {
							return nil, enumDbg2(122)
						}
						switch y := x.Val.(type) {
						case *ssa.Slice:
							if y.Low != nil || y.High != nil {
								return nil, enumDbg2(123)
							}
							backing = y.X
						case *ssa.UnOp:
							// an array variable: the literal is built in a local and copied
							al, ok := y.X.(*ssa.Alloc)
							if !ok || y.Op != token.MUL {
								return nil, enumDbg2(124)
							}
							backing = al
						default:
							return nil, enumDbg2(125)
						}
					}
				case *ssa.IndexAddr:
					base := x.X
					if u, ok := base.(*ssa.UnOp); ok && u.Op == token.MUL {
						base = u.X
					}
					if base != ssa.Value(g) {
						continue
					}
					for _, rr := range *x.Referrers() {
						switch q := rr.(type) {
						case *ssa.Store:
							if q.Addr == ssa.Value(x) {
								k, isConst := constInt(x.Index)
								if fn != initFn || !isConst {
									return nil, enumDbg2(126)
								}
								direct = true
								if directElems == nil {
									directElems = map[int64]*enumElem{}
								}
								if directElems[k] != nil {
									return nil, enumDbg2(130)
								}
								directElems[k] = &enumElem{Val: q.Val}
							}
						case *ssa.FieldAddr:
							for _, r3 := range *q.Referrers() {
								if st, ok := r3.(*ssa.Store); ok && st.Addr == ssa.Value(q) {
									k, isConst := constInt(x.Index)
									if fn != initFn || !isConst {
										return nil, enumDbg2(127)
									}
									direct = true
									if directElems == nil {
										directElems = map[int64]*enumElem{}
									}
									if directElems[k] == nil {
										directElems[k] = &enumElem{Fields: map[int]ssa.Value{}}
									}
									if directElems[k].Fields == nil {
										return nil, enumDbg2(131)
									}
									if _, dup := directElems[k].Fields[q.Field]; dup {
										return nil, enumDbg2(132)
									}
									directElems[k].Fields[q.Field] = st.Val
								}
							}
						}
					}
				case *ssa.Call:
					// the address of the variable handed to a function
					for _, a := range x.Common().Args {
						if a == ssa.Value(g) {
							return nil, enumDbg2(128)
						}
					}
				}
			}
		}
	}
	var elems []enumElem
	var ok bool
	if os.Getenv("ENUM_DEBUG") != "" {
		fmt.Println("globalElems", g.Name(), "backing", backing, "direct", direct)
	}
	switch {
	case backing != nil && !direct:
		elems, ok = literalElems(backing, initFn)
	case backing == nil && direct:
		// a package-level array filled in place
		arr, isArr := g.Type().Underlying().(*types.Pointer).Elem().Underlying().(*types.Array)
		if !isArr || arr.Len() > maxEnumElems {
			break
		}
		_, isStruct := arr.Elem().Underlying().(*types.Struct)
		ok = true
		for k := int64(0); k < arr.Len(); k++ {
			e := directElems[k]
			if e == nil {
				if !isStruct {
					ok = false
					break
				}
				e = &enumElem{}
			}
			vals := []ssa.Value{e.Val}
			for _, fv := range e.Fields {
				vals = append(vals, fv)
			}
			for _, v := range vals {
				if v != nil && !constElemOK(v) {
					ok = false
				}
			}
			elems = append(elems, *e)
		}
	}
	if !ok {
		return nil, enumDbg2(129)
	}
	globalElemsCache[g] = &elems
	return elems, true
}

// bind binds the current-element values of l to element k (and the index values to k); the returned function undoes it.
func (l *enumLoop) bind(k int) func() {
	saved := elemBind
	nb := map[ssa.Value]ssa.Value{}
	for v, w := range saved {
		nb[v] = w
	}
	for v, f := range l.Cur {
		if f < 0 {
			if l.Elems[k].Val != nil {
				nb[v] = l.Elems[k].Val
			}
		} else if w, ok := l.Elems[k].Fields[f]; ok {
			nb[v] = w
		} else if l.Elems[k].Val == nil {
			// a field the literal leaves out has its zero value
			nb[v] = zeroConst(v.Type())
		}
	}
	for _, iv := range l.Idx {
		nb[iv] = ssa.NewConst(constant.MakeInt64(int64(k)), types.Typ[types.Int])
	}
	if os.Getenv("ENUM_DEBUG") != "" {
		for v, f := range l.Cur {
			fmt.Printf("bind k=%d %s field %d -> %v (elem val %v fields %v)\n", k, v.Name(), f, nb[v], l.Elems[k].Val, l.Elems[k].Fields)
		}
	}
	elemBind = nb
	return func() { elemBind = saved }
}

func enumDbg(n int) *enumLoop {
	if os.Getenv("ENUM_DEBUG") != "" {
		fmt.Println("enumLoopAt: reject", n)
	}
	return nil
}

func enumDbg2(n int) bool {
	if os.Getenv("ENUM_DEBUG") != "" {
		fmt.Println("constElems: reject", n)
	}
	return false
}

func zeroConst(t types.Type) ssa.Value {
	if b, ok := t.Underlying().(*types.Basic); ok {
		switch {
		case b.Info()&types.IsBoolean != 0:
			return ssa.NewConst(constant.MakeBool(false), t)
		case b.Info()&types.IsString != 0:
			return ssa.NewConst(constant.MakeString(""), t)
		case b.Info()&types.IsInteger != 0:
			return ssa.NewConst(constant.MakeInt64(0), t)
		}
	}
	return ssa.NewConst(nil, t)
}

// onlyFieldReads: apart from whole-value stores and loads, the local struct al is only read field by field.
func onlyFieldReads(al *ssa.Alloc) bool {
	for _, ar := range *al.Referrers() {
		switch q := ar.(type) {
		case *ssa.FieldAddr:
			for _, r3 := range *q.Referrers() {
				if ld, ok := r3.(*ssa.UnOp); !ok || ld.Op != token.MUL {
					return false
				}
			}
		case *ssa.UnOp, *ssa.Store, *ssa.DebugRef:
		default:
			return false
		}
	}
	return true
}

// boundStructField: v loads a field of a struct that (through the local copy of a value receiver or parameter
// and the bindings of the current call) is a package-level variable: the value its initialiser stores there.
func (s *Summarizer) boundStructField(v ssa.Value) (ssa.Value, bool) {
	base, field, ok := fieldLoad(v)
	if !ok {
		return nil, false
	}
	g, ok := s.structRoot(base)
	if !ok {
		return nil, false
	}
	st := s.singleStoreWhere(func(addr ssa.Value) bool {
		fa, ok := addr.(*ssa.FieldAddr)
		return ok && fa.X == ssa.Value(g) && fa.Field == field
	})
	if st == nil || g.Pkg == nil || st.Parent() != g.Pkg.Func("init") {
		return nil, false
	}
	// the variable as a whole must not be written either
	if s.singleStoreWhere(func(addr ssa.Value) bool { return addr == ssa.Value(g) }) != nil {
		return nil, false
	}
	return st.Val, true
}

// structRoot: the package-level struct variable that the struct designated by v is (a copy of): through loads,
// local copies that are only read field by field, and the bindings of parameters at the current call.
func (s *Summarizer) structRoot(v ssa.Value) (*ssa.Global, bool) {
	for i := 0; i < 10; i++ {
		switch x := v.(type) {
		case *ssa.Alloc:
			st := singleStoreLoose(x)
			if st == nil || !onlyFieldReads(x) {
				return nil, false
			}
			v = st.Val
			continue
		case *ssa.Parameter:
			w := s.resolveValue(x)
			if w == ssa.Value(x) {
				return nil, false
			}
			v = w
			continue
		case *ssa.UnOp:
			if x.Op == token.MUL {
				v = x.X
				continue
			}
		case *ssa.Global:
			return x, true
		}
		break
	}
	return nil, false
}
