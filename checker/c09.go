package main

import (
	"fmt"
	"go/token"
	"go/types"
	"sort"
	"strings"

	"golang.org/x/tools/go/ssa"
)

func init() { register("C09", "other", runC09) }

var concurrentAPI = []string{"Execute", "ExecuteTemplate", "ExecuteToHTML", "ExecuteTemplateToHTML", "Lookup", "Templates", "Name", "DefinedTemplates"}

// sharedTypes: the repository types whose fields are shared between goroutines.
var sharedTypes = map[string]bool{"Template": true, "nameSpace": true, "escaper": true}

type fieldAccess struct {
	fn    *ssa.Function
	in    ssa.Instruction
	field string // Type.field, map contents as Type.field[]
	write bool
	base  ssa.Value
}

func sharedFieldOf(fa *ssa.FieldAddr) (string, bool) {
	t := fa.X.Type()
	if pt, ok := t.Underlying().(*types.Pointer); ok {
		t = pt.Elem()
	}
	n, ok := t.(*types.Named)
	if !ok || n.Obj().Pkg() == nil || n.Obj().Pkg().Path() != pkgTemplate || !sharedTypes[n.Obj().Name()] {
		return "", false
	}
	return n.Obj().Name() + "." + fieldName(fa.X.Type(), fa.Field), true
}

// isFreshBase: the struct whose field is accessed was allocated in this
// function (composite literal / new / local), so it is not yet shared.
func isFreshBase(v ssa.Value, depth int) bool {
	if depth > 4 {
		return false
	}
	switch x := v.(type) {
	case *ssa.Alloc:
		return true
	case *ssa.FieldAddr:
		return isFreshBase(x.X, depth+1)
	}
	return false
}

func collectAccesses(fn *ssa.Function) []fieldAccess {
	var out []fieldAccess
	// map values loaded from shared fields
	mapField := map[ssa.Value]string{}
	for _, b := range fn.Blocks {
		for _, in := range b.Instrs {
			if u, ok := in.(*ssa.UnOp); ok {
				if fa, ok := u.X.(*ssa.FieldAddr); ok {
					if f, ok := sharedFieldOf(fa); ok {
						if _, isMap := u.Type().Underlying().(*types.Map); isMap {
							mapField[u] = f
						}
					}
				}
			}
		}
	}
	for _, b := range fn.Blocks {
		for _, in := range b.Instrs {
			switch x := in.(type) {
			case *ssa.FieldAddr:
				f, ok := sharedFieldOf(x)
				if !ok {
					continue
				}
				for _, ref := range *x.Referrers() {
					switch r := ref.(type) {
					case *ssa.Store:
						if r.Addr == ssa.Value(x) {
							out = append(out, fieldAccess{fn, r, f, true, x.X})
						}
					case *ssa.UnOp:
						out = append(out, fieldAccess{fn, r, f, false, x.X})
					case *ssa.FieldAddr, *ssa.Call:
						// address of a sub-struct (e.g. &ns.mu, &ns.esc) used as receiver: counted at the inner access
					}
				}
			case *ssa.MapUpdate:
				if f, ok := mapField[x.Map]; ok {
					out = append(out, fieldAccess{fn, x, f + "[]", true, x.Map})
				}
			case *ssa.Lookup:
				if f, ok := mapField[x.X]; ok {
					out = append(out, fieldAccess{fn, x, f + "[]", false, x.X})
				}
			case *ssa.Range:
				if f, ok := mapField[x.X]; ok {
					out = append(out, fieldAccess{fn, x, f + "[]", false, x.X})
				}
			}
		}
	}
	return out
}

// lockHeldAt: within fn, is nameSpace.mu held at instruction in? (Lock call
// dominates it and no explicit Unlock lies between; a deferred Unlock keeps
// the lock until return.)
func lockHeldAt(pv *Prov, fn *ssa.Function, in ssa.Instruction) bool {
	for _, l := range callsIn(fn, "(*sync.Mutex).Lock") {
		e := pv.Of(l.Common().Args[0])
		if !(e.Op == "fieldaddr" && e.Name == "mu") {
			continue
		}
		if !(l.Block().Dominates(in.Block()) && (l.Block() != in.Block() || before(l, in))) {
			continue
		}
		released := false
		for _, u := range callsIn(fn, "(*sync.Mutex).Unlock") {
			if before(l, u) && (before(u, in) || u.Block().Dominates(in.Block()) && u.Block() != in.Block()) {
				released = true
			}
		}
		if !released {
			return true
		}
	}
	return false
}

func runC09(p *Program, r *Report) {
	r.Trusted = []string{"go/types + go/ssa", "sync.Mutex provides mutual exclusion and happens-before", "text/template synchronises its own shared state (function maps, template set) internally"}
	r.NotDecided = []string{"\"every call returns what the sequential call returns\"", "that commit()'s in-place node edits are invisible to concurrent executors (argued: only trees of templates that no executor can have reached are edited)"}
	r.Explain = "Lockset discipline: W is the set of fields of Template/nameSpace/escaper (and the contents of their maps) written by any repository function reachable from the concurrent API; every access to a field of W made by a reachable function is either on an object allocated in that function, or made with nameSpace.mu held — inside a function that takes the lock before, or inside a function all of whose call sites (transitively) hold it. Post-publication writes to text/template objects are inventoried: each must be on an object created in the same function, under the lock with every delegating reader of the concurrent API taking the lock too, or in the table of argued-safe node edits."
	for _, m := range []struct {
		r string
		n int
	}{{"C09.R1", 20}, {"C09.R2", 4}, {"C09.R5", 1}} {
		r.Min(m.r, m.n)
	}
	checkNoSharedErrorMutation(p, r, "C09.R5")
	tsp := p.SSAPkg("template")
	pv := NewProv(p)
	pv.NoInline = true
	var roots []*ssa.Function
	tmplT := tsp.Type("Template")
	for _, n := range concurrentAPI {
		sel := p.SSA.MethodSets.MethodSet(types.NewPointer(tmplT.Type())).Lookup(tsp.Pkg, n)
		if sel == nil {
			r.Undec("C09.R1", "template.(*Template)."+n, "", "anchor not found")
			continue
		}
		roots = append(roots, p.SSA.MethodValue(sel))
	}
	reach := reachableRepoFuncs(p, roots)
	var fns []*ssa.Function
	for f := range reach {
		if f.Pkg == tsp || (f.Parent() != nil && f.Parent().Pkg == tsp) {
			fns = append(fns, f)
		}
	}
	sort.Slice(fns, func(i, j int) bool { return fnName(fns[i]) < fnName(fns[j]) })
	// accesses and W
	var all []fieldAccess
	W := map[string]bool{}
	for _, f := range fns {
		acc := collectAccesses(f)
		all = append(all, acc...)
		for _, a := range acc {
			if a.write && !isFreshBase(a.base, 0) {
				W[a.field] = true
			}
		}
	}
	r.Analysed["concurrent_api_reachable_functions"] = len(fns)
	r.Analysed["written_shared_fields"] = sortedKeys(W)
	// H: functions whose every call site (in reachable functions) holds the lock
	callSites := map[*ssa.Function][]*ssa.Call{}
	for _, f := range fns {
		for _, b := range f.Blocks {
			for _, in := range b.Instrs {
				if c, ok := in.(*ssa.Call); ok {
					if g := staticCallee(c.Common()); g != nil && reach[g] {
						callSites[g] = append(callSites[g], c)
					}
				}
				// closures created here are called by whoever receives them: treat creation site as call site
				if mc, ok := in.(*ssa.MakeClosure); ok {
					_ = mc
				}
			}
		}
	}
	isRoot := map[*ssa.Function]bool{}
	for _, f := range roots {
		isRoot[f] = true
	}
	// greatest fixpoint: assume every non-root function is called only with the lock held, then
	// remove those with a call site where it is not (mutually recursive escaper methods stay in
	// the set as long as every entry into the cycle holds the lock)
	held := map[*ssa.Function]bool{}
	for _, f := range fns {
		if !isRoot[f] && (len(callSites[f]) > 0 || f.Parent() != nil) {
			held[f] = true
		}
	}
	for changed := true; changed; {
		changed = false
		for _, f := range fns {
			if !held[f] {
				continue
			}
			ok := true
			if f.Parent() != nil {
				// a closure runs with the lock state of the function that created it (it is only handed
				// to repository functions that call it synchronously)
				ok = held[f.Parent()]
			} else {
				for _, c := range callSites[f] {
					caller := c.Parent()
					if !(held[caller] || lockHeldAt(pv, caller, c)) {
						ok = false
					}
				}
			}
			if !ok {
				delete(held, f)
				changed = true
			}
		}
	}
	var hn []string
	for f := range held {
		hn = append(hn, f.Name())
	}
	sort.Strings(hn)
	r.Analysed["functions_called_only_with_lock_held"] = hn
	seen := map[string]bool{}
	for _, a := range all {
		if !W[a.field] {
			continue
		}
		if isFreshBase(a.base, 0) {
			continue
		}
		kind := "read"
		if a.write {
			kind = "write"
		}
		c := fmt.Sprintf("%s#%s:%s", strings.TrimPrefix(fnName(a.fn), pkgTemplate+"."), kind, a.field)
		ok := held[a.fn] || lockHeldAt(pv, a.fn, a.in)
		if seen[c] && ok {
			continue
		}
		seen[c] = true
		r.Check(ok, "C09.R1", c, p.Pos(a.in.Pos()), "accessed with nameSpace.mu held", "field "+a.field+" (written during concurrent first executions) is accessed without nameSpace.mu held")
	}
	// ---- R3 analysed templates are never analysed again (premise of the argued-safe node edits) -----------
	checkMemoDiscipline(p, r, "C09.R3")
	// ---- R4 the lock is never taken twice -------------------------------------------------------------------
	checkNoReentrantLock(p, r, "C09.R4")
	checkNoEscaperCopy(p, r, "C09.R6")
	checkTreeEmptiedOnlyOnBodyFailure(p, r, "C09.R8") // emptying the tree of a template that callers execute
	checkNoSelfAddParseTree(p, r, "C09.R7")
	// ---- R2 foreign objects ---------------------------------------------------------------
	type fstore struct {
		fn    *ssa.Function
		st    *ssa.Store
		field string
		fresh bool
	}
	var fstores []fstore
	for _, f := range fns {
		for _, b := range f.Blocks {
			for _, in := range b.Instrs {
				st, ok := in.(*ssa.Store)
				if !ok {
					continue
				}
				fa, ok := st.Addr.(*ssa.FieldAddr)
				if !ok {
					continue
				}
				t := fa.X.Type()
				if pt, ok := t.Underlying().(*types.Pointer); ok {
					t = pt.Elem()
				}
				n, ok := t.(*types.Named)
				if !ok || n.Obj().Pkg() == nil {
					continue
				}
				pp := n.Obj().Pkg().Path()
				if pp != "text/template" && pp != "text/template/parse" {
					continue
				}
				fresh := false
				// the object was created in this function (call to a constructor or allocation)
				base := fa.X
				if u, ok := base.(*ssa.UnOp); ok { // n.Pipe.Cmds: base loaded from another field
					_ = u
				}
				switch bx := base.(type) {
				case *ssa.Alloc:
					fresh = true
				case *ssa.Call:
					if g := staticCallee(bx.Common()); g != nil && (strings.HasPrefix(g.Name(), "New") || g.Name() == "Copy") {
						fresh = true
					}
				case *ssa.UnOp:
					// field of a fresh object (dt.Tree.Name with dt fresh)
					if fa2, ok := bx.X.(*ssa.FieldAddr); ok {
						if c2, ok := fa2.X.(*ssa.Call); ok {
							if g := staticCallee(c2.Common()); g != nil && strings.HasPrefix(g.Name(), "New") {
								fresh = true
							}
						}
					}
				}
				fstores = append(fstores, fstore{f, st, n.Obj().Name() + "." + fieldName(fa.X.Type(), fa.Field), fresh})
			}
		}
	}
	// delegations of concurrent API methods to text/template methods
	delegationLocked := map[string]bool{}
	for _, f := range roots {
		for _, b := range f.Blocks {
			for _, in := range b.Instrs {
				c, ok := in.(*ssa.Call)
				if !ok {
					continue
				}
				g := staticCallee(c.Common())
				if g == nil || g.Pkg == nil || g.Pkg.Pkg.Path() != "text/template" {
					continue
				}
				delegationLocked[cname(g)] = lockHeldAt(pv, f, c)
			}
		}
	}
	r.Analysed["text_template_delegations(locked?)"] = fmt.Sprint(delegationLocked)
	// argued-safe edits of parse nodes, by function
	arguedSafe := map[string]string{
		"commit|TemplateNode.Name":                "renames calls inside trees that no executor has reached yet (templates are executed only after their own analysis committed)",
		"commit|TextNode.Text":                    "as above",
		"ensurePipelineContains|PipeNode.Cmds":    "as above (called from commit)",
		"ensurePipelineContains|CommandNode.Args": "as above (called from commit)",
	}
	// a step of commit extracted into an unexported helper that only commit calls inherits commit's argument
	onlyCalledBy := func(h *ssa.Function, caller string) bool {
		if h.Object() == nil || h.Object().Exported() {
			return false
		}
		n := 0
		for _, f := range p.SrcFuncs() {
			if f.Pkg != h.Pkg {
				continue
			}
			for _, b := range f.Blocks {
				for _, in := range b.Instrs {
					if cl, ok := in.(*ssa.Call); ok && staticCallee(cl.Common()) == h {
						n++
						if cname(f) != caller {
							return false
						}
					}
				}
			}
		}
		return n > 0
	}
	for _, fs := range fstores {
		c := fmt.Sprintf("%s#foreign-write:%s", strings.TrimPrefix(fnName(fs.fn), pkgTemplate+"."), fs.field)
		pos := p.Pos(fs.st.Pos())
		key := cname(fs.fn) + "|" + fs.field
		if arguedSafe[key] == "" && arguedSafe["commit|"+fs.field] != "" && onlyCalledBy(fs.fn, "commit") {
			key = "commit|" + fs.field
		}
		// a step of one of the argued functions extracted into a helper that only that function (or commit) uses
		if arguedSafe[key] == "" {
			for k := range arguedSafe {
				parts := strings.SplitN(k, "|", 2)
				if parts[1] == fs.field && helperOnlyOf(p, fs.fn, func(g *ssa.Function) bool { return cname(g) == parts[0] || cname(g) == "commit" }, 0) {
					key = k
				}
			}
		}
		switch {
		case fs.fresh:
			r.OK("C09.R2", c, pos, "object created in the same function (not yet published)")
		case arguedSafe[key] != "":
			r.OK("C09.R2", c, pos, "argued safe, not decided: "+arguedSafe[key])
		case fs.field == "Template.Tree":
			// text/template reads every member's Tree in DefinedTemplates: that delegation must hold our lock
			lockedWriter := held[fs.fn] || lockHeldAt(pv, fs.fn, fs.st)
			dt, has := delegationLocked["DefinedTemplates"]
			ok := lockedWriter && (!has || dt)
			if ok && !isNilConst(fs.st.Val) {
				// emptying the tree of a template whose analysis failed is the one tolerated write; any other value
				// replaces the tree of a template that other goroutines may be executing (text/template reads it
				// without our lock while it walks a {{template}} call)
				r.Viol("C09.R2", c+":non-nil", pos, "the parse tree of a published text template is assigned (not emptied) during a first execution: goroutines executing a template that calls this one read that field without the name-space lock", "")
				continue
			}
			r.Check(ok, "C09.R2", c, pos, "written under nameSpace.mu, and the API method that lets text/template read every member's tree (DefinedTemplates) takes the same lock",
				"a published template's parse tree is overwritten while DefinedTemplates lets text/template read it without the name-space lock (data race)")
		default:
			r.Viol("C09.R2", c, pos, "a field of a published text/template object is written during a concurrent first execution", "")
		}
	}
}

// checkNoReentrantLock: nameSpace.mu is not reentrant; a function that takes it
// (or reaches one that does) must never be called at a point where it is
// already held — the call would never return (C08: hang; C09: deadlock).
func checkNoReentrantLock(p *Program, r *Report, rule string) {
	tsp := p.SSAPkg("template")
	pv := NewProv(p)
	pv.NoInline = true
	var fns []*ssa.Function
	for _, f := range p.SrcFuncs() {
		if f.Pkg == tsp || (f.Parent() != nil && f.Parent().Pkg == tsp) {
			fns = append(fns, f)
		}
	}
	locks := map[*ssa.Function]bool{}
	for _, f := range fns {
		for _, l := range callsIn(f, "(*sync.Mutex).Lock") {
			e := pv.Of(l.Common().Args[0])
			if e.Op == "fieldaddr" && e.Name == "mu" {
				locks[f] = true
			}
		}
	}
	// mayLock: reaches a locking function through static calls
	mayLock := map[*ssa.Function]bool{}
	for f := range locks {
		mayLock[f] = true
	}
	for changed := true; changed; {
		changed = false
		for _, f := range fns {
			if mayLock[f] {
				continue
			}
			for _, b := range f.Blocks {
				for _, in := range b.Instrs {
					if c, ok := in.(*ssa.Call); ok {
						if g := staticCallee(c.Common()); g != nil && mayLock[g] {
							mayLock[f] = true
							changed = true
						}
					}
				}
			}
		}
	}
	// held: entered only from lock-held points (greatest fixpoint, roots = exported API)
	callSites := map[*ssa.Function][]*ssa.Call{}
	for _, f := range fns {
		for _, b := range f.Blocks {
			for _, in := range b.Instrs {
				if c, ok := in.(*ssa.Call); ok {
					if g := staticCallee(c.Common()); g != nil {
						callSites[g] = append(callSites[g], c)
					}
				}
			}
		}
	}
	held := map[*ssa.Function]bool{}
	for _, f := range fns {
		exported := f.Object() != nil && f.Object().Exported() && f.Parent() == nil
		if !exported && (len(callSites[f]) > 0 || f.Parent() != nil) && !(f.Synthetic != "") && !strings.HasPrefix(f.Name(), "init") {
			held[f] = true
		}
	}
	for changed := true; changed; {
		changed = false
		for _, f := range fns {
			if !held[f] {
				continue
			}
			ok := true
			if f.Parent() != nil {
				ok = held[f.Parent()] || func() bool {
					// created after the lock was taken in the parent
					for _, b := range f.Parent().Blocks {
						for _, in := range b.Instrs {
							if mc, isMC := in.(*ssa.MakeClosure); isMC && mc.Fn == ssa.Value(f) {
								return lockHeldAt(pv, f.Parent(), mc)
							}
						}
					}
					return false
				}()
			} else {
				for _, c := range callSites[f] {
					caller := c.Parent()
					if !(held[caller] || lockHeldAt(pv, caller, c)) {
						ok = false
					}
				}
			}
			if !ok {
				delete(held, f)
				changed = true
			}
		}
	}
	n := 0
	for _, f := range fns {
		for _, b := range f.Blocks {
			for _, in := range b.Instrs {
				c, ok := in.(*ssa.Call)
				if !ok {
					continue
				}
				g := staticCallee(c.Common())
				if g == nil || !mayLock[g] {
					continue
				}
				n++
				isHeld := held[f] || lockHeldAt(pv, f, c)
				if isHeld && !locks[g] {
					// the call that actually blocks is reported at the innermost site
					continue
				}
				cn := fmt.Sprintf("%s#calls-locking:%s", strings.TrimPrefix(fnName(f), pkgTemplate+"."), g.Name())
				r.Check(!isHeld, rule, cn, p.Pos(c.Pos()), "called without nameSpace.mu held", "a function that takes nameSpace.mu (or reaches one) is called while the lock is already held: sync.Mutex is not reentrant, the call never returns and every later call on the set blocks")
			}
		}
	}
	if n == 0 {
		r.Undec(rule, "template#locking-calls", "", "no call to a locking function found")
	}
}

// checkNoSharedErrorMutation (C09.R5): *Error values are handed out to callers and kept in
// the memo of analysed templates by pointer. Writing a field of an *Error that was not
// allocated in the same function changes an error another goroutine may be formatting
// (and the text of errors returned earlier).
func checkNoSharedErrorMutation(p *Program, r *Report, rule string) {
	tsp := p.SSAPkg("template")
	n := 0
	for _, f := range p.SrcFuncs() {
		if f.Pkg != tsp && !(f.Parent() != nil && f.Parent().Pkg == tsp) {
			continue
		}
		for _, b := range f.Blocks {
			for _, in := range b.Instrs {
				st, ok := in.(*ssa.Store)
				if !ok {
					continue
				}
				fa, ok := st.Addr.(*ssa.FieldAddr)
				if !ok {
					continue
				}
				pt, ok := fa.X.Type().Underlying().(*types.Pointer)
				if !ok || !isNamed(pt.Elem(), pkgTemplate, "Error") {
					continue
				}
				n++
				c := fmt.Sprintf("%s#error-write:%s", strings.TrimPrefix(fnName(f), pkgTemplate+"."), fieldName(fa.X.Type(), fa.Field))
				_, fresh := fa.X.(*ssa.Alloc)
				r.Check(fresh, rule, c, p.Pos(st.Pos()), "writes a field of an Error allocated in the same function", "a field of an *Error that was created elsewhere (held by the memo of analysed templates and by errors returned earlier) is overwritten: the text of an error already handed to a caller changes, unsynchronised with that caller")
			}
		}
	}
	if n == 0 {
		r.OK(rule, "template#no-error-field-writes", "", "no function writes a field of an Error")
	}
}

// checkNoEscaperCopy: the escaper of a name space holds the record of the analyses and the edits that are still
// to be applied; commit() empties the pending edits by assigning fresh maps to its receiver. A copy of the struct
// shares the maps but not those assignments: committing through a copy leaves the edits pending in the original,
// and every later first execution re-applies them — writes into parse trees that other goroutines are executing.
// The struct must therefore never be loaded as a whole from a place that outlives the function (a field of the
// name space, what a pointer parameter points to); the only whole values are those a constructor returns.
func checkNoEscaperCopy(p *Program, r *Report, rule string) {
	tsp := p.SSAPkg("template")
	n := 0
	for _, f := range p.SrcFuncs() {
		if f.Pkg != tsp {
			continue
		}
		for _, b := range f.Blocks {
			for _, in := range b.Instrs {
				switch x := in.(type) {
				case *ssa.FieldAddr:
					if isNamed(x.Type().(*types.Pointer).Elem(), pkgTemplate, "escaper") {
						n++
					}
				case *ssa.UnOp:
					if x.Op != token.MUL || !isNamed(x.Type(), pkgTemplate, "escaper") {
						continue
					}
					if _, isPtr := x.Type().Underlying().(*types.Pointer); isPtr {
						continue
					}
					n++
					if al, ok := x.X.(*ssa.Alloc); ok {
						// a local built here (by a constructor or a literal) and handed on as a whole
						if st := singleStoreLoose(al); st == nil || !isNamed(st.Val.Type(), pkgTemplate, "escaper") {
							continue
						} else if _, fromCall := st.Val.(*ssa.Call); fromCall {
							continue
						} else if u2, ok := st.Val.(*ssa.UnOp); !ok || u2.Op != token.MUL {
							continue
						}
					}
					short := strings.TrimPrefix(fnName(f), pkgTemplate+".")
					r.Viol(rule, short+"#escaper-copied", p.Pos(x.Pos()), "the escaper of a name space is copied as a whole: the copy shares the maps of pending edits but commit() through it empties only the copy, so the edits stay pending in the name space and are applied again by every later first execution, while other goroutines execute the trees they rewrite", "")
				}
			}
		}
	}
	if n == 0 {
		r.Undec(rule, "template.escaper#uses", "", "no use of the escaper found")
		return
	}
	r.OK(rule, "template.escaper#never-copied", "", fmt.Sprintf("%d uses of the name space's escaper: always through its address, never a copy of the struct (apart from what constructors return)", n))
}

// checkNoSelfAddParseTree: text/template's AddParseTree(name, tree) allocates a new template when name differs
// from the receiver's own name, but assigns the receiver's Tree field in place when it is the same. commit() runs
// on every first execution and adds all derived templates again; added through another template of the set each
// time a new object is installed, added through itself the Tree field of an object that other goroutines are
// executing is written. No call in package template may pass the receiver's own Name() as the name.
func checkNoSelfAddParseTree(p *Program, r *Report, rule string) {
	tsp := p.SSAPkg("template")
	n := 0
	for _, f := range p.SrcFuncs() {
		if f.Pkg != tsp {
			continue
		}
		short := strings.TrimPrefix(fnName(f), pkgTemplate+".")
		k := 0
		for _, b := range f.Blocks {
			for _, in := range b.Instrs {
				c, ok := in.(ssa.CallInstruction)
				if !ok {
					continue
				}
				g := staticCallee(c.Common())
				if g == nil || fnName(g) != "(*text/template.Template).AddParseTree" || len(c.Common().Args) != 3 {
					continue
				}
				n++
				cn := fmt.Sprintf("%s#add-parse-tree%d", short, k)
				k++
				recv, name := c.Common().Args[0], c.Common().Args[1]
				self := false
				if nc, ok := name.(*ssa.Call); ok {
					if h := staticCallee(nc.Common()); h != nil && fnName(h) == "(*text/template.Template).Name" && len(nc.Common().Args) == 1 && nc.Common().Args[0] == recv {
						self = true
					}
				}
				// inside the escaper (commit runs at every first execution): only the context-specific copies it made
				// itself — the members of its map of derived templates — may be added; a member of the set that is
				// already registered would be replaced, or written in place, while other goroutines execute it
				if f.Signature.Recv() != nil && isNamedPtr(f.Signature.Recv().Type(), pkgTemplate, "escaper") {
					fromDerived := false
					tree := c.Common().Args[2]
					if ld, ok := tree.(*ssa.UnOp); ok {
						if fa, ok := ld.X.(*ssa.FieldAddr); ok {
							tv := fa.X
							if ex, ok := tv.(*ssa.Extract); ok {
								if lk, ok := ex.Tuple.(*ssa.Lookup); ok {
									tv = lk // t, ok := e.derived[name]
								}
							}
							if lk, ok := tv.(*ssa.Lookup); ok {
								if ml, ok := lk.X.(*ssa.UnOp); ok {
									if mf, ok := ml.X.(*ssa.FieldAddr); ok && fieldName(mf.X.Type(), mf.Field) == "derived" {
										fromDerived = true // looked up in the map of derived templates (a sorted walk over its keys)
									}
								}
							}
							if ex, ok := fa.X.(*ssa.Extract); ok {
								if nx, ok := ex.Tuple.(*ssa.Next); ok {
									if rg, ok := nx.Iter.(*ssa.Range); ok {
										if ml, ok := rg.X.(*ssa.UnOp); ok {
											if mf, ok := ml.X.(*ssa.FieldAddr); ok && fieldName(mf.X.Type(), mf.Field) == "derived" {
												fromDerived = true
											}
										}
									}
								}
							}
						}
					}
					r.Check(fromDerived, rule, cn+"#only-derived", p.Pos(in.Pos()), "the escaper adds only the context-specific copies it made itself (its map of derived templates)", "the escaper adds a tree that does not come from its map of derived templates: a member that is already registered and may be executing is replaced or — when the arbitrary receiver happens to be that member — has its Tree written in place, on every later first execution of another member of the set")
				}
				r.Check(!self, rule, cn, p.Pos(in.Pos()), "the tree is added under a name taken from another template than the receiver: text/template installs a new object", "a text template is added to the set through itself (AddParseTree(t.Name(), …) on t): text/template then assigns t.Tree in place, and since commit() adds every derived template again on each first execution, that write hits an object other goroutines are executing")
			}
		}
	}
	if n == 0 {
		r.OK(rule, "template#add-parse-tree", "", "package template does not call text/template's AddParseTree")
	}
}

func isNamedPtr(t types.Type, pkgPath, name string) bool {
	pt, ok := t.Underlying().(*types.Pointer)
	return ok && isNamed(pt.Elem(), pkgPath, name)
}
