package main

import (
	"fmt"
	"strings"

	"safecheck/relang"
)

func init() {
	register("C18", "proof", func(p *Program, r *Report) {
		runC18(p, r)
		checkBoundsProven(p, r, "C18.B1", "identifier.go")
		checkLoopsMakeProgress(p, r, "C18.B2", "identifier.go")
	})
}

const specID = `^[A-Za-z][-_A-Za-z0-9]*$`

func runC18Shape(p *Program, r *Report) {
	engineConsistency(p, r, "C18.E", func(n string) bool { return strings.Contains(n, "Pattern") })

	r.Trusted = []string{"go/types + go/ssa construction", "regexp/syntax semantics as modelled by relang (unit-tested against package regexp)"}
	r.Explain = "Both constructors are analysed in SSA: the only stores into Identifier.str, their provenance (constant prefix, one '-', dynamic value) and the conjunction of regexp guards that dominates them; the guards' languages and their concatenation are computed as DFAs over all code points + an invalid-byte symbol ('$' = end of text) and shown to be included in [A-Za-z][-_A-Za-z0-9]*."
	r.Min("C18.R1", 2)
	r.Min("C18.R2", 2)
	regs, _ := p.AllRegexes() // an unresolved pattern shows up as an unsummarisable guard where it is used
	type want struct {
		fn     string
		leaves []string // expected leaf kinds
	}
	for _, w := range []want{{"IdentifierFromConstant", []string{"p0"}}, {"IdentifierFromConstantPrefix", []string{"p0", "-", "p1"}}} {
		fn := p.Func("", w.fn)
		cname := "safehtml." + w.fn
		if fn == nil {
			r.Undec("C18.R1", cname, "", "anchor not found")
			continue
		}
		s := NewSummarizer(p, regs)
		sites := analyseCtor(p, s, fn, modulePath, "Identifier")
		if len(sites) == 0 {
			r.Undec("C18.R1", cname, p.Pos(fn.Pos()), "no construction of Identifier found")
			continue
		}
		if ok, why := returnsOnlyLocalComposite(fn, 0); !ok {
			r.Undec("C18.R1", cname+"#returns", p.Pos(fn.Pos()), why)
		}
		if ok, why := returnsCovered(fn, sites); !ok {
			r.Undec("C18.R1", cname+"#returns", p.Pos(fn.Pos()), why)
		}
		for i, site := range sites {
			c := fmt.Sprintf("%s#store%d", cname, i)
			// shape: expected leaves
			var got []string
			for _, lf := range site.Leaves {
				if k, ok := lf.IsConstString(); ok {
					got = append(got, k)
				} else if lf.Op == "param" {
					got = append(got, fmt.Sprintf("p%d", lf.Idx))
				} else {
					got = append(got, "?"+lf.String())
				}
			}
			shapeOK := len(got) == len(w.leaves)
			for j := range got {
				if shapeOK && got[j] != w.leaves[j] {
					shapeOK = false
				}
			}
			r.Check(shapeOK, "C18.R1", c+"#shape", site.Pos, fmt.Sprintf("stored string is %v", got),
				fmt.Sprintf("stored string is %v, the statement requires %v (constant prefix, one hyphen, the dynamic value)", got, w.leaves))
			L := NewLang()
			if err := registerSumm(L, s, site.Cond); err != nil {
				r.Undec("C18.R2", c, site.Pos, err.Error())
				continue
			}
			registerLeaves(L, site.Leaves)
			L.MustRe(specID)
			L.Build()
			per, ok := splitByParam(site.Cond)
			if !ok {
				r.Undec("C18.R2", c, site.Pos, "a guard mixes parameters: "+site.Cond.String())
				continue
			}
			pl := map[int]*relang.DFA{}
			bad := false
			for k, f := range per {
				d, amb, err := L.Eval(f)
				if err != nil || len(amb) > 0 {
					r.Undec("C18.R2", c, site.Pos, fmt.Sprintf("guard not evaluable: %v %v", err, amb))
					bad = true
					break
				}
				pl[k] = d
			}
			if bad {
				continue
			}
			res, desc := concatLanguage(L, site.Leaves, pl)
			if ok, wit := relang.Subset(res, L.SearchRe(specID)); ok {
				r.OK("C18.R2", c, site.Pos, "language "+desc+" under guards "+site.Cond.String()+" ⊆ [A-Za-z][-_A-Za-z0-9]*")
			} else {
				r.Viol("C18.R2", c, site.Pos, "a returned identifier is outside [A-Za-z][-_A-Za-z0-9]*; guards: "+site.Cond.String(), wit)
			}
		}
	}
}
