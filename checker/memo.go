package main

import (
	"fmt"
	"go/types"
	"strings"

	"golang.org/x/tools/go/ssa"
)

var editMapFields = []string{"actionNodeEdits", "templateNodeEdits", "textNodeEdits"}

// rangesOverField: Range instructions in fn over the map loaded from field
// `field` of an escaper.
func rangesOverField(fn *ssa.Function, field string) []*ssa.Range {
	var out []*ssa.Range
	for _, b := range fn.Blocks {
		for _, in := range b.Instrs {
			rg, ok := in.(*ssa.Range)
			if !ok {
				continue
			}
			if u, ok := rg.X.(*ssa.UnOp); ok {
				if fa, ok := u.X.(*ssa.FieldAddr); ok && isHostedIn(fa, pkgTemplate, "escaper") && fieldName(fa.X.Type(), fa.Field) == field {
					out = append(out, rg)
				}
			}
		}
	}
	return out
}

// freshMapStores: stores of a new map into escaper.field in fn, on an escaper that was not allocated in fn.
func freshMapStores(fn *ssa.Function, field string) []*ssa.Store {
	var out []*ssa.Store
	for _, st := range storesToField(fn, pkgTemplate, "escaper", field) {
		if _, ok := st.Val.(*ssa.MakeMap); !ok {
			continue
		}
		fa := st.Addr.(*ssa.FieldAddr)
		base, _ := hostedIn(fa, pkgTemplate, "escaper")
		if isFreshBase(base, 0) {
			continue
		}
		out = append(out, st)
	}
	// a sub-struct holding the field replaced as a whole by a value whose field is a fresh map
	for _, b := range fn.Blocks {
		for _, in := range b.Instrs {
			st, ok := in.(*ssa.Store)
			if !ok {
				continue
			}
			fa, ok := st.Addr.(*ssa.FieldAddr)
			if !ok {
				continue
			}
			base, ok := hostedIn(fa, pkgTemplate, "escaper")
			if !ok || isFreshBase(base, 0) {
				continue
			}
			pt, ok := fa.Type().Underlying().(*types.Pointer)
			if !ok {
				continue
			}
			sst, ok := pt.Elem().Underlying().(*types.Struct)
			if !ok {
				continue
			}
			idx := -1
			for i := 0; i < sst.NumFields(); i++ {
				if fieldName(fa.Type(), i) == field {
					idx = i
				}
			}
			if idx >= 0 && structFieldIsFreshMap(st.Val, idx, 0) {
				out = append(out, st)
			}
		}
	}
	return out
}

// structFieldIsFreshMap: field #idx of the struct value v is a map made where v is built (a literal here, or the
// single literal a constructor of the module returns).
func structFieldIsFreshMap(v ssa.Value, idx int, depth int) bool {
	if depth > 3 {
		return false
	}
	switch x := v.(type) {
	case *ssa.UnOp:
		al, ok := x.X.(*ssa.Alloc)
		if !ok {
			return false
		}
		n, fresh := 0, false
		for _, ref := range *al.Referrers() {
			if fa, ok := ref.(*ssa.FieldAddr); ok && fa.Field == idx {
				for _, rr := range *fa.Referrers() {
					if st, ok := rr.(*ssa.Store); ok && st.Addr == ssa.Value(fa) {
						n++
						_, fresh = st.Val.(*ssa.MakeMap)
					}
				}
			}
		}
		return n == 1 && fresh
	case *ssa.Call:
		g := staticCallee(x.Common())
		if g == nil || g.Blocks == nil || g.Pkg == nil || !strings.HasPrefix(g.Pkg.Pkg.Path(), modulePath) {
			return false
		}
		rets := Returns(g)
		if len(rets) != 1 || len(rets[0].Results) != 1 {
			return false
		}
		return structFieldIsFreshMap(rets[0].Results[0], idx, depth+1)
	}
	return false
}

// resetsOnAllPaths: the escaper fields that method g replaces by fresh maps on every return path.
func resetsOnAllPaths(p *Program, g *ssa.Function) map[string]bool {
	out := map[string]bool{}
	if g == nil || g.Blocks == nil {
		return out
	}
	pe := newPathExplorer(p, g)
	paths := pe.Paths()
	for _, field := range append([]string{"called"}, editMapFields...) {
		stores := freshMapStores(g, field)
		if len(stores) == 0 {
			continue
		}
		ok := true
		n := 0
		for _, pth := range paths {
			if _, isRet := pth.End().(*ssa.Return); !isRet {
				continue
			}
			n++
			if !pathPassesAny(pth, stores) {
				ok = false
			}
		}
		if ok && n > 0 {
			out[field] = true
		}
	}
	return out
}

// checkMemoDiscipline: the record of analysed templates is never discarded and
// pending edits are never dropped un-applied (rules shared by C06 and C09).
func checkMemoDiscipline(p *Program, r *Report, rule string) {
	tsp := p.SSAPkg("template")
	n := 0
	applied := func(f *ssa.Function, at ssa.Instruction, field string) bool {
		for _, rg := range rangesOverField(f, field) {
			if rg.Block().Dominates(at.Block()) && before(rg, at) {
				return true
			}
		}
		// … or a helper that iterates over the field was called before
		for _, b := range f.Blocks {
			for _, in := range b.Instrs {
				c, ok := in.(*ssa.Call)
				if !ok || !(b.Dominates(at.Block()) && before(c, at)) {
					continue
				}
				if g := staticCallee(c.Common()); g != nil && g.Pkg == f.Pkg && g != f && len(rangesOverField(g, field)) > 0 {
					return true
				}
			}
		}
		return false
	}
	for _, f := range p.SrcFuncs() {
		if f.Pkg != tsp && !(f.Parent() != nil && f.Parent().Pkg == tsp) {
			continue
		}
		short := strings.TrimPrefix(fnName(f), pkgTemplate+".")
		// (1) the escaper of a published name space is never replaced
		for _, st := range storesToField(f, pkgTemplate, "nameSpace", "esc") {
			n++
			fa := st.Addr.(*ssa.FieldAddr)
			fresh := isFreshBase(fa.X, 0)
			if al, ok := fa.X.(*ssa.Alloc); ok && al.Heap {
				fresh = true // &nameSpace{…} created in this function
			}
			r.Check(fresh, rule, short+"#replaces-escaper", p.Pos(st.Pos()), "the escaper is installed on a name space created in the same function", "the escaper of a published name space is replaced: the record of already analysed (and rewritten) templates is lost, so they are analysed and rewritten again — possibly while other goroutines execute them")
		}
		// (1b) … nor overwritten as a whole through a pointer (*e = fresh)
		for _, b := range f.Blocks {
			for _, in := range b.Instrs {
				st, ok := in.(*ssa.Store)
				if !ok {
					continue
				}
				pt, ok := st.Addr.Type().Underlying().(*types.Pointer)
				if !ok || !isNamed(pt.Elem(), pkgTemplate, "escaper") {
					continue
				}
				if al, isAl := st.Addr.(*ssa.Alloc); isAl && (!al.Heap || isFreshBase(al, 0)) {
					continue // a local escaper being set up
				}
				if isFreshBase(st.Addr, 0) {
					continue
				}
				n++
				r.Viol(rule, short+"#overwrites-escaper", p.Pos(st.Pos()), "a live escaper is overwritten as a whole: the record of already analysed (and rewritten) templates and the derived copies are lost, so helpers reached only through template calls are analysed and rewritten a second time", "execute a page that calls a helper; execute a template that fails; execute another page that calls the helper")
			}
		}
		// (2) the memo maps are never replaced or shrunk
		for _, field := range []string{"output", "derived"} {
			for _, st := range storesToField(f, pkgTemplate, "escaper", field) {
				fa := st.Addr.(*ssa.FieldAddr)
				if isFreshBase(fa.X, 0) {
					continue
				}
				n++
				r.Viol(rule, short+"#replaces-memo:"+field, p.Pos(st.Pos()), "the memo of analysed templates (escaper."+field+") is replaced on a live escaper: templates are analysed and rewritten a second time", "")
			}
		}
		for _, b := range f.Blocks {
			for _, in := range b.Instrs {
				c, ok := in.(*ssa.Call)
				if !ok {
					continue
				}
				if bi, ok := c.Common().Value.(*ssa.Builtin); ok && bi.Name() == "delete" {
					if u, ok := c.Common().Args[0].(*ssa.UnOp); ok {
						if fa, ok := u.X.(*ssa.FieldAddr); ok && isHostedIn(fa, pkgTemplate, "escaper") {
							fld := fieldName(fa.X.Type(), fa.Field)
							if fld == "output" || fld == "derived" {
								n++
								r.Viol(rule, short+"#deletes-memo:"+fld, p.Pos(c.Pos()), "an entry of the memo of analysed templates is deleted: the template is analysed and rewritten a second time", "")
							}
						}
					}
				}
			}
		}
		// (3) pending edits are dropped only after they have been applied
		for _, field := range editMapFields {
			for _, st := range freshMapStores(f, field) {
				n++
				c := short + "#drops-pending:" + field
				if applied(f, st, field) {
					r.OK(rule, c, p.Pos(st.Pos()), "the edit map is replaced only after the loop that applies its entries")
					continue
				}
				// helper: every call site must come after the apply loop
				okAll, sites := true, 0
				var badSite string
				for _, g := range p.SrcFuncs() {
					if g.Pkg != tsp {
						continue
					}
					for _, gb := range g.Blocks {
						for _, gin := range gb.Instrs {
							cl, ok := gin.(*ssa.Call)
							if !ok || staticCallee(cl.Common()) != f {
								continue
							}
							sites++
							if !applied(g, cl, field) {
								okAll = false
								badSite = fmt.Sprintf("%s (%s)", strings.TrimPrefix(fnName(g), pkgTemplate+"."), p.Pos(cl.Pos()))
							}
						}
					}
				}
				r.Check(okAll && sites > 0, rule, c, p.Pos(st.Pos()), fmt.Sprintf("reset helper called only after the edits were applied (%d call sites)", sites),
					"pending node edits can be discarded without being applied while the analysis that produced them stays memoised: the templates concerned are later executed without their sanitizers; offending call: "+badSite)
			}
		}
	}
	if n == 0 {
		r.Undec(rule, "template#memo-discipline", "", "no escaper installation or edit-map reset found")
	}
}

func isHostedIn(fa *ssa.FieldAddr, pkg, typ string) bool {
	_, ok := hostedIn(fa, pkg, typ)
	return ok
}
