package main

import (
	"fmt"
	"os"
	"safecheck/relang"
	"strings"

	"golang.org/x/tools/go/ssa"
)

// attrChains evaluates sanitizersForAttributeValue and classifies its chains.
type attrChainInfo struct {
	Fn     *ssa.Function
	Alts   []chainAlt
	Policy *Policy
	CE     *chainEval
}

func loadAttrChains(p *Program) (*attrChainInfo, error) {
	fn := p.Func("template", "sanitizersForAttributeValue")
	if fn == nil {
		return nil, fmt.Errorf("anchor not found: sanitizersForAttributeValue")
	}
	pl, err := loadPolicy(p)
	if err != nil {
		return nil, err
	}
	ce := newChainEval(p)
	alts := ce.FuncChains(fn, 0)
	if len(ce.Problems) > 0 {
		return nil, fmt.Errorf("chain evaluation: %s", strings.Join(ce.Problems, "; "))
	}
	return &attrChainInfo{Fn: fn, Alts: alts, Policy: pl, CE: ce}, nil
}

// guard predicates over provenance atoms -------------------------------------------

func isAttrValueEmptyCmp(a Atom) (isEmptyTest bool) {
	e := a.E
	if e.Op != "binop" || e.Name != "==" {
		return false
	}
	k, ok := e.Args[1].IsConstString()
	if !ok || k != "" {
		return false
	}
	f := e.Args[0]
	return f.Op == "field" && f.Name == "value" && len(f.Args) == 1 && f.Args[0].Op == "field" && f.Args[0].Name == "attr"
}

func isURLClassCall(a Atom) bool {
	return a.E.Op == "call" && a.E.Fn != nil && cname(a.E.Fn) == "isURLorTrustedResourceURL"
}

func isAmbiguousField(a Atom) bool {
	f := a.E
	return f.Op == "field" && f.Name == "ambiguousValue"
}

func containsAnyOn(a Atom) (set string, ok bool) {
	if calleeIs(a.E, "strings.ContainsAny") && len(a.E.Args) == 2 {
		if k, isC := a.E.Args[1].IsConstString(); isC {
			return k, true
		}
	}
	return "", false
}

func isValidatorNil(a Atom) bool {
	// (== dynamic(validator)(attr.value) nil), validator looked up in urlPrefixValidators
	e := a.E
	if e.Op != "binop" || e.Name != "==" || e.Args[1].Op != "const" || e.Args[1].Const != nil {
		return false
	}
	c := e.Args[0]
	if c.Op != "call" || c.Name != "dynamic" || len(c.Args) != 2 {
		return false
	}
	found := isValidatorCallee(curProgram, c.Args[0])
	arg := c.Args[1]
	isVal := arg.Op == "field" && arg.Name == "value"
	return found && isVal
}

func scEquals(a Atom) (int64, bool) {
	e := a.E
	if e.Op != "binop" || e.Name != "==" {
		return 0, false
	}
	if v, ok := scConstValue(e.Args[1]); ok && e.Args[1].Type != nil && strings.HasSuffix(e.Args[1].Type.String(), ".sanitizationContext") {
		return v, true
	}
	return 0, false
}

// chainFuncs names the functions of a chain; the HTML escapers are named by
// what they do: "⟨escape⟩" for a function all of whose returns are
// HTMLEscaped(Stringify(args...)), "⟨escape|HTML⟩" for one that additionally
// passes safehtml.HTML values through.
func chainFuncs(pl *Policy, alt chainAlt) []string {
	var out []string
	for _, e := range alt.Elems {
		if e.Sym != nil {
			out = append(out, "⟨sc⟩")
			continue
		}
		f := pl.Funcs[e.Const]
		if f == nil {
			out = append(out, "?"+e.Const)
			continue
		}
		out = append(out, funcClass(pl, f))
	}
	return out
}

var funcClassCache = map[*ssa.Function]string{}

func funcClass(pl *Policy, f *ssa.Function) string {
	if c, ok := funcClassCache[f]; ok {
		return c
	}
	c := fnName(f)
	if f.Pkg != nil && f.Pkg.Pkg.Path() == modulePath+"/template" && f.Signature.Results().Len() == 2 {
		pv := NewProv(pl.prog)
		pv.NoInline = true
		sum := summariseSanitizer(pl.prog, pv, f)
		kinds := strings.Join(sum.Kinds(), ",")
		if len(sum.Problems) == 0 {
			switch {
			case kinds == "escaped":
				c = fnEscape
			case kinds == "escaped,passthrough" && strings.Join(sum.PassTypes(), ",") == "HTML":
				c = fnEscapeOrHTML
			}
		}
	}
	funcClassCache[f] = c
	return c
}

const (
	fnQueryEscape  = pkgUtil + ".QueryEscapeURL"
	fnNormalize    = pkgUtil + ".NormalizeURL"
	fnValidateSub  = modulePath + "/template.validateTrustedResourceURLSubstitution"
	fnEscape       = "⟨escape⟩"
	fnEscapeOrHTML = "⟨escape|HTML⟩"
)

// endsInEscaper: the chain's last function HTML-escapes (possibly passing HTML through).
func endsInEscaper(fns []string) bool {
	return len(fns) > 0 && (fns[len(fns)-1] == fnEscape || fns[len(fns)-1] == fnEscapeOrHTML)
}

func sameButLast(fns, want []string) bool {
	return len(fns) == len(want)+1 && sameStrings(fns[:len(fns)-1], want) && endsInEscaper(fns)
}

func sameStrings(a, b []string) bool {
	if len(a) != len(b) {
		return false
	}
	for i := range a {
		if a[i] != b[i] {
			return false
		}
	}
	return true
}

// checkURLPrefixChains: C14.R2 (and C04.R5) — the chain chosen per prefix class.
func checkURLPrefixChains(p *Program, r *Report) {
	rule := r.Property + ".R2"
	if r.Property == "C04" {
		rule = "C04.R5"
	}
	ci, err := loadAttrChains(p)
	if err != nil {
		r.Undec(rule, "template.sanitizersForAttributeValue", "", err.Error())
		return
	}
	pl := ci.Policy
	truVal, okTRU := pl.SCByName["sanitizationContextTrustedResourceURL"]
	if !okTRU {
		r.Undec(rule, "template.sanitizationContextTrustedResourceURL", "", "anchor not found")
		return
	}
	nURL := 0
	for i, alt := range ci.Alts {
		isURL := guardHas(alt.Guards, func(a Atom) bool { return isURLClassCall(a) && a.Pol })
		if !isURL {
			continue
		}
		nURL++
		pos := p.Pos(alt.Ret.Pos())
		fns := chainFuncs(pl, alt)
		emptyPrefix := guardHas(alt.Guards, func(a Atom) bool { return isAttrValueEmptyCmp(a) && a.Pol })
		nonEmptyPrefix := guardHas(alt.Guards, func(a Atom) bool { return isAttrValueEmptyCmp(a) && !a.Pol })
		c := fmt.Sprintf("template.sanitizersForAttributeValue#url-chain%d", i)
		switch {
		case emptyPrefix:
			want := []string{"⟨sc⟩", fnNormalize}
			okSym := len(alt.Elems) == 3 && alt.Elems[0].Sym != nil && isSanitizerNameOfSC(alt.Elems[0].Sym)
			notAmbig0 := guardHas(alt.Guards, func(a Atom) bool { return isAmbiguousField(a) && !a.Pol })
			r.Check(notAmbig0, rule, c+":no-prefix-unambiguous", pos, "the start-of-URL chain is chosen only for an unambiguous (empty) prefix", "the start-of-URL chain is chosen although the branches of a conditional may have left different static text in the value (the recorded prefix is empty but the real one need not be)")
			r.Check(sameButLast(fns, want) && okSym, rule, c+":no-prefix", pos, "without a static prefix: [context sanitizer, NormalizeURL, HTML escaper]",
				fmt.Sprintf("chain without a static prefix is %v, expected [context sanitizer, NormalizeURL, HTML escaper]", fns))
		case nonEmptyPrefix:
			hasValidator := guardHas(alt.Guards, func(a Atom) bool { return (isValidatorNil(a) || isValidatorWrapperNil(ci.CE.pv, a)) && a.Pol })
			notAmbig := guardHas(alt.Guards, func(a Atom) bool { return isAmbiguousField(a) && !a.Pol })
			if !hasValidator || !notAmbig {
				var miss []string
				if !hasValidator {
					miss = append(miss, "urlPrefixValidators[sc](prefix) == nil")
				}
				if !notAmbig {
					miss = append(miss, "¬ambiguousValue")
				}
				r.Viol(rule, c+":prefix-guards", pos, fmt.Sprintf("a chain for data after a static URL prefix is not dominated by %v", miss), "")
			} else {
				r.OK(rule, c+":prefix-guards", pos, "dominated by the prefix validator returning nil and the prefix being unambiguous")
			}
			isTRU := guardHas(alt.Guards, func(a Atom) bool { v, ok := scEquals(a); return ok && v == truVal && a.Pol })
			notTRU := guardHas(alt.Guards, func(a Atom) bool { v, ok := scEquals(a); return ok && v == truVal && !a.Pol })
			qfSet, qfPol, hasQF := "", false, false
			qfDecoded := false
			for _, a := range alt.Guards {
				if s, ok := containsAnyOn(a); ok {
					qfSet, qfPol, hasQF = s, a.Pol, true
					a.E.Args[0].Walk(func(x *Expr) bool {
						if x.Op == "call" && x.CalleeName() == "html.UnescapeString" {
							qfDecoded = true
						}
						return true
					})
				}
			}
			if !hasQF {
				// no single Contains-style guard: decide from the language of prefixes that reach this return
				if pol, ok := prefixClassByLanguage(p, alt); ok {
					qfSet, qfPol, hasQF = "#?", pol, true
					qfDecoded = prefixClassDecoded
				}
			}
			if notTRU && hasQF {
				// the browser sees the decoded prefix: '?' and '#' written as character references count
				r.Check(qfDecoded, rule, c+":class-on-decoded-prefix", pos, "whether the data lies in the query or fragment is decided on the character-reference-decoded prefix", "whether the data lies in the query or fragment is decided on the raw attribute text: a prefix that writes '?' or '#' as a character reference (&quest;, &#35;) puts the data into the query or fragment although it is only normalised, so it can add parameters or start a fragment — "+`<a href="/x&quest;q={{.Z}}">`)
			}
			coversQF := strings.Contains(qfSet, "#") && strings.Contains(qfSet, "?")
			switch {
			case isTRU:
				want := []string{fnValidateSub, fnQueryEscape}
				r.Check(sameButLast(fns, want), rule, c+":after-TrustedResourceURL-prefix", pos, "after a TrustedResourceURL prefix: [reject .., QueryEscapeURL, HTML escaper]",
					fmt.Sprintf("chain after a TrustedResourceURL prefix is %v", fns))
			case notTRU && hasQF && qfPol:
				want := []string{fnQueryEscape}
				r.Check(sameButLast(fns, want), rule, c+":in-query-or-fragment", pos, fmt.Sprintf("prefix contains one of %q: [QueryEscapeURL, HTML escaper]", qfSet),
					fmt.Sprintf("chain in the query/fragment part is %v", fns))
			case notTRU && hasQF && !qfPol:
				want := []string{fnNormalize}
				r.Check(sameButLast(fns, want) && coversQF, rule, c+":elsewhere", pos, "prefix without '#' and '?': [NormalizeURL, HTML escaper]",
					fmt.Sprintf("chain %v is used whenever the prefix contains none of %q; the statement requires full percent-encoding after both '?' and '#'", fns, qfSet))
			default:
				r.Undec(rule, c+":class", pos, fmt.Sprintf("prefix class of chain %v not recognised from its guards", fns))
			}
		default:
			r.Undec(rule, c, pos, fmt.Sprintf("URL-class chain %v is not guarded by a test of the static prefix being empty", fns))
		}
	}
	if nURL < 4 {
		r.Undec(rule, "template.sanitizersForAttributeValue#url-chains", p.Pos(ci.Fn.Pos()), fmt.Sprintf("expected 4 URL-class chains, found %d", nURL))
	}
	// isURLorTrustedResourceURL's constant set = the keys of urlPrefixValidators = URL-class contexts
	if f := p.Func("template", "sanitizationContext.isURLorTrustedResourceURL"); f != nil {
		got := scSetOfPredicate(f)
		want := map[int64]bool{}
		for _, n := range []string{"sanitizationContextURL", "sanitizationContextTrustedResourceURLOrURL", "sanitizationContextTrustedResourceURL"} {
			want[pl.SCByName[n]] = true
		}
		ok := len(got) == len(want)
		for k := range want {
			ok = ok && got[k]
		}
		var names []string
		for k := range got {
			names = append(names, pl.SC(k))
		}
		r.Check(ok, rule, "template.sanitizationContext.isURLorTrustedResourceURL", p.Pos(f.Pos()), "URL class = {URL, TrustedResourceURLOrURL, TrustedResourceURL}", fmt.Sprintf("URL class is %v", names))
	} else {
		r.Undec(rule, "template.sanitizationContext.isURLorTrustedResourceURL", "", "anchor not found")
	}
}

// isSanitizerNameOfSC: v is sc.sanitizerName() for the loop's context value.
func isSanitizerNameOfSC(v ssa.Value) bool {
	c, ok := v.(*ssa.Call)
	if !ok {
		return false
	}
	f := staticCallee(c.Common())
	return f != nil && cname(f) == "sanitizerName"
}

// scSetOfPredicate evaluates a method "func (s sanitizationContext) p() bool"
// built from comparisons of s with constants: the set of values for which it
// returns true.
func scSetOfPredicate(f *ssa.Function) map[int64]bool {
	out := map[int64]bool{}
	if len(f.Params) != 1 || f.Blocks == nil {
		return out
	}
	lv := decisionTable(f.Blocks[0], dtConfig{Var: f.Params[0], Dom: byteDomain(), Leaf: func(b *ssa.BasicBlock) (string, bool) { return "", false }})
	set := effectSet(lv, "return:true", nil)
	for i := 0; i+1 < len(set.R); i += 2 {
		for v := set.R[i]; v <= set.R[i+1]; v++ {
			out[int64(v)] = true
		}
	}
	return out
}

// isValidatorWrapperNil: (== f(…) nil) where f is a function of the package that returns only an error and
// returns nil only on paths on which the looked-up prefix validator returned nil.
func isValidatorWrapperNil(pv *Prov, a Atom) bool {
	e := a.E
	if e.Op != "binop" || e.Name != "==" || e.Args[1].Op != "const" || e.Args[1].Const != nil {
		return false
	}
	c := e.Args[0]
	if c.Op != "call" || c.Fn == nil || c.Fn.Blocks == nil || c.Fn.Signature.Results().Len() != 1 || !isErrorType(c.Fn.Signature.Results().At(0).Type()) {
		return false
	}
	n := 0
	for _, ret := range Returns(c.Fn) {
		if k, ok := ret.Results[0].(*ssa.Const); ok && k.Value == nil {
			n++
			if !allPathsGuard(pv, ret.Block(), func(x Atom) bool { return isValidatorNil(x) && x.Pol }, 0) {
				return false
			}
		}
	}
	return n > 0
}

// prefixClassByLanguage evaluates the path condition of a chain return as a language over the
// static attribute-value prefix (the loads of c.attr.value in that function). It reports
// (true, true) when every such prefix contains '#' or '?', (false, true) when none does.
// prefixClassDecoded: the last class decided by language was decided on the decoded prefix.
var prefixClassDecoded bool

func prefixClassByLanguage(p *Program, alt chainAlt) (bool, bool) {
	fn := alt.Ret.Parent()
	regs, _ := p.AllRegexes()
	s := NewSummarizer(p, regs)
	env := termEnv{}
	for _, b := range fn.Blocks {
		for _, in := range b.Instrs {
			u, ok := in.(*ssa.UnOp)
			if !ok {
				continue
			}
			fa, ok := u.X.(*ssa.FieldAddr)
			if !ok || fieldName(fa.X.Type(), fa.Field) != "value" {
				continue
			}
			if fa2, ok := fa.X.(*ssa.FieldAddr); ok && fieldName(fa2.X.Type(), fa2.Field) == "attr" {
				env[u] = Term{Param: 0}
			}
		}
	}
	if len(env) == 0 {
		return false, false
	}
	cond := s.blockCond(alt.Ret.Block(), env, "chain return")
	// the chain may be one of several alternatives merged before the return: add the conditions of the phi edges taken
	for _, e := range alt.Edges {
		if e[0].Parent() != fn {
			continue
		}
		ec := s.blockCond(e[0], env, "chain edge")
		if iff, ok := e[0].Instrs[len(e[0].Instrs)-1].(*ssa.If); ok && e[0].Succs[0] != e[0].Succs[1] {
			f := s.ValueForm(iff.Cond, env)
			if u, _ := f.HasUnknown(); !u {
				if e[0].Succs[1] == e[1] {
					f = fNot(f)
				}
				ec = fAnd(ec, f)
			}
		}
		cond = fAnd(cond, ec)
	}
	per, _ := splitByParam(cond)
	L := NewLang()
	if err := registerSumm(L, s, cond); err != nil {
		return false, false
	}
	qf := relang.SetOfString("#?")
	L.AddSet(qf)
	L.Build()
	has := relang.ContainsSym(L.A, qf)
	// the conditions on the raw prefix and those on the decoded prefix are about terms of their own
	for _, cand := range []struct {
		key     int
		decoded bool
	}{{0, false}, {Term{Param: 0, Unesc: true}.Key(), true}} {
		f := per[cand.key]
		if f == nil {
			continue
		}
		A, amb, err := L.Eval(f)
		if os.Getenv("CHAIN_DEBUG") != "" {
			fmt.Println("prefixClassByLanguage", cand.key, f, "err", err, "amb", amb)
		}
		if err != nil || len(amb) > 0 {
			continue
		}
		if ok, _ := relang.Subset(A, has); ok {
			prefixClassDecoded = cand.decoded
			return true, true
		}
		if ok, _ := relang.Disjoint(A, has); ok {
			prefixClassDecoded = cand.decoded
			return false, true
		}
	}
	return false, false
}
