package main

// C03.R11 / C02.R20: the function maps that the escaper itself installs on the text templates define none
// of the names text/template predefines. The escaper treats a predefined escaper at the end of a pipeline
// ("html", "urlquery") as equivalent to its own sanitizers and drops the contextual one in its favour; that
// equivalence is about text/template's built-in functions, which escape whatever the type. A map installed by
// the escaper that redefines such a name silently replaces the built-in.

import (
	"fmt"
	"sort"
	"strings"

	"golang.org/x/tools/go/ssa"
)

func builtinTemplateFuncNames(p *Program) map[string]bool {
	out := map[string]bool{}
	for _, pk := range p.SSA.AllPackages() {
		if pk.Pkg.Path() != "text/template" {
			continue
		}
		fn := pk.Func("builtins")
		if fn == nil {
			return out
		}
		for _, b := range fn.Blocks {
			for _, in := range b.Instrs {
				if mu, ok := in.(*ssa.MapUpdate); ok {
					if k, ok := constString(mu.Key); ok {
						out[k] = true
					}
				}
			}
		}
	}
	return out
}

// mapKeysOf: the constant keys stored into the map value v (a local literal or the literal a package-level
// variable is initialised with); ok=false if the map cannot be enumerated.
func mapKeysOf(p *Program, v ssa.Value, depth int) ([]string, bool) {
	if depth > 4 {
		return nil, false
	}
	switch x := v.(type) {
	case *ssa.ChangeType:
		return mapKeysOf(p, x.X, depth+1)
	case *ssa.Convert:
		return mapKeysOf(p, x.X, depth+1)
	case *ssa.MakeMap:
		var keys []string
		for _, ref := range *x.Referrers() {
			if mu, ok := ref.(*ssa.MapUpdate); ok && mu.Map == ssa.Value(x) {
				k, ok := constString(mu.Key)
				if !ok {
					return nil, false
				}
				keys = append(keys, k)
			}
		}
		return keys, true
	case *ssa.UnOp:
		g, ok := x.X.(*ssa.Global)
		if !ok || g.Pkg == nil {
			return nil, false
		}
		var keys []string
		found := false
		for _, fn := range p.SrcFuncs() {
			for _, b := range fn.Blocks {
				for _, in := range b.Instrs {
					switch y := in.(type) {
					case *ssa.Store:
						if y.Addr == ssa.Value(g) {
							ks, ok := mapKeysOf(p, y.Val, depth+1)
							if !ok {
								return nil, false
							}
							keys = append(keys, ks...)
							found = true
						}
					case *ssa.MapUpdate:
						// later additions to the variable's map
						if u, ok := y.Map.(*ssa.UnOp); ok && u.X == ssa.Value(g) {
							k, ok := constString(y.Key)
							if !ok {
								return nil, false
							}
							keys = append(keys, k)
						}
					}
				}
			}
		}
		return keys, found
	}
	return nil, false
}

func checkInstalledFuncMaps(p *Program, r *Report, rule string) {
	builtins := builtinTemplateFuncNames(p)
	if len(builtins) < 10 {
		r.Undec(rule, "text/template.builtins", "", "the predefined function names of text/template could not be read")
		return
	}
	n := 0
	for _, fn := range p.SrcFuncs() {
		if fn.Pkg == nil || fn.Pkg.Pkg.Path() != modulePath+"/template" {
			continue
		}
		for _, b := range fn.Blocks {
			for _, in := range b.Instrs {
				call, ok := in.(ssa.CallInstruction)
				if !ok {
					continue
				}
				g := staticCallee(call.Common())
				if g == nil || fnName(g) != "(*text/template.Template).Funcs" || len(call.Common().Args) < 2 {
					continue
				}
				arg := call.Common().Args[1]
				// a map handed in by the caller of an exported method is the user's business
				base := arg
				for {
					if ct, ok := base.(*ssa.ChangeType); ok {
						base = ct.X
						continue
					}
					break
				}
				if _, isPrm := base.(*ssa.Parameter); isPrm {
					continue
				}
				n++
				c := strings.TrimPrefix(fnName(fn), modulePath+"/") + "#installs-funcs"
				keys, ok := mapKeysOf(p, arg, 0)
				if !ok {
					r.Undec(rule, c, p.Pos(in.Pos()), "the installed function map cannot be enumerated")
					continue
				}
				var clash []string
				for _, k := range keys {
					if builtins[k] {
						clash = append(clash, k)
					}
				}
				sort.Strings(clash)
				r.Check(len(clash) == 0, rule, c, p.Pos(in.Pos()), fmt.Sprintf("installs %d functions, none of which text/template predefines", len(keys)), fmt.Sprintf("the escaper installs its own definition of the predefined function(s) %v: a pipeline that ends in such an escaper keeps it instead of the contextual sanitizer (they are declared equivalent), so the replacement decides what is escaped — a version that passes safe types through emits them unescaped in attributes and RCDATA", clash))
			}
		}
	}
	if n == 0 {
		r.Undec(rule, "template#installs-funcs", "", "no installation of the sanitizer functions found")
	}
}
