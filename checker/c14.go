package main

import (
	"fmt"
	"strings"

	"golang.org/x/tools/go/ssa"

	"safecheck/relang"
)

func init() { register("C14", "other", runC14) }

// DESIGN A.5 — written from the statement, HTML §13.5 (character references),
// RFC 3986 §2.1/§3.1.
const (
	specREF    = `&(?:[A-Za-z][A-Za-z0-9]*|#(?:[xX][0-9A-Fa-f]*|[0-9]*))?$`
	specPCT    = `%[0-9A-Fa-f]?$`
	specWSCTL  = `[\x00-\x20\x7f]`
	specSCHEME = `^[A-Za-z][A-Za-z0-9+.\-]*:`
)

func runC14(p *Program, r *Report) {
	engineConsistency(p, r, "C14.E", func(n string) bool { return strings.Contains(n, "") })

	r.Trusted = []string{"go/types + go/ssa", "regexp/syntax semantics as modelled by relang", "html.UnescapeString decodes character references (the decoded prefix is treated as a string of its own)", "C11 for the URL guard", "paper: the browser-level reading of the attribute value needs C01"}
	r.NotDecided = []string{"the decoded attribute value as the browser finally sees it (needs C01)"}
	r.Explain = "Byte decision tables of urlProcessor in both modes over all 256 bytes (normalisation copies only unreserved/reserved URL characters and valid %XX triplets, everything else — quotes, angle brackets, space, controls, backslash, non-ASCII — is escaped; idempotence follows from the tables); the prefix validators' nil-error path conditions are regular languages over the raw and the decoded prefix and exclude whitespace/controls, partial character references, partial percent escapes, and (URL class) prefixes that are neither a safe full scheme nor contain one of / ? #, (TrustedResourceURL class) anything outside the four trusted prefixes; the substitution validator rejects every input with two adjacent dot units; the sanitizer chain chosen per prefix class."
	for _, m := range []struct {
		r string
		n int
	}{{"C14.R1", 6}, {"C14.R4", 6}, {"C14.R5", 1}, {"C14.R6", 1}, {"C14.R7", 1}, {"C14.R8", 1}} {
		r.Min(m.r, m.n)
	}
	checkRangeReentryAgreement(p, r, "C14.R6")
	// the prefix an action after a template call is judged by comes from the memo of the called template
	checkMemoOutput(p, r, "C14.R9")
	checkJoinRecordsValueDisagreement(p, r, "C14.R8")
	// ---- R1 tables -------------------------------------------------------------
	t := checkURLProcEscapeMode(p, r, "C14.R1")
	if t != nil {
		cn := "safehtmlutil.urlProcessor"
		pos := p.Pos(t.Fn.Pos())
		copiedN := effectSet(t.Leaves, "copy", []string{"norm=true"})
		forbidden := relang.NewSet(0, 0x20, '"', '"', '\'', '\'', '<', '<', '>', '>', '\\', '\\', 0x7F, 0xFF)
		bad := copiedN.Intersect(forbidden)
		if bad.Empty() {
			r.OK("C14.R1", cn+"#normalise-table", pos, "NormalizeURL copies only "+copiedN.String()+"; quotes, angle brackets, space, controls, backslash and bytes ≥ 0x80 are percent-encoded")
		} else {
			r.Viol("C14.R1", cn+"#normalise-table", pos, "normalisation copies bytes the statement says are escaped: "+bad.String(), fmt.Sprintf("%+q", string(rune(bad.R[0]))))
		}
		// '%' is copied only as the start of a valid triplet
		pctOK := true
		nPct := 0
		for _, l := range t.Leaves {
			if l.Effect != "copy" || !l.Set.Contains('%') {
				continue
			}
			nPct++
			need := map[string]bool{"norm=true": false, "inbounds(i+2)=true": false, "hex(s[i+1])=true": false, "hex(s[i+2])=true": false}
			for _, tg := range l.Tags {
				if _, ok := need[tg]; ok {
					need[tg] = true
				}
			}
			for _, v := range need {
				if !v {
					pctOK = false
				}
			}
		}
		hexWant := relang.NewSet('0', '9', 'A', 'F', 'a', 'f')
		hexOK := t.HexSet != nil && t.HexSet.Equal(hexWant)
		r.Check(pctOK && nPct >= 1 && hexOK, "C14.R1", cn+"#percent", pos, "'%' is kept only when followed by two bytes of [0-9A-Fa-f] inside the string (valid %XX), otherwise escaped",
			fmt.Sprintf("'%%' may be kept without being the start of a valid %%XX escape (hex table %v)", t.HexSet))
		// idempotence: the digits emitted by the escape format are copied and are hex digits
		digits := relang.NewSet('0', '9', 'a', 'f')
		if t.Format == "%%02X" {
			digits = relang.NewSet('0', '9', 'A', 'F')
		}
		idem := digits.Minus(copiedN).Empty() && t.HexSet != nil && digits.Minus(t.HexSet).Empty() && pctOK && t.ShapeOK
		r.Check(idem, "C14.R1", cn+"#idempotent", pos, "every byte the normaliser emits is one it copies, and an emitted %hh is a valid triplet: normalising twice equals normalising once", "an emitted escape would be re-escaped by a second normalisation")
		r.Analysed["normalize_copied"] = copiedN.String()
	}
	// ---- R4 prefix validators ----------------------------------------------------
	regs, _ := p.AllRegexes()
	validators, vsrc, err := prefixValidatorTable(p)
	if err != nil {
		r.Undec("C14.R4", "template#prefix-validators", "", err.Error())
		return
	}
	vpos := vsrc.Pos
	// the map must be total over the URL-class contexts
	want := map[string]string{"sanitizationContextURL": "url", "sanitizationContextTrustedResourceURLOrURL": "url", "sanitizationContextTrustedResourceURL": "tru"}
	for _, sc := range sortedKeys(want) {
		fn := validators[sc]
		c := "template.urlPrefixValidators[" + sc + "]" // construct name kept stable; the table is found by data flow ("+vsrc.Name()+")
		if fn == nil {
			r.Viol("C14.R4", c, vpos, "no prefix validator registered for this URL-class context", "")
			continue
		}
		checkPrefixValidator(p, r, regs, fn, want[sc], c)
	}
	for sc := range validators {
		if _, ok := want[sc]; !ok {
			r.OK("C14.R4", "template.urlPrefixValidators["+sc+"]", vpos, "extra entry (not a URL-class context of the statement)")
		}
	}
	// ---- R5 substitution validator -----------------------------------------------
	checkSubstitutionValidator(p, r, regs)
	// ---- R2 chains (shared with the chain evaluator) --------------------------------
	checkURLPrefixChains(p, r)
}

func checkPrefixValidator(p *Program, r *Report, regs map[string]*RegexConst, fn *ssa.Function, class, c string) {
	pos := p.Pos(fn.Pos())
	if len(fn.Params) != 1 || fn.Signature.Results().Len() != 1 {
		r.Undec("C14.R4", c, pos, "validator is not func(string) error")
		return
	}
	s := NewSummarizer(p, regs)
	env := termEnv{fn.Params[0]: Term{Param: 0}}
	cond := s.NilResultForm(fn, 0, env)
	if u, why := cond.HasUnknown(); u {
		r.Undec("C14.R4", c, pos, "nil-error condition not summarisable: "+why)
		return
	}
	if len(s.Inexact) > 0 {
		// a guard on the way (typically the URL guard that C11 decides) could not be modelled: whatever the
		// remaining guards allow is not a finding about this validator
		r.Undec("C14.R4", c, pos, "a guard of the validator could not be modelled: "+s.Inexact[0])
		return
	}
	L := NewLang()
	if err := registerSumm(L, s, cond); err != nil {
		r.Undec("C14.R4", c, pos, err.Error())
		return
	}
	for _, sp := range []string{specREF, specPCT, specWSCTL, specSCHEME, specBAD, specTRUPrefix} {
		L.MustRe(sp)
	}
	L.AddString("/?#")
	L.AddString(specInnocuousURL)
	L.Build()
	per, _ := splitByParam(cond)
	raw, dec := per[Term{Param: 0}.Key()], per[Term{Param: 0, Unesc: true}.Key()]
	eval := func(f *Form, what string) *relang.DFA {
		if f == nil {
			r.Viol("C14.R4", c+"#"+what, pos, "the validator puts no condition on the "+what+" prefix", "")
			return nil
		}
		d, amb, err := L.Eval(f)
		if err != nil || len(amb) > 0 {
			r.Undec("C14.R4", c+"#"+what, pos, fmt.Sprintf("%v %v", err, amb))
			return nil
		}
		return d
	}
	if d := eval(raw, "raw"); d != nil {
		badRaw := relang.Union(L.SearchRe(specWSCTL), L.SearchRe(specREF))
		if ok, w := relang.Disjoint(d, badRaw); ok {
			r.OK("C14.R4", c+"#raw", pos, "accepted raw prefixes contain no whitespace/control and do not end in a partial character reference")
		} else {
			r.Viol("C14.R4", c+"#raw", pos, "a raw prefix with whitespace/control characters or ending in an incomplete character reference is accepted", w)
		}
	}
	if d := eval(dec, "decoded"); d != nil {
		badDec := relang.Union(L.SearchRe(specWSCTL), L.SearchRe(specPCT))
		if ok, w := relang.Disjoint(d, badDec); ok {
			r.OK("C14.R4", c+"#decoded", pos, "accepted decoded prefixes contain no whitespace/control (also when written as character references) and do not end in a partial percent escape")
		} else {
			r.Viol("C14.R4", c+"#decoded", pos, "a prefix that decodes to whitespace/control characters, or ends in an incomplete %-escape, is accepted", w)
		}
		var spec *relang.DFA
		var what string
		if class == "url" {
			// a complete scheme that is not javascript, or at least one of / ? # (so the data cannot complete a scheme)
			spec = relang.Union(relang.Minus(L.SearchRe(specSCHEME), L.SearchRe(specBAD)), relang.ContainsSym(L.A, relang.SetOfString("/?#")))
			what = "has a complete non-javascript scheme or contains one of / ? #"
		} else {
			spec = L.SearchRe(specTRUPrefix)
			what = "starts with one of the four TrustedResourceURL prefixes"
		}
		if ok, w := relang.Subset(d, spec); ok {
			r.OK("C14.R4", c+"#class", pos, "every accepted decoded prefix "+what)
		} else {
			r.Viol("C14.R4", c+"#class", pos, "an accepted decoded prefix neither "+what, w)
		}
	}
}

func checkSubstitutionValidator(p *Program, r *Report, regs map[string]*RegexConst) {
	fn := p.Func("template", "validateTrustedResourceURLSubstitution")
	const c = "template.validateTrustedResourceURLSubstitution"
	if fn == nil {
		r.Undec("C14.R5", c, "", "anchor not found")
		return
	}
	pos := p.Pos(fn.Pos())
	s := NewSummarizer(p, regs)
	env := termEnv{fn.Params[0]: Term{Param: 0}}
	cond := s.NilResultForm(fn, 1, env)
	L := NewLang()
	if err := registerSumm(L, s, cond); err != nil {
		r.Undec("C14.R5", c, pos, err.Error())
		return
	}
	L.MustRe(specDotDot)
	L.Build()
	d, amb, err := L.Eval(cond)
	if err != nil || len(amb) > 0 {
		r.Undec("C14.R5", c, pos, fmt.Sprintf("%v %v", err, amb))
		return
	}
	if ok, w := relang.Disjoint(d, L.SearchRe(specDotDot)); ok {
		r.OK("C14.R5", c, pos, "inputs with two adjacent dot units (. or %2e) are rejected: "+cond.String())
	} else {
		r.Viol("C14.R5", c, pos, "an input containing a \"..\" (possibly percent-encoded) passes the substitution validator", w)
	}
	// R7: the validator sees one substitution at a time; the browser sees it between static text and other
	// substitutions. A value that begins or ends with a dot unit completes a ".." with a dot unit next to it.
	{
		const dotEdge = `^(\.|%2[eE])|(\.|%2[eE])$`
		L2 := NewLang()
		if err := registerSumm(L2, s, cond); err == nil {
			L2.MustRe(dotEdge)
			L2.Build()
			if d2, amb2, err2 := L2.Eval(cond); err2 == nil && len(amb2) == 0 {
				if ok, w := relang.Disjoint(d2, L2.SearchRe(dotEdge)); ok {
					r.OK("C14.R7", c+"#dot-at-the-edge", pos, "a substitution cannot begin or end with a dot unit, so it cannot complete a \"..\" with its neighbours")
				} else {
					r.Viol("C14.R7", c+"#dot-at-the-edge", pos, "a substitution that begins or ends with a dot unit (. or %2e) is accepted: each piece is validated on its own, so next to a dot in the static text or in an adjacent substitution it forms a \"..\" segment after the TrustedResourceURL prefix (<script src=\"/x/.{{.A}}\"> with A=\".\")", w)
				}
			} else {
				r.Undec("C14.R7", c+"#dot-at-the-edge", pos, fmt.Sprintf("%v %v", err2, amb2))
			}
		}
	}
	// the value returned with a nil error is the stringified input itself
	okVal := true
	for _, ret := range Returns(fn) {
		if k, ok := ret.Results[1].(*ssa.Const); ok && k.Value == nil {
			t, ok := s.termOf(ret.Results[0], env)
			if !ok || t != (Term{Param: 0}) {
				okVal = false
			}
		}
	}
	r.Check(okVal, "C14.R5", c+"#value", pos, "returns its stringified input unchanged", "returns something other than its stringified input")
}
