package main

import (
	"fmt"
	"go/token"
	"os"

	"safecheck/relang"

	"golang.org/x/tools/go/ssa"
)

// Path mode for buffer-writing helpers without loops.
//
// The automaton over the control-flow graph (compile, kind "buf") forgets what a path has
// learned: that the "%2c" was written on the very path that cut the comma off, that an index
// was advanced only where the byte had been tested. For a loop-free helper the paths are few,
// so each is followed on its own with, per string term, the regular language of the values
// that can take this path. Branch conditions refine that language (tests of the first/last
// byte of a slice of the term, of lengths, strings.HasPrefix/HasSuffix, and everything the
// guard summariser understands); phis are resolved by the edge taken; integer bounds are
// followed as constant offsets from the ends; a write of a slice of the term contributes the
// language with as many symbols dropped at each end. The language of the path is the
// concatenation of its writes under the final languages, the language of the helper the
// union over its paths. (Static: nothing is executed, no solver is asked; the domain is
// regular languages.)

type symStr struct {
	key  int // term key
	a, b int // bytes dropped at the front / at the back
}

type symInt struct {
	c   int64
	e   int    // 0: constant c; 1: c + len(s)
	s   symStr // when e == 1
	set bool
}

type bpState struct {
	lang  map[int]*relang.DFA
	phi   map[*ssa.Phi]ssa.Value
	parts []*relang.DFA // what was written so far that does not depend on a term cut
	// pieces in order: either a fixed language or a cut of a term (resolved at the end of the path)
	seq   []pathPiece
	empty bool
}

type pathPiece struct {
	d   *relang.DFA // fixed
	lx  *lx         // an expression compiled at the end of the path under the final languages
	cut *symStr
}

func loopFree(fn *ssa.Function) bool {
	for _, b := range fn.Blocks {
		for _, su := range b.Succs {
			if su.Dominates(b) {
				return false
			}
		}
	}
	return true
}

type bufPathEval struct {
	oe     *outEval
	bs     *bufSpec
	L      *Lang
	out    *relang.DFA
	paths  int
	bad    string
	aware  bool
	any    *relang.DFA
	anySym *relang.DFA
}

// pathModeApplies: the buffer function is a loop-free helper with at least one string term bound.
func (oe *outEval) pathModeApplies(bs *bufSpec) bool {
	if !loopFree(bs.fn) || bs.fr == nil {
		return false
	}
	for _, prm := range bs.fn.Params {
		if _, ok := bs.fr.env[prm]; ok && isStringish(prm.Type()) {
			return true
		}
	}
	return false
}

// compileBufPathsOrBad: as compileBufPaths, but reports (instead of recording a problem) that the paths could not be followed.
func (oe *outEval) compileBufPathsOrBad(bs *bufSpec, L *Lang) (*relang.DFA, bool, error) {
	n := len(oe.Problems)
	d, err := oe.compileBufPaths(bs, L, true)
	if err != nil {
		return nil, false, err
	}
	if len(oe.Problems) > n {
		oe.Problems = oe.Problems[:n]
		return nil, true, nil
	}
	return d, false, nil
}

func (oe *outEval) compileBufPaths(bs *bufSpec, L *Lang, entryEmpty bool) (*relang.DFA, error) {
	oe.piecesOf(bs)
	pe := &bufPathEval{oe: oe, bs: bs, L: L, out: relang.EmptyLang(L.A), aware: oe.lenAware(bs), any: L.All(), anySym: L.FullRe(`[\s\S]`)}
	st := &bpState{lang: map[int]*relang.DFA{}, phi: map[*ssa.Phi]ssa.Value{}, empty: entryEmpty}
	// the languages the caller knows for the bound terms
	for _, prm := range bs.fn.Params {
		t, ok := bs.fr.env[prm]
		if !ok || !isStringish(prm.Type()) {
			continue
		}
		var d *relang.DFA
		if x, ok := bs.fr.bind[prm]; ok && x.Kind == "term" {
			dd, err := oe.compile(x, L, map[*lx]*relang.DFA{})
			if err != nil {
				return nil, err
			}
			d = dd
		} else if oe.Markers {
			d = relang.Literal(L.A, string(markerRune(t.Key())))
		} else {
			d = L.All()
		}
		if ov, ok := oe.termOverride[t.Key()]; ok {
			d = relang.Intersect(d, ov)
		}
		if prev, ok := st.lang[t.Key()]; ok {
			d = relang.Intersect(d, prev)
		}
		st.lang[t.Key()] = d.Minimize()
	}
	if err := pe.walk(bs.fn.Blocks[0], nil, st, 0); err != nil {
		return nil, err
	}
	if pe.bad != "" {
		oe.Problems = append(oe.Problems, pe.bad)
		return L.All(), nil
	}
	return pe.out.Minimize(), nil
}

func (st *bpState) clone() *bpState {
	n := &bpState{lang: map[int]*relang.DFA{}, phi: map[*ssa.Phi]ssa.Value{}, empty: st.empty}
	for k, v := range st.lang {
		n.lang[k] = v
	}
	for k, v := range st.phi {
		n.phi[k] = v
	}
	n.seq = append([]pathPiece(nil), st.seq...)
	return n
}

func (pe *bufPathEval) resolve(v ssa.Value, st *bpState) ssa.Value {
	for i := 0; i < 8; i++ {
		ph, ok := v.(*ssa.Phi)
		if !ok {
			return v
		}
		r, ok := st.phi[ph]
		if !ok {
			return v
		}
		v = r
	}
	return v
}

// strOf: the symbolic string of v on this path.
func (pe *bufPathEval) strOf(v ssa.Value, st *bpState, depth int) (symStr, bool) {
	v = pe.resolve(v, st)
	if depth > 6 {
		return symStr{}, false
	}
	switch x := v.(type) {
	case *ssa.Convert:
		if isStringish(x.X.Type()) || isByteSlice(x.X.Type()) {
			return pe.strOf(x.X, st, depth+1)
		}
	case *ssa.ChangeType:
		return pe.strOf(x.X, st, depth+1)
	case *ssa.Slice:
		base, ok := pe.strOf(x.X, st, depth+1)
		if !ok {
			return symStr{}, false
		}
		if x.Low != nil {
			lo, ok := pe.intOf(x.Low, st, depth+1)
			if !ok || lo.e != 0 || lo.c < 0 || lo.c > 4 {
				return symStr{}, false
			}
			base.a += int(lo.c)
		}
		if x.High != nil {
			hi, ok := pe.intOf(x.High, st, depth+1)
			xs, okx := pe.strOf(x.X, st, depth+1)
			if !ok || !okx || hi.e != 1 || hi.s != xs || hi.c > 0 || hi.c < -4 {
				return symStr{}, false
			}
			base.b += int(-hi.c)
		}
		return base, true
	}
	if t, ok := pe.bs.fr.env[v]; ok && !t.Lower && !t.Upper && t.Strip == nil && !t.Unesc {
		if _, have := st.lang[t.Key()]; have {
			return symStr{key: t.Key()}, true
		}
	}
	return symStr{}, false
}

func (pe *bufPathEval) intOf(v ssa.Value, st *bpState, depth int) (symInt, bool) {
	v = pe.resolve(v, st)
	if depth > 8 {
		return symInt{}, false
	}
	if k, ok := constInt(v); ok {
		return symInt{c: k, set: true}, true
	}
	if sv, ok := isLenOf(v); ok {
		if s, ok := pe.strOf(sv, st, depth+1); ok {
			return symInt{e: 1, s: s, set: true}, true
		}
		return symInt{}, false
	}
	if bo, ok := v.(*ssa.BinOp); ok && (bo.Op == token.ADD || bo.Op == token.SUB) {
		x, ok1 := pe.intOf(bo.X, st, depth+1)
		y, ok2 := pe.intOf(bo.Y, st, depth+1)
		if ok1 && ok2 && y.e == 0 {
			if bo.Op == token.ADD {
				x.c += y.c
			} else {
				x.c -= y.c
			}
			return x, true
		}
		if ok1 && ok2 && x.e == 0 && bo.Op == token.ADD {
			y.c += x.c
			return y, true
		}
	}
	return symInt{}, false
}

func (pe *bufPathEval) symbols(n int) *relang.DFA {
	d := relang.Literal(pe.L.A, "")
	for i := 0; i < n; i++ {
		d = relang.Concat(d, pe.anySym)
	}
	return d
}

// asciiAt: every string of d has ASCII symbols at the first a and the last b positions (so that
// dropping symbols is dropping bytes); strings shorter than a+b are disregarded.
func (pe *bufPathEval) asciiEnds(d *relang.DFA, a, b int) bool {
	nonASCII := pe.L.FullRe(`[^\x00-\x7f]`)
	for i := 0; i < a; i++ {
		bad := relang.Concat(relang.Concat(pe.symbols(i), nonASCII), pe.any)
		if !relang.Intersect(d, bad).IsEmpty() {
			return false
		}
	}
	for i := 0; i < b; i++ {
		bad := relang.Concat(relang.Concat(pe.any, nonASCII), pe.symbols(i))
		if !relang.Intersect(d, bad).IsEmpty() {
			return false
		}
	}
	return true
}

// constraint on the term of s: the byte at offset off of s (from the front, or from the back when
// back is set) is K.
func (pe *bufPathEval) byteIs(s symStr, off int, back bool, k rune) *relang.DFA {
	lit := relang.Literal(pe.L.A, string(k))
	if back {
		return relang.Concat(relang.Concat(pe.any, lit), pe.symbols(s.b+off))
	}
	return relang.Concat(relang.Concat(pe.symbols(s.a+off), lit), pe.any)
}

// cond evaluates a branch condition: the refinements of the term languages on the true and the
// false side (nil maps: no refinement), and for conditions decided by the state the side taken.
type refine map[int]*relang.DFA

func (pe *bufPathEval) cond(v ssa.Value, st *bpState, depth int) (t, f refine, known, val bool) {
	v = pe.resolve(v, st)
	if depth > 8 {
		return nil, nil, false, false
	}
	if b, ok := constBool(v); ok {
		return nil, nil, true, b
	}
	switch x := v.(type) {
	case *ssa.UnOp:
		if x.Op == token.NOT {
			t, f, known, val := pe.cond(x.X, st, depth+1)
			return f, t, known, !val
		}
	case *ssa.Call:
		g := staticCallee(x.Common())
		if g != nil && len(x.Common().Args) == 2 {
			n := fnName(g)
			front := n == "strings.HasPrefix" || n == "bytes.HasPrefix"
			back := n == "strings.HasSuffix" || n == "bytes.HasSuffix"
			if front || back {
				s, ok := pe.strOf(x.Common().Args[0], st, 0)
				k, okk := constString(x.Common().Args[1])
				if ok && okk && isASCII(k) && len(k) > 0 && pe.asciiEnds(st.lang[s.key], s.a, s.b) {
					lit := relang.Literal(pe.L.A, k)
					var c *relang.DFA
					if front {
						c = relang.Concat(relang.Concat(relang.Concat(pe.symbols(s.a), lit), pe.any), pe.symbols(s.b))
					} else {
						c = relang.Concat(relang.Concat(relang.Concat(pe.symbols(s.a), pe.any), lit), pe.symbols(s.b))
					}
					return refine{s.key: c}, refine{s.key: relang.Complement(c)}, false, false
				}
			}
		}
	case *ssa.BinOp:
		switch x.Op {
		case token.EQL, token.NEQ:
			// byte of a symbolic string compared with an ASCII constant
			l, r := x.X, x.Y
			if _, isK := pe.resolve(l, st).(*ssa.Const); isK {
				l, r = r, l
			}
			if k, ok := constInt(pe.resolve(r, st)); ok && k >= 0 && k < 0x80 {
				if s, off, back, ok := pe.byteOf(l, st); ok && pe.asciiEnds(st.lang[s.key], s.a, s.b) {
					c := pe.byteIs(s, off, back, rune(k))
					if x.Op == token.EQL {
						return refine{s.key: c}, refine{s.key: relang.Complement(c)}, false, false
					}
					return refine{s.key: relang.Complement(c)}, refine{s.key: c}, false, false
				}
			}
			fallthrough
		case token.LSS, token.GTR, token.LEQ, token.GEQ:
			a, ok1 := pe.intOf(x.X, st, 0)
			b, ok2 := pe.intOf(x.Y, st, 0)
			if ok1 && ok2 {
				if a.e == 0 && b.e == 0 {
					var r bool
					switch x.Op {
					case token.EQL:
						r = a.c == b.c
					case token.NEQ:
						r = a.c != b.c
					case token.LSS:
						r = a.c < b.c
					case token.GTR:
						r = a.c > b.c
					case token.LEQ:
						r = a.c <= b.c
					case token.GEQ:
						r = a.c >= b.c
					}
					return nil, nil, true, r
				}
				// exactly one side is c + len(s): normalise to  len(term) OP k
				op := x.Op
				if a.e == 0 && b.e == 1 {
					a, b = b, a
					switch op {
					case token.LSS:
						op = token.GTR
					case token.GTR:
						op = token.LSS
					case token.LEQ:
						op = token.GEQ
					case token.GEQ:
						op = token.LEQ
					}
				}
				if a.e == 1 && b.e == 0 {
					// a.c + len(s) OP b.c, len(s) = len(term) - s.a - s.b
					k := b.c - a.c + int64(a.s.a+a.s.b)
					tr, fr := pe.lenCmp(op, k)
					return refine{a.s.key: tr}, refine{a.s.key: fr}, false, false
				}
			}
		}
	}
	if pe.oe.Markers {
		return nil, nil, false, false // placeholders stand for the terms: their conditions are not evaluated here
	}
	// anything the guard summariser understands, as conditions on the terms
	f2 := pe.oe.s.ValueForm(v, pe.bs.fr.env)
	if u, _ := f2.HasUnknown(); u {
		return nil, nil, false, false
	}
	per, _ := splitByParam(f2)
	nper, _ := splitByParam(fNot(f2))
	tr, fr := refine{}, refine{}
	for k, pf := range per {
		if d, amb, err := pe.L.Eval(pf); err == nil && len(amb) == 0 {
			tr[k] = d
		}
	}
	for k, pf := range nper {
		if d, amb, err := pe.L.Eval(pf); err == nil && len(amb) == 0 {
			fr[k] = d
		}
	}
	return tr, fr, false, false
}

func isASCII(s string) bool {
	for _, r := range s {
		if r >= 0x80 {
			return false
		}
	}
	return true
}

// lenCmp: over-approximations of {t : len_bytes(t) OP k} and of its complement, as sets of symbol
// strings (a string of n symbols has at least n bytes).
func (pe *bufPathEval) lenCmp(op token.Token, k int64) (*relang.DFA, *relang.DFA) {
	atMost := func(n int64) *relang.DFA { // len_bytes <= n  ⇒  symbols <= n
		if n < 0 {
			return relang.EmptyLang(pe.L.A)
		}
		if n > 16 {
			return pe.any
		}
		d := relang.Literal(pe.L.A, "")
		acc := d
		for i := int64(0); i < n; i++ {
			d = relang.Concat(d, pe.anySym)
			acc = relang.Union(acc, d)
		}
		return acc.Minimize()
	}
	atLeast := func(n int64) *relang.DFA { // len_bytes >= n  ⇒  non-empty when n >= 1
		if n >= 1 {
			return relang.Minus(pe.any, relang.Literal(pe.L.A, ""))
		}
		return pe.any
	}
	switch op {
	case token.LSS:
		return atMost(k - 1), atLeast(k)
	case token.LEQ:
		return atMost(k), atLeast(k + 1)
	case token.GTR:
		return atLeast(k + 1), atMost(k)
	case token.GEQ:
		return atLeast(k), atMost(k - 1)
	case token.EQL:
		if k == 0 {
			return relang.Literal(pe.L.A, ""), atLeast(1)
		}
		return relang.Intersect(atMost(k), atLeast(k)), pe.any
	case token.NEQ:
		if k == 0 {
			return atLeast(1), relang.Literal(pe.L.A, "")
		}
		return pe.any, relang.Intersect(atMost(k), atLeast(k))
	}
	return pe.any, pe.any
}

// byteOf: v is byte #i of a symbolic string: returns the string, the offset inside it and whether
// the offset counts from the back.
func (pe *bufPathEval) byteOf(v ssa.Value, st *bpState) (symStr, int, bool, bool) {
	v = pe.resolve(v, st)
	if c, ok := v.(*ssa.Convert); ok {
		v = pe.resolve(c.X, st)
	}
	var base, idx ssa.Value
	switch y := v.(type) {
	case *ssa.Index:
		base, idx = y.X, y.Index
	case *ssa.Lookup:
		base, idx = y.X, y.Index
	case *ssa.UnOp:
		if ia, ok := y.X.(*ssa.IndexAddr); ok && y.Op == token.MUL {
			base, idx = ia.X, ia.Index
		}
	}
	if base == nil {
		return symStr{}, 0, false, false
	}
	s, ok := pe.strOf(base, st, 0)
	if !ok {
		return symStr{}, 0, false, false
	}
	i, ok := pe.intOf(idx, st, 0)
	if !ok {
		return symStr{}, 0, false, false
	}
	switch {
	case i.e == 0 && i.c >= 0 && i.c <= 4:
		return s, int(i.c), false, true
	case i.e == 1 && i.s == s && i.c < 0 && i.c >= -4:
		return s, int(-i.c - 1), true, true
	case i.e == 1 && i.c < 0 && i.c >= -4 && i.s.key == s.key && i.s.a == s.a:
		// index counted from the end of a string with the same front: len(x)-d where x ends b' bytes earlier/later
		return symStr{key: s.key, a: s.a, b: i.s.b}, int(-i.c - 1), true, true
	}
	return symStr{}, 0, false, false
}

func (pe *bufPathEval) walk(b, from *ssa.BasicBlock, st *bpState, depth int) error {
	if pe.bad != "" {
		return nil
	}
	if depth > 64 || pe.paths > 512 {
		pe.bad = "too many paths through " + fnName(pe.bs.fn)
		return nil
	}
	// an empty language: the path is infeasible
	for _, d := range st.lang {
		if d.IsEmpty() {
			return nil
		}
	}
	if from != nil {
		for _, in := range b.Instrs {
			ph, ok := in.(*ssa.Phi)
			if !ok {
				break
			}
			for i, p := range b.Preds {
				if p == from {
					st.phi[ph] = pe.resolve(ph.Edges[i], st)
				}
			}
		}
	}
	pcs := pe.bs.pieces[b]
	k := 0
	for _, ins := range b.Instrs {
		if pe.bs.end != nil && ins == pe.bs.end {
			return pe.finish(st)
		}
		for k < len(pcs) && pcs[k].At == ins && pcs[k].V != nil {
			// a part of the returned concatenation, as it is on this path
			v := pe.resolve(pcs[k].V, st)
			pp := pathPiece{lx: pcs[k].X}
			if ks, ok := constString(v); ok {
				pp = pathPiece{d: relang.Literal(pe.L.A, ks)}
			} else if sv, ok := pe.strOf(v, st, 0); ok {
				pp = pathPiece{cut: &sv}
			} else if v != pcs[k].V {
				pp = pathPiece{lx: pe.oe.strLx(v, b, pe.bs.fr)}
			}
			st.seq = append(st.seq, pp)
			k++
		}
		if k < len(pcs) && pcs[k].At == ins {
			pp := pathPiece{lx: pcs[k].X}
			if call, ok := ins.(*ssa.Call); ok && len(call.Common().Args) == 2 {
				if g := staticCallee(call.Common()); g != nil {
					switch fnName(g) {
					case "(*bytes.Buffer).WriteString", "(*bytes.Buffer).Write":
						if s, ok := pe.strOf(call.Common().Args[1], st, 0); ok {
							pp = pathPiece{cut: &s}
						} else if k, ok := constString(pe.resolve(call.Common().Args[1], st)); ok {
							// a string chosen by the branches of this path (end := ""; if … { end = "%2c" })
							pp = pathPiece{d: relang.Literal(pe.L.A, k)}
						}
					}
				}
			}
			st.seq = append(st.seq, pp)
			k++
		}
		if _, isRet := ins.(*ssa.Return); isRet && pe.bs.end == nil {
			return pe.finish(st)
		}
	}
	switch last := b.Instrs[len(b.Instrs)-1].(type) {
	case *ssa.If:
		if pe.aware {
			if e, ok := bufLenTest(last, pe.bs.buf); ok {
				// whether the buffer is empty here: entry state and what this path wrote so far
				emptyNow, sure := pe.emptySoFar(st)
				if sure {
					if emptyNow {
						return pe.walk(b.Succs[e], b, st, depth+1)
					}
					return pe.walk(b.Succs[1-e], b, st, depth+1)
				}
			}
		}
		t, f, known, val := pe.cond(last.Cond, st, 0)
		if known {
			if val {
				return pe.walk(b.Succs[0], b, st, depth+1)
			}
			return pe.walk(b.Succs[1], b, st, depth+1)
		}
		for i, ref := range []refine{t, f} {
			n := st.clone()
			for key, d := range ref {
				if cur, ok := n.lang[key]; ok && d != nil {
					n.lang[key] = relang.Intersect(cur, d).Minimize()
				}
			}
			if err := pe.walk(b.Succs[i], b, n, depth+1); err != nil {
				return err
			}
		}
		return nil
	case *ssa.Jump:
		return pe.walk(b.Succs[0], b, st, depth+1)
	case *ssa.Return:
		return nil
	}
	return nil
}

// emptySoFar: is the buffer certainly empty / certainly non-empty at this point of the path.
func (pe *bufPathEval) emptySoFar(st *bpState) (bool, bool) {
	es := 1
	if st.empty {
		es = 0
	}
	for _, pc := range st.seq {
		if es == 1 {
			break
		}
		d1, err := pe.pieceDFA(pc, st, true)
		if err != nil {
			return false, false
		}
		d := d1
		if es == 2 {
			d2, err := pe.pieceDFA(pc, st, false)
			if err != nil {
				return false, false
			}
			d = relang.Union(d1, d2)
		}
		if !d.Accepts("") {
			es = 1
		} else if !relang.Minus(d, relang.Literal(pe.L.A, "")).IsEmpty() {
			es = 2
		}
	}
	switch es {
	case 0:
		return true, true
	case 1:
		return false, true
	}
	return false, false
}

func (pe *bufPathEval) pieceDFA(pc pathPiece, st *bpState, entryEmpty bool) (*relang.DFA, error) {
	switch {
	case pc.d != nil:
		return pc.d, nil
	case pc.cut != nil:
		d := st.lang[pc.cut.key]
		if !pe.asciiEnds(d, pc.cut.a, pc.cut.b) {
			return pe.any, nil
		}
		// only strings long enough to be cut
		d = relang.Intersect(d, relang.Concat(relang.Concat(pe.symbols(pc.cut.a), pe.any), pe.symbols(pc.cut.b)))
		for i := 0; i < pc.cut.a; i++ {
			d = relang.DropFirst(d)
		}
		for i := 0; i < pc.cut.b; i++ {
			d = relang.DropLast(d)
		}
		return d.Minimize(), nil
	}
	// an expression: compiled under the languages of this path
	saved := pe.oe.termOverride
	pe.oe.termOverride = map[int]*relang.DFA{}
	for k, v := range saved {
		pe.oe.termOverride[k] = v
	}
	for k, v := range st.lang {
		pe.oe.termOverride[k] = v
	}
	defer func() { pe.oe.termOverride = saved }()
	if pc.lx.Kind == "buf" && pc.lx.Buf != pe.bs {
		if pe.oe.pathModeApplies(pc.lx.Buf) {
			return pe.oe.compileBufPaths(pc.lx.Buf, pe.L, entryEmpty)
		}
		if pe.oe.lenAware(pc.lx.Buf) {
			return pe.oe.compileBufAware(pc.lx.Buf, pe.L, map[*lx]*relang.DFA{}, entryEmpty)
		}
	}
	return pe.oe.compile(pc.lx, pe.L, map[*lx]*relang.DFA{})
}

func (pe *bufPathEval) finish(st *bpState) error {
	pe.paths++
	for _, d := range st.lang {
		if d.IsEmpty() {
			return nil
		}
	}
	if pe.oe.Fidelity != nil {
		pe.oe.Fidelity.check(pe, st)
	}
	acc := relang.Literal(pe.L.A, "")
	// emptiness of the buffer before each piece: 0 certainly empty, 1 certainly not, 2 unknown
	es := 1
	if st.empty {
		es = 0
	}
	for _, pc := range st.seq {
		var d *relang.DFA
		var err error
		switch es {
		case 0:
			d, err = pe.pieceDFA(pc, st, true)
		case 1:
			d, err = pe.pieceDFA(pc, st, false)
		default:
			var d1, d2 *relang.DFA
			d1, err = pe.pieceDFA(pc, st, true)
			if err == nil {
				d2, err = pe.pieceDFA(pc, st, false)
			}
			if err == nil {
				d = relang.Union(d1, d2)
			}
		}
		if err != nil {
			return err
		}
		if !d.Accepts("") {
			es = 1
		} else if es == 0 && !relang.Minus(d, relang.Literal(pe.L.A, "")).IsEmpty() {
			es = 2
		}
		acc = relang.Concat(acc, d).Minimize()
	}
	if debugBufPaths {
		var desc []string
		for _, pc := range st.seq {
			switch {
			case pc.cut != nil:
				desc = append(desc, fmt.Sprintf("cut(%d,%d,%d)", pc.cut.key, pc.cut.a, pc.cut.b))
			case pc.lx != nil:
				desc = append(desc, trunc(pc.lx.String(), 40))
			}
		}
		w, _ := acc.Witness()
		fmt.Printf("  path of %s: %v eps=%v empty=%v witness-classes=%v\n", pe.bs.fn.Name(), desc, acc.Accepts(""), acc.IsEmpty(), w)
	}
	pe.out = relang.Union(pe.out, acc).Minimize()
	return nil
}

var debugBufPaths = os.Getenv("BUFPATHS_DEBUG") != ""

// cutFidelity: a helper that writes a term with bytes cut off its ends (the comma-encoding helper of
// URLSetSanitized) must, on every path, cut off exactly the bytes it tested and write them back encoded:
//
//	[Enc] term[a : len-b] [Enc]     a, b ∈ {0, 1};  a = 1 ⇔ the path knows the first byte is Byte ⇔ Enc is written before
//
// so that the token that comes out is the token that went in, up to the encoding of that byte. The language of the
// result alone cannot say this (a token with "%2c" appended is still a well-formed URL token).
type cutFidelity struct {
	Byte  rune
	Enc   []string
	Paths int
	Bad   []string
	Skip  []string
	recs  map[string][]cutRecord
}

type cutRecord struct {
	a, b         int
	pre, post    string
	starts, ends bool
}

func (cf *cutFidelity) check(pe *bufPathEval, st *bpState) {
	var cuts []int
	for i, pc := range st.seq {
		if pc.cut != nil {
			cuts = append(cuts, i)
		}
	}
	name := pe.bs.fn.Name()
	if len(cuts) != 1 {
		return // the term is not written on this path, or the path writes two terms (a candidate, not the URL helper)
	}
	c := st.seq[cuts[0]].cut
	lit := func(pcs []pathPiece) (string, bool) {
		acc := relang.Literal(pe.L.A, "")
		for _, pc := range pcs {
			d, err := pe.pieceDFA(pc, st, false)
			if err != nil || d == nil {
				return "", false
			}
			acc = relang.Concat(acc, d).Minimize()
		}
		for _, k := range append([]string{""}, cf.Enc...) {
			if ok, _ := relang.Subset(acc, relang.Literal(pe.L.A, k)); ok && acc.Accepts(k) {
				return k, true
			}
		}
		return "?", true
	}
	pre, ok1 := lit(st.seq[:cuts[0]])
	post, ok2 := lit(st.seq[cuts[0]+1:])
	if !ok1 || !ok2 {
		pre, post = "?", "?"
	}
	d := st.lang[c.key]
	b := relang.Literal(pe.L.A, string(cf.Byte))
	starts, _ := relang.Subset(d, relang.Concat(b, pe.any))
	ends, _ := relang.Subset(d, relang.Concat(pe.any, b))
	if cf.recs == nil {
		cf.recs = map[string][]cutRecord{}
	}
	cf.recs[name] = append(cf.recs[name], cutRecord{c.a, c.b, pre, post, starts, ends})
}

// evaluate judges the helpers that cut the term on some path (the comma-encoding helper); a function that only
// writes the term whole among other things (a candidate writer) is not one.
func (cf *cutFidelity) evaluate() {
	for name, recs := range cf.recs {
		cutsSomewhere := false
		for _, r := range recs {
			if r.a > 0 || r.b > 0 {
				cutsSomewhere = true
			}
		}
		if !cutsSomewhere {
			continue
		}
		for _, r := range recs {
			if r.pre == "?" || r.post == "?" {
				cf.Skip = append(cf.Skip, name+": a path writes something besides the encoded byte and the term")
				continue
			}
			cf.Paths++
			side := func(which string, n int, tested bool, written string) {
				switch {
				case n == 0 && written == "":
				case n == 1 && tested && written != "":
				case n == 0:
					cf.Bad = append(cf.Bad, fmt.Sprintf("%s: a path writes %q %s the term without having cut a byte off there: the token that comes out is not the token that went in", name, written, which))
				case n == 1 && !tested:
					cf.Bad = append(cf.Bad, fmt.Sprintf("%s: a path cuts a byte off %s the term that it has not tested to be %q", name, which, string(cf.Byte)))
				case n == 1:
					cf.Bad = append(cf.Bad, fmt.Sprintf("%s: a path cuts the %q off %s the term and writes nothing in its place", name, string(cf.Byte), which))
				default:
					cf.Bad = append(cf.Bad, fmt.Sprintf("%s: a path cuts %d bytes off %s the term", name, n, which))
				}
			}
			side("before", r.a, r.starts, r.pre)
			side("after", r.b, r.ends, r.post)
		}
	}
}
