package main

// Dereferences of the error of a context. context.err is nil in every context that is not an error context; the
// code copies the error before annotating it (e := *c.err) or reads its fields. Such a dereference is reachable
// from the total API (Execute and friends), so it must be dominated by a test that shows the pointer non-nil:
// c.err != nil, or c.state == stateError, on the same context. When the context is a parameter of a helper, the
// obligation moves to the call sites: each must pass a context for which one of the tests holds there.

import (
	"fmt"
	"go/token"
	"go/types"
	"strings"

	"golang.org/x/tools/go/ssa"
)

// ctxFieldOf: v reads field `want` of a context; returns what designates the context (the variable it lives in,
// or the value itself).
func ctxFieldOf(v ssa.Value, want string) (ssa.Value, bool) {
	switch x := v.(type) {
	case *ssa.Field:
		if isNamed(x.X.Type(), pkgTemplate, "context") && fieldName(x.X.Type(), x.Field) == want {
			return x.X, true
		}
	case *ssa.UnOp:
		if fa, ok := x.X.(*ssa.FieldAddr); ok && x.Op == token.MUL {
			if isNamed(fa.X.Type(), pkgTemplate, "context") && fieldName(fa.X.Type(), fa.Field) == want {
				return fa.X, true
			}
		}
	}
	return nil, false
}

// errorContextTested: in block b the context designated by base is known to carry an error.
func errorContextTested(p *Program, b *ssa.BasicBlock, base ssa.Value, stateError int64) bool {
	for _, gd := range GuardsOf(b) {
		bo, ok := gd.Cond.(*ssa.BinOp)
		if !ok || (bo.Op != token.EQL && bo.Op != token.NEQ) {
			continue
		}
		for _, side := range [][2]ssa.Value{{bo.X, bo.Y}, {bo.Y, bo.X}} {
			if gb, ok := ctxFieldOf(side[0], "err"); ok && gb == base && isNilConst(side[1]) {
				if (bo.Op == token.NEQ) == gd.Pol {
					return true
				}
			}
			if gb, ok := ctxFieldOf(side[0], "state"); ok && gb == base {
				if k, ok := constInt(side[1]); ok && k == stateError && (bo.Op == token.EQL) == gd.Pol {
					return true
				}
			}
		}
	}
	return false
}

func checkErrDerefGuarded(p *Program, r *Report, rule string, reach map[*ssa.Function]bool) {
	tsp := p.SSAPkg("template")
	stateError := stateConst(p, "stateError")
	isErrPtr := func(t types.Type) bool {
		pt, ok := t.Underlying().(*types.Pointer)
		return ok && isNamed(pt.Elem(), pkgTemplate, "Error")
	}
	// paramBase: the context designated by base is (the local copy of) parameter #i of f
	paramBase := func(f *ssa.Function, base ssa.Value) int {
		for i, prm := range f.Params {
			if base == ssa.Value(prm) {
				return i
			}
			if al, ok := base.(*ssa.Alloc); ok {
				if st := singleStoreLoose(al); st != nil && st.Val == ssa.Value(prm) {
					return i
				}
			}
		}
		return -1
	}
	n := 0
	for f := range reach {
		if f.Pkg != tsp {
			continue
		}
		short := strings.TrimPrefix(fnName(f), pkgTemplate+".")
		k := 0
		for _, b := range f.Blocks {
			for _, in := range b.Instrs {
				var ptr ssa.Value
				switch x := in.(type) {
				case *ssa.UnOp:
					if x.Op == token.MUL && isErrPtr(x.X.Type()) {
						ptr = x.X
					}
				case *ssa.FieldAddr:
					if isErrPtr(x.X.Type()) {
						ptr = x.X
					}
				}
				if ptr == nil {
					continue
				}
				base, ok := ctxFieldOf(ptr, "err")
				if !ok {
					continue // not the error of a context (a fresh error, a parameter of its own)
				}
				n++
				c := fmt.Sprintf("%s#err-deref%d", short, k)
				k++
				if errorContextTested(p, b, base, stateError) {
					r.OK(rule, c, p.Pos(in.Pos()), "the error of the context is dereferenced only where err != nil or state == stateError was tested on that context")
					continue
				}
				if i := paramBase(f, base); i >= 0 {
					// every caller must hand in a context known to carry an error
					bad := ""
					sites := 0
					for g := range reach {
						for _, gb := range g.Blocks {
							for _, gin := range gb.Instrs {
								call, ok := gin.(ssa.CallInstruction)
								if !ok || staticCallee(call.Common()) != f || i >= len(call.Common().Args) {
									continue
								}
								sites++
								arg := call.Common().Args[i]
								abase := arg
								if u, ok := arg.(*ssa.UnOp); ok && u.Op == token.MUL {
									abase = u.X
								}
								if !errorContextTested(p, gb, abase, stateError) {
									bad = p.Pos(gin.Pos())
								}
							}
						}
					}
					r.Check(bad == "" && sites > 0, rule, c, p.Pos(in.Pos()), fmt.Sprintf("the context is a parameter: all %d call sites pass a context on which err != nil or state == stateError was tested", sites),
						"the error of a context parameter is dereferenced, and the call at "+bad+" passes a context that was not tested to carry an error there (the test concerns another context): for a context without an error the dereference panics inside Execute")
					continue
				}
				r.Viol(rule, c, p.Pos(in.Pos()), "the error of a context is dereferenced without a test that the context carries one (err != nil or state == stateError on that same context): Execute panics with a nil pointer dereference for a context without an error", "")
			}
		}
	}
	if n == 0 {
		r.OK(rule, "template#err-deref", "", "the error of a context is never dereferenced in the functions reachable from the total API")
	}
}
