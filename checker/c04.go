package main

import (
	"encoding/json"
	"fmt"
	"go/token"
	"os"
	"path/filepath"
	"sort"
	"strings"

	"golang.org/x/tools/go/ssa"

	"safecheck/relang"
)

func init() { register("C04", "other", runC04) }

const specDataAttr = `^data-[a-z_][-a-z0-9_]*$`

func loadReviewedPolicy() (*reviewedPolicy, error) {
	b, err := os.ReadFile(filepath.Join(verifDir(), "policy", "reviewed_policy.json"))
	if err != nil {
		return nil, err
	}
	var rp reviewedPolicy
	if err := json.Unmarshal(b, &rp); err != nil {
		return nil, err
	}
	return &rp, nil
}

// neverWeaker reports whether the current context demands at least the trust
// class of the reviewed one (by display name).
func neverWeaker(current, reviewed string) bool {
	if current == reviewed || reviewed == "None" {
		return true
	}
	urlLike := map[string]bool{"URL": true, "TrustedResourceURLOrURL": true}
	if urlLike[reviewed] && (urlLike[current] || current == "TrustedResourceURL") {
		return true
	}
	if reviewed == "HTML" && current == "HTMLValOnly" {
		return true
	}
	return false
}

// allPathsGuard: on every forward path into b, some branch condition
// satisfying pred has been taken (dominating guards of b, or — recursively —
// the guards of every incoming edge).
func allPathsGuard(pv *Prov, b *ssa.BasicBlock, pred func(Atom) bool, depth int) bool {
	return allPathsGuardM(pv, b, pred, depth, map[*ssa.BasicBlock]int{})
}

func allPathsGuardM(pv *Prov, b *ssa.BasicBlock, pred func(Atom) bool, depth int, memo map[*ssa.BasicBlock]int) bool {
	if v, ok := memo[b]; ok {
		return v == 1
	}
	memo[b] = 2 // in progress: treated as failing if revisited through a cycle
	res := allPathsGuard1(pv, b, pred, depth, memo)
	if res {
		memo[b] = 1
	} else {
		memo[b] = 2
	}
	return res
}

func allPathsGuard1(pv *Prov, b *ssa.BasicBlock, pred func(Atom) bool, depth int, memo map[*ssa.BasicBlock]int) bool {
	for _, g := range GuardsOf(b) {
		if pred(normAtom(pv.Of(g.Cond), g.Pol)) {
			return true
		}
	}
	if depth > 60 || len(b.Preds) == 0 {
		return false
	}
	n := 0
	for _, p := range b.Preds {
		if b.Dominates(p) {
			continue // back edge
		}
		n++
		ok := false
		for _, g := range EdgeGuards(p, b) {
			if pred(normAtom(pv.Of(g.Cond), g.Pol)) {
				ok = true
			}
		}
		if !ok && !allPathsGuardM(pv, p, pred, depth+1, memo) {
			return false
		}
	}
	return n > 0
}

func runC04(p *Program, r *Report) {
	engineConsistency(p, r, "C04.E", func(n string) bool { return strings.Contains(n, "dataAttributeNamePattern") })

	r.Trusted = []string{"go/types + go/ssa", "/verif/policy/reviewed_policy.json (reviewed once against the statement and the package documentation)", "text/template runs the inserted sanitizer chain in order and aborts on the first error"}
	r.NotDecided = []string{"accept/reject of concrete templates is not executed: it follows from the tables, the lookup shape and the chain shapes decided here"}
	r.Explain = "All five policy tables, the enum word sets and the context table are evaluated from the source literals (exhaustive over the finite table universe) and compared with the reviewed policy under a never-weaker order; the data-* pattern's language is included in data-[a-z_][-a-z0-9_]*; the attribute and element-content lookups are shown to be default-deny by the provenance and guards of every nil-error return; enum contexts are exactly those whose sanitizer is a set-membership test, and partial substitutions into them are refused on every path; URL-class chains always run the context sanitizer and the normaliser; names chosen by conditional branches must agree on the context; tag/attribute-name and unquoted positions are rejected."
	for _, m := range []struct {
		r string
		n int
	}{{"C04.R1", 250}, {"C04.R2", 7}, {"C04.R3", 5}, {"C04.R4", 5}, {"C04.R5", 5}, {"C04.R6", 4}, {"C04.R7", 4}, {"C04.R8", 1}, {"C04.R9", 5}, {"C04.R10", 1}, {"C04.R11", 3}, {"C04.R12", 4}, {"C04.R13", 2}, {"C04.R14", 1}, {"C04.R15", 1}, {"C04.R16", 1}, {"C04.R17", 1}, {"C04.R18", 1}} {
		r.Min(m.r, m.n)
	}
	pl, err := loadPolicy(p)
	if err != nil {
		r.Undec("C04.R1", "template#policy-tables", "", err.Error())
		return
	}
	for _, pr := range pl.Problems {
		r.Viol("C04.R1", "template#policy-tables", "", pr, "")
	}
	rp, err := loadReviewedPolicy()
	if err != nil {
		r.Undec("C04.R1", "reviewed_policy.json", "", err.Error())
		return
	}
	// ---- R1 never-weaker comparison (exhaustive over the table universe) -----------
	cmp := func(kind, key, cur, rev string, present bool) {
		c := kind + "[" + key + "]"
		switch {
		case !present:
			r.Viol("C04.R1", c, "", fmt.Sprintf("accepted with context %s but the reviewed policy does not list it (reject)", cur), "")
		case neverWeaker(cur, rev):
			r.OK("C04.R1", c, "", cur+" ⪰ reviewed "+rev)
		default:
			r.Viol("C04.R1", c, "", fmt.Sprintf("context %s is weaker than the reviewed %s", cur, rev), "")
		}
	}
	for _, attr := range sortedKeys(pl.ElemAttr) {
		for _, el := range sortedKeys(pl.ElemAttr[attr]) {
			rev, ok := rp.ElemAttr[attr][el]
			cmp("elementSpecific", attr+"/"+el, pl.SC(pl.ElemAttr[attr][el]), rev, ok)
		}
	}
	for _, attr := range sortedKeys(pl.GlobalAttr) {
		rev, ok := rp.GlobalAttr[attr]
		cmp("globalAttr", attr, pl.SC(pl.GlobalAttr[attr]), rev, ok)
	}
	for _, el := range sortedKeys(pl.ElemContent) {
		rev, ok := rp.ElemContent[el]
		cmp("elementContent", el, pl.SC(pl.ElemContent[el]), rev, ok)
	}
	// an element-specific entry overrides the global one: a reviewed (attr, element) pair that is no
	// longer element-specific falls back to the global table — compare the effective context
	for _, attr := range sortedKeys(rp.ElemAttr) {
		for _, el := range sortedKeys(rp.ElemAttr[attr]) {
			if _, still := pl.ElemAttr[attr][el]; still {
				continue
			}
			g, ok := pl.GlobalAttr[attr]
			_, okEl := pl.ElemContent[el]
			if ok && (okEl || pl.VoidElems[el]) {
				cmp("effective", attr+"/"+el, pl.SC(g), rp.ElemAttr[attr][el], true)
			}
		}
	}
	// conversely an element-specific entry added over a global attribute must not weaken it
	for _, attr := range sortedKeys(pl.ElemAttr) {
		if g, ok := rp.GlobalAttr[attr]; ok {
			for _, el := range sortedKeys(pl.ElemAttr[attr]) {
				if _, reviewed := rp.ElemAttr[attr][el]; !reviewed {
					cmp("effective", attr+"/"+el, pl.SC(pl.ElemAttr[attr][el]), g, true)
				}
			}
		}
	}
	// context table: display name -> sanitizer name -> function
	for _, v := range sortedInt64Keys(pl.Info) {
		inf := pl.Info[v]
		c := "sanitizationContextInfo[" + inf.Name + "]"
		rev, ok := rp.Contexts[inf.Name]
		if !ok {
			r.Viol("C04.R1", c, "", "context not in the reviewed policy", "")
			continue
		}
		okFn := inf.Sanitizer == rev && (inf.Sanitizer == "" || pl.Funcs[inf.Sanitizer] != nil)
		if okFn && inf.Sanitizer != "" {
			// the bound function must treat values the way the context promises (C03's classification):
			// every nil-error return is a pass-through of an allowed type or the context's own treatment
			pvs := NewProv(p)
			pvs.NoInline = true
			sum := summariseSanitizer(p, pvs, pl.Funcs[inf.Sanitizer])
			var other []string
			for _, k := range sum.Kinds() {
				if k != "passthrough" {
					other = append(other, k)
				}
			}
			okFn = subsetOf(sum.PassTypes(), allowedPassThrough[inf.Name]) && subsetOf(other, fallbackKinds[inf.Name]) && len(other) > 0 && len(sum.Problems) == 0
		}
		r.Check(okFn, "C04.R1", c, "", fmt.Sprintf("bound to %q → %s", inf.Sanitizer, fnNameOrNone(pl.Funcs[inf.Sanitizer])), fmt.Sprintf("context %s is bound to %q (reviewed %q) → %s", inf.Name, inf.Sanitizer, rev, fnNameOrNone(pl.Funcs[inf.Sanitizer])))
	}
	r.Analysed["table_entries"] = map[string]int{"elementSpecific": countNested(pl.ElemAttr), "globalAttr": len(pl.GlobalAttr), "elementContent": len(pl.ElemContent), "voidElements": len(pl.VoidElems), "linkRel": len(pl.LinkRel), "contexts": len(pl.Info)}
	r.Analysed["exhaustive_over_tables"] = true

	// ---- R2 value sets and the data-* pattern ----------------------------------------
	subset := func(name string, cur []string, rev []string) {
		revSet := map[string]bool{}
		for _, s := range rev {
			revSet[s] = true
		}
		var extra []string
		for _, s := range cur {
			if !revSet[s] {
				extra = append(extra, s)
			}
		}
		r.Check(len(extra) == 0, "C04.R2", name, "", fmt.Sprintf("%d values ⊆ reviewed set", len(cur)), fmt.Sprintf("values not in the reviewed set: %v", extra))
	}
	subset("allowedVoidElements", sortedKeys(pl.VoidElems), rp.VoidElems)
	subset("urlLinkRelVals", sortedKeys(pl.LinkRel), rp.LinkRel)
	enums := enumValueSets(p, pl)
	for _, name := range sortedKeys(enums) {
		subset("enum["+name+"]", enums[name], rp.Enums[name])
	}
	regs, _ := p.AllRegexes()
	if rc := regs["template.dataAttributeNamePattern"]; rc == nil {
		r.Undec("C04.R2", "template.dataAttributeNamePattern", "", "anchor not found")
	} else {
		L := NewLang()
		L.Re(rc.Src)
		L.MustRe(specDataAttr)
		L.MustRe(`^on`)
		L.Build()
		if ok, w := relang.Subset(L.SearchRe(rc.Src), L.SearchRe(specDataAttr)); ok {
			r.OK("C04.R2", "template.dataAttributeNamePattern", p.Pos(rc.Pos), "accepted attribute names ⊆ data-[a-z_][-a-z0-9_]*")
		} else {
			r.Viol("C04.R2", "template.dataAttributeNamePattern", p.Pos(rc.Pos), "an attribute name that is not a well-formed data-* name is accepted without any sanitizer", w)
		}
	}

	// ---- R3 default deny is the shape of the lookups ---------------------------------
	checkAttrLookupShape(p, r, pl)
	checkElemContentLookupShape(p, r, pl)

	// ---- R4 enums ------------------------------------------------------------------
	checkEnums(p, r, pl)

	// ---- R5 URL chains ---------------------------------------------------------------
	checkURLPrefixChains(p, r)

	// ---- R6 conditional names --------------------------------------------------------
	checkConditionalNames(p, r, "C04.R6")
	checkJoinNames(p, r, "C04.R6")

	// ---- R7 forbidden positions --------------------------------------------------------
	checkForbiddenPositions(p, r, "C04.R7")
	// ---- R8 static text after an enum action ----------------------------------------
	checkTextAfterStartAction(p, r, "", "C04.R8")
	checkActionMarksStart(p, r, "C04.R15")
	checkVoidDropKeepsMixedElement(p, r, "C04.R17")
	checkSpecialNamesAreOneElement(p, r, "C04.R18")
	// the policy for a link's href is chosen from the recorded rel values: how they are recorded is part of the policy
	checkLinkRelDerivation(p, r, "C04.R19")
	checkActionMarksRelUnknown(p, r, "C04.R19")
	checkCandidateListsNonEmpty(p, r, textAfterStartValidator(p), "C04.R16")
	checkContextEqStrict(p, r, "C04.R9")
	checkNewAttributeStartsClean(p, r, "C04.R10")
	checkScannerLoopState(p, r, "C04.R11")
	checkLookupArgumentRoles(p, r, "C04.R12")
	checkCommentKeepsElement(p, r, "C04.R13")
	checkTagEndTablesSeeAllNames(p, r, "C04.R14")
}

func fnNameOrNone(f *ssa.Function) string {
	if f == nil {
		return "<no sanitizer>"
	}
	return fnName(f)
}

func countNested(m map[string]map[string]int64) int {
	n := 0
	for _, x := range m {
		n += len(x)
	}
	return n
}

func sortedInt64Keys[V any](m map[int64]V) []int64 {
	var ks []int64
	for k := range m {
		ks = append(ks, k)
	}
	sort.Slice(ks, func(i, j int) bool { return ks[i] < ks[j] })
	return ks
}

// lookupOf: v is extract#idx of a comma-ok lookup in the named policy table;
// returns the lookup.
func policyLookup(v ssa.Value, idx int) (*ssa.Lookup, string, bool) {
	ex, ok := v.(*ssa.Extract)
	if !ok || ex.Index != idx {
		return nil, "", false
	}
	lk, ok := ex.Tuple.(*ssa.Lookup)
	if !ok || !lk.CommaOk {
		return nil, "", false
	}
	name := ""
	switch m := lk.X.(type) {
	case *ssa.UnOp:
		if g, ok := m.X.(*ssa.Global); ok {
			name = g.Name()
		}
	case *ssa.Lookup:
		if u, ok := m.X.(*ssa.UnOp); ok {
			if g, ok := u.X.(*ssa.Global); ok {
				name = g.Name() + "[·]"
			}
		}
	}
	return lk, name, name != ""
}

func checkAttrLookupShape(p *Program, r *Report, pl *Policy) {
	fn := p.Func("template", "sanitizationContextForAttrVal")
	const cn = "template.sanitizationContextForAttrVal"
	if fn == nil {
		r.Undec("C04.R3", cn, "", "anchor not found")
		return
	}
	pv := NewProv(p)
	pv.NoInline = true
	var elemP, attrP ssa.Value
	for _, prm := range fn.Params {
		switch prm.Name() {
		case "element":
			elemP = prm
		case "attr":
			attrP = prm
		}
	}
	if elemP == nil || attrP == nil {
		elemP, attrP = fn.Params[0], fn.Params[1]
	}
	okLookupGuard := func(b *ssa.BasicBlock, lk *ssa.Lookup) bool {
		return allPathsGuard(pv, b, func(a Atom) bool {
			ex, ok := a.E.Val.(*ssa.Extract)
			return a.Pol && ok && ex.Tuple == ssa.Value(lk) && ex.Index == 1
		}, 0)
	}
	for i, ret := range Returns(fn) {
		c := fmt.Sprintf("%s#return%d", cn, i)
		pos := p.Pos(ret.Pos())
		if k, ok := ret.Results[1].(*ssa.Const); !ok || k.Value != nil {
			_, isErrorf := isCallTo(ret.Results[1], "fmt.Errorf")
			r.Check(isErrorf, "C04.R3", c, pos, "fall-through returns a non-nil error", "a return carries an error value that is not provably non-nil")
			continue
		}
		v := ret.Results[0]
		if kv, ok := constInt(v); ok {
			name := pl.SCNames[kv]
			switch name {
			case "sanitizationContextNone":
				okG := allPathsGuard(pv, ret.Block(), func(a Atom) bool {
					g, arg, m, ok := regexMatchCall(a.E)
					return ok && a.Pol && m == "MatchString" && strings.HasSuffix(g, ".dataAttributeNamePattern") && arg.Val == attrP
				}, 0)
				r.Check(okG, "C04.R3", c, pos, "constant None only for attribute names matching the data-* pattern", "the context None is returned without the data-* pattern having matched the attribute name")
			case "sanitizationContextTrustedResourceURLOrURL", "sanitizationContextURL":
				isLink := allPathsGuard(pv, ret.Block(), func(a Atom) bool {
					k, ok := a.E.Args1Const()
					return ok && a.Pol && a.E.Op == "binop" && a.E.Name == "==" && a.E.Args[0].Val == elemP && k == "link"
				}, 0)
				isHref := allPathsGuard(pv, ret.Block(), func(a Atom) bool {
					k, ok := a.E.Args1Const()
					return ok && a.Pol && a.E.Op == "binop" && a.E.Name == "==" && a.E.Args[0].Val == attrP && k == "href"
				}, 0)
				relOK := relDecision(pv, ret.Block()) != "none"
				r.Check(isLink && isHref && relOK, "C04.R3", c, pos, "constant "+pl.SC(kv)+" only for link/href under a rel-token membership test", "a URL-class constant is returned outside the link/href/rel special case")
			default:
				r.Viol("C04.R3", c, pos, fmt.Sprintf("constant context %s returned with a nil error", pl.SC(kv)), "")
			}
			continue
		}
		lk, table, ok := policyLookup(v, 0)
		if !ok {
			r.Viol("C04.R3", c, pos, "a context is returned that does not come from a policy-table lookup: "+pv.Of(v).String(), "")
			continue
		}
		switch table {
		case "elementSpecificAttrValSanitizationContext[·]":
			inner := lk.X.(*ssa.Lookup)
			okKeys := inner.Index == attrP && lk.Index == elemP
			r.Check(okKeys && okLookupGuard(ret.Block(), lk), "C04.R3", c, pos, "elementSpecific[attr][element] under its presence flag", "element-specific entry used with the wrong keys or without its presence flag")
		case "globalAttrValSanitizationContext":
			okKeys := lk.Index == attrP
			elemOK := allPathsGuard(pv, ret.Block(), func(a Atom) bool {
				if !a.Pol {
					return false
				}
				if l2, t2, ok := policyLookup(a.E.Val, 1); ok && t2 == "elementContentSanitizationContext" && l2.Index == elemP {
					return true
				}
				if g, want, key, ok := memberTestOf(a.E.Val, 0); ok && want == nil && key == elemP && cname(g) == "allowedVoidElements" {
					return true
				}
				return false
			}, 0)
			r.Check(okKeys && okLookupGuard(ret.Block(), lk) && elemOK, "C04.R3", c, pos, "global[attr] under its presence flag and only for listed (content or void) elements", "global attribute entry used without its presence flag or for an unlisted element")
		default:
			r.Viol("C04.R3", c, pos, "context taken from unexpected table "+table, "")
		}
	}
}

func isRelLookup(v ssa.Value) bool {
	lk, ok := v.(*ssa.Lookup)
	if !ok {
		return false
	}
	if u, ok := lk.X.(*ssa.UnOp); ok {
		if g, ok := u.X.(*ssa.Global); ok && cname(g) == "urlLinkRelVals" {
			return true
		}
	}
	return false
}

// relDecision classifies how the block is guarded by the link rel tokens:
// "any-token": it is reached as soon as one token is in urlLinkRelVals (the
// membership test itself dominates it); "all-tokens": it is guarded by a flag
// that starts as "there is at least one token" and is cleared whenever a token
// is not in urlLinkRelVals; "none" otherwise.
func relDecision(pv *Prov, b *ssa.BasicBlock) string {
	for _, g := range GuardsOf(b) {
		if g.Pol && isRelLookup(g.Cond) {
			return "any-token"
		}
	}
	// the decision may be made by a predicate helper: if allRelValuesAllowURL(linkRel) { … }
	for _, g := range GuardsOf(b) {
		if c, ok := g.Cond.(*ssa.Call); ok && g.Pol {
			if h := staticCallee(c.Common()); h != nil && h.Pkg == b.Parent().Pkg && h.Blocks != nil {
				if d := relDecisionOfPredicate(h); d != "none" {
					return d
				}
			}
		}
	}
	for _, g := range GuardsOf(b) {
		ph, ok := g.Cond.(*ssa.Phi)
		if !ok || !g.Pol {
			continue
		}
		seen := map[*ssa.Phi]bool{}
		okAll, cleared, nonEmptyInit := true, false, false
		var walk func(p *ssa.Phi)
		walk = func(p *ssa.Phi) {
			if seen[p] {
				return
			}
			seen[p] = true
			for i, e := range p.Edges {
				switch x := e.(type) {
				case *ssa.Phi:
					walk(x)
				case *ssa.Const:
					bv, isB := constBool(x)
					if !isB || bv {
						okAll = false // a constant-true start needs a separate non-emptiness test
						continue
					}
					hasNeg := false
					for _, eg := range EdgeGuards(p.Block().Preds[i], p.Block()) {
						if !eg.Pol && isRelLookup(eg.Cond) {
							hasNeg = true
						}
					}
					if hasNeg {
						cleared = true
					}
					// other constant-false edges only make the flag stricter
				case *ssa.BinOp:
					// len(tokens) > 0
					if c, ok := x.X.(*ssa.Call); ok && x.Op.String() == ">" {
						if bi, ok := c.Common().Value.(*ssa.Builtin); ok && bi.Name() == "len" {
							if k, ok := constInt(x.Y); ok && k == 0 {
								if _, ok := isCallTo(c.Common().Args[0], "strings.Fields"); ok {
									nonEmptyInit = true
									continue
								}
							}
						}
					}
					okAll = false
				default:
					okAll = false
				}
			}
		}
		walk(ph)
		if okAll && cleared && nonEmptyInit {
			return "all-tokens"
		}
	}
	return "none"
}

// Args1Const: the string constant on the right of a comparison.
func (e *Expr) Args1Const() (string, bool) {
	if e == nil || len(e.Args) != 2 {
		return "", false
	}
	return e.Args[1].IsConstString()
}

func checkElemContentLookupShape(p *Program, r *Report, pl *Policy) {
	fn := p.Func("template", "sanitizationContextForElementContent")
	const cn = "template.sanitizationContextForElementContent"
	if fn == nil {
		r.Undec("C04.R3", cn, "", "anchor not found")
		return
	}
	pv := NewProv(p)
	for i, ret := range Returns(fn) {
		c := fmt.Sprintf("%s#return%d", cn, i)
		pos := p.Pos(ret.Pos())
		if k, ok := ret.Results[1].(*ssa.Const); !ok || k.Value != nil {
			_, isErrorf := isCallTo(ret.Results[1], "fmt.Errorf")
			r.Check(isErrorf, "C04.R3", c, pos, "unknown element ⇒ non-nil error", "error value not provably non-nil")
			continue
		}
		lk, table, ok := policyLookup(ret.Results[0], 0)
		okAll := ok && table == "elementContentSanitizationContext" && lk.Index == ssa.Value(fn.Params[0]) &&
			allPathsGuard(pv, ret.Block(), func(a Atom) bool {
				ex, ok := a.E.Val.(*ssa.Extract)
				return a.Pol && ok && ex.Tuple == ssa.Value(lk) && ex.Index == 1
			}, 0)
		r.Check(okAll, "C04.R3", c, pos, "elementContent[element] under its presence flag", "element content context does not come from the table under its presence flag")
	}
}

func checkEnums(p *Program, r *Report, pl *Policy) {
	f := p.Func("template", "sanitizationContext.isEnum")
	if f == nil {
		r.Undec("C04.R4", "template.sanitizationContext.isEnum", "", "anchor not found")
		return
	}
	decl := scSetOfPredicate(f)
	shape := map[int64]bool{}
	for v := range pl.Info {
		_, isEnumShape := enumSanitizerSet(pl.SanitizerFunc(v))
		if !isEnumShape {
			_, isEnumShape = enumWordsOf(p, pl.SanitizerFunc(v))
		}
		if isEnumShape {
			shape[v] = true
		}
	}
	for _, v := range sortedInt64Keys(pl.Info) {
		name := pl.SC(v)
		if !strings.HasSuffix(name, "Enum") && !decl[v] && !shape[v] {
			continue
		}
		c := "enum-context[" + name + "]"
		switch {
		case decl[v] && shape[v]:
			r.OK("C04.R4", c, p.Pos(f.Pos()), "declared enum and its sanitizer returns its input only when it is one of the listed words")
		case decl[v]:
			r.Viol("C04.R4", c, p.Pos(f.Pos()), "declared as an enum context but its sanitizer is not a set-membership test", "")
		default:
			r.Viol("C04.R4", c, p.Pos(f.Pos()), "its sanitizer is a set-membership test (or it is named …Enum) but isEnum() does not include it, so static partial values are not refused", "")
		}
	}
	// partial substitution guard on every chain return
	ci, err := loadAttrChains(p)
	if err != nil {
		r.Undec("C04.R4", "template.sanitizersForAttributeValue", "", err.Error())
		return
	}
	var joinFlags []string
	if jf := p.Func("template", "join"); jf != nil {
		for _, path := range contextFlagStores(jf, 0, "value") {
			if strings.HasPrefix(path, "attr.") && !strings.Contains(path[5:], ".") {
				joinFlags = append(joinFlags, path[5:])
			}
		}
	}
	seen := map[*ssa.BasicBlock]bool{}
	for _, alt := range ci.Alts {
		if seen[alt.Ret.Block()] {
			continue
		}
		seen[alt.Ret.Block()] = true
		ok := allPathsGuard(ci.CE.pv, alt.Ret.Block(), func(a Atom) bool {
			if a.E.Op == "call" && a.E.Fn == f && !a.Pol {
				return true
			}
			return isAttrValueEmptyCmp(a) && a.Pol
		}, 0)
		// the return may sit in a helper: the forwarding returns of the callers count as well
		for _, vb := range alt.Via {
			if ok {
				break
			}
			ok = allPathsGuard(ci.CE.pv, vb, func(a Atom) bool {
				if a.E.Op == "call" && a.E.Fn == f && !a.Pol {
					return true
				}
				return isAttrValueEmptyCmp(a) && a.Pol
			}, 0)
		}
		r.Check(ok, "C04.R4", fmt.Sprintf("template.sanitizersForAttributeValue#partial-enum-guard@%s", alt.Names()), p.Pos(alt.Ret.Pos()), "reached only when the context is not an enum or the static value is empty", "a chain is returned for an enum context although a static partial value precedes the action")
		// join() records branches that disagree on the static value in flag fields and keeps the value of
		// one branch (possibly the empty one): the refusal has to consult those flags too
		for _, flag := range joinFlags {
			g := func(a Atom) bool {
				if a.E.Op == "call" && a.E.Fn == f && !a.Pol {
					return true
				}
				return a.E.Op == "field" && a.E.Name == flag && !a.Pol
			}
			ok := allPathsGuard(ci.CE.pv, alt.Ret.Block(), g, 0)
			for _, vb := range alt.Via {
				if ok {
					break
				}
				ok = allPathsGuard(ci.CE.pv, vb, g, 0)
			}
			r.Check(ok, "C04.R4", fmt.Sprintf("template.sanitizersForAttributeValue#partial-enum-guard-%s@%s", flag, alt.Names()), p.Pos(alt.Ret.Pos()), "reached only when the context is not an enum or conditional branches agree on the static value", "a chain is returned for an enum context although conditional branches wrote different static values before the action (join() keeps one of them, possibly the empty one, and sets attr."+flag+"): "+"`<a target=\"{{if .C}}x{{end}}{{.X}}\">` passes the empty-value test")
		}
		// two actions in one enumerated value compose an unlisted word: the record escapeAction keeps of an action
		// that started the value must be consulted as well
		af := actionStartFlags(p)
		if len(af) == 0 {
			r.Viol("C04.R4", fmt.Sprintf("template.sanitizersForAttributeValue#enum-after-action@%s", alt.Names()), p.Pos(alt.Ret.Pos()), "nothing records that an action has already written into the attribute value: a second action in an enumerated attribute composes an unlisted word", "`<a dir=\"{{.D}}{{.D}}\">` emits dir=\"ltrltr\"")
		}
		for _, flag := range af {
			g := func(a Atom) bool {
				if a.E.Op == "call" && a.E.Fn == f && !a.Pol {
					return true
				}
				return a.E.Op == "field" && a.E.Name == flag && !a.Pol
			}
			ok := allPathsGuard(ci.CE.pv, alt.Ret.Block(), g, 0)
			for _, vb := range alt.Via {
				if ok {
					break
				}
				ok = allPathsGuard(ci.CE.pv, vb, g, 0)
			}
			r.Check(ok, "C04.R4", fmt.Sprintf("template.sanitizersForAttributeValue#enum-after-action-%s@%s", flag, alt.Names()), p.Pos(alt.Ret.Pos()), "reached only when the context is not an enum or no earlier action wrote into the value", "a chain is returned for an enum context although an earlier action already wrote into the same attribute value (escapeAction sets attr."+flag+"): two listed words compose an unlisted one — `<a dir=\"{{.D}}{{.D}}\">` emits dir=\"ltrltr\"")
		}
	}
}

func checkConditionalNames(p *Program, r *Report, rule string) {
	for _, w := range []struct{ fn, callee string }{{"sanitizersForAttributeValue", "sanitizationContextForAttrVal"}, {"sanitizerForElementContent", "sanitizationContextForElementContent"}} {
		fn := p.Func("template", w.fn)
		cn := "template." + w.fn
		if fn == nil {
			r.Undec(rule, cn, "", "anchor not found")
			continue
		}
		var call *ssa.Call
		for _, b := range fn.Blocks {
			for _, in := range b.Instrs {
				if c, ok := in.(*ssa.Call); ok {
					if f := staticCallee(c.Common()); f != nil && cname(f) == w.callee {
						call = c
					}
				}
			}
		}
		if call == nil {
			r.Viol(rule, cn+"#lookup", p.Pos(fn.Pos()), "the context lookup is not called", "")
			continue
		}
		inLoop := false
		for _, b := range fn.Blocks {
			for _, su := range b.Succs {
				if su.Dominates(b) && su.Dominates(call.Block()) {
					inLoop = true
				}
			}
		}
		r.Check(inLoop, rule, cn+"#all-names", p.Pos(call.Pos()), "the context is looked up for every candidate name (inside the range loops)", "the context lookup is not inside a loop over the candidate names")
		// no iteration may skip the lookup: from the entry of the innermost loop body no back edge is
		// reachable without passing the block of the lookup (element content: the constant for the
		// empty name is the only alternative and is handled by the rule below)
		if inLoop {
			var header *ssa.BasicBlock
			for _, b := range fn.Blocks {
				isHeader := false
				for _, pr := range b.Preds {
					if b.Dominates(pr) {
						isHeader = true
					}
				}
				if isHeader && b.Dominates(call.Block()) && (header == nil || header.Dominates(b)) {
					header = b
				}
			}
			skipped := ""
			if header != nil {
				var body *ssa.BasicBlock
				for _, su := range header.Succs {
					if su.Dominates(header) {
						continue // leaves the loop towards an enclosing header
					}
					if su == call.Block() || (header.Dominates(su) && su.Dominates(call.Block())) {
						body = su
					}
				}
				if body != nil && body != call.Block() {
					// an alternative that determines the context without the lookup is accepted only for
					// the empty element name (text outside any element: the HTML constant), i.e. on
					// paths that took the true side of a comparison of a string with ""
					type wkey struct {
						b     *ssa.BasicBlock
						empty bool
					}
					seen := map[wkey]bool{}
					emptyEdge := func(b *ssa.BasicBlock, i int) bool {
						iff, ok := b.Instrs[len(b.Instrs)-1].(*ssa.If)
						if !ok {
							return false
						}
						bo, ok := iff.Cond.(*ssa.BinOp)
						if !ok || !isStringish(bo.X.Type()) {
							return false
						}
						kx, okx := constString(bo.X)
						ky, oky := constString(bo.Y)
						if !((okx && kx == "") || (oky && ky == "")) {
							return false
						}
						return (bo.Op == token.EQL && i == 0) || (bo.Op == token.NEQ && i == 1)
					}
					var walk func(b *ssa.BasicBlock, empty bool)
					walk = func(b *ssa.BasicBlock, empty bool) {
						if b == call.Block() || seen[wkey{b, empty}] || skipped != "" {
							return
						}
						seen[wkey{b, empty}] = true
						for i, su := range b.Succs {
							e2 := empty || emptyEdge(b, i)
							if su.Dominates(b) {
								// back edge reached without the lookup
								if !(w.fn == "sanitizerForElementContent" && e2) {
									skipped = p.Pos(b.Instrs[len(b.Instrs)-1].Pos())
								}
								continue
							}
							walk(su, e2)
						}
					}
					walk(body, false)
				}
			}
			r.Check(skipped == "", rule, cn+"#no-iteration-skips-lookup", p.Pos(call.Pos()), "every (element, attribute) candidate goes through the policy lookup", "an iteration over the candidate names can continue without the policy lookup ("+skipped+"): a name chosen by a later branch is never checked against the policy")
		}
		// err != nil ⇒ only error returns
		errOK, cmpOK := false, false
		onlyErrorReturns := func(start *ssa.BasicBlock) bool {
			seen := map[*ssa.BasicBlock]bool{}
			ok := true
			var walk func(b *ssa.BasicBlock)
			walk = func(b *ssa.BasicBlock) {
				if seen[b] {
					return
				}
				seen[b] = true
				if ret, isRet := b.Instrs[len(b.Instrs)-1].(*ssa.Return); isRet {
					ev := ret.Results[len(ret.Results)-1]
					if k, isC := ev.(*ssa.Const); isC && k.Value == nil {
						ok = false
					}
					return
				}
				for _, s := range b.Succs {
					if s.Dominates(b) {
						ok = false // loops back: continues
						return
					}
					walk(s)
				}
			}
			walk(start)
			return ok
		}
		for _, b := range fn.Blocks {
			iff, ok := b.Instrs[len(b.Instrs)-1].(*ssa.If)
			if !ok {
				continue
			}
			bo, ok := iff.Cond.(*ssa.BinOp)
			if !ok {
				continue
			}
			isErrOfCall := func(v ssa.Value) bool {
				if ex, ok := v.(*ssa.Extract); ok && ex.Tuple == ssa.Value(call) && ex.Index == 1 {
					return true
				}
				if ph, ok := v.(*ssa.Phi); ok {
					for _, e := range ph.Edges {
						if ex, ok := e.(*ssa.Extract); ok && ex.Tuple == ssa.Value(call) && ex.Index == 1 {
							return true
						}
					}
				}
				return false
			}
			if isErrOfCall(bo.X) && bo.Op.String() == "!=" {
				if k, ok := bo.Y.(*ssa.Const); ok && k.Value == nil {
					errOK = onlyErrorReturns(b.Succs[0])
				}
			}
			// sc != sc0 (sc0 a phi carried around the loop, or — element content — phi of the lookup/constant)
			if bo.Op.String() == "!=" {
				isSC := func(v ssa.Value) bool {
					if ex, ok := v.(*ssa.Extract); ok && ex.Tuple == ssa.Value(call) && ex.Index == 0 {
						return true
					}
					if ph, ok := v.(*ssa.Phi); ok {
						for _, e := range ph.Edges {
							if ex, ok := e.(*ssa.Extract); ok && ex.Tuple == ssa.Value(call) && ex.Index == 0 {
								return true
							}
						}
					}
					return false
				}
				_, yPhi := bo.Y.(*ssa.Phi)
				if isSC(bo.X) && yPhi {
					cmpOK = onlyErrorReturns(b.Succs[0])
				}
			}
		}
		r.Check(errOK, rule, cn+"#lookup-error", p.Pos(call.Pos()), "a lookup error for any candidate name fails the action", "a lookup error for one of the candidate names can be ignored")
		r.Check(cmpOK, rule, cn+"#contexts-agree", p.Pos(call.Pos()), "candidate names whose contexts differ fail the action", "contexts of the candidate names are not compared (or a mismatch does not fail)")
	}
}

// checkForbiddenPositions: actions in tag/attribute-name positions and in
// unquoted attribute values are rejected, and the rejection reaches the
// escaper as an error context.
func checkForbiddenPositions(p *Program, r *Report, rule string) {
	fn := p.Func("template", "sanitizerForContext")
	const cn = "template.sanitizerForContext"
	if fn == nil {
		r.Undec(rule, cn, "", "anchor not found")
		return
	}
	pv := NewProv(p)
	pv.NoInline = true
	tpk := p.Pkg("template")
	stObj := tpk.Types.Scope().Lookup("state")
	dlObj := tpk.Types.Scope().Lookup("delim")
	if stObj == nil || dlObj == nil {
		r.Undec(rule, cn, "", "anchor not found: state/delim types")
		return
	}
	states := ConstNames(tpk, stObj.Type())
	delims := ConstNames(tpk, dlObj.Type())
	byName := func(m map[int64]string, n string) int64 {
		for k, v := range m {
			if v == n {
				return k
			}
		}
		return -1
	}
	// the state variable: load of c.state (every load of the unmodified field is the same value)
	var stateVal ssa.Value
	aliases := map[ssa.Value]bool{}
	for _, b := range fn.Blocks {
		for _, in := range b.Instrs {
			if u, ok := in.(*ssa.UnOp); ok {
				e := pv.Of(u)
				if e.Op == "field" && e.Name == "state" && e.Args[0].Op == "param" {
					if stateVal == nil {
						stateVal = u
					} else {
						aliases[u] = true
					}
				}
			}
		}
	}
	if len(storesToField(fn, pkgTemplate, "context", "state")) > 0 {
		aliases = map[ssa.Value]bool{} // the field is modified: loads are not interchangeable
	}
	if stateVal == nil {
		r.Undec(rule, cn, p.Pos(fn.Pos()), "the state dispatch was not found")
		return
	}
	dom := &relang.Set{}
	for k := range states {
		dom = dom.Union(relang.NewSet(int32(k), int32(k)))
	}
	lv := decisionTable(stateVal.(*ssa.UnOp).Block(), dtConfig{Var: stateVal, Aliases: aliases, Dom: dom, Leaf: func(b *ssa.BasicBlock) (string, bool) {
		if ret, ok := b.Instrs[len(b.Instrs)-1].(*ssa.Return); ok {
			if _, isErrorf := isCallTo(ret.Results[1], "fmt.Errorf"); isErrorf {
				return "error", true
			}
			return "chain", true
		}
		return "", false
	}, TagOf: func(c ssa.Value) string { return "other" }})
	chainStates := effectSet(lv, "chain", nil)
	for _, n := range []string{"stateTag", "stateAttrName", "stateAfterName"} {
		v := byName(states, n)
		c := cn + "#" + n
		if v < 0 {
			r.Undec(rule, c, "", "state constant not found")
			continue
		}
		r.Check(!chainStates.Contains(int32(v)), rule, c, p.Pos(fn.Pos()), "an action in this position always yields an error", "an action in a tag or attribute-name position can obtain a sanitizer chain")
	}
	for _, u := range undecidedLeaves(lv) {
		r.Undec(rule, cn+"#dispatch", p.Pos(fn.Pos()), u)
	}
	// unquoted: the attribute-value chains are reached only with a quote delimiter
	dq, sq := byName(delims, "delimDoubleQuote"), byName(delims, "delimSingleQuote")
	var attrCall *ssa.Call
	for _, b := range fn.Blocks {
		for _, in := range b.Instrs {
			if c, ok := in.(*ssa.Call); ok {
				if f := staticCallee(c.Common()); f != nil && cname(f) == "sanitizersForAttributeValue" {
					attrCall = c
				}
			}
		}
	}
	if attrCall == nil {
		r.Undec(rule, cn+"#unquoted", p.Pos(fn.Pos()), "call to the attribute-value chain builder not found")
	} else {
		ok := allPathsGuard(pv, attrCall.Block(), func(a Atom) bool {
			e := a.E
			if !a.Pol || e.Op != "binop" || e.Name != "==" || e.Args[0].Op != "field" || e.Args[0].Name != "delim" {
				return false
			}
			k, okk := scConstValue(e.Args[1])
			return okk && (k == dq || k == sq)
		}, 0)
		if !ok {
			// path-sensitive second look: every feasible path that reaches the call has tested delim == " or delim == '
			pe := newPathExplorer(p, fn)
			okPaths, n := true, 0
			for _, pth := range pe.Paths() {
				if !pth.Passes(attrCall) {
					continue
				}
				n++
				if !pth.HasMatching(func(name string, val bool) bool {
					if !val || !strings.HasPrefix(name, "(== ") || !strings.Contains(name, ".delim ") {
						return false
					}
					base := strings.TrimSuffix(strings.Split(name, "@")[0], ")")
					return strings.HasSuffix(base, fmt.Sprintf(".delim %d", dq)) || strings.HasSuffix(base, fmt.Sprintf(".delim %d", sq))
				}) {
					okPaths = false
				}
			}
			ok = okPaths && n > 0 && !pe.Trunc
		}
		r.Check(ok, rule, cn+"#unquoted", p.Pos(attrCall.Pos()), "attribute-value chains are built only for single- or double-quoted values; anything else is an error", "an action in an unquoted attribute value can obtain a sanitizer chain")
	}
	// escapeAction turns the error into an error context and edits only on success
	ea := p.Func("template", "(*escaper).escapeAction")
	if ea == nil {
		r.Undec(rule, "template.(*escaper).escapeAction", "", "anchor not found")
		return
	}
	var sfc *ssa.Call
	var edit *ssa.Call
	for _, b := range ea.Blocks {
		for _, in := range b.Instrs {
			if c, ok := in.(*ssa.Call); ok {
				if f := staticCallee(c.Common()); f != nil {
					switch f.Name() {
					case "sanitizerForContext":
						sfc = c
					case "editActionNode":
						edit = c
					}
				}
			}
		}
	}
	if sfc == nil || edit == nil {
		r.Undec(rule, "template.(*escaper).escapeAction", p.Pos(ea.Pos()), "sanitizerForContext / editActionNode calls not found")
		return
	}
	okEdit := false
	for _, g := range GuardsOf(edit.Block()) {
		if bo, ok := g.Cond.(*ssa.BinOp); ok {
			if ex, ok := bo.X.(*ssa.Extract); ok && ex.Tuple == ssa.Value(sfc) && ex.Index == 1 {
				if k, ok := bo.Y.(*ssa.Const); ok && k.Value == nil && ((bo.Op.String() == "!=") != g.Pol) {
					okEdit = true
				}
			}
		}
	}
	// the chain passed to the edit is the one returned
	if ex, ok := edit.Common().Args[len(edit.Common().Args)-1].(*ssa.Extract); !ok || ex.Tuple != ssa.Value(sfc) || ex.Index != 0 {
		okEdit = false
	}
	r.Check(okEdit, rule, "template.(*escaper).escapeAction#edit", p.Pos(edit.Pos()), "the action is rewritten only with the chain of a successful lookup", "the action is rewritten although the lookup failed (or with another chain)")
	// error branch returns a stateError context
	stErr := byName(states, "stateError")
	okErrCtx := false
	for _, b := range ea.Blocks {
		iff, ok := b.Instrs[len(b.Instrs)-1].(*ssa.If)
		if !ok {
			continue
		}
		bo, ok := iff.Cond.(*ssa.BinOp)
		if !ok {
			continue
		}
		if ex, ok := bo.X.(*ssa.Extract); ok && ex.Tuple == ssa.Value(sfc) && ex.Index == 1 && bo.Op.String() == "!=" {
			// true successor: returns a context literal whose state is stateError
			for _, in := range b.Succs[0].Instrs {
				if st, ok := in.(*ssa.Store); ok {
					if fa, ok := st.Addr.(*ssa.FieldAddr); ok && fieldName(fa.X.Type(), fa.Field) == "state" {
						if k, ok := constInt(st.Val); ok && k == stErr {
							okErrCtx = true
						}
					}
				}
			}
		}
	}
	r.Check(okErrCtx, rule, "template.(*escaper).escapeAction#error-context", p.Pos(sfc.Pos()), "a rejected position becomes an error context (analysis fails)", "the lookup error is not turned into an error context")
}

// relDecisionOfPredicate classifies a boolean helper over the rel value: "all-tokens" if it returns
// true only after a loop over strings.Fields(rel) in which every token that is not in the table
// leads to "return false", and an empty token list gives false; "any-token" if one listed token
// suffices for true.
func relDecisionOfPredicate(h *ssa.Function) string {
	if h.Signature.Results().Len() != 1 {
		return "none"
	}
	var lookups []*ssa.Lookup
	for _, b := range h.Blocks {
		for _, in := range b.Instrs {
			if lk, ok := in.(*ssa.Lookup); ok && isRelLookup(lk) {
				lookups = append(lookups, lk)
			}
		}
	}
	if len(lookups) == 0 {
		return "none"
	}
	retConst := func(b *ssa.BasicBlock) (bool, bool) {
		// follows jumps to a return of a boolean constant
		for i := 0; i < 4; i++ {
			switch last := b.Instrs[len(b.Instrs)-1].(type) {
			case *ssa.Return:
				return constBool(last.Results[0])
			case *ssa.Jump:
				b = b.Succs[0]
			default:
				return false, false
			}
		}
		return false, false
	}
	allNegFalse := true
	for _, lk := range lookups {
		iff, ok := lk.Block().Instrs[len(lk.Block().Instrs)-1].(*ssa.If)
		if !ok {
			return "none"
		}
		pos, neg := lk.Block().Succs[0], lk.Block().Succs[1]
		cond := iff.Cond
		if u, ok := cond.(*ssa.UnOp); ok && u.X == ssa.Value(lk) {
			pos, neg = neg, pos
		} else if cond != ssa.Value(lk) {
			return "none"
		}
		if v, ok := retConst(pos); ok && v {
			return "any-token"
		}
		if v, ok := retConst(neg); !ok || v {
			allNegFalse = false
		}
	}
	if !allNegFalse {
		return "none"
	}
	// every "return true" is reached only when the token list is non-empty: dominated by len(Fields(rel)) != 0
	nTrue := 0
	for _, ret := range Returns(h) {
		v, ok := constBool(ret.Results[0])
		if !ok {
			return "none"
		}
		if !v {
			continue
		}
		nTrue++
		nonEmpty := false
		for _, g := range GuardsOf(ret.Block()) {
			bo, ok := g.Cond.(*ssa.BinOp)
			if !ok {
				continue
			}
			c, ok := bo.X.(*ssa.Call)
			if !ok {
				continue
			}
			bi, ok := c.Common().Value.(*ssa.Builtin)
			if !ok || bi.Name() != "len" {
				continue
			}
			if _, ok := isCallTo(c.Common().Args[0], "strings.Fields"); !ok {
				continue
			}
			k, okk := constInt(bo.Y)
			if !okk || k != 0 {
				continue
			}
			switch bo.Op.String() {
			case "==":
				nonEmpty = nonEmpty || !g.Pol
			case "!=", ">":
				nonEmpty = nonEmpty || g.Pol
			}
		}
		if !nonEmpty {
			return "none"
		}
	}
	if nTrue == 0 {
		return "none"
	}
	return "all-tokens"
}
