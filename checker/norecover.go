package main

// C05.R9 (= C06.R9): the analysis is never resumed after a panic. The path rules of C05 and C06 follow
// normal control flow: "the provisional memo entry written before a speculative pass is replaced by the
// final record or by an error record on every path", "a failure empties the tree". A recover() in the
// package turns a panic in the middle of the analysis into a further exit on which none of this has
// happened: the provisional entry stays, later callers take it for an analysed template. The rule is the
// assumption under which the other rules are sound; it holds when package template never recovers.

import (
	"strings"

	"golang.org/x/tools/go/ssa"
)

func checkNoRecover(p *Program, r *Report, rule string) {
	n := 0
	for _, fn := range p.SrcFuncs() {
		root := fn
		for root.Parent() != nil {
			root = root.Parent()
		}
		if root.Pkg == nil || root.Pkg.Pkg.Path() != modulePath+"/template" {
			continue
		}
		for _, b := range fn.Blocks {
			for _, in := range b.Instrs {
				c, ok := in.(ssa.CallInstruction)
				if !ok {
					continue
				}
				if bi, ok := c.Common().Value.(*ssa.Builtin); ok && bi.Name() == "recover" {
					n++
					r.Viol(rule, strings.TrimPrefix(fnName(fn), modulePath+"/")+"#recover", p.Pos(in.Pos()), "a panic raised during the analysis is recovered: the escaper's memo keeps the provisional entry written before the pass that panicked (no error record, tree not emptied), so a template analysed later that calls the failed one finds it 'already analysed' and executes its unescaped body", "")
				}
			}
		}
	}
	if n == 0 {
		r.OK(rule, "template#no-recover", "", "package template never recovers from a panic: every exit of the analysis is one the path rules follow")
	}
}
