package main

import (
	"fmt"
	"strings"

	"golang.org/x/tools/go/ssa"

	"safecheck/relang"
)

// CtorSite is one construction of a safe-type value (a store into its string
// field) inside a constructor, with the provenance of the stored string and
// the condition that dominates it.
type CtorSite struct {
	Store  *ssa.Store
	Val    *Expr   // provenance, wrappers expanded
	Leaves []*Expr // Val flattened over string concatenation, string conversions peeled
	Cond   *Form   // conjunction of dominating guards (terms = parameters of the constructor)
	Pos    string
}

func peelConv(e *Expr) *Expr {
	for e != nil && e.Op == "convert" && len(e.Args) == 1 && e.Type != nil && isStringish(e.Type) && e.Args[0].Type != nil && isStringish(e.Args[0].Type) {
		e = e.Args[0]
	}
	return e
}

func flattenConcat(e *Expr) []*Expr {
	e = peelConv(e)
	if e.Op == "binop" && e.Name == "+" && e.Type != nil && isStringish(e.Type) {
		return append(flattenConcat(e.Args[0]), flattenConcat(e.Args[1])...)
	}
	return []*Expr{e}
}

func analyseCtor(p *Program, s *Summarizer, fn *ssa.Function, pkgPath, typeName string) []CtorSite {
	pv := NewProv(p)
	env := termEnv{}
	for i, prm := range fn.Params {
		env[prm] = Term{Param: i}
	}
	var out []CtorSite
	for _, st := range safeStores(fn, pkgPath, typeName) {
		v := pv.Of(st.Store.Val)
		out = append(out, CtorSite{
			Store:  st.Store,
			Val:    v,
			Leaves: flattenConcat(v),
			Cond:   s.blockCond(st.Store.Block(), env, fnName(fn)+" store"),
			Pos:    p.Pos(st.Store.Pos()),
		})
	}
	return out
}

// splitByParam splits a conjunction into per-parameter conjunctions. ok=false
// if some conjunct mixes parameters.
func splitByParam(f *Form) (map[int]*Form, bool) {
	out := map[int]*Form{}
	var conj []*Form
	var flat func(f *Form)
	flat = func(f *Form) {
		if f.Op == "and" {
			for _, s := range f.Sub {
				flat(s)
			}
			return
		}
		conj = append(conj, f)
	}
	flat(f)
	for _, c := range conj {
		if c.Op == "true" {
			continue
		}
		ps := map[int]bool{}
		c.Atoms(func(a *LAtom) { ps[a.Term.Param] = true })
		if len(ps) != 1 {
			return nil, false
		}
		for k := range ps {
			if out[k] == nil {
				out[k] = c
			} else {
				out[k] = fAnd(out[k], c)
			}
		}
	}
	return out, true
}

// concatLanguage evaluates the language of a concatenation of leaves, given
// the language of each parameter (from the guards) — constants are literals,
// anything else is unconstrained (Σ*).
func concatLanguage(L *Lang, leaves []*Expr, paramLang map[int]*relang.DFA) (*relang.DFA, string) {
	var acc *relang.DFA
	var desc []string
	for _, lf := range leaves {
		var d *relang.DFA
		if s, ok := lf.IsConstString(); ok {
			d = relang.Literal(L.A, s)
			desc = append(desc, fmt.Sprintf("%q", s))
		} else if lf.Op == "param" {
			if pl, ok := paramLang[lf.Idx]; ok {
				d = pl
				desc = append(desc, "G("+lf.Name+")")
			} else {
				d = L.All()
				desc = append(desc, "Σ*("+lf.Name+")")
			}
		} else {
			d = L.All()
			desc = append(desc, "Σ*("+lf.String()+")")
		}
		if acc == nil {
			acc = d
		} else {
			acc = relang.Concat(acc, d)
		}
	}
	if acc == nil {
		acc = relang.Literal(L.A, "")
	}
	return acc, strings.Join(desc, " · ")
}

func registerLeaves(L *Lang, leaves []*Expr) {
	for _, lf := range leaves {
		if s, ok := lf.IsConstString(); ok {
			L.AddString(s)
		}
	}
}

// everyExitPanicsOrStores: every return of fn is in a block that contains (or
// is dominated by a block containing) one of the given stores — i.e. there is
// no path returning a value that was not described by a CtorSite. Used for
// constructors that "either panic or return".
func returnsCovered(fn *ssa.Function, sites []CtorSite) (bool, string) {
	for _, ret := range Returns(fn) {
		ok := false
		for _, s := range sites {
			if s.Store.Block().Dominates(ret.Block()) {
				ok = true
			}
		}
		if !ok {
			return false, fmt.Sprintf("a return in block %d is not dominated by a checked construction", ret.Block().Index)
		}
	}
	return true, ""
}
