package main

import (
	"fmt"
	"strings"

	"golang.org/x/tools/go/ssa"

	"safecheck/relang"
)

// CtorSite is one construction of a safe-type value (a store into its string
// field) inside a constructor, with the provenance of the stored string and
// the condition that dominates it.
type CtorSite struct {
	Store  *ssa.Store
	Val    *Expr   // provenance, wrappers expanded
	Leaves []*Expr // Val flattened over string concatenation, string conversions peeled
	Cond   *Form   // conjunction of dominating guards (terms = parameters of the constructor)
	Pos    string
}

func peelConv(e *Expr) *Expr {
	for e != nil && e.Op == "convert" && len(e.Args) == 1 && e.Type != nil && isStringish(e.Type) && e.Args[0].Type != nil && isStringish(e.Args[0].Type) {
		e = e.Args[0]
	}
	return e
}

func flattenConcat(e *Expr) []*Expr {
	e = peelConv(e)
	if e.Op == "binop" && e.Name == "+" && e.Type != nil && isStringish(e.Type) {
		return append(flattenConcat(e.Args[0]), flattenConcat(e.Args[1])...)
	}
	return []*Expr{e}
}

func analyseCtor(p *Program, s *Summarizer, fn *ssa.Function, pkgPath, typeName string) []CtorSite {
	pv := NewProv(p)
	env := termEnv{}
	for i, prm := range fn.Params {
		env[prm] = Term{Param: i}
	}
	var out []CtorSite
	for _, st := range safeStores(fn, pkgPath, typeName) {
		v := pv.Of(st.Store.Val)
		out = append(out, CtorSite{
			Store:  st.Store,
			Val:    v,
			Leaves: flattenConcat(v),
			Cond:   s.blockCond(st.Store.Block(), env, fnName(fn)+" store"),
			Pos:    p.Pos(st.Store.Pos()),
		})
	}
	return out
}

// splitByParam projects a condition onto each parameter it mentions: in
// negation normal form every literal about another parameter is replaced by
// true, which yields a necessary condition on that parameter alone
// (over-approximation). Propositional atoms are kept.
func splitByParam(f *Form) (map[int]*Form, bool) {
	f = unitPropagate(f)
	params := map[int]bool{}
	f.Atoms(func(a *LAtom) {
		if a.Kind != "prop" {
			params[a.Term.Key()] = true
		}
	})
	out := map[int]*Form{}
	for k := range params {
		out[k] = projectForm(f, k, true)
	}
	return out, true
}

func projectForm(f *Form, param int, pos bool) *Form {
	switch f.Op {
	case "true", "false":
		if (f.Op == "true") == pos {
			return fTrue()
		}
		return fFalse()
	case "unknown":
		return fTrue()
	case "not":
		return projectForm(f.Sub[0], param, !pos)
	case "over":
		if !pos {
			return fTrue()
		}
		return projectForm(f.Sub[0], param, true)
	case "over2":
		if !pos {
			return projectForm(f.Sub[1], param, true)
		}
		return projectForm(f.Sub[0], param, true)
	case "atom":
		if f.Atom.Kind != "prop" && f.Atom.Term.Key() != param {
			return fTrue()
		}
		if pos {
			return f
		}
		return fNot(f)
	case "and", "or":
		op := f.Op
		if !pos {
			if op == "and" {
				op = "or"
			} else {
				op = "and"
			}
		}
		var subs []*Form
		for _, s := range f.Sub {
			subs = append(subs, projectForm(s, param, pos))
		}
		return &Form{Op: op, Sub: subs}
	}
	return fTrue()
}

// concatLanguage evaluates the language of a concatenation of leaves, given
// the language of each parameter (from the guards) — constants are literals,
// anything else is unconstrained (Σ*).
func concatLanguage(L *Lang, leaves []*Expr, paramLang map[int]*relang.DFA) (*relang.DFA, string) {
	var acc *relang.DFA
	var desc []string
	for _, lf := range leaves {
		var d *relang.DFA
		if s, ok := lf.IsConstString(); ok {
			d = relang.Literal(L.A, s)
			desc = append(desc, fmt.Sprintf("%q", s))
		} else if lf.Op == "param" {
			if pl, ok := paramLang[lf.Idx]; ok {
				d = pl
				desc = append(desc, "G("+lf.Name+")")
			} else {
				d = L.All()
				desc = append(desc, "Σ*("+lf.Name+")")
			}
		} else {
			d = L.All()
			desc = append(desc, "Σ*("+lf.String()+")")
		}
		if acc == nil {
			acc = d
		} else {
			acc = relang.Concat(acc, d)
		}
	}
	if acc == nil {
		acc = relang.Literal(L.A, "")
	}
	return acc, strings.Join(desc, " · ")
}

func registerLeaves(L *Lang, leaves []*Expr) {
	for _, lf := range leaves {
		if s, ok := lf.IsConstString(); ok {
			L.AddString(s)
		}
	}
}

// everyExitPanicsOrStores: every return of fn is in a block that contains (or
// is dominated by a block containing) one of the given stores — i.e. there is
// no path returning a value that was not described by a CtorSite. Used for
// constructors that "either panic or return".
func returnsCovered(fn *ssa.Function, sites []CtorSite) (bool, string) {
	for _, ret := range Returns(fn) {
		ok := false
		for _, s := range sites {
			if s.Store.Block().Dominates(ret.Block()) {
				ok = true
			}
		}
		if !ok {
			return false, fmt.Sprintf("a return in block %d is not dominated by a checked construction", ret.Block().Index)
		}
	}
	return true, ""
}

// unitPropagate replaces, inside the compound sub-formulas of a conjunction, the atoms that the conjunction
// also asserts (or denies) as literals of its own by their truth value. The result is logically equivalent; it
// keeps the projection on one parameter from losing what the path condition says elsewhere (a condition
// negated as a whole drags the conditions of the path it was computed on with it).
func unitPropagate(f *Form) *Form {
	key := func(a *LAtom) string { return fmt.Sprintf("%s|%d|%s", a.Kind, a.Term.Key(), a.Desc) }
	facts := map[string]bool{}
	var collect func(g *Form)
	collect = func(g *Form) {
		switch g.Op {
		case "and":
			for _, s := range g.Sub {
				collect(s)
			}
		case "atom":
			facts[key(g.Atom)] = true
		case "not":
			if g.Sub[0].Op == "atom" {
				facts[key(g.Sub[0].Atom)] = false
			}
		}
	}
	collect(f)
	if len(facts) == 0 {
		return f
	}
	var subst func(g *Form) *Form
	subst = func(g *Form) *Form {
		switch g.Op {
		case "atom":
			if v, ok := facts[key(g.Atom)]; ok {
				if v {
					return fTrue()
				}
				return fFalse()
			}
			return g
		case "and", "or", "not", "over", "over2":
			subs := make([]*Form, len(g.Sub))
			for i, s := range g.Sub {
				subs[i] = subst(s)
			}
			return &Form{Op: g.Op, Sub: subs, Atom: g.Atom, Why: g.Why, In: g.In}
		}
		return g
	}
	var top func(g *Form) *Form
	top = func(g *Form) *Form {
		switch g.Op {
		case "and":
			subs := make([]*Form, len(g.Sub))
			for i, s := range g.Sub {
				subs[i] = top(s)
			}
			return &Form{Op: "and", Sub: subs}
		case "atom":
			return g
		case "not":
			if g.Sub[0].Op == "atom" {
				return g
			}
		}
		return subst(g)
	}
	return top(f)
}
