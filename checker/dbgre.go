package main

import (
	"fmt"
	"go/ast"
)

func init() {
	register("DBGRE", "other", func(p *Program, r *Report) {
		regs, un := p.AllRegexes()
		for n, rc := range regs {
			fmt.Printf("%s = %q\n", n, rc.Src)
		}
		fmt.Println("unresolved:", un)
		pk := p.Pkg("")
		for _, f := range pk.Syntax {
			ast.Inspect(f, func(n ast.Node) bool {
				ce, ok := n.(*ast.CallExpr)
				if !ok {
					return true
				}
				if se, ok := ce.Fun.(*ast.SelectorExpr); ok && se.Sel.Name == "MustCompile" {
					v, ok := p.foldString(pk, ce.Args[0], nil, 0)
					fmt.Printf("fold %T -> %q %v\n", ce.Args[0], v, ok)
					if be, ok := ce.Args[0].(*ast.BinaryExpr); ok {
						a, ok1 := p.foldString(pk, be.X, nil, 1)
						b, ok2 := p.foldString(pk, be.Y, nil, 1)
						fmt.Printf("   X %T %q %v ; Y %T %q %v\n", be.X, a, ok1, be.Y, b, ok2)
					}
				}
				return true
			})
		}
	})
}
