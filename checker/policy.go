package main

// E2 for package template: the policy tables, the sanitization-context table
// and the FuncMap, evaluated from the source literals.

import (
	"fmt"
	"go/types"
	"sort"

	"golang.org/x/tools/go/ssa"
)

type scInfo struct {
	Name      string // display name, e.g. "URL"
	Sanitizer string // FuncMap key, e.g. "_sanitizeURL" ("" for None)
}

type Policy struct {
	SCNames     map[int64]string // value -> Go constant name
	SCByName    map[string]int64 // Go constant name -> value
	Info        map[int64]scInfo
	Funcs       map[string]*ssa.Function // FuncMap key -> function
	ElemAttr    map[string]map[string]int64
	GlobalAttr  map[string]int64
	ElemContent map[string]int64
	VoidElems   map[string]bool
	LinkRel     map[string]bool
	Problems    []string
	prog        *Program
}

func (pl *Policy) SC(v int64) string {
	if i, ok := pl.Info[v]; ok {
		return i.Name
	}
	return fmt.Sprintf("sc#%d", v)
}

func loadPolicy(p *Program) (*Policy, error) {
	tpk := p.Pkg("template")
	if tpk == nil {
		return nil, fmt.Errorf("package template not loaded")
	}
	scObj := tpk.Types.Scope().Lookup("sanitizationContext")
	if scObj == nil {
		return nil, fmt.Errorf("anchor not found: type sanitizationContext")
	}
	pl := &Policy{prog: p, SCNames: ConstNames(tpk, scObj.Type()), SCByName: map[string]int64{}, Info: map[int64]scInfo{}, Funcs: map[string]*ssa.Function{},
		ElemAttr: map[string]map[string]int64{}, GlobalAttr: map[string]int64{}, ElemContent: map[string]int64{}}
	for v, n := range pl.SCNames {
		pl.SCByName[n] = v
	}
	// sanitizationContextInfo
	lit, err := p.VarLit("template", "sanitizationContextInfo")
	if err != nil {
		return nil, err
	}
	for i, k := range lit.Keys {
		kv, _ := k.Int()
		v := lit.Vals[i]
		if v.Kind != "struct" || len(v.Vals) < 2 {
			return nil, fmt.Errorf("sanitizationContextInfo[%d]: unexpected entry", kv)
		}
		var inf scInfo
		for j, fn := range v.Field {
			if fn != "name" && fn != "sanitizerName" {
				continue // further columns of the table (flags read by predicates) are evaluated where they are used
			}
			s, ok := v.Vals[j].Str()
			if !ok {
				return nil, fmt.Errorf("sanitizationContextInfo[%d].%s is not a constant", kv, fn)
			}
			switch fn {
			case "name":
				inf.Name = s
			case "sanitizerName":
				inf.Sanitizer = s
			}
		}
		pl.Info[kv] = inf
	}
	// funcs
	flit, err := p.VarLit("template", "funcs")
	if err != nil {
		return nil, err
	}
	for i, k := range flit.Keys {
		ks, ok := k.Str()
		f, okf := flit.Vals[i].Obj.(*types.Func)
		if !ok || !okf {
			return nil, fmt.Errorf("funcs: non-constant key or non-function value")
		}
		sf := p.SSA.FuncValue(f)
		if sf == nil {
			return nil, fmt.Errorf("funcs[%q]: no SSA function", ks)
		}
		if _, dup := pl.Funcs[ks]; dup {
			pl.Problems = append(pl.Problems, fmt.Sprintf("funcs: duplicate key %q", ks))
		}
		pl.Funcs[ks] = sf
	}
	readSC := func(l *Lit) (int64, bool) { return l.Int() }
	// elementSpecificAttrValSanitizationContext
	if l, err := p.VarLit("template", "elementSpecificAttrValSanitizationContext"); err != nil {
		return nil, err
	} else {
		for i, k := range l.Keys {
			attr, _ := k.Str()
			inner := l.Vals[i]
			if inner.Kind != "map" {
				return nil, fmt.Errorf("elementSpecific[%q] is not a map literal", attr)
			}
			if pl.ElemAttr[attr] == nil {
				pl.ElemAttr[attr] = map[string]int64{}
			} else {
				pl.Problems = append(pl.Problems, "duplicate attribute key "+attr)
			}
			for j, ek := range inner.Keys {
				el, _ := ek.Str()
				sc, ok := readSC(inner.Vals[j])
				if !ok {
					return nil, fmt.Errorf("elementSpecific[%q][%q] is not a constant", attr, el)
				}
				pl.ElemAttr[attr][el] = sc
			}
		}
	}
	for _, m := range []struct {
		name string
		dst  map[string]int64
	}{{"globalAttrValSanitizationContext", pl.GlobalAttr}, {"elementContentSanitizationContext", pl.ElemContent}} {
		l, err := p.VarLit("template", m.name)
		if err != nil {
			return nil, err
		}
		for i, k := range l.Keys {
			ks, _ := k.Str()
			sc, ok := readSC(l.Vals[i])
			if !ok {
				return nil, fmt.Errorf("%s[%q] is not a constant", m.name, ks)
			}
			m.dst[ks] = sc
		}
	}
	for _, m := range []struct {
		name string
		dst  *map[string]bool
	}{{"allowedVoidElements", &pl.VoidElems}, {"urlLinkRelVals", &pl.LinkRel}} {
		l, err := p.VarLit("template", m.name)
		if err != nil {
			return nil, err
		}
		set, err := l.StringBoolSet()
		if err != nil {
			return nil, fmt.Errorf("%s: %v", m.name, err)
		}
		*m.dst = set
	}
	// the tables must not be written outside their initialisers
	tsp := p.SSAPkg("template")
	for _, f := range p.SrcFuncs() {
		if f.Synthetic != "" && f.Name() == "init" {
			continue
		}
		for _, b := range f.Blocks {
			for _, in := range b.Instrs {
				switch x := in.(type) {
				case *ssa.Store:
					if g, ok := x.Addr.(*ssa.Global); ok && g.Pkg == tsp && isPolicyVar(g.Name()) {
						pl.Problems = append(pl.Problems, fmt.Sprintf("policy variable %s is reassigned in %s", g.Name(), fnName(f)))
					}
				case *ssa.MapUpdate:
					if u, ok := x.Map.(*ssa.UnOp); ok {
						if g, ok := u.X.(*ssa.Global); ok && g.Pkg == tsp && isPolicyVar(g.Name()) {
							pl.Problems = append(pl.Problems, fmt.Sprintf("policy table %s is modified in %s", g.Name(), fnName(f)))
						}
					}
					if lk, ok := x.Map.(*ssa.Lookup); ok {
						if u, ok := lk.X.(*ssa.UnOp); ok {
							if g, ok := u.X.(*ssa.Global); ok && g.Pkg == tsp && isPolicyVar(g.Name()) {
								pl.Problems = append(pl.Problems, fmt.Sprintf("policy table %s is modified in %s", g.Name(), fnName(f)))
							}
						}
					}
				}
			}
		}
	}
	sort.Strings(pl.Problems)
	return pl, nil
}

func isPolicyVar(n string) bool {
	switch n {
	case "elementSpecificAttrValSanitizationContext", "globalAttrValSanitizationContext", "elementContentSanitizationContext", "allowedVoidElements", "urlLinkRelVals",
		"sanitizationContextInfo", "funcs", "urlPrefixValidators", "sanitizeAsyncEnumValues", "sanitizeDirEnumValues", "sanitizeLoadingEnumValues", "sanitizeTargetEnumValues",
		"transitionFunc", "delimEnds", "specialElements", "voidElements", "predefinedEscapers", "equivEscapers":
		return true
	}
	return false
}

// SanitizerFunc resolves a sanitization context to the function that runs.
func (pl *Policy) SanitizerFunc(sc int64) *ssa.Function {
	inf, ok := pl.Info[sc]
	if !ok || inf.Sanitizer == "" {
		return nil
	}
	return pl.Funcs[inf.Sanitizer]
}
