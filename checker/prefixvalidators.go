package main

import (
	"fmt"
	"go/constant"
	"go/types"
	"strings"

	"golang.org/x/tools/go/ssa"
)

// validatorSource: where the attribute-value chain function takes its URL-prefix validator from —
// a package-level map keyed by sanitization context, or a function of the sanitization context
// that returns (validator, found).
type validatorSource struct {
	Global *ssa.Global   // map[sanitizationContext]func(string) error
	Func   *ssa.Function // func(sanitizationContext) (func(string) error, bool)
	Pos    string
}

func (vs *validatorSource) Name() string {
	if vs.Global != nil {
		return "template." + vs.Global.Name()
	}
	return "template." + vs.Func.Name()
}

var validatorSourceCache = map[*Program]*validatorSource{}

// findValidatorSource looks, in package template, for the dynamic call validator(c.attr.value) whose
// callee is looked up by sanitization context, and returns where the callee comes from.
func findValidatorSource(p *Program) *validatorSource {
	if vs, ok := validatorSourceCache[p]; ok {
		return vs
	}
	var found *validatorSource
	tsp := p.SSAPkg("template")
	for _, f := range p.SrcFuncs() {
		if f.Pkg != tsp {
			continue
		}
		for _, b := range f.Blocks {
			for _, in := range b.Instrs {
				call, ok := in.(*ssa.Call)
				if !ok || call.Common().IsInvoke() || staticCallee(call.Common()) != nil || len(call.Common().Args) != 1 {
					continue
				}
				sig, ok := call.Common().Value.Type().Underlying().(*types.Signature)
				if !ok || sig.Params().Len() != 1 || sig.Results().Len() != 1 || !isErrorType(sig.Results().At(0).Type()) {
					continue
				}
				// argument: field value of field attr
				arg := call.Common().Args[0]
				isAttrValue := false
				if u, ok := arg.(*ssa.UnOp); ok {
					if fa, ok := u.X.(*ssa.FieldAddr); ok && fieldName(fa.X.Type(), fa.Field) == "value" {
						isAttrValue = true
					}
				}
				if fl, ok := arg.(*ssa.Field); ok && fieldName(fl.X.Type(), fl.Field) == "value" {
					isAttrValue = true
				}
				if !isAttrValue {
					continue
				}
				// callee value: extract #0 of a lookup (commaok) on a global map, or of a call
				v := call.Common().Value
				if ex, ok := v.(*ssa.Extract); ok && ex.Index == 0 {
					switch t := ex.Tuple.(type) {
					case *ssa.Lookup:
						if u, ok := t.X.(*ssa.UnOp); ok {
							if g, ok := u.X.(*ssa.Global); ok {
								found = &validatorSource{Global: g, Pos: p.Pos(call.Pos())}
							}
						}
					case *ssa.Call:
						if g := staticCallee(t.Common()); g != nil && g.Pkg == tsp {
							found = &validatorSource{Func: g, Pos: p.Pos(call.Pos())}
						}
					}
				}
				if cl, ok := v.(*ssa.Call); ok {
					// validator := f(sc) with a nil result for "none"
					if g := staticCallee(cl.Common()); g != nil && g.Pkg == tsp {
						found = &validatorSource{Func: g, Pos: p.Pos(call.Pos())}
					}
				}
				if lk, ok := v.(*ssa.Lookup); ok {
					if u, ok := lk.X.(*ssa.UnOp); ok {
						if g, ok := u.X.(*ssa.Global); ok {
							found = &validatorSource{Global: g, Pos: p.Pos(call.Pos())}
						}
					}
				}
			}
		}
	}
	validatorSourceCache[p] = found
	return found
}

// prefixValidatorTable: sanitization-context constant name → validator function.
func prefixValidatorTable(p *Program) (map[string]*ssa.Function, *validatorSource, error) {
	vs := findValidatorSource(p)
	if vs == nil {
		return nil, nil, fmt.Errorf("no validator(c.attr.value) call with a validator selected by sanitization context found in package template")
	}
	tpk := p.Pkg("template")
	scType := tpk.Types.Scope().Lookup("sanitizationContext")
	if scType == nil {
		return nil, vs, fmt.Errorf("anchor not found: sanitizationContext")
	}
	names := ConstNames(tpk, scType.Type())
	out := map[string]*ssa.Function{}
	if vs.Global != nil {
		lit, err := p.VarLit("template", cname(vs.Global))
		if err != nil {
			return nil, vs, err
		}
		for i, k := range lit.Keys {
			kv, _ := k.Int()
			f, _ := lit.Vals[i].Obj.(*types.Func)
			if f == nil {
				return nil, vs, fmt.Errorf("%s has a non-function entry", vs.Name())
			}
			out[names[kv]] = p.SSA.FuncValue(f)
		}
		return out, vs, nil
	}
	// function form: decision over the sanitization-context parameter
	g := vs.Func
	if len(g.Params) != 1 {
		return nil, vs, fmt.Errorf("%s does not take the sanitization context alone", vs.Name())
	}
	for v, n := range names {
		var res *ssa.Function
		undecided := false
		var walk func(b *ssa.BasicBlock, seen map[*ssa.BasicBlock]bool)
		walk = func(b *ssa.BasicBlock, seen map[*ssa.BasicBlock]bool) {
			if seen[b] {
				return
			}
			seen[b] = true
			last := b.Instrs[len(b.Instrs)-1]
			switch x := last.(type) {
			case *ssa.Return:
				if fn, ok := x.Results[0].(*ssa.Function); ok {
					if res != nil && res != fn {
						undecided = true
					}
					res = fn
				} else if k, ok := x.Results[0].(*ssa.Const); !ok || k.Value != nil {
					undecided = true
				}
			case *ssa.If:
				if bo, ok := x.Cond.(*ssa.BinOp); ok {
					var k *ssa.Const
					if bo.X == ssa.Value(g.Params[0]) {
						k, _ = bo.Y.(*ssa.Const)
					} else if bo.Y == ssa.Value(g.Params[0]) {
						k, _ = bo.X.(*ssa.Const)
					}
					if k != nil && k.Value != nil && k.Value.Kind() == constant.Int && (bo.Op.String() == "==" || bo.Op.String() == "!=") {
						kv, _ := constant.Int64Val(k.Value)
						if (kv == v) == (bo.Op.String() == "==") {
							walk(b.Succs[0], seen)
						} else {
							walk(b.Succs[1], seen)
						}
						return
					}
				}
				undecided = true
			default:
				for _, s := range b.Succs {
					walk(s, seen)
				}
			}
		}
		walk(g.Blocks[0], map[*ssa.BasicBlock]bool{})
		if undecided {
			return nil, vs, fmt.Errorf("%s is not a plain decision over its sanitization-context parameter", vs.Name())
		}
		if res != nil {
			out[n] = res
		}
	}
	return out, vs, nil
}

// isValidatorCallee: the callee expression of a dynamic call derives from the discovered validator source.
func isValidatorCallee(p *Program, callee *Expr) bool {
	vs := findValidatorSource(p)
	found := false
	callee.Walk(func(x *Expr) bool {
		if vs != nil && vs.Global != nil && x.Op == "global" && strings.HasSuffix(x.Name, "."+vs.Global.Name()) {
			found = true
		}
		if vs != nil && vs.Func != nil && x.Op == "call" && x.Fn == vs.Func {
			found = true
		}
		return true
	})
	return found
}
