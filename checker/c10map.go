package main

import (
	"fmt"
	"go/ast"
	"go/types"
	"strings"

	"safecheck/relang"

	"golang.org/x/tools/go/ssa"
)

// The coercion as a map on code points, whatever the loop and the accumulator look like: for every rune the
// input can yield, exactly one rune is written, either the rune itself or a constant. The map is read off a
// decision table over all code points of the loop body (range over the string, or utf8.DecodeRuneInString in an
// index loop) or of the function handed to strings.Map.

// rangeTableSetOf: the code points of a package-level *unicode.RangeTable expression (a literal, a reference to a
// table of the installed unicode package, rangetable.Merge of such).
func rangeTableSetOf(p *Program, g *ssa.Global) (*relang.Set, []string, error) {
	init, pk := p.PkgVarInit(relOf(g.Pkg.Pkg.Path()), cname(g))
	if init == nil {
		return nil, nil, fmt.Errorf("no initialiser of %s", g.Name())
	}
	if call, ok := ast.Unparen(init).(*ast.CallExpr); ok {
		name := ""
		if se, ok := call.Fun.(*ast.SelectorExpr); ok {
			if f, ok := pk.TypesInfo.Uses[se.Sel].(*types.Func); ok {
				name = f.FullName()
			}
		}
		if name != "golang.org/x/text/unicode/rangetable.Merge" {
			return nil, nil, fmt.Errorf("table initialised by %s", name)
		}
		T := &relang.Set{}
		var probs []string
		for _, a := range call.Args {
			s, pr, e := evalRangeTable(p, pk, a, 0)
			if e != nil {
				return nil, nil, e
			}
			probs = append(probs, pr...)
			T = T.Union(s)
		}
		return T, probs, nil
	}
	return evalRangeTable(p, pk, init, 0)
}

type runeMap struct {
	Replaced *relang.Set // runes written as U+FFFD
	Kept     *relang.Set // runes written as themselves
	Form     string
	Tables   []*ssa.Global
	Probs    []string
}

// coercerRuneMap extracts the map of the coercer fn.
func coercerRuneMap(p *Program, fn *ssa.Function) (*runeMap, string) {
	rm := &runeMap{Replaced: &relang.Set{}, Kept: &relang.Set{}}
	callSet := func(c *ssa.Call) (*relang.Set, bool) {
		g := staticCallee(c.Common())
		if g == nil || fnName(g) != "unicode.Is" || len(c.Common().Args) != 2 {
			return nil, false
		}
		u, ok := c.Common().Args[0].(*ssa.UnOp)
		if !ok {
			return nil, false
		}
		gl, ok := u.X.(*ssa.Global)
		if !ok {
			return nil, false
		}
		set, probs, err := rangeTableSetOf(p, gl)
		if err != nil {
			return nil, false
		}
		rm.Tables = append(rm.Tables, gl)
		rm.Probs = append(rm.Probs, probs...)
		return set, true
	}
	rel := ""
	if fn.Pkg != nil {
		rel = relOf(fn.Pkg.Pkg.Path())
	}
	dom := runeDomain()
	// classify: value v written for the rune variable r, reached from block `from`
	classify := func(v ssa.Value, r ssa.Value, from *ssa.BasicBlock, set *relang.Set, depth int) string {
		for i := 0; i < 4; i++ {
			if ph, ok := v.(*ssa.Phi); ok && from != nil {
				found := false
				for j, pr := range ph.Block().Preds {
					if pr == from {
						v = ph.Edges[j]
						found = true
					}
				}
				if !found {
					return "a written value that depends on the path in a way the table does not follow"
				}
				continue
			}
			break
		}
		if c, ok := v.(*ssa.Convert); ok && !narrowingConversion(c) {
			v = c.X
		}
		switch {
		case v == r:
			rm.Kept = rm.Kept.Union(set)
			return ""
		default:
			if k, ok := constInt(v); ok {
				if k == 0xFFFD {
					rm.Replaced = rm.Replaced.Union(set)
					return ""
				}
				return fmt.Sprintf("the constant %#x is written for %s", k, set)
			}
		}
		return "something other than the rune or a constant is written"
	}
	// Form C: strings.Map(g, s)
	for _, ret := range Returns(fn) {
		if c, ok := isCallTo(ret.Results[0], "strings.Map"); ok && len(Returns(fn)) == 1 {
			g, _ := c.Common().Args[0].(*ssa.Function)
			if g == nil || g.Blocks == nil || len(g.Params) != 1 || c.Common().Args[1] != ssa.Value(fn.Params[0]) {
				return nil, "strings.Map is not applied to a function of the package and the input"
			}
			rm.Form = "strings.Map(" + g.Name() + ", s)"
			leaves := decisionTable(g.Blocks[0], dtConfig{Tables: constBoolTables(p, rel), Var: g.Params[0], Dom: dom, CallSet: callSet, Leaf: func(*ssa.BasicBlock) (string, bool) { return "", false }, Max: 4000})
			for _, l := range leaves {
				if len(l.Tags) > 0 || l.Effect != "return" {
					return nil, "the mapping function is not a function of the rune alone (" + l.Effect + ")"
				}
				rv := l.Block.Instrs[len(l.Block.Instrs)-1].(*ssa.Return).Results[0]
				if why := classify(rv, g.Params[0], l.From, l.Set, 0); why != "" {
					return nil, why
				}
			}
			return rm, ""
		}
	}
	// Forms A/B: a loop
	var r ssa.Value
	var header *ssa.BasicBlock
	for _, b := range fn.Blocks {
		for _, in := range b.Instrs {
			switch x := in.(type) {
			case *ssa.Next:
				if rg, ok := x.Iter.(*ssa.Range); ok && x.IsString && rg.X == ssa.Value(fn.Params[0]) {
					for _, ref := range *x.Referrers() {
						if ex, ok := ref.(*ssa.Extract); ok && ex.Index == 2 {
							r, header = ex, x.Block()
							rm.Form = "range over the input"
						}
					}
				}
			case *ssa.Call:
				if g := staticCallee(x.Common()); g != nil && fnName(g) == "unicode/utf8.DecodeRuneInString" {
					sl, ok := x.Common().Args[0].(*ssa.Slice)
					if !ok || sl.X != ssa.Value(fn.Params[0]) || sl.High != nil {
						continue
					}
					idx, ok := sl.Low.(*ssa.Phi)
					if !ok {
						continue
					}
					// the index advances by the decoded width
					adv := false
					var width ssa.Value
					for _, ref := range *x.Referrers() {
						if ex, ok := ref.(*ssa.Extract); ok {
							if ex.Index == 0 {
								r = ex
							} else {
								width = ex
							}
						}
					}
					for _, e := range idx.Edges {
						if bo, ok := e.(*ssa.BinOp); ok && bo.X == ssa.Value(idx) && bo.Y == width {
							adv = true
						}
					}
					if r != nil && adv {
						header = idx.Block()
						rm.Form = "utf8.DecodeRuneInString over the input, advancing by the decoded width"
					} else {
						r = nil
					}
				}
			}
		}
	}
	if r == nil || header == nil {
		return nil, "no loop over the runes of the input found (range, utf8.DecodeRuneInString) and no strings.Map"
	}
	in := loopBlocks(header)
	isEmit := func(b *ssa.BasicBlock) (ssa.Value, bool) {
		for _, ins := range b.Instrs {
			c, ok := ins.(*ssa.Call)
			if !ok {
				continue
			}
			if bi, ok := c.Common().Value.(*ssa.Builtin); ok && bi.Name() == "append" {
				if elems, ok := variadicArgs(c.Common().Args[1]); ok && len(elems) == 1 {
					if bt, ok := elems[0].Type().Underlying().(*types.Basic); ok && bt.Kind() == types.Int32 {
						return elems[0], true
					}
				}
				continue
			}
			if g := staticCallee(c.Common()); g != nil {
				switch fnName(g) {
				case "(*bytes.Buffer).WriteRune":
					return c.Common().Args[1], true
				case "unicode/utf8.EncodeRune", "unicode/utf8.AppendRune":
					return c.Common().Args[1], true
				}
			}
		}
		return nil, false
	}
	// where the body starts: the block that holds r (range: the successor of the header that is in the loop)
	start := r.(ssa.Instruction).Block()
	if _, isRange := r.(*ssa.Extract).Tuple.(*ssa.Next); isRange {
		for _, su := range header.Succs {
			if in[su] {
				start = su
			}
		}
	}
	emits := 0
	leaves := decisionTable(start, dtConfig{Tables: constBoolTables(p, rel), Var: r, Dom: dom, CallSet: callSet, Max: 6000, Leaf: func(b *ssa.BasicBlock) (string, bool) {
		if _, ok := isEmit(b); ok && b != start {
			return "emit", true
		}
		if b == header || !in[b] {
			return "cont", true
		}
		return "", false
	}})
	// the start block itself may emit (a body of one block)
	if v, ok := isEmit(start); ok {
		if why := classify(v, r, nil, dom, 0); why != "" {
			return nil, why
		}
		return rm, ""
	}
	for _, l := range leaves {
		if len(l.Tags) > 0 || strings.HasPrefix(l.Effect, "undecided") {
			return nil, "the loop body branches on something other than the current rune (" + l.Effect + " " + strings.Join(l.Tags, ",") + ")"
		}
		switch l.Effect {
		case "emit":
			emits++
			v, _ := isEmit(l.Block)
			if why := classify(v, r, l.From, l.Set, 0); why != "" {
				return nil, why
			}
			// after the write the iteration ends without another write
			seen := map[*ssa.BasicBlock]bool{}
			var walk func(b *ssa.BasicBlock) bool
			walk = func(b *ssa.BasicBlock) bool {
				if b == header || !in[b] || seen[b] {
					return true
				}
				seen[b] = true
				if _, ok := isEmit(b); ok {
					return false
				}
				for _, su := range b.Succs {
					if !walk(su) {
						return false
					}
				}
				return true
			}
			for _, su := range l.Block.Succs {
				if !walk(su) {
					return nil, "an iteration can write more than one rune"
				}
			}
		case "cont":
			return nil, fmt.Sprintf("for the runes %s an iteration writes nothing", l.Set)
		default:
			return nil, "unexpected end of an iteration: " + l.Effect
		}
	}
	if emits == 0 {
		return nil, "the loop writes no rune"
	}
	return rm, ""
}

// checkCoercerByMap decides C10.R2/R3 from the rune map.
func checkCoercerByMap(p *Program, r *Report, fn *ssa.Function) bool {
	cn := fnName(fn)
	pos := p.Pos(fn.Pos())
	rm, why := coercerRuneMap(p, fn)
	if rm == nil {
		r.Undec("C10.R2", cn+"#rune-map", pos, "the coercion could not be read as a map on code points: "+why)
		return false
	}
	r.OK("C10.R2", cn+"#range", pos, "every rune of the input ("+rm.Form+"; invalid bytes decode to U+FFFD) is handled on its own")
	all := runeDomain()
	both := rm.Replaced.Intersect(rm.Kept)
	rest := all.Minus(rm.Replaced.Union(rm.Kept))
	r.Check(both.Empty() && rest.Empty(), "C10.R2", cn+"#one-rune-per-rune", pos, "each rune is written exactly once, as itself or as U+FFFD", fmt.Sprintf("runes written in two ways: %s; runes not written: %s", both, rest))
	r.OK("C10.R2", cn+"#test", pos, fmt.Sprintf("%d code points are replaced by U+FFFD, all others copied", rm.Replaced.Count()))
	r.OK("C10.R2", cn+"#result", pos, "the result is made of the runes written by the loop (accumulator forms are not distinguished here)")
	for _, pr := range rm.Probs {
		r.Viol("C10.R3", cn+"#well-formed", pos, pr, "")
	}
	if len(rm.Probs) == 0 {
		r.OK("C10.R3", cn+"#well-formed", pos, "range tables consulted are sorted and disjoint")
	}
	spec := specC10Controls().Union(specNoncharacters())
	missing := spec.Minus(rm.Replaced)
	extra := rm.Replaced.Minus(spec)
	if missing.Empty() {
		r.OK("C10.R3", cn+"#covers", pos, fmt.Sprintf("replaced set contains all %d control and noncharacter code points of the statement", spec.Count()))
	} else {
		r.Viol("C10.R3", cn+"#covers", pos, "code points the statement says are replaced survive coercion: "+missing.String(), fmt.Sprintf("%+q", string(rune(missing.R[0]))))
	}
	if extra.Empty() {
		r.OK("C10.R3", cn+"#exact", pos, "no other code point is replaced (round-trip clause)")
	} else {
		r.Viol("C10.R3", cn+"#exact", pos, "code points outside the statement's set are replaced by U+FFFD: "+extra.String(), fmt.Sprintf("%+q", string(rune(extra.R[0]))))
	}
	// returns: the accumulated text, or the input itself where the map is the identity on it
	for i, ret := range Returns(fn) {
		if ret.Results[0] != ssa.Value(fn.Params[0]) {
			continue
		}
		c := fmt.Sprintf("%s#fast-path%d", cn, i)
		regs, _ := p.AllRegexes()
		s := NewSummarizer(p, regs)
		f := s.blockCond(ret.Block(), termEnv{fn.Params[0]: Term{Param: 0}}, "fast path")
		L := NewLang()
		if err := registerSumm(L, s, f); err != nil {
			r.Undec("C10.R2", c, p.Pos(ret.Pos()), err.Error())
			continue
		}
		id := rm.Kept.Minus(relang.NewSet(relang.INV, relang.INV))
		L.AddSet(id)
		L.Build()
		d, amb, err := L.Eval(f)
		if err != nil || len(amb) > 0 {
			r.Undec("C10.R2", c, p.Pos(ret.Pos()), fmt.Sprintf("condition of the fast path not evaluable: %v %v", err, amb))
			continue
		}
		if ok, w := relang.Subset(d, relang.StarOfSet(L.A, id)); ok {
			r.OK("C10.R2", c, p.Pos(ret.Pos()), "the input is returned unchanged only where it is valid UTF-8 without a replaced code point: "+trunc(f.String(), 160))
		} else {
			r.Viol("C10.R2", c, p.Pos(ret.Pos()), "the input is returned unchanged although it holds a code point that has to be replaced (or an invalid byte)", w)
		}
	}
	return true
}
