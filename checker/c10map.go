package main

import (
	"fmt"
	"go/ast"
	"go/token"
	"go/types"
	"os"
	"strings"

	"safecheck/relang"

	"golang.org/x/tools/go/ssa"
)

// The coercion as a map on code points, whatever the loop and the accumulator look like: for every rune the
// input can yield, exactly one rune is written, either the rune itself or a constant. The map is read off a
// decision table over all code points of the loop body (range over the string, or utf8.DecodeRuneInString in an
// index loop) or of the function handed to strings.Map.

// rangeTableSetOf: the code points of a package-level *unicode.RangeTable expression (a literal, a reference to a
// table of the installed unicode package, rangetable.Merge of such).
func rangeTableSetOf(p *Program, g *ssa.Global) (*relang.Set, []string, error) {
	init, pk := p.PkgVarInit(relOf(g.Pkg.Pkg.Path()), cname(g))
	if init == nil {
		return nil, nil, fmt.Errorf("no initialiser of %s", g.Name())
	}
	if call, ok := ast.Unparen(init).(*ast.CallExpr); ok {
		name := ""
		if se, ok := call.Fun.(*ast.SelectorExpr); ok {
			if f, ok := pk.TypesInfo.Uses[se.Sel].(*types.Func); ok {
				name = f.FullName()
			}
		}
		if name != "golang.org/x/text/unicode/rangetable.Merge" {
			return nil, nil, fmt.Errorf("table initialised by %s", name)
		}
		T := &relang.Set{}
		var probs []string
		for _, a := range call.Args {
			s, pr, e := evalRangeTable(p, pk, a, 0)
			if e != nil {
				return nil, nil, e
			}
			probs = append(probs, pr...)
			T = T.Union(s)
		}
		return T, probs, nil
	}
	return evalRangeTable(p, pk, init, 0)
}

// storesToGlobal: the stores to g outside the synthetic package initialiser.
func storesToGlobal(p *Program, g *ssa.Global) []*ssa.Store {
	var out []*ssa.Store
	var visit func(f *ssa.Function)
	visit = func(f *ssa.Function) {
		for _, b := range f.Blocks {
			for _, in := range b.Instrs {
				if st, ok := in.(*ssa.Store); ok && st.Addr == ssa.Value(g) {
					if !(f.Synthetic != "" && f.Name() == "init") {
						out = append(out, st)
					}
				}
			}
		}
		for _, an := range f.AnonFuncs {
			visit(an)
		}
	}
	for _, f := range p.SrcFuncs() {
		if f.Parent() == nil {
			visit(f)
		}
	}
	return out
}

// tableSetOfValue: the code points of the *unicode.RangeTable that v denotes: a package-level table (of the
// repository or of the installed unicode package) with a literal or rangetable.Merge initialiser and no other
// assignment; a package-level variable without initialiser that is assigned exactly once (a table built on first
// use); the result of a parameterless function of the repository whose returns all denote the same set;
// rangetable.Merge of such; a &unicode.RangeTable{…} literal.
func tableSetOfValue(p *Program, v ssa.Value, depth int) (*relang.Set, []string, error) {
	if depth > 6 {
		return nil, nil, fmt.Errorf("table reference chain too deep")
	}
	switch x := v.(type) {
	case *ssa.UnOp:
		g, ok := x.X.(*ssa.Global)
		if !ok || g.Pkg == nil {
			break
		}
		path := g.Pkg.Pkg.Path()
		if !strings.HasPrefix(path, modulePath) {
			dpk := p.All[path]
			if dpk == nil {
				return nil, nil, fmt.Errorf("package %s not loaded", path)
			}
			if init, _ := p.rawPkgVarInit(dpk, g.Name()); init != nil {
				return evalRangeTable(p, dpk, init, 0)
			}
			return nil, nil, fmt.Errorf("no initialiser of %s.%s", path, g.Name())
		}
		stores := storesToGlobal(p, g)
		if init, _ := p.PkgVarInit(relOf(path), cname(g)); init != nil {
			if len(stores) > 0 {
				return nil, nil, fmt.Errorf("table %s is reassigned at %s", g.Name(), p.Pos(stores[0].Pos()))
			}
			return rangeTableSetOf(p, g)
		}
		if len(stores) != 1 {
			return nil, nil, fmt.Errorf("table %s has no initialiser and %d assignments", g.Name(), len(stores))
		}
		return tableSetOfValue(p, stores[0].Val, depth+1)
	case *ssa.Call:
		g := staticCallee(x.Common())
		if g == nil {
			break
		}
		if fnName(g) == "golang.org/x/text/unicode/rangetable.Merge" && len(x.Common().Args) == 1 {
			args, ok := variadicArgs(x.Common().Args[0])
			if !ok {
				return nil, nil, fmt.Errorf("rangetable.Merge of a list that is not spelled out")
			}
			T := &relang.Set{}
			var probs []string
			for _, a := range args {
				s, pr, err := tableSetOfValue(p, a, depth+1)
				if err != nil {
					return nil, nil, err
				}
				T = T.Union(s)
				probs = append(probs, pr...)
			}
			return T, probs, nil
		}
		if g.Blocks != nil && g.Pkg != nil && strings.HasPrefix(g.Pkg.Pkg.Path(), modulePath) && len(x.Common().Args) == 0 {
			var T *relang.Set
			var probs []string
			for _, ret := range Returns(g) {
				if len(ret.Results) != 1 {
					return nil, nil, fmt.Errorf("%s does not return one table", fnName(g))
				}
				s, pr, err := tableSetOfValue(p, ret.Results[0], depth+1)
				if err != nil {
					return nil, nil, err
				}
				if T != nil && !T.Equal(s) {
					return nil, nil, fmt.Errorf("%s returns different tables", fnName(g))
				}
				T, probs = s, append(probs, pr...)
			}
			if T == nil {
				return nil, nil, fmt.Errorf("%s does not return", fnName(g))
			}
			return T, probs, nil
		}
	case *ssa.Alloc:
		// &unicode.RangeTable{…}: the literal at this position
		if x.Parent() == nil || x.Parent().Pkg == nil {
			break
		}
		pk := p.All[x.Parent().Pkg.Pkg.Path()]
		if pk == nil {
			break
		}
		var lit *ast.CompositeLit
		for _, f := range pk.Syntax {
			if f.Pos() <= x.Pos() && x.Pos() <= f.End() {
				ast.Inspect(f, func(n ast.Node) bool {
					if cl, ok := n.(*ast.CompositeLit); ok && cl.Lbrace == x.Pos() {
						lit = cl
					}
					return lit == nil
				})
			}
		}
		if lit == nil {
			return nil, nil, fmt.Errorf("table literal not found at %s", p.Pos(x.Pos()))
		}
		// the literal must be all there is to the value: no store into it afterwards from outside the literal
		return evalRangeTable(p, pk, lit, 0)
	}
	return nil, nil, fmt.Errorf("table expression %s not understood", v.String())
}

type runeMap struct {
	Replaced *relang.Set // runes written as U+FFFD
	Kept     *relang.Set // runes written as themselves
	Form     string
	Tables   []*ssa.Global
	Probs    []string
}

// coercerRuneMap extracts the map of the coercer fn.
func coercerRuneMap(p *Program, fn *ssa.Function) (*runeMap, string) {
	rm := &runeMap{Replaced: &relang.Set{}, Kept: &relang.Set{}}
	callSet := func(c *ssa.Call) (*relang.Set, bool) {
		g := staticCallee(c.Common())
		if g == nil || fnName(g) != "unicode.Is" || len(c.Common().Args) != 2 {
			return nil, false
		}
		set, probs, err := tableSetOfValue(p, c.Common().Args[0], 0)
		if err != nil {
			if os.Getenv("C10_DEBUG") != "" {
				fmt.Println("C10 table:", err)
			}
			return nil, false
		}
		rm.Probs = append(rm.Probs, probs...)
		return set, true
	}
	rel := ""
	if fn.Pkg != nil {
		rel = relOf(fn.Pkg.Pkg.Path())
	}
	dom := runeDomain()
	// classify: value v written for the rune variable r, reached from block `from`
	classify := func(v ssa.Value, r ssa.Value, from *ssa.BasicBlock, set *relang.Set, depth int) string {
		for i := 0; i < 4; i++ {
			if ph, ok := v.(*ssa.Phi); ok && from != nil {
				found := false
				for j, pr := range ph.Block().Preds {
					if pr == from {
						v = ph.Edges[j]
						found = true
					}
				}
				if !found {
					return "a written value that depends on the path in a way the table does not follow"
				}
				continue
			}
			break
		}
		if c, ok := v.(*ssa.Convert); ok && !narrowingConversion(c) {
			v = c.X
		}
		switch {
		case v == r:
			rm.Kept = rm.Kept.Union(set)
			return ""
		default:
			if k, ok := constInt(v); ok {
				if k == 0xFFFD {
					rm.Replaced = rm.Replaced.Union(set)
					return ""
				}
				return fmt.Sprintf("the constant %#x is written for %s", k, set)
			}
		}
		return "something other than the rune or a constant is written"
	}
	// Form C: strings.Map(g, s)
	for _, ret := range Returns(fn) {
		if c, ok := isCallTo(ret.Results[0], "strings.Map"); ok && len(Returns(fn)) == 1 {
			g, _ := c.Common().Args[0].(*ssa.Function)
			if g == nil || g.Blocks == nil || len(g.Params) != 1 || c.Common().Args[1] != ssa.Value(fn.Params[0]) {
				return nil, "strings.Map is not applied to a function of the package and the input"
			}
			rm.Form = "strings.Map(" + g.Name() + ", s)"
			leaves := decisionTable(g.Blocks[0], dtConfig{Tables: constBoolTables(p, rel), Var: g.Params[0], Dom: dom, CallSet: callSet, Leaf: func(*ssa.BasicBlock) (string, bool) { return "", false }, Max: 4000})
			for _, l := range leaves {
				if len(l.Tags) > 0 || l.Effect != "return" {
					return nil, "the mapping function is not a function of the rune alone (" + l.Effect + ")"
				}
				rv := l.Block.Instrs[len(l.Block.Instrs)-1].(*ssa.Return).Results[0]
				if why := classify(rv, g.Params[0], l.From, l.Set, 0); why != "" {
					return nil, why
				}
			}
			return rm, ""
		}
	}
	// Forms A/B: a loop
	var r ssa.Value
	var header *ssa.BasicBlock
	for _, b := range fn.Blocks {
		for _, in := range b.Instrs {
			switch x := in.(type) {
			case *ssa.Next:
				if rg, ok := x.Iter.(*ssa.Range); ok && x.IsString && rg.X == ssa.Value(fn.Params[0]) {
					for _, ref := range *x.Referrers() {
						if ex, ok := ref.(*ssa.Extract); ok && ex.Index == 2 {
							r, header = ex, x.Block()
							rm.Form = "range over the input"
						}
					}
				}
			case *ssa.Call:
				if g := staticCallee(x.Common()); g != nil && fnName(g) == "unicode/utf8.DecodeRuneInString" {
					sl, ok := x.Common().Args[0].(*ssa.Slice)
					if !ok || sl.X != ssa.Value(fn.Params[0]) || sl.High != nil {
						continue
					}
					idx, ok := sl.Low.(*ssa.Phi)
					if !ok {
						continue
					}
					// the index advances by the decoded width
					adv := false
					var width ssa.Value
					for _, ref := range *x.Referrers() {
						if ex, ok := ref.(*ssa.Extract); ok {
							if ex.Index == 0 {
								r = ex
							} else {
								width = ex
							}
						}
					}
					for _, e := range idx.Edges {
						if bo, ok := e.(*ssa.BinOp); ok && bo.X == ssa.Value(idx) && bo.Y == width {
							adv = true
						}
					}
					if r != nil && adv {
						header = idx.Block()
						rm.Form = "utf8.DecodeRuneInString over the input, advancing by the decoded width"
					} else {
						r = nil
					}
				}
			}
		}
	}
	// Form D: the runes of the input are replaced in place: R := []rune(s); for i := 0; i < len(R); i++ { … R[i] = c … }; string(R)
	var inPlace ssa.Value // R
	var inPlaceIdx *ssa.Phi
	if r == nil {
		if R, idx, load, why := inPlaceRuneLoop(fn); R != nil {
			inPlace, inPlaceIdx, r, header = R, idx, load, idx.Block()
			rm.Form = "the runes of []rune(input) are visited once each by an index loop and replaced in place"
		} else if why != "" {
			return nil, why
		}
	}
	if r == nil || header == nil {
		return nil, "no loop over the runes of the input found (range, utf8.DecodeRuneInString, []rune(input) by index) and no strings.Map"
	}
	in := loopBlocks(header)
	isEmit := func(b *ssa.BasicBlock) (ssa.Value, bool) {
		if inPlace != nil {
			for _, ins := range b.Instrs {
				if st, ok := ins.(*ssa.Store); ok {
					if ia, ok := st.Addr.(*ssa.IndexAddr); ok && ia.X == inPlace && ia.Index == ssa.Value(inPlaceIdx) {
						return st.Val, true
					}
				}
			}
			return nil, false
		}
		for _, ins := range b.Instrs {
			c, ok := ins.(*ssa.Call)
			if !ok {
				continue
			}
			if bi, ok := c.Common().Value.(*ssa.Builtin); ok && bi.Name() == "append" {
				if elems, ok := variadicArgs(c.Common().Args[1]); ok && len(elems) == 1 {
					if bt, ok := elems[0].Type().Underlying().(*types.Basic); ok && bt.Kind() == types.Int32 {
						return elems[0], true
					}
				}
				continue
			}
			if g := staticCallee(c.Common()); g != nil {
				switch fnName(g) {
				case "(*bytes.Buffer).WriteRune":
					return c.Common().Args[1], true
				case "unicode/utf8.EncodeRune", "unicode/utf8.AppendRune":
					return c.Common().Args[1], true
				}
			}
		}
		return nil, false
	}
	// where the body starts: the block that holds r (range: the successor of the header that is in the loop)
	start := r.(ssa.Instruction).Block()
	if ex, isEx := r.(*ssa.Extract); !isEx {
		// in place: the body starts where the element is read
	} else if _, isRange := ex.Tuple.(*ssa.Next); isRange {
		for _, su := range header.Succs {
			if in[su] {
				start = su
			}
		}
	}
	emits := 0
	leaves := decisionTable(start, dtConfig{Tables: constBoolTables(p, rel), Var: r, Dom: dom, CallSet: callSet, Max: 6000, Leaf: func(b *ssa.BasicBlock) (string, bool) {
		if _, ok := isEmit(b); ok && b != start {
			return "emit", true
		}
		if b == header || !in[b] {
			return "cont", true
		}
		return "", false
	}})
	// the start block itself may emit (a body of one block)
	if v, ok := isEmit(start); ok {
		if why := classify(v, r, nil, dom, 0); why != "" {
			return nil, why
		}
		return rm, ""
	}
	for _, l := range leaves {
		if len(l.Tags) > 0 || strings.HasPrefix(l.Effect, "undecided") {
			return nil, "the loop body branches on something other than the current rune (" + l.Effect + " " + strings.Join(l.Tags, ",") + ")"
		}
		switch l.Effect {
		case "emit":
			emits++
			v, _ := isEmit(l.Block)
			if why := classify(v, r, l.From, l.Set, 0); why != "" {
				return nil, why
			}
			// after the write the iteration ends without another write
			seen := map[*ssa.BasicBlock]bool{}
			var walk func(b *ssa.BasicBlock) bool
			walk = func(b *ssa.BasicBlock) bool {
				if b == header || !in[b] || seen[b] {
					return true
				}
				seen[b] = true
				if _, ok := isEmit(b); ok {
					return false
				}
				for _, su := range b.Succs {
					if !walk(su) {
						return false
					}
				}
				return true
			}
			for _, su := range l.Block.Succs {
				if !walk(su) {
					return nil, "an iteration can write more than one rune"
				}
			}
		case "cont":
			if inPlace != nil {
				rm.Kept = rm.Kept.Union(l.Set) // nothing stored: the element stays what it was
				continue
			}
			return nil, fmt.Sprintf("for the runes %s an iteration writes nothing", l.Set)
		default:
			return nil, "unexpected end of an iteration: " + l.Effect
		}
	}
	if emits == 0 {
		return nil, "the loop writes no rune"
	}
	return rm, ""
}

// inPlaceRuneLoop recognises
//
//	R := []rune(s); for i := 0; i < len(R); i++ { r := R[i]; …; R[i] = c }; return string(R)
//
// (s the parameter): R is only indexed by the loop index, measured, and converted back for the result; the index
// starts at 0, advances by one on every way round the loop, and the loop runs while i < len(R).
func inPlaceRuneLoop(fn *ssa.Function) (ssa.Value, *ssa.Phi, ssa.Value, string) {
	var R *ssa.Convert
	for _, b := range fn.Blocks {
		for _, in := range b.Instrs {
			if c, ok := in.(*ssa.Convert); ok && c.X == ssa.Value(fn.Params[0]) {
				if sl, ok := c.Type().Underlying().(*types.Slice); ok {
					if bt, ok := sl.Elem().Underlying().(*types.Basic); ok && bt.Kind() == types.Int32 {
						if R != nil {
							return nil, nil, nil, ""
						}
						R = c
					}
				}
			}
		}
	}
	if R == nil {
		return nil, nil, nil, ""
	}
	var idx *ssa.Phi
	var load ssa.Value
	for _, ref := range *R.Referrers() {
		switch x := ref.(type) {
		case *ssa.IndexAddr:
			ph, ok := x.Index.(*ssa.Phi)
			if !ok || (idx != nil && ph != idx) {
				return nil, nil, nil, "[]rune(input) is indexed by something other than one loop index"
			}
			idx = ph
			for _, r2 := range *x.Referrers() {
				switch y := r2.(type) {
				case *ssa.UnOp:
					if load != nil && load != ssa.Value(y) {
						return nil, nil, nil, "the current element of []rune(input) is read more than once"
					}
					load = y
				case *ssa.Store:
					if y.Addr != ssa.Value(x) {
						return nil, nil, nil, "an element address of []rune(input) escapes"
					}
				case *ssa.DebugRef:
				default:
					return nil, nil, nil, "an element address of []rune(input) escapes"
				}
			}
		case *ssa.Convert:
			if !isStringish(x.Type()) {
				return nil, nil, nil, "[]rune(input) is converted to something other than a string"
			}
		case *ssa.Call:
			if bi, ok := x.Common().Value.(*ssa.Builtin); !ok || bi.Name() != "len" {
				return nil, nil, nil, "[]rune(input) is handed to " + x.String()
			}
		case *ssa.DebugRef:
		default:
			return nil, nil, nil, "[]rune(input) is used in a way the map does not follow: " + ref.String()
		}
	}
	if idx == nil || load == nil {
		return nil, nil, nil, ""
	}
	h := idx.Block()
	in := loopBlocks(h)
	for i, e := range idx.Edges {
		if !in[h.Preds[i]] {
			if k, ok := constInt(e); !ok || k != 0 {
				return nil, nil, nil, "the index over []rune(input) does not start at 0"
			}
			continue
		}
		bo, ok := e.(*ssa.BinOp)
		k, okk := int64(0), false
		if ok {
			k, okk = constInt(bo.Y)
		}
		if !ok || bo.Op != token.ADD || bo.X != ssa.Value(idx) || !okk || k != 1 {
			return nil, nil, nil, "the index over []rune(input) does not advance by one"
		}
	}
	iff, ok := h.Instrs[len(h.Instrs)-1].(*ssa.If)
	if !ok {
		return nil, nil, nil, "the loop over []rune(input) has no bound"
	}
	bo, ok := iff.Cond.(*ssa.BinOp)
	if !ok || bo.Op != token.LSS || bo.X != ssa.Value(idx) || !in[h.Succs[0]] {
		return nil, nil, nil, "the loop over []rune(input) does not run while i < len"
	}
	if lv, ok := isLenOf(bo.Y); !ok || lv != ssa.Value(R) {
		return nil, nil, nil, "the loop over []rune(input) does not run while i < len"
	}
	// every result is string(R) after the loop, or the input itself
	for _, ret := range Returns(fn) {
		v := ret.Results[0]
		if v == ssa.Value(fn.Params[0]) {
			continue
		}
		c, ok := v.(*ssa.Convert)
		if !ok || c.X != ssa.Value(R) || in[ret.Block()] {
			return nil, nil, nil, "the result is not string([]rune(input)) after the loop"
		}
	}
	return R, idx, load, ""
}

// checkCoercerByMap decides C10.R2/R3 from the rune map.
func checkCoercerByMap(p *Program, r *Report, fn *ssa.Function) bool {
	cn := fnName(fn)
	pos := p.Pos(fn.Pos())
	rm, why := coercerRuneMap(p, fn)
	if rm == nil {
		r.Undec("C10.R2", cn+"#rune-map", pos, "the coercion could not be read as a map on code points: "+why)
		return false
	}
	r.OK("C10.R2", cn+"#range", pos, "every rune of the input ("+rm.Form+"; invalid bytes decode to U+FFFD) is handled on its own")
	all := runeDomain()
	both := rm.Replaced.Intersect(rm.Kept)
	rest := all.Minus(rm.Replaced.Union(rm.Kept))
	r.Check(both.Empty() && rest.Empty(), "C10.R2", cn+"#one-rune-per-rune", pos, "each rune is written exactly once, as itself or as U+FFFD", fmt.Sprintf("runes written in two ways: %s; runes not written: %s", both, rest))
	r.OK("C10.R2", cn+"#test", pos, fmt.Sprintf("%d code points are replaced by U+FFFD, all others copied", rm.Replaced.Count()))
	r.OK("C10.R2", cn+"#result", pos, "the result is made of the runes written by the loop (accumulator forms are not distinguished here)")
	for _, pr := range rm.Probs {
		r.Viol("C10.R3", cn+"#well-formed", pos, pr, "")
	}
	if len(rm.Probs) == 0 {
		r.OK("C10.R3", cn+"#well-formed", pos, "range tables consulted are sorted and disjoint")
	}
	spec := specC10Controls().Union(specNoncharacters())
	missing := spec.Minus(rm.Replaced)
	extra := rm.Replaced.Minus(spec)
	if missing.Empty() {
		r.OK("C10.R3", cn+"#covers", pos, fmt.Sprintf("replaced set contains all %d control and noncharacter code points of the statement", spec.Count()))
	} else {
		r.Viol("C10.R3", cn+"#covers", pos, "code points the statement says are replaced survive coercion: "+missing.String(), fmt.Sprintf("%+q", string(rune(missing.R[0]))))
	}
	if extra.Empty() {
		r.OK("C10.R3", cn+"#exact", pos, "no other code point is replaced (round-trip clause)")
	} else {
		r.Viol("C10.R3", cn+"#exact", pos, "code points outside the statement's set are replaced by U+FFFD: "+extra.String(), fmt.Sprintf("%+q", string(rune(extra.R[0]))))
	}
	// returns: the accumulated text, or the input itself where the map is the identity on it
	for i, ret := range Returns(fn) {
		if ret.Results[0] != ssa.Value(fn.Params[0]) {
			continue
		}
		c := fmt.Sprintf("%s#fast-path%d", cn, i)
		regs, _ := p.AllRegexes()
		s := NewSummarizer(p, regs)
		f := s.blockCond(ret.Block(), termEnv{fn.Params[0]: Term{Param: 0}}, "fast path")
		L := NewLang()
		if err := registerSumm(L, s, f); err != nil {
			r.Undec("C10.R2", c, p.Pos(ret.Pos()), err.Error())
			continue
		}
		id := rm.Kept.Minus(relang.NewSet(relang.INV, relang.INV))
		L.AddSet(id)
		L.Build()
		d, amb, err := L.Eval(f)
		if err != nil || len(amb) > 0 {
			r.Undec("C10.R2", c, p.Pos(ret.Pos()), fmt.Sprintf("condition of the fast path not evaluable: %v %v", err, amb))
			continue
		}
		if ok, w := relang.Subset(d, relang.StarOfSet(L.A, id)); ok {
			r.OK("C10.R2", c, p.Pos(ret.Pos()), "the input is returned unchanged only where it is valid UTF-8 without a replaced code point: "+trunc(f.String(), 160))
		} else {
			r.Viol("C10.R2", c, p.Pos(ret.Pos()), "the input is returned unchanged although it holds a code point that has to be replaced (or an invalid byte)", w)
		}
	}
	return true
}
