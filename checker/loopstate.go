package main

// checkScannerLoopState (C01.R19 / C04.R11): the transition functions scan a text node candidate by candidate (the
// next '<', the next attribute, the next end tag). What they decide about one candidate — is this an end tag, is
// the name complete — must be computed from that candidate. A boolean that is carried round the scanning loop makes
// the verdict on one candidate depend on an earlier one: with the "end tag" flag of the text scanner declared
// outside its loop, a stray "</" makes the next start tag be treated as an end tag (no element name, so <script>
// bodies and unknown elements are handled as plain markup).
import (
	"fmt"
	"go/types"
	"sort"
	"strings"

	"golang.org/x/tools/go/ssa"
)

func checkScannerLoopState(p *Program, r *Report, rule string) {
	disp, _, err := stateDispatch(p)
	if err != nil {
		r.Undec(rule, "template.transitionFunc", "", "anchor not found")
		return
	}
	seen := map[*ssa.Function]bool{}
	var fns []*ssa.Function
	var add func(f *ssa.Function, depth int)
	add = func(f *ssa.Function, depth int) {
		if f == nil || seen[f] || f.Blocks == nil || depth > 2 || f.Pkg == nil || f.Pkg.Pkg.Path() != modulePath+"/template" {
			return
		}
		seen[f] = true
		fns = append(fns, f)
		for _, b := range f.Blocks {
			for _, in := range b.Instrs {
				if c, ok := in.(ssa.CallInstruction); ok {
					add(staticCallee(c.Common()), depth+1)
				}
			}
		}
	}
	for _, f := range disp {
		add(f, 0)
	}
	sort.Slice(fns, func(i, j int) bool { return fnName(fns[i]) < fnName(fns[j]) })
	loops := 0
	for _, f := range fns {
		for _, h := range loopHeaders(f) {
			// a loop over a list of names (range over a []string) is no scan of the text: an accumulator over the
			// names ("all of them are void") is what such a loop is for
			if rangesOverStrings(h) {
				continue
			}
			loops++
			var carried []string
			for _, in := range h.Instrs {
				phi, ok := in.(*ssa.Phi)
				if !ok {
					continue
				}
				if b, ok := phi.Type().Underlying().(*types.Basic); ok && b.Info()&types.IsBoolean != 0 {
					name := phi.Comment
					if name == "" {
						name = phi.Name()
					}
					carried = append(carried, name)
				}
			}
			c := fmt.Sprintf("%s#loop-state", strings.TrimPrefix(fnName(f), pkgTemplate+"."))
			r.Check(len(carried) == 0, rule, c, p.Pos(f.Pos()), "the scanning loop carries no boolean from one candidate to the next", fmt.Sprintf("the scanning loop carries the boolean(s) %v from one candidate to the next: what is decided about a candidate (end tag or start tag, …) depends on an earlier one — with the end-tag flag of the text scanner outside its loop, \"</><script>{{.}}</script>\" treats <script> as an end tag and its body as plain markup", carried))
		}
	}
	if loops == 0 {
		r.Undec(rule, "template.transitionFunc#loops", "", "no scanning loop found in the transition functions")
	}
}

// rangesOverStrings: the loop with header h iterates over a slice of strings by index (range over []string): its
// condition compares the index with the length of such a slice.
func rangesOverStrings(h *ssa.BasicBlock) bool {
	if len(h.Instrs) == 0 {
		return false
	}
	iff, ok := h.Instrs[len(h.Instrs)-1].(*ssa.If)
	if !ok {
		return false
	}
	bo, ok := iff.Cond.(*ssa.BinOp)
	if !ok {
		return false
	}
	lv, ok := isLenOf(bo.Y)
	if !ok {
		return false
	}
	sl, ok := lv.Type().Underlying().(*types.Slice)
	if !ok {
		return false
	}
	b, ok := sl.Elem().Underlying().(*types.Basic)
	return ok && b.Info()&types.IsString != 0
}
