package main

import (
	"fmt"
	"go/types"
	"os"
	"regexp"
	"strings"

	"golang.org/x/tools/go/ssa"

	"safecheck/relang"
)

const urlMarkKey = 5999 // placeholder written in front of a CSS-escaped string whose input went through URLSanitized

// CSS string contents as the statement wants them: no raw " \ < newline or control character; escapes are \ + hex digits
const specCSSStr = `(?:[^"\\<\x00-\x1f\x7f-\x{9f}\x{2028}\x{2029}]|\\[0-9A-F]+)*`

func mergeReport(dst, src *Report) {
	dst.Obls = append(dst.Obls, src.Obls...)
	for k, v := range src.Counts {
		dst.Counts[k] += v
	}
	for k, v := range src.MinCounts {
		dst.MinCounts[k] = v
	}
	for k, v := range src.Analysed {
		dst.Analysed[k] = v
	}
	dst.Trusted, dst.NotDecided, dst.Explain = src.Trusted, src.NotDecided, src.Explain
}

// crossCheck adds to a passing shape report what the result-language engine finds on its own: the obligations it
// decides (discharged or violated) are recorded next to the shape rules, marked as such; what it cannot follow is
// no failure while the shape rules recognise the code. A violation found by either engine fails the check.
func crossCheck(shape *Report, lang *Report) {
	for _, o := range lang.Obls {
		if o.Status == Undecided || o.Construct == "vacuity-guard" {
			continue
		}
		o.Construct += " [result language]"
		shape.Obls = append(shape.Obls, o)
		shape.Counts[o.Rule]++
	}
}

func reportFails(r *Report) bool {
	for _, o := range r.Obls {
		if o.Status != Discharged {
			return true
		}
	}
	for rule, n := range r.MinCounts {
		if r.Counts[rule] < n {
			return true
		}
	}
	return false
}

// runC15 first applies the rules that recognise the way StyleFromProperties is written today. When they
// do not recognise the code, the same clauses are decided from the *language* of the result (E9).
func runC15(p *Program, r *Report) {
	shape := NewReport("C15", r.Tier, r.Seed)
	runC15Shape(p, shape)
	if !reportFails(shape) && os.Getenv("C15_FORCE_LANG") == "" {
		lang := NewReport("C15", r.Tier, r.Seed)
		c15ByLanguage(p, lang)
		crossCheck(shape, lang)
		mergeReport(r, shape)
		return
	}
	lang := NewReport("C15", r.Tier, r.Seed)
	if c15ByLanguage(p, lang) && !reportFails(lang) {
		mergeReport(r, lang)
		return
	}
	if os.Getenv("C15_FORCE_LANG") != "" {
		for _, o := range lang.Obls {
			fmt.Printf("LANG %s %s %s: %s %s\n", o.Status, o.Rule, o.Construct, o.Detail, o.Witness)
		}
	}
	mergeReport(r, shape)
}

// c15ByLanguage decides, from the skeleton of everything StyleFromProperties can write (dynamic values
// replaced by placeholders that identify the field they come from):
//   - the result is a sequence of declarations, one optional group per field, with the documented
//     property name, in field order, each ending with ';'; list fields are sequences of url("…") /
//     identifier-or-"…" items (the placement of ", " between items is not decided here);
//   - a plain field is written only as the field itself or as the innocuous constant, and only under
//     guards whose language is inside the documented alphabet;
//   - quoted parts are inside the CSS string language; background-image strings went through URLSanitized;
//   - the sequence with every field present is among the possible results (nothing is dropped).
func c15ByLanguage(p *Program, r *Report) bool {
	r.Trusted = []string{"go/types + go/ssa", "fmt %s copies a string operand verbatim; %X prints upper-case hex digits", "CSS Syntax 3 (paper): a value over the documented alphabet, a double-quoted string without raw \" \\ newline, and the constant frames tokenize to one declaration per group and contain no '<'"}
	r.NotDecided = []string{"the CSS-parser-level reading of the result", "that a group is written exactly when its field is non-empty, and the placement of \", \" between list items (the language view is path-insensitive)"}
	r.Explain = "The way StyleFromProperties is written was not recognised by the shape rules; decided instead from the language of the strings it can write (writes along all CFG paths as an automaton, helpers followed, dynamic values as placeholders per field): skeleton ⊆ specification skeleton built from the StyleProperties fields, guard languages of the raw values ⊆ documented alphabets, full sequence ∈ skeleton."
	const cn = "safehtml.StyleFromProperties"
	fn := p.Func("", "StyleFromProperties")
	if fn == nil || len(fn.Params) != 1 {
		return false
	}
	propsT, _ := fn.Params[0].Type().Underlying().(*types.Struct)
	stores := safeStores(fn, modulePath, "Style")
	if propsT == nil || len(stores) != 1 {
		return false
	}
	regs, _ := p.AllRegexes()
	s := NewSummarizer(p, regs)
	oe := newOutEval(p, s)
	oe.Markers = true
	fr := &oframe{fn: fn, env: termEnv{}, bind: map[ssa.Value]*lx{}}
	oe.seedPseudoTerms(fr)
	x := oe.strLx(stores[0].Store.Val, stores[0].Store.Block(), fr)
	oe.forcePieces(x, map[*lx]bool{})
	pos := p.Pos(stores[0].Store.Pos())
	// specification skeleton
	mark := func(key string) (string, bool) {
		id, ok := oe.pseudo[key]
		if !ok {
			return "", false
		}
		return fmt.Sprintf(`\x{%x}`, markerRune(id)), true
	}
	umark := fmt.Sprintf(`\x{%x}`, markerRune(urlMarkKey))
	var spec, full strings.Builder
	classOf := map[int]string{} // term key -> enum | reg | ident
	for i := 0; i < propsT.NumFields(); i++ {
		name := propsT.Field(i).Name()
		css := hyphenate(name)
		if name == "BackgroundImageURLs" {
			css = "background-image"
		}
		q := regexp.QuoteMeta(css)
		switch name {
		case "BackgroundImageURLs":
			item := `url\("` + umark + specCSSStr + `"\)`
			spec.WriteString(`(?:` + q + `:(?:(?:, )?` + item + `)+;)?`)
			full.WriteString(q + `:` + item + `;`)
		case "FontFamily":
			m, ok := mark("elem:0." + name)
			alt := `"` + specCSSStr + `"`
			if ok {
				alt = m + `|` + alt
				classOf[oe.pseudo["elem:0."+name]] = "ident"
			}
			spec.WriteString(`(?:` + q + `:(?:(?:, )?(?:` + alt + `))+;)?`)
			full.WriteString(q + `:(?:` + alt + `);`)
		default:
			m, ok := mark("field:0." + name)
			if !ok {
				r.Viol("C15.R1", cn+"#field:"+name, pos, "field is never written into the result", "")
				continue
			}
			if name == "Display" {
				classOf[oe.pseudo["field:0."+name]] = "enum"
			} else {
				classOf[oe.pseudo["field:0."+name]] = "reg"
			}
			spec.WriteString(`(?:` + q + `:(?:` + m + `|` + regexp.QuoteMeta(specInnocuousCSS) + `);)?`)
			full.WriteString(q + `:` + m + `;`)
		}
	}
	d, L, err := oe.Language(x, func(L *Lang) {
		L.MustRe(spec.String())
		L.MustRe(full.String())
		L.AddString(string(markerRune(urlMarkKey)))
	})
	if err != nil {
		r.Undec("C15.R1", cn+"#skeleton", pos, "the language of the result could not be computed: "+err.Error())
		return false
	}
	if len(oe.Problems) > 0 {
		r.Undec("C15.R1", cn+"#skeleton", pos, "the result is built in a way the evaluator cannot follow: "+oe.Problems[0])
		return false
	}
	if ok, w := relang.Subset(d, L.FullRe(spec.String())); ok {
		r.OK("C15.R1", cn+"#skeleton", pos, "by language: every possible result is a sequence of optional groups name:value; with the documented names, in field order, values being the field itself (placeholder) or the innocuous constant, list items url(\"…\") resp. identifier | \"…\"")
	} else {
		r.Viol("C15.R1", cn+"#skeleton", pos, "a possible result is not a sequence of the documented declarations (placeholders U+E0xx stand for field values)", w)
	}
	if ok, w := relang.Subset(L.FullRe(full.String()), d); ok {
		r.OK("C15.R1", cn+"#complete", pos, "the result with every field present, in order, is among the possible results")
	} else {
		r.Viol("C15.R1", cn+"#complete", pos, "a field's declaration can never appear (or not in the documented order)", w)
	}
	// guard languages of the placeholders
	for key, forms := range oe.termForms {
		cls, known := classOf[key]
		c := cn + "#value-guard:" + oe.PseudoKey[key]
		if !known {
			r.Viol("C15.R2", c, pos, "a value that is not a documented plain field or font-family name is written raw", "")
			continue
		}
		L2 := NewLang()
		okReg := true
		for _, f := range forms {
			if err := registerSumm(L2, s, f); err != nil {
				okReg = false
			}
		}
		for _, sp := range []string{specDocRegClass, specDocRegBad, specDocEnum, specCSSIdent} {
			L2.MustRe(sp)
		}
		L2.Build()
		acc := relang.EmptyLang(L2.A)
		for _, f := range forms {
			per, _ := splitByParam(f)
			pf := per[key]
			if pf == nil {
				acc = L2.All()
				break
			}
			dd, amb, err := L2.Eval(pf)
			if err != nil || len(amb) > 0 {
				okReg = false
				break
			}
			acc = relang.Union(acc, dd).Minimize()
		}
		if os.Getenv("C15_DEBUG") != "" {
			for _, f := range forms {
				fmt.Printf("FORM %s: %s\n", oe.PseudoKey[key], trunc(f.String(), 300))
			}
		}
		if !okReg {
			r.Undec("C15.R2", c, pos, "guards of the raw value not summarisable")
			continue
		}
		var want *relang.DFA
		var what string
		switch cls {
		case "enum":
			want, what = L2.SearchRe(specDocEnum), "ASCII letters and '-'"
		case "ident":
			want, what = L2.SearchRe(specCSSIdent), "a letter followed by letters and '-'"
		default:
			want, what = relang.Minus(L2.SearchRe(specDocRegClass), L2.SearchRe(specDocRegBad)), "alphanumerics, space, tab, + - . ! # % _ / * without // /* */"
		}
		if ok, w := relang.Subset(acc, want); ok {
			r.OK("C15.R2", c, pos, "written raw only when it consists of "+what)
		} else {
			r.Viol("C15.R2", c, pos, "written raw although it need not consist of "+what, w)
		}
	}
	r.Min("C15.R1", 2)
	r.Min("C15.R2", 3)
	return true
}

var _ = ssa.Value(nil)
