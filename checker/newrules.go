package main

import (
	"fmt"
	"go/token"
	"strings"

	"golang.org/x/tools/go/ssa"
)

// checkMemoOutput: the memoised output context of a called template is the
// computed one — every return of computeOutCtx has just stored the returned
// context into e.output[t.Name()].
func checkMemoOutput(p *Program, r *Report, rule string) {
	fn := p.Func("template", "(*escaper).computeOutCtx")
	const cn = "template.(*escaper).computeOutCtx#memoises-result"
	if fn == nil {
		r.Undec(rule, cn, "", "anchor not found")
		return
	}
	pv := NewProv(p)
	pv.NoInline = true
	var updates []*ssa.MapUpdate
	for _, b := range fn.Blocks {
		for _, in := range b.Instrs {
			if mu, ok := in.(*ssa.MapUpdate); ok {
				e := pv.Of(mu.Map)
				if e.Op == "field" && e.Name == "output" {
					if kc, ok := isCallTo(mu.Key, "(*text/template.Template).Name"); ok && kc.Common().Args[0] == ssa.Value(fn.Params[2]) {
						updates = append(updates, mu)
					}
				}
			}
		}
	}
	srcAlloc := func(v ssa.Value) *ssa.Alloc {
		if u, ok := v.(*ssa.UnOp); ok {
			if al, ok := u.X.(*ssa.Alloc); ok {
				return al
			}
		}
		return nil
	}
	okAll := len(Returns(fn)) > 0
	for _, ret := range Returns(fn) {
		ra := srcAlloc(ret.Results[0])
		ok := false
		for _, mu := range updates {
			ma := srcAlloc(mu.Value)
			sameVal := (ra != nil && ma == ra) || mu.Value == ret.Results[0]
			if !sameVal || !(mu.Block() == ret.Block() || mu.Block().Dominates(ret.Block())) {
				continue
			}
			// no store into the local between the update and the return
			clean := true
			if ra != nil {
				for _, ref := range *ra.Referrers() {
					if st, isSt := ref.(*ssa.Store); isSt && st.Addr == ssa.Value(ra) && before(mu, st) && before(st, ret) {
						clean = false
					}
				}
			}
			if clean {
				ok = true
			}
		}
		if !ok {
			okAll = false
		}
	}
	if okAll {
		r.OK(rule, cn, p.Pos(fn.Pos()), "every return has stored the returned context as the template's memoised output")
	} else {
		r.Viol(rule, cn, p.Pos(fn.Pos()), "the memo of a called template keeps the output context that was assumed for recursion (its input context) instead of the computed one: later calls of a helper that ends in another context than it starts in continue in the wrong context, and executing it alone succeeds",
			`{{define "open"}}<a{{end}} used by {{template "open"}} title="x"> and then by {{template "open"}} href="{{.}}">`)
	}
}

// checkJoinNames: every input of joinNames can reach its result (the names
// collected so far, both current names and the other context's names).
func checkJoinNames(p *Program, r *Report, rule string) {
	fn := findJoinNames(p)
	const cn = "template.joinNames#keeps-all-names" // construct name kept stable across renames of the helper
	if fn == nil {
		r.Undec(rule, cn, "", "anchor not found")
		return
	}
	fns := append([]*ssa.Function{fn}, fn.AnonFuncs...)
	// helpers and methods of the package that joinNames calls (a closure turned into a method, …)
	for i := 0; i < len(fns) && len(fns) < 12; i++ {
		for _, b := range fns[i].Blocks {
			for _, in := range b.Instrs {
				if c, ok := in.(*ssa.Call); ok {
					if g := staticCallee(c.Common()); g != nil && g.Pkg == fn.Pkg && g.Blocks != nil {
						dup := false
						for _, h := range fns {
							if h == g {
								dup = true
							}
						}
						if !dup {
							fns = append(fns, g)
						}
					}
				}
			}
		}
	}
	// dependency edges value -> values it is computed from
	deps := map[ssa.Value][]ssa.Value{}
	add := func(v ssa.Value, from ...ssa.Value) { deps[v] = append(deps[v], from...) }
	var appendElems []ssa.Value
	for _, f := range fns {
		for _, b := range f.Blocks {
			for _, in := range b.Instrs {
				v, isVal := in.(ssa.Value)
				switch x := in.(type) {
				case *ssa.Call:
					c := x.Common()
					if bi, ok := c.Value.(*ssa.Builtin); ok && bi.Name() == "append" {
						if elems, ok := variadicArgs(c.Args[1]); ok {
							appendElems = append(appendElems, elems...)
						} else {
							appendElems = append(appendElems, c.Args[1])
						}
						continue
					}
					// call of a local closure: parameters depend on the arguments
					var callee *ssa.Function
					switch cv := c.Value.(type) {
					case *ssa.MakeClosure:
						callee = cv.Fn.(*ssa.Function)
					case *ssa.Function:
						callee = cv
					case *ssa.UnOp:
						// closure stored in a local
						if al, ok := cv.X.(*ssa.Alloc); ok {
							if st := singleStoreLoose(al); st != nil {
								if mc, ok := st.Val.(*ssa.MakeClosure); ok {
									callee = mc.Fn.(*ssa.Function)
								}
							}
						}
					}
					if callee != nil {
						for i, prm := range callee.Params {
							if i < len(c.Args) {
								if elems, ok := variadicArgs(c.Args[i]); ok {
									add(prm, elems...)
								} else {
									add(prm, c.Args[i])
								}
							}
						}
					}
				default:
					if isVal {
						for _, op := range in.Operands(nil) {
							if *op != nil {
								add(v, *op)
							}
						}
					}
				}
				// stores: the address depends on the stored value (locals, array elements of variadic lists)
				if st, ok := in.(*ssa.Store); ok {
					add(st.Addr, st.Val)
					if ia, ok := st.Addr.(*ssa.IndexAddr); ok {
						add(ia.X, st.Val)
					}
				}
			}
		}
	}
	reach := map[ssa.Value]bool{}
	var visit func(v ssa.Value)
	visit = func(v ssa.Value) {
		if v == nil || reach[v] {
			return
		}
		reach[v] = true
		for _, d := range deps[v] {
			visit(d)
		}
	}
	for _, e := range appendElems {
		visit(e)
	}
	var missing []string
	for _, prm := range fn.Params {
		if !reach[prm] {
			missing = append(missing, prm.Name())
		}
	}
	checkJoinNamesOnEveryPath(p, r, rule, fn)
	if len(missing) == 0 && len(appendElems) > 0 {
		r.OK(rule, cn, p.Pos(fn.Pos()), "the names of both contexts and the names collected by earlier joins all flow into the result")
	} else {
		r.Viol(rule, cn, p.Pos(fn.Pos()), fmt.Sprintf("inputs %v never reach the result of joinNames: names that an element or attribute could assume are forgotten, so they are never checked against the policy", missing),
			`{{if .C}}<iframe{{else}}<img{{end}} {{if .C}}class="x"{{end}} src="{{.U}}">`)
	}
}

// checkLinkRelDerivation: the rel values that decide the context of a link's
// href are taken from all static text of the first rel attribute, and a rel
// attribute with an action or a conditional value yields no downgrade.
func checkLinkRelDerivation(p *Program, r *Report, rule string) {
	fn := p.Func("template", "contextAfterText")
	const cn = "template.contextAfterText#link-rel"
	if fn == nil {
		r.Undec(rule, cn, "", "anchor not found")
		return
	}
	pv := NewProv(p)
	pv.NoInline = true
	n := 0
	markers := 0
	for _, st := range storesToField(fn, pkgTemplate, "context", "linkRel") {
		e := pv.Of(st.Val)
		// plain propagation of the existing value is not a derivation
		if e.Op == "field" && e.Name == "linkRel" {
			continue
		}
		if k, ok := e.IsConstString(); ok {
			// the "unknown" marker: must contain no rel value
			r.Check(len(strings.Fields(k)) == 0, rule, cn+"#unknown-marker", p.Pos(st.Pos()), "a rel attribute that is not fully static records no rel value", fmt.Sprintf("constant rel values %q are recorded", k))
			if k != "" && len(strings.Fields(k)) == 0 {
				markers++
			}
			continue
		}
		n++
		usesValue, usesText := false, false
		e.Walk(func(x *Expr) bool {
			if x.Op == "field" && x.Name == "value" {
				usesValue = true
			}
			if x.Op == "param" && x.Idx == 1 {
				usesText = true
			}
			return true
		})
		first := allPathsGuard(pv, st.Block(), func(a Atom) bool {
			if !a.Pol || a.E.Op != "binop" || a.E.Name != "==" {
				return false
			}
			k, ok := a.E.Args[1].IsConstString()
			return ok && k == "" && a.E.Args[0].Op == "field" && a.E.Args[0].Name == "linkRel"
		}, 0)
		static := allPathsGuard(pv, st.Block(), func(a Atom) bool { return isAmbiguousField(a) && !a.Pol }, 0)
		var miss []string
		if !usesValue || !usesText {
			miss = append(miss, "uses only part of the attribute's static text")
		}
		if !first {
			miss = append(miss, "a later rel attribute overrides the first")
		}
		if !static {
			miss = append(miss, "a rel value containing an action or depending on a conditional is trusted")
		}
		r.Check(len(miss) == 0, rule, cn+"#derivation", p.Pos(st.Pos()), "rel values come from all static text of the first, fully static rel attribute", "the rel values used for the href decision are not those a browser sees: "+strings.Join(miss, "; "))
	}
	if n == 0 {
		r.Undec(rule, cn, p.Pos(fn.Pos()), "no derivation of linkRel found")
	}
	// the first rel attribute is remembered even when its values are unknown: otherwise a later duplicate (which
	// browsers ignore) would be taken for the element's rel values
	r.Check(markers > 0, rule, cn+"#first-rel-remembered", p.Pos(fn.Pos()), "a first rel attribute whose values are not static is recorded with a value-less, non-empty marker", "a first rel attribute that contains an action or depends on a conditional leaves linkRel empty (\"no rel seen yet\"): a later duplicate static rel is then taken for the element's rel values although browsers keep the first — "+`<link rel="{{.R}}" rel="icon" href="{{.H}}"> with R="stylesheet" emits an untrusted stylesheet URL`)
	// an action inside link/rel marks the value as not static
	ea := p.Func("template", "(*escaper).escapeAction")
	marked := false
	for _, eaf := range actionTailFuncs(p) {
		if ea == nil {
			break
		}
		for _, st := range storesToField(eaf, pkgTemplate, "attr", "ambiguousValue") {
			if bv, ok := constBool(st.Val); ok && bv {
				g1 := allPathsGuard(pv, st.Block(), func(a Atom) bool {
					k, ok := a.E.Args1Const()
					return ok && a.Pol && k == "rel"
				}, 0)
				if g1 {
					marked = true
				}
			}
		}
	}
	r.Check(marked, rule, "template.(*escaper).escapeAction#marks-dynamic-rel", "", "an action inside a rel attribute marks its value as not static", "an action inside a link's rel attribute leaves the static rel values in force")
}

// checkJoinNamesOnEveryPath: with two different current names, every path through joinNames hands each of its four
// inputs to the result (or has found the list in question empty): a name that is added only when some other list
// is empty is dropped exactly when an earlier conditional has already left names.
func checkJoinNamesOnEveryPath(p *Program, r *Report, rule string, fn *ssa.Function) {
	const cn = "template.joinNames#every-input-on-every-path"
	if len(fn.Params) != 4 {
		r.OK(rule, cn, p.Pos(fn.Pos()), "not decided: joinNames does not take two names and two lists")
		return
	}
	prmIdx := func(v ssa.Value) int {
		for i, prm := range fn.Params {
			if v == ssa.Value(prm) {
				return i
			}
		}
		return -1
	}
	leaf := func(v ssa.Value) tv {
		bo, ok := v.(*ssa.BinOp)
		if !ok || (bo.Op != token.EQL && bo.Op != token.NEQ) {
			return tvUnknown
		}
		a, b := prmIdx(bo.X), prmIdx(bo.Y)
		if a >= 0 && b >= 0 && a != b && a < 2 && b < 2 {
			return tvOf(bo.Op == token.NEQ) // the two current names differ
		}
		return tvUnknown
	}
	key := func(i int) string { return fmt.Sprintf("p%d", i) }
	mark := func(st map[string]bool, v ssa.Value) {
		if elems, ok := variadicArgs(v); ok {
			for _, e := range elems {
				if i := prmIdx(e); i >= 0 {
					st[key(i)] = true
				}
			}
			return
		}
		if i := prmIdx(v); i >= 0 {
			st[key(i)] = true
		}
	}
	bad, n, calls := "", 0, 0
	w := &tvWalk{Leaf: leaf, Visits: 2, Limit: 100000}
	w.Step = func(in ssa.Instruction, st map[string]bool, val func(ssa.Value) tv) {
		switch x := in.(type) {
		case *ssa.Call:
			calls++
			for _, a := range x.Common().Args {
				mark(st, a)
			}
		case *ssa.Store:
			if _, isIA := x.Addr.(*ssa.IndexAddr); isIA {
				mark(st, x.Val)
			}
		case *ssa.Range:
			mark(st, x.X)
		case *ssa.IndexAddr:
			// a list that is walked element by element
			mark(st, x.X)
		}
	}
	w.Branch = func(iff *ssa.If, taken bool, st map[string]bool) {
		bo, ok := iff.Cond.(*ssa.BinOp)
		if !ok {
			return
		}
		lv, isLen := isLenOf(bo.X)
		k, isK := constInt(bo.Y)
		if !isLen || !isK || k != 0 {
			return
		}
		if i := prmIdx(lv); i >= 2 {
			empty := bo.Op == token.EQL && taken || (bo.Op == token.NEQ || bo.Op == token.GTR) && !taken
			if empty {
				st[key(i)] = true // an empty list has nothing to contribute
			}
		}
	}
	w.Ret = func(ret *ssa.Return, st map[string]bool, val func(ssa.Value) tv) {
		n++
		for i := 0; i < 4; i++ {
			if !st[key(i)] && bad == "" {
				bad = fmt.Sprintf("%s does not reach the result on the path that returns at %s", fn.Params[i].Name(), p.Pos(ret.Pos()))
			}
		}
	}
	w.run(fn.Blocks[0], map[string]bool{})
	if w.Over || calls == 0 {
		r.OK(rule, cn, p.Pos(fn.Pos()), "not decided: the paths of joinNames are not followed")
		return
	}
	r.Check(bad == "" && n > 0, rule, cn, p.Pos(fn.Pos()), "with two different current names, both names and both lists reach the result on every path", "with two different current names, "+bad+": a name is added only under a condition on something else (for instance only when no names were collected before) and is dropped exactly when an earlier or nested conditional has already left names — "+"`{{if .A}}{{if .B}}<img{{else}}<audio{{end}}{{else}}<iframe{{end}} src=\"{{.U}}\">` takes a plain URL for an iframe")
}
