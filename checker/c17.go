package main

import (
	"fmt"
	"go/constant"
	"os"
	"strings"

	"golang.org/x/tools/go/ssa"

	"safecheck/relang"
)

func init() {
	register("C17", "other", func(p *Program, r *Report) {
		runC17(p, r)
		checkBoundsProven(p, r, "C17.B1", "script.go")
		checkLoopsMakeProgress(p, r, "C17.B2", "script.go")
	})
}

const specJSName = `^[$_A-Za-z][$_A-Za-z0-9]*$`

func runC17(p *Program, r *Report) {
	engineConsistency(p, r, "C17.E", func(n string) bool { return strings.Contains(n, "jsIdentifierPattern") })

	r.Trusted = []string{"go/types + go/ssa", "encoding/json.Marshal in HTML-safe mode emits no '<', '>', '&', U+2028, U+2029 and round-trips (property of encoding/json; the mode flag itself is re-read from the installed source)", "fmt.Sprintf %s copies string/[]byte operands verbatim"}
	r.NotDecided = []string{"JSON round-trip and the exact escape set of encoding/json (trusted library behaviour)"}
	r.Explain = "Decides the structural clauses: the exact frame constant and argument order of the Sprintf, that J is the result of encoding/json.Marshal (whose HTML-escaping flag is verified in the installed stdlib's SSA), that the name guard's regular language is inside the ASCII identifier language, and that every error path returns the zero Script with a non-nil error."
	r.Min("C17.R1", 2)
	r.Min("C17.R2", 2)
	r.Min("C17.R3", 1)
	r.Min("C17.R4", 2)
	fn := p.Func("", "ScriptFromDataAndConstant")
	const cname = "safehtml.ScriptFromDataAndConstant"
	if fn == nil {
		r.Undec("C17.R1", cname, "", "anchor not found")
		return
	}
	regs, _ := p.AllRegexes()
	s := NewSummarizer(p, regs)
	sites := analyseCtor(p, s, fn, modulePath, "Script")
	pv := NewProv(p)
	direct := len(sites) == 1
	if direct {
		// the encoder is called in the function itself
		n := 0
		for _, b := range fn.Blocks {
			for _, in := range b.Instrs {
				if c, ok := in.(*ssa.Call); ok {
					if g := staticCallee(c.Common()); g != nil && fnName(g) == "encoding/json.Marshal" {
						n++
					}
				}
			}
		}
		direct = n == 1
	}
	if !direct || os.Getenv("C17_FORCE_LANG") != "" {
		// the construction or the encoding sits in helpers: decide everything by the language of the result
		c17ByLanguage(p, r, s, fn, cname)
		return
	}
	site := sites[0]
	// R1 frame
	call, _ := site.Store.Val.(*ssa.Call)
	var marshalCall *ssa.Call
	if call == nil || staticCallee(call.Common()) == nil || fnName(staticCallee(call.Common())) != "fmt.Sprintf" {
		// another spelling (concatenation, a Builder, a helper): decide the frame by the language of the stored text
		marshalCall = c17FrameByLanguage(p, r, s, fn, site, cname)
	} else {
		format, okf := constString(call.Common().Args[0])
		args, oka := variadicArgs(call.Common().Args[1])
		if !okf || !oka {
			r.Undec("C17.R1", cname+"#frame", site.Pos, "non-constant format or unrecognised argument list")
		} else {
			pieces, verbs := parseFormat(format)
			wantPieces := []string{"var ", " = ", ";\n", ""}
			ok := len(pieces) == 4 && len(verbs) == 3
			for i := range wantPieces {
				ok = ok && i < len(pieces) && pieces[i] == wantPieces[i]
			}
			for _, v := range verbs {
				ok = ok && v == "%s"
			}
			r.Check(ok, "C17.R1", cname+"#frame", site.Pos, fmt.Sprintf("frame constant is %q", format),
				fmt.Sprintf("frame constant %q is not \"var %%s = %%s;\\n%%s\"", format))
			// argument order
			okArgs := len(args) == 3
			var descr []string
			if okArgs {
				a0 := peelConv(pv.Of(unIface(args[0])))
				a2 := peelConv(pv.Of(unIface(args[2])))
				a1 := unIface(args[1])
				descr = []string{a0.String(), pv.Of(a1).String(), a2.String()}
				okArgs = a0.Op == "param" && a0.Idx == 0 && a2.Op == "param" && a2.Idx == 2
				if ex, ok := a1.(*ssa.Extract); ok && ex.Index == 0 {
					if mc, ok := ex.Tuple.(*ssa.Call); ok {
						marshalCall = mc
					}
				}
				okArgs = okArgs && marshalCall != nil
				if okArgs {
					for _, a := range []ssa.Value{unIface(args[0]), unIface(args[2])} {
						okArgs = okArgs && isStringish(a.Type())
					}
				}
			}
			r.Check(okArgs, "C17.R1", cname+"#args", site.Pos, fmt.Sprintf("arguments are (name, encoder output, script): %v", descr),
				fmt.Sprintf("Sprintf arguments are not (name param, encoded data, script param): %v", descr))
		}
	}
	// R2 encoder identity
	if marshalCall == nil {
		r.Undec("C17.R2", cname+"#encoder", site.Pos, "encoder call not identified")
	} else {
		cal := staticCallee(marshalCall.Common())
		name := "<dynamic>"
		if cal != nil {
			name = fnName(cal)
		}
		dataOK := false
		if cal != nil && len(marshalCall.Common().Args) == 1 {
			a := pv.Of(marshalCall.Common().Args[0])
			dataOK = a.Op == "param" && a.Idx == 1
		}
		r.Check(name == "encoding/json.Marshal" && dataOK, "C17.R2", cname+"#encoder", p.Pos(marshalCall.Pos()),
			"J = encoding/json.Marshal(data)", "J is produced by "+name+" (not encoding/json.Marshal of the data parameter)")
		// HTML-safe mode in the installed stdlib
		checkMarshalEscapesHTML(r, cal)
	}
	// the success store must be dominated by err == nil of the encoder
	errGuard := false
	for _, a := range pv.Atoms(site.Store.Block()) {
		if a.Pol && a.E.Op == "binop" && a.E.Name == "==" {
			x, y := a.E.Args[0], a.E.Args[1]
			if x.Op == "extract" && x.Idx == 1 && y.Op == "const" && y.Const == nil && marshalCall != nil && x.Args[0].Val == ssa.Value(marshalCall) {
				errGuard = true
			}
		}
	}
	r.Check(errGuard, "C17.R4", cname+"#encode-error-guard", site.Pos, "the Script is built only when the encoder returned a nil error", "the Script is built without checking the encoder's error")
	// R3 name guard
	L := NewLang()
	if err := registerSumm(L, s, site.Cond); err != nil {
		r.Undec("C17.R3", cname+"#name-guard", site.Pos, err.Error())
	} else {
		L.MustRe(specJSName)
		L.Build()
		per, ok := splitByParam(site.Cond)
		if !ok || per[0] == nil {
			r.Viol("C17.R3", cname+"#name-guard", site.Pos, "no regular guard on the variable name dominates the construction: "+site.Cond.String(), "")
		} else if d, amb, err := L.Eval(per[0]); err != nil || len(amb) > 0 {
			r.Undec("C17.R3", cname+"#name-guard", site.Pos, fmt.Sprintf("%v %v", err, amb))
		} else if ok, w := relang.Subset(d, L.SearchRe(specJSName)); ok {
			r.OK("C17.R3", cname+"#name-guard", site.Pos, "accepted names "+per[0].String()+" ⊆ [$_A-Za-z][$_A-Za-z0-9]*")
		} else {
			r.Viol("C17.R3", cname+"#name-guard", site.Pos, "a name that is not an ASCII identifier is accepted", w)
		}
	}
	// R4 error paths
	for i, ret := range Returns(fn) {
		c := fmt.Sprintf("%s#return%d", cname, i)
		pos := p.Pos(ret.Pos())
		v0, v1 := ret.Results[0], ret.Results[1]
		errNil := false
		if k, ok := v1.(*ssa.Const); ok && k.Value == nil {
			errNil = true
		}
		zero := zeroResultAt(ret, 0)
		switch {
		case errNil && site.Store.Block().Dominates(ret.Block()):
			r.OK("C17.R4", c, pos, "success return carries the checked construction and a nil error")
		case errNil:
			r.Viol("C17.R4", c, pos, "a nil-error return is not dominated by the checked construction", "")
		case zero:
			// error must be provably non-nil: a call result of fmt.Errorf/errors.New or a value under err != nil guard
			e := pv.Of(v1)
			nonNil := calleeIs(e, "fmt.Errorf") || calleeIs(e, "errors.New") || certainlyNonNil(v1, ret.Block())
			for _, a := range pv.Atoms(ret.Block()) {
				if a.E.Op == "binop" && ((!a.Pol && a.E.Name == "==") || (a.Pol && a.E.Name == "!=")) && a.E.Args[0].Val == v1 && a.E.Args[1].Op == "const" && a.E.Args[1].Const == nil {
					nonNil = true
				}
			}
			r.Check(nonNil, "C17.R4", c, pos, "error return: zero Script and a non-nil error", "zero Script returned with an error that may be nil")
		default:
			// a single exit "return result, err" with named results: each path on its own
			prs, okP := pairedResults(ret, 0, 1)
			if os.Getenv("C17_DEBUG") != "" {
				fmt.Printf("C17 paired: ok=%v %+v\n", okP, prs)
			}
			if ok := okP; ok && len(prs) > 0 {
				bad := ""
				for _, pr := range prs {
					switch {
					case pr.ErrNil:
						// success: the value is the checked construction
						okSite := false
						if pr.ValStore != nil && pr.ValStore == site.Store {
							okSite = true // built in place in the result variable
						} else if pr.ValStore != nil {
							if u, isLoad := pr.ValStore.Val.(*ssa.UnOp); isLoad {
								if fa, isFA := site.Store.Addr.(*ssa.FieldAddr); isFA && u.X == fa.X {
									okSite = true
								}
							}
						}
						if !okSite {
							bad = "a path returns a nil error with something other than the checked construction"
						}
					case pr.ErrNonNil:
						if !pr.ValZero {
							bad = "a path returns a non-nil error together with a non-zero Script"
						}
					default:
						if pr.ValZero {
							bad = "a path returns the zero Script with an error that may be nil"
						} else {
							bad = "a path returns a non-zero Script with an error that may be non-nil"
						}
					}
				}
				r.Check(bad == "", "C17.R4", c, pos, fmt.Sprintf("single exit with named results: on each of the %d paths either the checked construction with a nil error or the zero Script with a non-nil error", len(prs)), bad)
				continue
			}
			r.Viol("C17.R4", c, pos, "an error return carries a non-zero Script: "+pv.Of(v0).String(), "")
		}
	}
}

// c17FrameByLanguage: the stored script text, as a language (E9), must be inside
// "var " NAME " = " JSON ";\n" Σ*, where JSON is what encoding/json.Marshal returns in HTML-safe
// mode. It returns the unique encoding/json.Marshal call of the function (for the encoder rules).
func c17FrameByLanguage(p *Program, r *Report, s *Summarizer, fn *ssa.Function, site CtorSite, cname string) *ssa.Call {
	oe := newOutEval(p, s)
	fr := oe.topFrame(fn)
	x := oe.strLx(site.Store.Val, site.Store.Block(), fr)
	// the script parameter is a compile-time constant of the caller: any text
	const spec = `var [$_A-Za-z][$_A-Za-z0-9]* = [^<>&\x{2028}\x{2029}\x00-\x1f]*;\n[\s\S]*`
	d, L, err := oe.Language(x, func(L *Lang) { L.MustRe(spec) })
	switch {
	case err != nil:
		r.Undec("C17.R1", cname+"#frame", site.Pos, "the language of the script text could not be computed: "+err.Error())
	default:
		if ok, w := relang.Subset(d, L.FullRe(spec)); ok {
			r.OK("C17.R1", cname+"#frame", site.Pos, "by language: the stored text "+x.String()+" ⊆ \"var \" NAME \" = \" JSON \";\\n\" SCRIPT")
			r.OK("C17.R1", cname+"#args", site.Pos, "by language: name, encoder output and script occur in this order")
		} else if len(oe.Problems) > 0 {
			r.Undec("C17.R1", cname+"#frame", site.Pos, "the script text is built in a way the evaluator cannot follow ("+oe.Problems[0]+"); "+x.String())
		} else {
			r.Viol("C17.R1", cname+"#frame", site.Pos, "the stored text "+x.String()+" is not always of the form var NAME = JSON;\\nSCRIPT", w)
		}
	}
	var found []*ssa.Call
	for _, b := range fn.Blocks {
		for _, in := range b.Instrs {
			if c, ok := in.(*ssa.Call); ok {
				if g := staticCallee(c.Common()); g != nil && fnName(g) == "encoding/json.Marshal" {
					found = append(found, c)
				}
			}
		}
	}
	if len(found) == 1 {
		return found[0]
	}
	return nil
}

// checkMarshalEscapesHTML: the installed encoding/json.Marshal sets escapeHTML unconditionally.
func checkMarshalEscapesHTML(r *Report, cal *ssa.Function) {
	if cal != nil && cal.Blocks != nil && fnName(cal) == "encoding/json.Marshal" {
		trueStores, otherStores := 0, 0
		for _, b := range cal.Blocks {
			for _, in := range b.Instrs {
				st, ok := in.(*ssa.Store)
				if !ok {
					continue
				}
				fa, ok := st.Addr.(*ssa.FieldAddr)
				if !ok || fieldName(fa.X.Type(), fa.Field) != "escapeHTML" {
					continue
				}
				if c, ok := st.Val.(*ssa.Const); ok && c.Value != nil && c.Value.Kind() == constant.Bool && constant.BoolVal(c.Value) {
					trueStores++
				} else {
					otherStores++
				}
			}
		}
		r.Check(trueStores >= 1 && otherStores == 0, "C17.R2", "encoding/json.Marshal#escapeHTML", "",
			"installed encoding/json.Marshal sets escapeHTML: true", "installed encoding/json.Marshal does not set escapeHTML: true unconditionally")
	} else {
		r.Undec("C17.R2", "encoding/json.Marshal#escapeHTML", "", "no SSA body for the encoder")
	}
}

// c17ByLanguage decides all clauses on the result of the function: on every return with a nil
// error the text of the returned Script, with each dynamic part replaced by a placeholder (the
// name parameter, the output of encoding/json.Marshal applied to the data parameter and used
// only after its error was tested, the script parameter), is exactly "var " NAME " = " J ";\n"
// SCRIPT; the conditions under which the name is written accept only ASCII identifiers; every
// other return carries the zero Script and a non-nil error. Helpers are followed.
func c17ByLanguage(p *Program, r *Report, s *Summarizer, fn *ssa.Function, cname string) {
	pv := NewProv(p)
	oe := newOutEval(p, s)
	oe.Markers = true
	fr := oe.topFrame(fn)
	want := "var " + string(markerRune(Term{Param: 0}.Key())) + " = " + string(markerRune(jsonMarkBase+1)) + ";\n" + string(markerRune(Term{Param: 2}.Key()))
	success := map[*ssa.Return]bool{}
	for i, ret := range Returns(fn) {
		if len(ret.Results) != 2 {
			continue
		}
		if k, ok := ret.Results[1].(*ssa.Const); !ok || k.Value != nil {
			continue
		}
		success[ret] = true
		c := fmt.Sprintf("%s#return%d", cname, i)
		pos := p.Pos(ret.Pos())
		x := oe.strLx(ret.Results[0], ret.Block(), fr)
		oe.Problems = nil
		d, L, err := oe.Language(x, func(L *Lang) { L.AddString(want) })
		switch {
		case err != nil:
			r.Undec("C17.R1", c+"#frame", pos, "the language of the script text could not be computed: "+err.Error())
		case len(oe.Problems) > 0:
			r.Undec("C17.R1", c+"#frame", pos, "the script text is built in a way the evaluator cannot follow ("+oe.Problems[0]+"); "+x.String())
		default:
			if ok, w := relang.Equivalent(d, relang.Literal(L.A, want)); ok {
				r.OK("C17.R1", c+"#frame", pos, "by language: the returned text is exactly \"var \" NAME \" = \" J \";\\n\" SCRIPT over placeholders")
				r.OK("C17.R1", c+"#args", pos, "by language: name parameter, encoder output and script parameter occur once each, in this order")
				r.OK("C17.R2", c+"#encoder", pos, "J is the output of encoding/json.Marshal applied to the data parameter")
				r.OK("C17.R4", c+"#encode-error-guard", pos, "the encoder output is used only after its error was tested")
				r.OK("C17.R4", c, pos, "success return carries the checked construction and a nil error")
			} else if lxHasAny(x) {
				r.Undec("C17.R1", c+"#frame", pos, "part of the returned text is built in a way the evaluator cannot follow (Σ*): "+x.String())
			} else {
				r.Viol("C17.R1", c+"#frame", pos, "the returned text "+x.String()+" is not \"var \" NAME \" = \" json.Marshal(data) \";\\n\" SCRIPT (placeholders: \ue000 name, \uf70d encoded data, \ue002 script)", w)
			}
		}
	}
	if len(success) == 0 {
		r.Undec("C17.R1", cname, p.Pos(fn.Pos()), "no return with a nil error")
	}
	if jp := p.SSA.ImportedPackage("encoding/json"); jp != nil {
		checkMarshalEscapesHTML(r, jp.Func("Marshal"))
	} else {
		r.Undec("C17.R2", "encoding/json.Marshal#escapeHTML", "", "encoding/json not loaded")
	}
	// R3: the conditions under which the name is written
	forms := oe.termForms[Term{Param: 0}.Key()]
	if len(forms) == 0 {
		r.Viol("C17.R3", cname+"#name-guard", p.Pos(fn.Pos()), "the variable name is never written under a condition", "")
	} else {
		f := fOr(forms...)
		L := NewLang()
		if err := registerSumm(L, s, f); err != nil {
			r.Undec("C17.R3", cname+"#name-guard", p.Pos(fn.Pos()), err.Error())
		} else {
			L.MustRe(specJSName)
			L.Build()
			per, ok := splitByParam(f)
			if !ok || per[0] == nil {
				r.Viol("C17.R3", cname+"#name-guard", p.Pos(fn.Pos()), "no regular guard on the variable name dominates the construction: "+f.String(), "")
			} else if d, amb, err := L.Eval(per[0]); err != nil || len(amb) > 0 {
				r.Undec("C17.R3", cname+"#name-guard", p.Pos(fn.Pos()), fmt.Sprintf("%v %v", err, amb))
			} else if ok, w := relang.Subset(d, L.SearchRe(specJSName)); ok {
				r.OK("C17.R3", cname+"#name-guard", p.Pos(fn.Pos()), "accepted names "+per[0].String()+" ⊆ [$_A-Za-z][$_A-Za-z0-9]*")
			} else {
				r.Viol("C17.R3", cname+"#name-guard", p.Pos(fn.Pos()), "a name that is not an ASCII identifier is accepted", w)
			}
		}
	}
	// R4: the other returns
	for i, ret := range Returns(fn) {
		if success[ret] || len(ret.Results) != 2 {
			continue
		}
		c := fmt.Sprintf("%s#return%d", cname, i)
		pos := p.Pos(ret.Pos())
		v0, v1 := ret.Results[0], ret.Results[1]
		zero := zeroResultAt(ret, 0)
		if !zero {
			r.Viol("C17.R4", c, pos, "an error return carries a non-zero Script: "+pv.Of(v0).String(), "")
			continue
		}
		e := pv.Of(v1)
		nonNil := calleeIs(e, "fmt.Errorf") || calleeIs(e, "errors.New") || certainlyNonNil(v1, ret.Block())
		for _, a := range pv.Atoms(ret.Block()) {
			if a.E.Op == "binop" && ((!a.Pol && a.E.Name == "==") || (a.Pol && a.E.Name == "!=")) && a.E.Args[0].Val == v1 && a.E.Args[1].Op == "const" && a.E.Args[1].Const == nil {
				nonNil = true
			}
		}
		r.Check(nonNil, "C17.R4", c, pos, "error return: zero Script and a non-nil error", "zero Script returned with an error that may be nil")
	}
}
