package main

// E6: path rules over a boolean predicate abstraction. All acyclic paths of a
// (small) function are enumerated; along a path the branch conditions taken
// are recorded as atoms (canonical provenance strings with polarity), and a
// path that would need the same atom with both polarities is discarded as
// infeasible. Atoms that read memory are qualified by an "epoch" (the number of
// calls that dominate the read), so that two reads separated by a call are
// never identified. Nothing is executed and no solver is involved: the
// abstraction is the finite set of branch atoms of the function.

import (
	"fmt"
	"go/token"
	"go/types"
	"os"
	"regexp"
	"strings"

	"golang.org/x/tools/go/ssa"
)

type cfgPath struct {
	Blocks []*ssa.BasicBlock
	Atoms  map[string]bool         // atom name -> value assumed on this path
	Order  []string                // atoms in the order they were assumed (with polarity prefix)
	Ret    map[ssa.Value]ssa.Value // results of inlined calls on this path (the call for one result, its extracts for several)
	// Bind: what the parameters of the helpers spliced into this path stand for (the argument, resolved on the path)
	Bind map[ssa.Value]ssa.Value
}

func (p *cfgPath) Has(name string, val bool) bool {
	v, ok := p.Atoms[name]
	return ok && v == val
}

// HasMatching reports whether some atom assumed on the path satisfies pred.
func (p *cfgPath) HasMatching(pred func(name string, val bool) bool) bool {
	for n, v := range p.Atoms {
		if pred(n, v) {
			return true
		}
	}
	return false
}

// PhiValue resolves a phi along the path (the edge taken into its block).
func (p *cfgPath) Resolve(v ssa.Value) ssa.Value {
	for i := 0; i < 10; i++ {
		if _, ok := v.(*ssa.Call); ok && p.Ret != nil {
			if rv, bound := p.Ret[v]; bound {
				v = rv
				continue
			}
		}
		if _, ok := v.(*ssa.Extract); ok && p.Ret != nil {
			if rv, bound := p.Ret[v]; bound {
				v = rv
				continue
			}
		}
		// the same through a local variable that holds the struct (res := helper(); … res.f …)
		if u, ok := v.(*ssa.UnOp); ok && u.Op == token.MUL && p.Ret != nil {
			if fa, ok := u.X.(*ssa.FieldAddr); ok {
				if al, ok := fa.X.(*ssa.Alloc); ok {
					if st := singleStoreLoose(al); st != nil && onlyFieldReads(al) {
						base := p.Resolve(st.Val)
						if base != st.Val {
							if bu, ok := base.(*ssa.UnOp); ok && bu.Op == token.MUL {
								if lit, ok := bu.X.(*ssa.Alloc); ok && onlyFieldStores(lit) {
									if val, ok := localFieldStore(base, fa.Field, 0); ok {
										v = val
										continue
									}
									return zeroConst(u.Type())
								}
							}
							if k, ok := base.(*ssa.Const); ok && k.Value == nil {
								return zeroConst(u.Type())
							}
						}
					}
				}
			}
		}
		// a field of the struct a spliced helper returned: what the helper stored there on this path
		if fl, ok := v.(*ssa.Field); ok && p.Ret != nil {
			base := p.Resolve(fl.X)
			if base != fl.X {
				if u, ok := base.(*ssa.UnOp); ok && u.Op == token.MUL {
					if al, ok := u.X.(*ssa.Alloc); ok && onlyFieldStores(al) {
						if val, ok := localFieldStore(base, fl.Field, 0); ok {
							v = val
							continue
						}
						if z := zeroConst(fl.Type()); z != nil {
							return z
						}
					}
				}
				if k, ok := base.(*ssa.Const); ok && k.Value == nil {
					return zeroConst(fl.Type())
				}
			}
			return v
		}
		ph, ok := v.(*ssa.Phi)
		if !ok {
			return v
		}
		found := false
		for k := len(p.Blocks) - 1; k >= 1; k-- {
			if p.Blocks[k] == ph.Block() {
				for j, pr := range ph.Block().Preds {
					if pr == p.Blocks[k-1] {
						v = ph.Edges[j]
						found = true
					}
				}
				break
			}
		}
		if !found {
			return v
		}
	}
	return v
}

type pathExplorer struct {
	prog    *Program
	pv      *Prov
	fn      *ssa.Function
	epochOf map[ssa.Instruction]int
	Limit   int
	Trunc   bool
	// Inline: follow calls of small helper functions of the same package (their paths are spliced
	// into the caller's, their branch atoms renamed to the caller's values)
	Inline  bool
	Atomic  map[*ssa.Function]bool // callees that are never spliced (anchors of the rule at hand)
	depth   int
	inlined map[*ssa.Function]bool
	// valBind: for a value of a spliced helper that stands for the result of its call, what the helper's parameters
	// stand for in the caller
	valBind map[ssa.Value]map[ssa.Value]ssa.Value
	// AtomVals: the branch condition behind each atom name (neg: the atom is the negation of the condition)
	AtomVals map[string]atomVal
}

type atomVal struct {
	v   ssa.Value
	neg bool
	// bind: for a condition of a spliced helper, what its parameters stand for in the caller
	bind map[ssa.Value]ssa.Value
}

func newPathExplorer(p *Program, fn *ssa.Function) *pathExplorer {
	pv := NewProv(p)
	pv.NoInline = true
	pe := &pathExplorer{prog: p, pv: pv, fn: fn, epochOf: map[ssa.Instruction]int{}, Limit: 20000, inlined: map[*ssa.Function]bool{}}
	return pe
}

// epoch of an instruction: number of (non-builtin) calls that dominate it.
func (pe *pathExplorer) epoch(in ssa.Instruction) int {
	if e, ok := pe.epochOf[in]; ok {
		return e
	}
	n := 0
	for _, b := range pe.fn.Blocks {
		if !b.Dominates(in.Block()) {
			continue
		}
		for _, x := range b.Instrs {
			if x == in {
				break
			}
			if c, ok := x.(*ssa.Call); ok && mayWriteRepoState(c) {
				n++
			}
		}
	}
	pe.epochOf[in] = n
	return n
}

// mayWriteRepoState: can the call modify memory of the repository's own
// types? Calls into the repository, dynamic calls, and library calls that
// receive function or interface values (through which repository methods can be
// called back) may; other library calls cannot reach unexported repository
// state.
func mayWriteRepoState(c *ssa.Call) bool {
	cc := c.Common()
	if _, isB := cc.Value.(*ssa.Builtin); isB {
		return false
	}
	f := staticCallee(cc)
	if f == nil {
		return true
	}
	if f.Pkg != nil && strings.HasPrefix(f.Pkg.Pkg.Path(), modulePath) {
		return true
	}
	for _, a := range cc.Args {
		switch a.Type().Underlying().(type) {
		case *types.Interface, *types.Signature:
			return true
		case *types.Slice:
			if _, ok := a.Type().Underlying().(*types.Slice).Elem().Underlying().(*types.Interface); ok {
				return true
			}
		}
	}
	return false
}

func readsMemory(e *Expr) bool {
	if e == nil {
		return false
	}
	switch e.Op {
	case "load", "global", "lookup", "index":
		return true
	case "field":
		// a field of a struct *value* (call result, by-value parameter, local copy) is not a memory read
		if len(e.Args) == 1 {
			t := e.Args[0].Type
			if t == nil && e.Args[0].Val != nil {
				t = e.Args[0].Val.Type()
			}
			if t != nil {
				if _, isPtr := t.Underlying().(*types.Pointer); !isPtr {
					switch e.Args[0].Op {
					case "call", "extract", "param", "const", "zero":
						return false // a component of an SSA value: fixed once the value exists
					}
					return readsMemory(e.Args[0])
				}
			}
		}
		return true
	}
	for _, a := range e.Args {
		if readsMemory(a) {
			return true
		}
	}
	return false
}

// AtomName: canonical name of a branch condition.
func (pe *pathExplorer) AtomName(cond ssa.Value, pol bool) (string, bool) {
	a := normAtom(pe.pv.Of(cond), pol)
	name := a.E.String()
	if os.Getenv("DBG_ATOM") != "" {
		var dump func(e *Expr, d int)
		dump = func(e *Expr, d int) {
			fmt.Printf("%*s%s name=%s type=%v val=%T\n", d*2, "", e.Op, e.Name, e.Type, e.Val)
			for _, x := range e.Args {
				dump(x, d+1)
			}
		}
		dump(a.E, 0)
	}
	if in, ok := cond.(ssa.Instruction); ok && readsMemory(a.E) {
		name = fmt.Sprintf("%s@%d", name, pe.epoch(in))
	}
	if pe.AtomVals == nil {
		pe.AtomVals = map[string]atomVal{}
	}
	// the atom has value (pol == a.Pol) when cond has value pol: atom = cond if a.Pol == pol, else ¬cond
	if old, have := pe.AtomVals[name]; have && old.v == cond {
		return name, a.Pol // keep the binding recorded with the first naming
	}
	pe.AtomVals[name] = atomVal{cond, a.Pol != pol, nil}
	return name, a.Pol
}

// inlinable: a small loop-free helper of the same package (not the function itself).
func (pe *pathExplorer) inlinable(c *ssa.Call) *ssa.Function {
	if !pe.Inline || pe.depth >= 2 {
		return nil
	}
	g := staticCallee(c.Common())
	if g == nil || g == pe.fn || pe.Atomic[g] || g.Pkg != pe.fn.Pkg || g.Blocks == nil || len(g.Blocks) > 14 || hasLoop(g) || g.Signature.Results().Len() > 3 {
		return nil
	}
	if g.Object() != nil && g.Object().Exported() {
		return nil // API functions are anchors of their own
	}
	if g.Signature.Results().Len() > 1 && !pureClassifier(g) {
		return nil // several results: only helpers that merely classify their arguments
	}
	return g
}

// pureClassifier: g writes nothing but its own locals and calls nothing of the repository (it computes its
// results from its arguments: a verdict and what goes with it).
func pureClassifier(g *ssa.Function) bool {
	localAddr := func(a ssa.Value) bool {
		for i := 0; i < 6; i++ {
			switch x := a.(type) {
			case *ssa.Alloc:
				return true
			case *ssa.FieldAddr:
				a = x.X
				continue
			case *ssa.IndexAddr:
				a = x.X
				continue
			}
			break
		}
		return false
	}
	for _, b := range g.Blocks {
		for _, in := range b.Instrs {
			switch x := in.(type) {
			case *ssa.Store:
				if !localAddr(x.Addr) {
					return false
				}
			case *ssa.MapUpdate, *ssa.Send, *ssa.Go, *ssa.Defer:
				return false
			case *ssa.Call:
				if _, isBuiltin := x.Common().Value.(*ssa.Builtin); isBuiltin {
					continue
				}
				f := staticCallee(x.Common())
				if f == nil || (f.Pkg != nil && strings.HasPrefix(f.Pkg.Pkg.Path(), modulePath)) {
					return false
				}
			}
		}
	}
	return true
}

// Funcs: the explored function and the helpers whose paths were spliced into it.
func (pe *pathExplorer) Funcs() []*ssa.Function {
	out := []*ssa.Function{pe.fn}
	for g := range pe.inlined {
		out = append(out, g)
	}
	return out
}

type pathState struct {
	blocks []*ssa.BasicBlock
	atoms  map[string]bool
	order  []string
	ret    map[ssa.Value]ssa.Value
	bind   map[ssa.Value]ssa.Value
}

func (st pathState) withAtom(name string, val bool) pathState {
	na := map[string]bool{}
	for x, y := range st.atoms {
		na[x] = y
	}
	na[name] = val
	pfx := "+"
	if !val {
		pfx = "-"
	}
	return pathState{st.blocks, na, append(append([]string{}, st.order...), pfx+name), st.ret, st.bind}
}

// spliceCall returns the states after following every feasible path of the helper called by c.
func (pe *pathExplorer) spliceCall(c *ssa.Call, g *ssa.Function, st pathState) []pathState {
	sub := newPathExplorer(pe.prog, g)
	sub.depth = pe.depth + 1
	sub.Inline = true
	sub.Atomic = pe.Atomic
	sub.Limit = 2000
	pe.inlined[g] = true
	// rename the helper's parameters to the caller's argument expressions
	type ren struct {
		re *regexp.Regexp
		to string
	}
	var rens []ren
	for i, prm := range g.Params {
		if i < len(c.Common().Args) {
			arg := (&cfgPath{Blocks: st.blocks, Ret: st.ret}).Resolve(c.Common().Args[i])
			rens = append(rens, ren{regexp.MustCompile(`param:` + regexp.QuoteMeta(prm.Name()) + `\b`), strings.ReplaceAll(pe.pv.Of(arg).String(), "$", "$$")})
		}
	}
	if os.Getenv("SPLICE_DEBUG") != "" {
		for _, r := range rens {
			fmt.Printf("splice %s into %s: %s -> %s\n", g.Name(), pe.fn.Name(), r.re, r.to)
		}
	}
	base := pe.epoch(c)
	rename := func(name string) string {
		for _, r := range rens {
			name = r.re.ReplaceAllString(name, r.to)
		}
		// epochs of the helper count from the call
		if i := strings.LastIndex(name, "@"); i >= 0 {
			var k int
			if _, err := fmt.Sscanf(name[i+1:], "%d", &k); err == nil {
				name = fmt.Sprintf("%s@%d", name[:i], k+base+1)
			}
		}
		return name
	}
	var out []pathState
	for _, sp := range sub.Paths() {
		retInstr, isRet := sp.End().(*ssa.Return)
		if !isRet {
			continue // the helper panics: the caller's path ends there (panics are inventoried by other rules)
		}
		nb := map[ssa.Value]ssa.Value{}
		for k, v := range st.bind {
			nb[k] = v
		}
		for k, v := range sp.Bind {
			nb[k] = v
		}
		for i, prm := range g.Params {
			if i < len(c.Common().Args) {
				nb[prm] = (&cfgPath{Blocks: st.blocks, Ret: st.ret}).Resolve(c.Common().Args[i])
			}
		}
		ns := pathState{append(append([]*ssa.BasicBlock{}, st.blocks...), sp.Blocks...), st.atoms, st.order, st.ret, nb}
		feasible := true
		for _, o := range sp.Order {
			val := o[0] == '+'
			name := rename(o[1:])
			if av, ok := sub.AtomVals[o[1:]]; ok {
				if pe.AtomVals == nil {
					pe.AtomVals = map[string]atomVal{}
				}
				if _, have := pe.AtomVals[name]; !have {
					bind := map[ssa.Value]ssa.Value{}
					for k, v := range av.bind {
						bind[k] = v
					}
					for i, prm := range g.Params {
						if i < len(c.Common().Args) {
							bind[prm] = c.Common().Args[i]
						}
					}
					pe.AtomVals[name] = atomVal{av.v, av.neg, bind}
				}
			}
			if old, ok := ns.atoms[name]; ok {
				if old != val {
					feasible = false
					break
				}
				continue
			}
			ns = ns.withAtom(name, val)
		}
		if !feasible {
			continue
		}
		nr := map[ssa.Value]ssa.Value{}
		for k, v := range st.ret {
			nr[k] = v
		}
		for k, v := range sp.Ret {
			nr[k] = v
		}
		if len(retInstr.Results) == 1 {
			rv := sp.Resolve(retInstr.Results[0])
			nr[c] = rv
			if in, ok := rv.(ssa.Instruction); ok && in.Parent() != pe.fn {
				if pe.valBind == nil {
					pe.valBind = map[ssa.Value]map[ssa.Value]ssa.Value{}
				}
				bind := map[ssa.Value]ssa.Value{}
				for k, v := range sub.valBind[rv] {
					bind[k] = v
				}
				for i, prm := range g.Params {
					if i < len(c.Common().Args) {
						bind[prm] = c.Common().Args[i]
					}
				}
				pe.valBind[rv] = bind
			}
		}
		if len(retInstr.Results) > 1 {
			// several results: each extract of the call stands for the corresponding returned value
			for _, ref := range *c.Referrers() {
				if ex, ok := ref.(*ssa.Extract); ok && ex.Index < len(retInstr.Results) {
					nr[ex] = sp.Resolve(retInstr.Results[ex.Index])
				}
			}
		}
		ns.ret = nr
		out = append(out, ns)
	}
	for g2 := range sub.inlined {
		pe.inlined[g2] = true
	}
	if sub.Trunc {
		pe.Trunc = true
	}
	return out
}

// Paths enumerates the feasible acyclic paths from the entry to every block
// that ends in a Return or Panic.
func (pe *pathExplorer) Paths() []*cfgPath {
	var out []*cfgPath
	n := 0
	var walk func(b *ssa.BasicBlock, st pathState)
	var finish func(b *ssa.BasicBlock, st pathState)
	walk = func(b *ssa.BasicBlock, st pathState) {
		n++
		if n > pe.Limit {
			pe.Trunc = true
			return
		}
		st.blocks = append(append([]*ssa.BasicBlock{}, st.blocks...), b)
		// helpers called in this block, in order
		states := []pathState{st}
		for _, in := range b.Instrs {
			c, ok := in.(*ssa.Call)
			if !ok {
				continue
			}
			g := pe.inlinable(c)
			if g == nil {
				continue
			}
			var next []pathState
			for _, s0 := range states {
				next = append(next, pe.spliceCall(c, g, s0)...)
			}
			states = next
		}
		for _, s0 := range states {
			finish(b, s0)
		}
	}
	finish = func(b *ssa.BasicBlock, st pathState) {
		blocks, atoms, order := st.blocks, st.atoms, st.order
		switch last := b.Instrs[len(b.Instrs)-1].(type) {
		case *ssa.Return, *ssa.Panic:
			out = append(out, &cfgPath{Blocks: blocks, Atoms: atoms, Order: order, Ret: st.ret, Bind: st.bind})
		case *ssa.Jump:
			if !b.Succs[0].Dominates(b) {
				walk(b.Succs[0], st)
			}
		case *ssa.If:
			for k, s := range b.Succs {
				if s.Dominates(b) {
					continue // back edge
				}
				// a constant phi condition is resolved by the path
				cp := &cfgPath{Blocks: blocks, Ret: st.ret}
				cond := cp.Resolve(last.Cond)
				// a comparison of two values that the path resolves to integer constants (the verdict of a spliced classifier)
				if bo, ok := cond.(*ssa.BinOp); ok && (bo.Op == token.EQL || bo.Op == token.NEQ) {
					if ka, ok := constInt(cp.Resolve(bo.X)); ok {
						if kb, ok := constInt(cp.Resolve(bo.Y)); ok {
							if _, direct := bo.X.(*ssa.Const); !direct {
								if ((ka == kb) == (bo.Op == token.EQL)) == (k == 0) {
									walk(s, st)
								}
								continue
							}
						}
					}
				}
				if bv, ok := constBool(cond); ok {
					if bv == (k == 0) {
						walk(s, st)
					}
					continue
				}
				// x == nil / x != nil where x is a phi (or the result of a spliced helper) that the path resolves to nil or to a fresh object
				if bo, ok := cond.(*ssa.BinOp); ok && (bo.Op == token.EQL || bo.Op == token.NEQ) && isNilConst(bo.Y) {
					_, isPhi := bo.X.(*ssa.Phi)
					x := cp.Resolve(bo.X)
					if isPhi || x != bo.X {
						known, isNil := false, false
						switch xv := x.(type) {
						case *ssa.Const:
							known, isNil = xv.Value == nil, true
						case *ssa.Alloc:
							known, isNil = true, false
						case *ssa.MakeInterface:
							if _, isAlloc := xv.X.(*ssa.Alloc); isAlloc {
								known, isNil = true, false
							}
						}
						if known {
							val := isNil == (bo.Op == token.EQL)
							if val == (k == 0) {
								walk(s, st)
							}
							continue
						}
						// otherwise name the atom after the value the phi has on this path, so that it is
						// identified with an earlier test of the same value
						if xin, ok := x.(ssa.Instruction); ok {
							e := &Expr{Op: "binop", Name: bo.Op.String(), Args: []*Expr{pe.pv.Of(x), pe.pv.Of(bo.Y)}}
							a := normAtom(e, k == 0)
							name := a.E.String()
							if readsMemory(a.E) {
								name = fmt.Sprintf("%s@%d", name, pe.epoch(xin))
							}
							if pe.AtomVals == nil {
								pe.AtomVals = map[string]atomVal{}
							}
							if _, have := pe.AtomVals[name]; !have {
								// the condition with the resolved operand (a value of its own, outside any block)
								pe.AtomVals[name] = atomVal{&ssa.BinOp{Op: bo.Op, X: x, Y: bo.Y}, a.Pol != (k == 0), copyBind(st.bind)}
							}
							if old, ok := atoms[name]; ok {
								if old == a.Pol {
									walk(s, st)
								}
								continue
							}
							walk(s, st.withAtom(name, a.Pol))
							continue
						}
					}
				}
				name, val := pe.AtomName(cond, k == 0)
				if in, ok := cond.(ssa.Instruction); ok && in.Parent() != pe.fn && len(st.bind) > 0 {
					// a condition computed in a spliced helper: its parameters stand for what this path bound them to
					if av := pe.AtomVals[name]; av.bind == nil {
						av.bind = copyBind(st.bind)
						pe.AtomVals[name] = av
					}
				}
				if old, ok := atoms[name]; ok {
					if old != val {
						continue // infeasible
					}
					walk(s, st)
					continue
				}
				walk(s, st.withAtom(name, val))
			}
		}
	}
	walk(pe.fn.Blocks[0], pathState{atoms: map[string]bool{}})
	return out
}

func (p *cfgPath) String() string {
	return strings.Join(p.Order, " ")
}

// passesInstr: does the path execute the instruction?
func (p *cfgPath) Passes(in ssa.Instruction) bool {
	for _, b := range p.Blocks {
		if b == in.Block() {
			return true
		}
	}
	return false
}

// End returns the terminating instruction of the path.
func (p *cfgPath) End() ssa.Instruction {
	b := p.Blocks[len(p.Blocks)-1]
	return b.Instrs[len(b.Instrs)-1]
}

// ResultValue returns the value of result #i returned at the end of the path,
// looking through defer-spilled results (stores into the result's local) and
// phis. ok=false when the path does not end in a return. A result local that
// is never stored on the path has its zero value: zero=true.
func (p *cfgPath) ResultValue(i int) (v ssa.Value, zero bool, ok bool) {
	ret, isRet := p.End().(*ssa.Return)
	if !isRet || i >= len(ret.Results) {
		return nil, false, false
	}
	v = p.Resolve(ret.Results[i])
	u, isLoad := v.(*ssa.UnOp)
	if !isLoad {
		return v, false, true
	}
	al, isAlloc := u.X.(*ssa.Alloc)
	if !isAlloc {
		return v, false, true
	}
	val, found := p.localAt(al, len(p.Blocks)-1, ssa.Instruction(u), 0)
	if !found {
		return nil, true, true
	}
	return val, false, true
}

// localAt: the value last stored into local al on the path before instruction
// `before` of block #k (looking through copies of the local into itself).
func (p *cfgPath) localAt(al *ssa.Alloc, k int, before ssa.Instruction, depth int) (ssa.Value, bool) {
	if depth > 8 {
		return nil, false
	}
	for ; k >= 0; k-- {
		b := p.Blocks[k]
		started := before == nil
		for j := len(b.Instrs) - 1; j >= 0; j-- {
			in := b.Instrs[j]
			if !started {
				if in == before {
					started = true
				}
				continue
			}
			if st, ok := in.(*ssa.Store); ok && st.Addr == ssa.Value(al) {
				v := p.Resolve(st.Val)
				if u, ok := v.(*ssa.UnOp); ok && u.X == ssa.Value(al) {
					// stores back what was loaded from the same local: keep looking before that load
					return p.localAt(al, p.indexOf(u.Block(), k), ssa.Instruction(u), depth+1)
				}
				return v, true
			}
		}
		before = nil
	}
	return nil, false
}

func (p *cfgPath) indexOf(b *ssa.BasicBlock, upTo int) int {
	for k := upTo; k >= 0; k-- {
		if p.Blocks[k] == b {
			return k
		}
	}
	return upTo
}

func isNilConst(v ssa.Value) bool {
	c, ok := v.(*ssa.Const)
	return ok && c.Value == nil
}

// onlyFieldStores: the local struct is written only field by field, each field at most once (a composite literal).
func onlyFieldStores(al *ssa.Alloc) bool {
	seen := map[int]bool{}
	for _, ref := range *al.Referrers() {
		switch x := ref.(type) {
		case *ssa.FieldAddr:
			for _, r2 := range *x.Referrers() {
				st, ok := r2.(*ssa.Store)
				if !ok || st.Addr != ssa.Value(x) {
					if _, dbg := r2.(*ssa.DebugRef); dbg {
						continue
					}
					return false
				}
				if seen[x.Field] {
					return false
				}
				seen[x.Field] = true
			}
		case *ssa.UnOp, *ssa.DebugRef:
		default:
			return false
		}
	}
	return true
}

func copyBind(m map[ssa.Value]ssa.Value) map[ssa.Value]ssa.Value {
	if len(m) == 0 {
		return nil
	}
	out := make(map[ssa.Value]ssa.Value, len(m))
	for k, v := range m {
		out[k] = v
	}
	return out
}
