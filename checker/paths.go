package main

// E6: path rules over a boolean predicate abstraction. All acyclic paths of a
// (small) function are enumerated; along a path the branch conditions taken
// are recorded as atoms (canonical provenance strings with polarity), and a
// path that would need the same atom with both polarities is discarded as
// infeasible. Atoms that read memory are qualified by an "epoch" (the number of
// calls that dominate the read), so that two reads separated by a call are
// never identified. Nothing is executed and no solver is involved: the
// abstraction is the finite set of branch atoms of the function.

import (
	"fmt"
	"go/token"
	"go/types"
	"strings"

	"golang.org/x/tools/go/ssa"
)

type cfgPath struct {
	Blocks []*ssa.BasicBlock
	Atoms  map[string]bool // atom name -> value assumed on this path
	Order  []string        // atoms in the order they were assumed (with polarity prefix)
}

func (p *cfgPath) Has(name string, val bool) bool {
	v, ok := p.Atoms[name]
	return ok && v == val
}

// HasMatching reports whether some atom assumed on the path satisfies pred.
func (p *cfgPath) HasMatching(pred func(name string, val bool) bool) bool {
	for n, v := range p.Atoms {
		if pred(n, v) {
			return true
		}
	}
	return false
}

// PhiValue resolves a phi along the path (the edge taken into its block).
func (p *cfgPath) Resolve(v ssa.Value) ssa.Value {
	for i := 0; i < 10; i++ {
		ph, ok := v.(*ssa.Phi)
		if !ok {
			return v
		}
		found := false
		for k := len(p.Blocks) - 1; k >= 1; k-- {
			if p.Blocks[k] == ph.Block() {
				for j, pr := range ph.Block().Preds {
					if pr == p.Blocks[k-1] {
						v = ph.Edges[j]
						found = true
					}
				}
				break
			}
		}
		if !found {
			return v
		}
	}
	return v
}

type pathExplorer struct {
	pv      *Prov
	fn      *ssa.Function
	epochOf map[ssa.Instruction]int
	Limit   int
	Trunc   bool
}

func newPathExplorer(p *Program, fn *ssa.Function) *pathExplorer {
	pv := NewProv(p)
	pv.NoInline = true
	pe := &pathExplorer{pv: pv, fn: fn, epochOf: map[ssa.Instruction]int{}, Limit: 20000}
	return pe
}

// epoch of an instruction: number of (non-builtin) calls that dominate it.
func (pe *pathExplorer) epoch(in ssa.Instruction) int {
	if e, ok := pe.epochOf[in]; ok {
		return e
	}
	n := 0
	for _, b := range pe.fn.Blocks {
		if !b.Dominates(in.Block()) {
			continue
		}
		for _, x := range b.Instrs {
			if x == in {
				break
			}
			if c, ok := x.(*ssa.Call); ok && mayWriteRepoState(c) {
				n++
			}
		}
	}
	pe.epochOf[in] = n
	return n
}

// mayWriteRepoState: can the call modify memory of the repository's own
// types? Calls into the repository, dynamic calls, and library calls that
// receive function or interface values (through which repository methods can be
// called back) may; other library calls cannot reach unexported repository
// state.
func mayWriteRepoState(c *ssa.Call) bool {
	cc := c.Common()
	if _, isB := cc.Value.(*ssa.Builtin); isB {
		return false
	}
	f := staticCallee(cc)
	if f == nil {
		return true
	}
	if f.Pkg != nil && strings.HasPrefix(f.Pkg.Pkg.Path(), modulePath) {
		return true
	}
	for _, a := range cc.Args {
		switch a.Type().Underlying().(type) {
		case *types.Interface, *types.Signature:
			return true
		case *types.Slice:
			if _, ok := a.Type().Underlying().(*types.Slice).Elem().Underlying().(*types.Interface); ok {
				return true
			}
		}
	}
	return false
}

func readsMemory(e *Expr) bool {
	r := false
	e.Walk(func(x *Expr) bool {
		switch x.Op {
		case "field", "load", "global", "lookup", "index":
			r = true
		}
		return true
	})
	return r
}

// AtomName: canonical name of a branch condition.
func (pe *pathExplorer) AtomName(cond ssa.Value, pol bool) (string, bool) {
	a := normAtom(pe.pv.Of(cond), pol)
	name := a.E.String()
	if in, ok := cond.(ssa.Instruction); ok && readsMemory(a.E) {
		name = fmt.Sprintf("%s@%d", name, pe.epoch(in))
	}
	return name, a.Pol
}

// Paths enumerates the feasible acyclic paths from the entry to every block
// that ends in a Return or Panic.
func (pe *pathExplorer) Paths() []*cfgPath {
	var out []*cfgPath
	n := 0
	var walk func(b *ssa.BasicBlock, blocks []*ssa.BasicBlock, atoms map[string]bool, order []string)
	walk = func(b *ssa.BasicBlock, blocks []*ssa.BasicBlock, atoms map[string]bool, order []string) {
		n++
		if n > pe.Limit {
			pe.Trunc = true
			return
		}
		blocks = append(append([]*ssa.BasicBlock{}, blocks...), b)
		switch last := b.Instrs[len(b.Instrs)-1].(type) {
		case *ssa.Return, *ssa.Panic:
			out = append(out, &cfgPath{Blocks: blocks, Atoms: atoms, Order: order})
		case *ssa.Jump:
			if !b.Succs[0].Dominates(b) {
				walk(b.Succs[0], blocks, atoms, order)
			}
		case *ssa.If:
			for k, s := range b.Succs {
				if s.Dominates(b) {
					continue // back edge
				}
				// a constant phi condition is resolved by the path
				cp := &cfgPath{Blocks: blocks}
				cond := cp.Resolve(last.Cond)
				if bv, ok := constBool(cond); ok {
					if bv == (k == 0) {
						walk(s, blocks, atoms, order)
					}
					continue
				}
				// x == nil / x != nil where x is a phi that the path resolves to nil or to a fresh object
				if bo, ok := cond.(*ssa.BinOp); ok && (bo.Op == token.EQL || bo.Op == token.NEQ) && isNilConst(bo.Y) {
					if _, isPhi := bo.X.(*ssa.Phi); isPhi {
						x := cp.Resolve(bo.X)
						known, isNil := false, false
						switch xv := x.(type) {
						case *ssa.Const:
							known, isNil = xv.Value == nil, true
						case *ssa.Alloc:
							known, isNil = true, false
						case *ssa.MakeInterface:
							if _, isAlloc := xv.X.(*ssa.Alloc); isAlloc {
								known, isNil = true, false
							}
						}
						if known {
							val := isNil == (bo.Op == token.EQL)
							if val == (k == 0) {
								walk(s, blocks, atoms, order)
							}
							continue
						}
						// otherwise name the atom after the value the phi has on this path, so that it is
						// identified with an earlier test of the same value
						if xin, ok := x.(ssa.Instruction); ok {
							e := &Expr{Op: "binop", Name: bo.Op.String(), Args: []*Expr{pe.pv.Of(x), pe.pv.Of(bo.Y)}}
							a := normAtom(e, k == 0)
							name := a.E.String()
							if readsMemory(a.E) {
								name = fmt.Sprintf("%s@%d", name, pe.epoch(xin))
							}
							if old, ok := atoms[name]; ok {
								if old == a.Pol {
									walk(s, blocks, atoms, order)
								}
								continue
							}
							na := map[string]bool{}
							for x2, y := range atoms {
								na[x2] = y
							}
							na[name] = a.Pol
							pfx := "+"
							if !a.Pol {
								pfx = "-"
							}
							walk(s, blocks, na, append(append([]string{}, order...), pfx+name))
							continue
						}
					}
				}
				name, val := pe.AtomName(cond, k == 0)
				if old, ok := atoms[name]; ok {
					if old != val {
						continue // infeasible
					}
					walk(s, blocks, atoms, order)
					continue
				}
				na := map[string]bool{}
				for x, y := range atoms {
					na[x] = y
				}
				na[name] = val
				pfx := "+"
				if !val {
					pfx = "-"
				}
				walk(s, blocks, na, append(append([]string{}, order...), pfx+name))
			}
		}
	}
	walk(pe.fn.Blocks[0], nil, map[string]bool{}, nil)
	return out
}

func (p *cfgPath) String() string {
	return strings.Join(p.Order, " ")
}

// passesInstr: does the path execute the instruction?
func (p *cfgPath) Passes(in ssa.Instruction) bool {
	for _, b := range p.Blocks {
		if b == in.Block() {
			return true
		}
	}
	return false
}

// End returns the terminating instruction of the path.
func (p *cfgPath) End() ssa.Instruction {
	b := p.Blocks[len(p.Blocks)-1]
	return b.Instrs[len(b.Instrs)-1]
}

// ResultValue returns the value of result #i returned at the end of the path,
// looking through defer-spilled results (stores into the result's local) and
// phis. ok=false when the path does not end in a return. A result local that
// is never stored on the path has its zero value: zero=true.
func (p *cfgPath) ResultValue(i int) (v ssa.Value, zero bool, ok bool) {
	ret, isRet := p.End().(*ssa.Return)
	if !isRet || i >= len(ret.Results) {
		return nil, false, false
	}
	v = p.Resolve(ret.Results[i])
	u, isLoad := v.(*ssa.UnOp)
	if !isLoad {
		return v, false, true
	}
	al, isAlloc := u.X.(*ssa.Alloc)
	if !isAlloc {
		return v, false, true
	}
	val, found := p.localAt(al, len(p.Blocks)-1, ssa.Instruction(u), 0)
	if !found {
		return nil, true, true
	}
	return val, false, true
}

// localAt: the value last stored into local al on the path before instruction
// `before` of block #k (looking through copies of the local into itself).
func (p *cfgPath) localAt(al *ssa.Alloc, k int, before ssa.Instruction, depth int) (ssa.Value, bool) {
	if depth > 8 {
		return nil, false
	}
	for ; k >= 0; k-- {
		b := p.Blocks[k]
		started := before == nil
		for j := len(b.Instrs) - 1; j >= 0; j-- {
			in := b.Instrs[j]
			if !started {
				if in == before {
					started = true
				}
				continue
			}
			if st, ok := in.(*ssa.Store); ok && st.Addr == ssa.Value(al) {
				v := p.Resolve(st.Val)
				if u, ok := v.(*ssa.UnOp); ok && u.X == ssa.Value(al) {
					// stores back what was loaded from the same local: keep looking before that load
					return p.localAt(al, p.indexOf(u.Block(), k), ssa.Instruction(u), depth+1)
				}
				return v, true
			}
		}
		before = nil
	}
	return nil, false
}

func (p *cfgPath) indexOf(b *ssa.BasicBlock, upTo int) int {
	for k := upTo; k >= 0; k-- {
		if p.Blocks[k] == b {
			return k
		}
	}
	return upTo
}

func isNilConst(v ssa.Value) bool {
	c, ok := v.(*ssa.Const)
	return ok && c.Value == nil
}
