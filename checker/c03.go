package main

import (
	"fmt"
	"go/token"
	"strings"

	"golang.org/x/tools/go/ssa"
)

func init() { register("C03", "other", runC03) }

// expected non-pass-through behaviour per context (statement: "in every other
// context it is handled exactly like an untrusted string").
var fallbackKinds = map[string][]string{
	"HTML": {"escaped"}, "RCDATA": {"escaped"}, "URL": {"urlsanitized"}, "TrustedResourceURLOrURL": {"urlsanitized"}, "URLSet": {"urlsetsanitized"},
	"AsyncEnum": {"error", "member"}, "DirEnum": {"error", "member"}, "LoadingEnum": {"error", "member"}, "TargetEnum": {"error", "member"},
	"HTMLValOnly": {"error"}, "Script": {"error"}, "Style": {"error"}, "StyleSheet": {"error"}, "Identifier": {"error"}, "TrustedResourceURL": {"error"},
}

func runC03(p *Program, r *Report) {
	r.Trusted = []string{"go/types + go/ssa", "text/template passes the previous command's result (a Go string for every sanitizer) as the only argument of the next command", "reflect semantics of Indirect (shape-checked)", "C10 for HTMLEscaped"}
	r.NotDecided = []string{"cell-by-cell equality with the plain-string output"}
	r.Explain = "Every type assertion to a safe type in packages template and safehtmlutil is inventoried and must sit in the sanitizer bound to a context that the type contract covers, applied to Indirect(args[0]); each sanitizer's nil-error returns are classified (contents of the asserted value / HTML-escaped / URL-sanitized / set member / error) and compared with the per-context table; attribute-value chains, enumerated by the chain evaluator, must end in a function that escapes whatever the type, or be preceded by a function returning a plain string."
	for _, m := range []struct {
		r string
		n int
	}{{"C03.R1", 15}, {"C03.R2", 1}, {"C03.R4", 15}, {"C03.R5", 5}, {"C03.R6", 4}, {"C03.R7", 2}, {"C03.R8", 1}, {"C03.R9", 1}, {"C03.R10", 1}, {"C03.R11", 1}, {"C03.R12", 1}, {"C03.R13", 1}, {"C03.R14", 1}} {
		r.Min(m.r, m.n)
	}
	checkMemoHitNamesTheCopy(p, r, "C03.R14")
	pl, err := loadPolicy(p)
	if err != nil {
		r.Undec("C03.R1", "template#policy", "", err.Error())
		return
	}
	pv := NewProv(p)
	pv.NoInline = true
	// contexts bound to each function
	bound := map[*ssa.Function][]string{}
	for _, v := range sortedInt64Keys(pl.Info) {
		if f := pl.SanitizerFunc(v); f != nil {
			bound[f] = append(bound[f], pl.Info[v].Name)
		}
	}
	// ---- R1/R3/R4 per bound sanitizer -------------------------------------------
	for _, v := range sortedInt64Keys(pl.Info) {
		name := pl.Info[v].Name
		f := pl.SanitizerFunc(v)
		c := "sanitizer-of[" + name + "]"
		if f == nil {
			if name == "None" {
				r.OK("C03.R1", c, "", "no sanitizer of its own; values are handled by the chain's escaper (R5)")
			} else {
				r.Viol("C03.R1", c, "", "context has no sanitizer bound", "")
			}
			continue
		}
		sum := summariseSanitizer(p, pv, f)
		pos := p.Pos(f.Pos())
		allowed, known := allowedPassThrough[name]
		if !known {
			r.Undec("C03.R1", c, pos, "context is not in the checker's type-contract table")
			continue
		}
		if subsetOf(sum.Asserts, allowed) && subsetOf(sum.PassTypes(), allowed) {
			r.OK("C03.R1", c, pos, fmt.Sprintf("%s passes through only %v", fnName(f), sum.PassTypes()))
		} else {
			r.Viol("C03.R1", c, pos, fmt.Sprintf("%s lets values of type %v bypass sanitization; the %s context covers only %v", fnName(f), sum.Asserts, name, allowed), "")
		}
		for _, pr := range sum.Problems {
			r.Viol("C03.R2", c+"#operand", pos, pr, "")
		}
		// R4: everything that is not a pass-through is the context's own treatment
		var other []string
		for _, k := range sum.Kinds() {
			if k != "passthrough" {
				other = append(other, k)
			}
		}
		want := fallbackKinds[name]
		okF := subsetOf(other, want) && len(other) > 0
		var descr []string
		for _, rt := range sum.Returns {
			if rt.Kind == "other" {
				descr = append(descr, rt.Desc+"@"+rt.Pos)
			}
		}
		r.Check(okF, "C03.R4", c, pos, fmt.Sprintf("all other values are %v", other), fmt.Sprintf("values that do not carry the context's type are treated as %v (expected %v) %v", other, want, descr))
		// the context's own type must actually pass (typed contexts)
		if len(allowed) > 0 {
			r.Check(subsetOf(allowed, sum.PassTypes()), "C03.R3", c, pos, "values of the context's own type are emitted intact via String()", fmt.Sprintf("values of %v are not passed through intact", allowed))
		}
	}
	// ---- R1 (inventory): no safe-type assertion anywhere else --------------------------
	for _, f := range p.SrcFuncs() {
		if f.Pkg == nil {
			continue
		}
		path := f.Pkg.Pkg.Path()
		if path != modulePath+"/template" && path != pkgUtil {
			continue
		}
		if _, isBound := bound[f]; isBound {
			continue
		}
		for _, b := range f.Blocks {
			for _, in := range b.Instrs {
				if ta, ok := in.(*ssa.TypeAssert); ok {
					if n, ok := safeTypeName(ta.AssertedType); ok {
						r.Viol("C03.R1", fnName(f)+"#assert:"+n, p.Pos(ta.Pos()), "a value of type "+n+" is recognised outside the sanitizer of a context", "")
					}
				}
			}
		}
	}
	// ---- R2 Indirect --------------------------------------------------------------------
	checkIndirect(p, r)
	// ---- R5 attribute chains --------------------------------------------------------------
	checkAttrChainsEscape(p, r, pl, "C03.R5")
	// ---- R6 one context per action: names chosen by conditional branches must agree on it ------------
	// (otherwise the sanitizer of one branch's context — and its pass-through types — is used for the others)
	checkConditionalNames(p, r, "C03.R6")
	// the identity of context-specific template copies: a copy analysed for one context must not serve another
	checkMemoKey(p, r, "C03.R7")
	checkMemoKeyConditional(p, r, "C03.R7")
	checkConditionalNamesBodyKind(p, r, "C03.R8")
	checkOpaqueBodyNotUndone(p, r, "C03.R10")
	checkInstalledFuncMaps(p, r, "C03.R11")
	checkPredefinedEscaperTest(p, r, "C03.R12")
	checkChainAppendedUnconditionally(p, r, "C03.R13")
	checkAttrNameContinuation(p, r, "C03.R9")
}

// checkIndirect: Indirect(a) returns a for non-pointers and nil, otherwise the
// value reached by dereferencing while the value is a non-nil pointer.
func checkIndirect(p *Program, r *Report) {
	fn := p.Func("internal/safehtmlutil", "Indirect")
	const c = "safehtmlutil.Indirect"
	if fn == nil {
		r.Undec("C03.R2", c, "", "anchor not found")
		return
	}
	// shape: a loop whose condition is v.Kind()==Ptr && !v.IsNil(), body v = v.Elem(); result v.Interface()
	hasLoop, elem, iface, kindPtr, notNil := false, false, false, false, false
	// the function itself and the helpers of its package it delegates to
	fns := []*ssa.Function{fn}
	seenF := map[*ssa.Function]bool{fn: true}
	for i := 0; i < len(fns) && i < 4; i++ {
		for _, b := range fns[i].Blocks {
			for _, in := range b.Instrs {
				if c, ok := in.(*ssa.Call); ok {
					if g := staticCallee(c.Common()); g != nil && g.Pkg == fn.Pkg && g.Blocks != nil && !seenF[g] {
						seenF[g] = true
						fns = append(fns, g)
					}
				}
			}
		}
	}
	var blocks []*ssa.BasicBlock
	for _, f := range fns {
		blocks = append(blocks, f.Blocks...)
	}
	for _, b := range blocks {
		for _, su := range b.Succs {
			if su.Dominates(b) {
				hasLoop = true
			}
		}
		for _, in := range b.Instrs {
			c, ok := in.(*ssa.Call)
			if !ok {
				continue
			}
			f := staticCallee(c.Common())
			if f == nil {
				continue
			}
			switch fnName(f) {
			case "(reflect.Value).Elem":
				elem = true
			case "(reflect.Value).Interface":
				iface = true
			case "(reflect.Value).IsNil":
				notNil = true
			case "(reflect.Value).Kind":
				for _, ref := range *c.Referrers() {
					if bo, ok := ref.(*ssa.BinOp); ok && bo.Op == token.EQL {
						if k, ok := constInt(bo.Y); ok && k == 22 { // reflect.Ptr
							kindPtr = true
						}
					}
				}
			}
		}
	}
	ok := hasLoop && elem && iface && kindPtr && notNil
	r.Check(ok, "C03.R2", c, p.Pos(fn.Pos()), "dereferences while the value is a non-nil pointer and returns the pointee (pointers to safe types are handled like the values)", "Indirect is not the dereference-while-non-nil-pointer loop")
}

// checkAttrChainsEscape: C03.R5 / C01.R7 — whatever the type of the value, the
// text emitted into an attribute value is HTML-escaped.
func checkAttrChainsEscape(p *Program, r *Report, pl *Policy, rule string) {
	ci, err := loadAttrChains(p)
	if err != nil {
		r.Undec(rule, "template.sanitizersForAttributeValue", "", err.Error())
		return
	}
	// contexts whose sanitizer name is empty (the optional element disappears)
	var emptyNamed []string
	for _, v := range sortedInt64Keys(pl.Info) {
		if pl.Info[v].Sanitizer == "" {
			emptyNamed = append(emptyNamed, pl.Info[v].Name)
		}
	}
	for i, alt := range ci.Alts {
		fns := chainFuncs(pl, alt)
		c := fmt.Sprintf("template.sanitizersForAttributeValue#attr-chain%d%s", i, alt.Names())
		pos := p.Pos(alt.Ret.Pos())
		if len(fns) == 0 {
			r.Viol(rule, c, pos, "an attribute value can be emitted without any sanitizer", "")
			continue
		}
		last := fns[len(fns)-1]
		switch last {
		case fnEscape:
			r.OK(rule, c, pos, "ends in a function that HTML-escapes every value: "+strings.Join(fns, " → "))
		case fnEscapeOrHTML:
			// needs a predecessor that is always present and returns a Go string
			mandatoryPred := false
			for j := 0; j < len(alt.Elems)-1; j++ {
				if !alt.Elems[j].Optional {
					mandatoryPred = true
				}
			}
			if mandatoryPred {
				r.OK(rule, c, pos, "the final escaper passes safehtml.HTML through, but it always receives the plain string returned by its predecessor: "+strings.Join(fns, " → "))
			} else if len(alt.Elems) > 1 && len(emptyNamed) == 0 {
				r.OK(rule, c, pos, "the final escaper passes safehtml.HTML through, but every context has a sanitizer that precedes it")
			} else {
				r.Viol(rule, c, pos, fmt.Sprintf("for contexts without a sanitizer of their own (%v) the chain is the HTML sanitizer alone, which emits safehtml.HTML values unescaped inside the attribute value", emptyNamed),
					`<div title="{{.}}"> with safehtml.HTML(<b>" onmouseover="alert(1)</b>)`)
			}
		default:
			r.Viol(rule, c, pos, "the chain does not end in an HTML escaper: "+strings.Join(fns, " → "), "")
		}
	}
	if len(ci.Alts) < 5 {
		r.Undec(rule, "template.sanitizersForAttributeValue#chains", p.Pos(ci.Fn.Pos()), fmt.Sprintf("expected at least 5 attribute chains, found %d", len(ci.Alts)))
	}
}
