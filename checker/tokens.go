package main

import (
	"go/token"
	"go/types"
	"strings"

	"safecheck/relang"

	"golang.org/x/tools/go/ssa"
)

// Tokens. A hand-written tokenizer cuts its input with "splitters": functions that walk
// a string from the left while the current byte stays in some set and return the part
// walked over and the rest,
//
//	func take(s string, stop [256]bool) (tok, rest string)   // or stop func(byte) bool
//
// whatever they are called and however the byte set is passed (a table, a predicate, a
// constant in the body). A splitter is summarised by the set of bytes on which its loop
// goes on: every byte of the token it returns is in that set. Wrappers that hand such a
// token on as one of their results are followed.

// scanParamSets binds, while a splitter is summarised for one call site, its table or
// predicate parameters to the byte sets of the arguments.
var scanParamSets map[ssa.Value]*relang.Set

// scanParamBools binds, likewise, boolean parameters to the constants passed at the call site.
var scanParamBools map[ssa.Value]bool

// paramSetOf: v is (a copy of) a table parameter bound in scanParamSets.
func paramSetOf(v ssa.Value) (*relang.Set, bool) {
	if scanParamSets == nil {
		return nil, false
	}
	if s, ok := scanParamSets[v]; ok {
		return s, true
	}
	// the local copy of an array parameter
	if al, ok := v.(*ssa.Alloc); ok {
		if st := singleStoreLoose(al); st != nil {
			if s, ok := scanParamSets[st.Val]; ok {
				return s, true
			}
		}
	}
	return nil, false
}

// byteSetOfArg: the byte set denoted by an argument: a package-level [N]bool table or a
// predicate func(byte) bool of the repository.
func byteSetOfArg(p *Program, fn *ssa.Function, v ssa.Value) (*relang.Set, bool) {
	switch x := v.(type) {
	case *ssa.Global:
		// the address of a table handed to a helper that only reads through it (checked by the caller)
		if x.Pkg != nil {
			if s, ok := constBoolTables(p, relOf(x.Pkg.Pkg.Path()))(x); ok {
				return s, true
			}
		}
	case *ssa.UnOp:
		if g, ok := x.X.(*ssa.Global); ok && x.Op == token.MUL && g.Pkg != nil {
			if s, ok := constBoolTables(p, relOf(g.Pkg.Pkg.Path()))(g); ok {
				return s, true
			}
		}
	case *ssa.Function, *ssa.MakeClosure, *ssa.ChangeType:
		var g *ssa.Function
		switch y := v.(type) {
		case *ssa.Function:
			g = y
		case *ssa.MakeClosure:
			if len(y.Bindings) == 0 {
				g, _ = y.Fn.(*ssa.Function)
			}
		case *ssa.ChangeType:
			return byteSetOfArg(p, fn, y.X)
		}
		if g == nil || g.Blocks == nil || len(g.Params) != 1 || g.Signature.Results().Len() != 1 {
			return nil, false
		}
		if b, ok := g.Params[0].Type().Underlying().(*types.Basic); !ok || b.Kind() != types.Uint8 {
			return nil, false
		}
		rel := ""
		if g.Pkg != nil {
			rel = relOf(g.Pkg.Pkg.Path())
		}
		leaves := decisionTable(g.Blocks[0], dtConfig{Tables: constBoolTables(p, rel), Var: g.Params[0], Dom: byteDomain(), Leaf: func(*ssa.BasicBlock) (string, bool) { return "", false }, Max: 2000})
		for _, l := range leaves {
			if (l.Effect != "return:true" && l.Effect != "return:false") || len(l.Tags) > 0 {
				return nil, false
			}
		}
		return effectSet(leaves, "return:true", nil), true
	}
	return nil, false
}

// readOnlyPointerParam: the pointer parameter is only indexed and loaded from (never stored through, never handed on).
func readOnlyPointerParam(prm *ssa.Parameter) bool {
	for _, ref := range *prm.Referrers() {
		switch x := ref.(type) {
		case *ssa.IndexAddr:
			for _, r2 := range *x.Referrers() {
				if u, ok := r2.(*ssa.UnOp); !ok || u.Op != token.MUL {
					if _, dbg := r2.(*ssa.DebugRef); !dbg {
						return false
					}
				}
			}
		case *ssa.UnOp:
			if x.Op != token.MUL {
				return false
			}
		case *ssa.DebugRef:
		default:
			return false
		}
	}
	return true
}

type splitSummary struct {
	Cont     *relang.Set // bytes of the returned token
	Consumed int         // result index of the token
	Rest     int         // result index of the rest (-1 if none)
}

// splitterSummary summarises f at one call site.
func splitterSummary(p *Program, f *ssa.Function, args []ssa.Value, caller *ssa.Function) (*splitSummary, bool) {
	if f == nil || f.Blocks == nil || f.Pkg == nil || !strings.HasPrefix(f.Pkg.Pkg.Path(), modulePath) {
		return nil, false
	}
	saved, savedB := scanParamSets, scanParamBools
	scanParamSets = map[ssa.Value]*relang.Set{}
	scanParamBools = map[ssa.Value]bool{}
	defer func() { scanParamSets, scanParamBools = saved, savedB }()
	for i, prm := range f.Params {
		if i >= len(args) || isStringish(prm.Type()) {
			continue
		}
		if bv, ok := constBool(args[i]); ok {
			scanParamBools[prm] = bv
			continue
		}
		if _, isAddr := args[i].(*ssa.Global); isAddr && !readOnlyPointerParam(prm) {
			continue
		}
		if s, ok := byteSetOfArg(p, caller, args[i]); ok {
			scanParamSets[prm] = s
		}
	}
	loops, ok := findScanLoops(p, f)
	if !ok || len(loops) != 1 {
		return nil, false
	}
	l := loops[0]
	if l.ByRune || l.Start != 0 {
		return nil, false
	}
	str, isPrm := l.Str.(*ssa.Parameter)
	if !isPrm || !isStringish(str.Type()) {
		return nil, false
	}
	// the loop index: the header phi compared with len(str)
	var idx ssa.Value
	if iff, ok := l.Header.Instrs[len(l.Header.Instrs)-1].(*ssa.If); ok {
		if bo, ok := iff.Cond.(*ssa.BinOp); ok {
			idx = bo.X
		}
	}
	if idx == nil {
		return nil, false
	}
	isZeroOrNil := func(v ssa.Value) bool {
		if v == nil {
			return true
		}
		k, ok := constInt(v)
		return ok && k == 0
	}
	isEnd := func(v ssa.Value) bool {
		if v == nil {
			return true
		}
		s, ok := isLenOf(v)
		return ok && s == ssa.Value(str)
	}
	nres := f.Signature.Results().Len()
	sum := &splitSummary{Cont: l.Cont, Consumed: -1, Rest: -1}
	for k := 0; k < nres; k++ {
		if !isStringish(f.Signature.Results().At(k).Type()) {
			continue
		}
		tok, rest := true, true
		for _, ret := range Returns(f) {
			v := ret.Results[k]
			inLoop := l.Blocks[ret.Block()]
			for _, pr := range ret.Block().Preds {
				if l.Blocks[pr] && pr != l.Header {
					inLoop = true // an early exit of the loop
				}
			}
			switch x := v.(type) {
			case *ssa.Slice:
				if x.X != ssa.Value(str) {
					tok, rest = false, false
					break
				}
				if !(isZeroOrNil(x.Low) && x.High == idx && inLoop) {
					tok = false
				}
				if !(x.Low == idx && isEnd(x.High) && inLoop) {
					rest = false
				}
			case *ssa.Parameter:
				// the string was exhausted: the whole string is the token
				if x != str || inLoop {
					tok = false
				}
				rest = false
			case *ssa.Const:
				if k, ok := constString(x); !ok || k != "" || inLoop {
					rest = false
				}
				tok = false
			default:
				tok, rest = false, false
			}
		}
		if tok {
			sum.Consumed = k
		}
		if rest {
			sum.Rest = k
		}
	}
	if sum.Consumed < 0 {
		return nil, false
	}
	return sum, true
}

// tokenSetOf: v is a token (result of a splitter, possibly handed on by wrappers): the set of
// its bytes.
func tokenSetOf(p *Program, v ssa.Value, depth int) (*relang.Set, bool) {
	ex, ok := v.(*ssa.Extract)
	if !ok || depth > 3 {
		return nil, false
	}
	call, ok := ex.Tuple.(*ssa.Call)
	if !ok {
		return nil, false
	}
	f := staticCallee(call.Common())
	if f == nil || f.Blocks == nil || f.Pkg == nil || !strings.HasPrefix(f.Pkg.Pkg.Path(), modulePath) {
		return nil, false
	}
	if sum, ok := splitterSummary(p, f, call.Common().Args, call.Parent()); ok {
		if sum.Consumed == ex.Index {
			return sum.Cont, true
		}
		return nil, false
	}
	// a wrapper: result #k is, on every return, a token of one and the same byte set
	var set *relang.Set
	for _, ret := range Returns(f) {
		if ex.Index >= len(ret.Results) {
			return nil, false
		}
		s, ok := tokenSetOf(p, ret.Results[ex.Index], depth+1)
		if !ok || (set != nil && set.String() != s.String()) {
			return nil, false
		}
		set = s
	}
	return set, set != nil
}

// seedTokens gives every token-valued value of the frame's function a term of its own and
// records what is known of its bytes.
func (oe *outEval) seedTokens(fr *oframe) {
	for _, b := range fr.fn.Blocks {
		for _, in := range b.Instrs {
			v, ok := in.(*ssa.Extract)
			if !ok || !isStringish(v.Type()) {
				continue
			}
			if _, bound := fr.env[v]; bound {
				continue
			}
			if t, ok := oe.tokenTerm(v); ok {
				fr.env[v] = t
			}
		}
	}
}

// tokenTerm: the term of a token-valued value (the same wherever the value is met: in the frame of its function, or
// through a struct field by which it is handed to another function).
func (oe *outEval) tokenTerm(v *ssa.Extract) (Term, bool) {
	{
		{
			if !isStringish(v.Type()) || v.Parent() == nil {
				return Term{}, false
			}
			set, ok := tokenSetOf(oe.p, v, 0)
			if !ok {
				return Term{}, false
			}
			key := "token:" + oe.p.Pos(v.Pos()) + ":" + v.Name() + "@" + fnName(v.Parent())
			id, have := oe.pseudo[key]
			if !have {
				id = 100 + len(oe.pseudo)
				oe.pseudo[key] = id
				oe.PseudoKey[id] = key
			}
			t := Term{Param: id}
			stop := byteDomain().Minus(set)
			l := &scanLoop{}
			rs := l.toRuneSet(stop)
			if oe.intrinsic == nil {
				oe.intrinsic = map[int]*Form{}
			}
			oe.intrinsic[id] = fNot(atom(&LAtom{Kind: "containsAny", Set: rs, Term: t, Desc: "ContainsAny(" + termStr(t) + "," + rs.String() + ")"}))
			if oe.TokenSets == nil {
				oe.TokenSets = map[int]*relang.Set{}
			}
			oe.TokenSets[id] = set
			return t, true
		}
	}
}
