package main

import (
	"fmt"
	"go/token"
	"strings"

	"safecheck/relang"

	"golang.org/x/tools/go/ssa"
)

// specInertDecl: the only "<"-initial text that the HTML tokenizer neither opens a tag
// nor a (bogus) comment for and that may therefore be left as written in the data
// state: a DOCTYPE declaration (WHATWG 13.2.5.42 markup declaration open state matches
// "DOCTYPE" ASCII case-insensitively). "<?", "<!x", "</" followed by a non-letter all
// open a bogus comment that runs to the next '>'.
const specInertDecl = `^<![Dd][Oo][Cc][Tt][Yy][Pp][Ee]`

// checkStrayLtRewrite: in the data state the escaper keeps tokenizing after a '<' that
// does not start a tag, so such a '<' must not reach the browser as markup: the text
// node rewriter replaces it with "&lt;". The rule takes the write of the constant "&lt;"
// in the text-node rewriter, collects the branch conditions between the test of the
// byte and the write, evaluates them as a language over the text starting at that '<',
// and requires the texts exempt from the rewrite to lie inside the DOCTYPE declaration.
// Conditions on positions alone (the scanned range) are outside the rule.
func checkStrayLtRewrite(p *Program, r *Report, rule string) {
	fn := p.Func("template", "(*escaper).escapeText")
	if fn == nil || fn.Blocks == nil {
		r.Undec(rule, "template.(*escaper).escapeText", "", "anchor not found")
		return
	}
	short := strings.TrimPrefix(fnName(fn), pkgTemplate+".")
	n := 0
	// the rewriter itself and the helpers of the package it calls (the loop may have been extracted)
	scope := []*ssa.Function{fn}
	for i := 0; i < len(scope) && len(scope) < 10; i++ {
		for _, b := range scope[i].Blocks {
			for _, in := range b.Instrs {
				if c, ok := in.(*ssa.Call); ok {
					if g := staticCallee(c.Common()); g != nil && g.Pkg == fn.Pkg && g.Blocks != nil && !strings.HasPrefix(g.Name(), "escape") || g != nil && g.Pkg == fn.Pkg && g.Blocks != nil && g.Signature.Recv() == nil {
						dup := false
						for _, h := range scope {
							if h == g {
								dup = true
							}
						}
						if !dup && i == 0 {
							scope = append(scope, g)
						}
					}
				}
			}
		}
	}
	for _, fn := range scope {
		for _, b := range fn.Blocks {
			for _, in := range b.Instrs {
				call, ok := in.(*ssa.Call)
				if !ok {
					continue
				}
				g := staticCallee(call.Common())
				if g == nil {
					continue
				}
				gn := fnName(g)
				if gn != "(*bytes.Buffer).WriteString" && gn != "(*bytes.Buffer).Write" {
					continue
				}
				if k, ok := constString(call.Common().Args[1]); !ok || k != "&lt;" {
					continue
				}
				n++
				cn := fmt.Sprintf("%s#lt-rewrite%d", short, n)
				pos := p.Pos(call.Pos())
				decideLtRewrite(p, r, rule, cn, pos, fn, b)
			}
		}
	}
	if n == 0 {
		r.Viol(rule, short+"#lt-rewrite", p.Pos(fn.Pos()), "the text-node rewriter never writes \"&lt;\": a '<' that the escaper leaves in the data state reaches the browser as markup", "<p>a <b")
	}
}

func decideLtRewrite(p *Program, r *Report, rule, cn, pos string, fn *ssa.Function, w *ssa.BasicBlock) {
	type cond struct {
		v   ssa.Value
		pol bool
	}
	var base, idx ssa.Value
	var paths [][]cond
	why := ""
	// subject: the edge d→cur is taken exactly when the current byte is '<'
	subject := func(c ssa.Value, pol bool) (ssa.Value, ssa.Value, bool) {
		bo, ok := c.(*ssa.BinOp)
		if !ok || !((bo.Op == token.EQL && pol) || (bo.Op == token.NEQ && !pol)) {
			return nil, nil, false
		}
		x, y := bo.X, bo.Y
		if _, isK := x.(*ssa.Const); isK {
			x, y = y, x
		}
		if k, okk := constInt(y); !okk || k != '<' {
			return nil, nil, false
		}
		if u, oku := x.(*ssa.UnOp); oku && u.Op == token.MUL {
			if ia, oki := u.X.(*ssa.IndexAddr); oki {
				return ia.X, ia.Index, true
			}
		}
		return nil, nil, false
	}
	var back func(cur *ssa.BasicBlock, acc []cond, onPath map[*ssa.BasicBlock]bool)
	back = func(cur *ssa.BasicBlock, acc []cond, onPath map[*ssa.BasicBlock]bool) {
		if why != "" {
			return
		}
		if len(cur.Preds) == 0 || len(acc) > 12 || len(paths) > 32 {
			why = "the write of \"&lt;\" is reachable without a test that the current byte is '<'"
			return
		}
		for _, d := range cur.Preds {
			if onPath[d] {
				why = "the write of \"&lt;\" is reachable around a loop without a test that the current byte is '<'"
				return
			}
			iff, ok := d.Instrs[len(d.Instrs)-1].(*ssa.If)
			if !ok || (d.Succs[0] == cur && d.Succs[1] == cur) {
				onPath[d] = true
				back(d, acc, onPath)
				delete(onPath, d)
				continue
			}
			pol := d.Succs[0] == cur
			if bs, ix, ok := subject(iff.Cond, pol); ok {
				if base != nil && (bs != base || ix != idx) {
					why = "the paths to the write of \"&lt;\" test different bytes"
					return
				}
				base, idx = bs, ix
				paths = append(paths, append([]cond(nil), acc...))
				continue
			}
			onPath[d] = true
			back(d, append(append([]cond(nil), acc...), cond{iff.Cond, pol}), onPath)
			delete(onPath, d)
		}
	}
	back(w, nil, map[*ssa.BasicBlock]bool{w: true})
	if why != "" || base == nil {
		if why == "" {
			why = "the write of \"&lt;\" is not under a test that the current byte is '<'"
		}
		r.Undec(rule, cn, pos, why)
		return
	}
	// the text starting at that byte: every s[j:] of the same slice and index
	env := termEnv{}
	for _, b := range fn.Blocks {
		for _, in := range b.Instrs {
			if sl, ok := in.(*ssa.Slice); ok && sl.X == base && sl.Low == idx && sl.High == nil {
				env[sl] = Term{Param: 0}
			}
		}
	}
	s := NewSummarizer(p, nil)
	var alts []*Form
	for _, conds := range paths {
		pf := fTrue()
		for _, c := range conds {
			cf := s.ValueForm(c.v, env)
			if !c.pol {
				cf = fNot(cf)
			}
			pf = fAnd(pf, cf)
		}
		alts = append(alts, pf)
	}
	f := alts[0]
	if len(alts) > 1 {
		f = fOr(alts...)
	}
	if u, why := f.HasUnknown(); u {
		r.Undec(rule, cn, pos, "a condition between the test of '<' and the rewrite could not be modelled: "+why)
		return
	}
	var opaque []string
	f.Atoms(func(a *LAtom) {
		if a.Kind == "prop" {
			opaque = append(opaque, a.Str)
		}
	})
	if len(opaque) > 0 {
		r.Undec(rule, cn, pos, "the exemption from the rewrite is decided by a helper whose verdict is not a regular property of the text: "+strings.Join(opaque, ", "))
		return
	}
	L := NewLang()
	if err := L.Register(f); err != nil {
		r.Undec(rule, cn, pos, err.Error())
		return
	}
	L.MustRe(specInertDecl)
	L.MustRe(`^<`)
	L.Build()
	d, amb, err := L.Eval(f)
	if err != nil || len(amb) > 0 {
		r.Undec(rule, cn, pos, fmt.Sprintf("conditions not evaluable: %v %v", err, amb))
		return
	}
	exempt := relang.Intersect(L.SearchRe(`^<`), relang.Complement(d))
	if ok, wit := relang.Subset(exempt, L.SearchRe(specInertDecl)); ok {
		r.OK(rule, cn, pos, "texts starting with '<' that are exempt from the rewrite ("+fNot(f).String()+") ⊆ <!DOCTYPE (ASCII case-insensitive)")
	} else {
		r.Viol(rule, cn, pos, "a '<' that the escaper leaves in the data state is written out unescaped for a text other than a DOCTYPE declaration: the browser opens a (bogus) comment or markup declaration there while the escaper goes on treating what follows as text and tags; rewrite condition: "+f.String(), wit)
	}
}
