package main

// E1: loader. Loads /repo's current working tree with go/packages, type-checks
// it, builds SSA for the whole program (so that stdlib bodies are available to
// the few rules that read them) and a call graph. Nothing of /repo is executed.

import (
	"fmt"
	"go/ast"
	"go/token"
	"go/types"
	"os"
	"path/filepath"
	"sort"
	"strings"

	"golang.org/x/tools/go/packages"
	"golang.org/x/tools/go/ssa"
	"golang.org/x/tools/go/ssa/ssautil"
)

const modulePath = "github.com/google/safehtml"

// Program is everything the rules may look at.
type Program struct {
	findingRoot bool
	RepoDir     string
	Fset        *token.FileSet
	Pkgs        map[string]*packages.Package // by import path, repo packages only
	All         map[string]*packages.Package // every package in the import closure
	SSA         *ssa.Program
	SSAPkgs     map[string]*ssa.Package // by import path (all)
	GOOS        string
	GOARCH      string

	NumFuncs int // repo source functions with SSA bodies

	funcIndex map[string]map[string]*types.Func
}

// curProgram is the program of the build configuration being analysed (for helpers that match provenance
// expressions and need the repository's own tables).
var curProgram *Program

func repoDir() string {
	if d := os.Getenv("VERIF_REPO"); d != "" {
		return d
	}
	return "/repo"
}

// LoadProgram loads the repository. Any load or type error is returned: the
// caller turns it into an undecided obligation (a failed check).
func LoadProgram(goos, goarch string, needSSA bool) (*Program, error) {
	dir := repoDir()
	env := append(os.Environ(),
		"GOFLAGS=-mod=mod", "GOPROXY=off", "GOSUMDB=off", "GOTOOLCHAIN=local", "GOWORK=off", "CGO_ENABLED=0")
	if goos != "" {
		env = append(env, "GOOS="+goos)
	}
	if goarch != "" {
		env = append(env, "GOARCH="+goarch)
	}
	fset := token.NewFileSet()
	cfg := &packages.Config{
		Mode:  packages.LoadAllSyntax,
		Dir:   dir,
		Env:   env,
		Fset:  fset,
		Tests: false,
	}
	pkgs, err := packages.Load(cfg, "./...")
	if err != nil {
		return nil, fmt.Errorf("packages.Load: %v", err)
	}
	p := &Program{RepoDir: dir, Fset: fset, Pkgs: map[string]*packages.Package{}, All: map[string]*packages.Package{}, GOOS: goos, GOARCH: goarch}
	var errs []string
	packages.Visit(pkgs, nil, func(pk *packages.Package) {
		p.All[pk.PkgPath] = pk
		if strings.HasPrefix(pk.PkgPath, modulePath) {
			for _, e := range pk.Errors {
				errs = append(errs, e.Error())
			}
			if pk.IllTyped {
				errs = append(errs, pk.PkgPath+": ill-typed")
			}
		}
	})
	for _, pk := range pkgs {
		p.Pkgs[pk.PkgPath] = pk
	}
	if len(errs) > 0 {
		sort.Strings(errs)
		return nil, fmt.Errorf("load/type errors: %s", strings.Join(errs, "; "))
	}
	if len(p.Pkgs) == 0 {
		return nil, fmt.Errorf("no packages loaded from %s", dir)
	}
	// Every non-test .go file of the repository must belong to a loaded package
	// (a file excluded by a build constraint is invisible to every rule).
	loaded := map[string]bool{}
	for _, pk := range p.Pkgs {
		for _, f := range pk.CompiledGoFiles {
			loaded[f] = true
		}
		for _, f := range pk.GoFiles {
			loaded[f] = true
		}
	}
	var missing []string
	filepath.Walk(dir, func(path string, info os.FileInfo, err error) error {
		if err != nil {
			return nil
		}
		if info.IsDir() {
			n := info.Name()
			if path != dir && (strings.HasPrefix(n, ".") || n == "testdata" || n == "vendor") {
				return filepath.SkipDir
			}
			return nil
		}
		if strings.HasSuffix(path, ".go") && !strings.HasSuffix(path, "_test.go") && !loaded[path] {
			missing = append(missing, path)
		}
		return nil
	})
	if len(missing) > 0 {
		return nil, fmt.Errorf("source files not part of any loaded package (build constraints?): %v", missing)
	}
	if !needSSA {
		return p, nil
	}
	prog, _ := ssautil.AllPackages(pkgs, ssa.InstantiateGenerics)
	prog.Build()
	p.SSA = prog
	p.SSAPkgs = map[string]*ssa.Package{}
	for _, sp := range prog.AllPackages() {
		p.SSAPkgs[sp.Pkg.Path()] = sp
	}
	for path := range p.Pkgs {
		sp := p.SSAPkgs[path]
		if sp == nil {
			return nil, fmt.Errorf("no SSA package for %s", path)
		}
		for _, m := range sp.Members {
			if f, ok := m.(*ssa.Function); ok && f.Blocks != nil {
				p.NumFuncs++
			}
		}
	}
	buildCanon(p)
	theProgram = p
	p.Func("template", "escapeTemplate") // resolves the root analysis by its role when the name is gone
	foldedTables = map[*ssa.Global]*[]int64{}
	return p, nil
}

// Pkg returns a repository package by path suffix relative to the module
// ("" = root package).
func (p *Program) Pkg(rel string) *packages.Package {
	path := modulePath
	if rel != "" {
		path += "/" + rel
	}
	return p.Pkgs[path]
}

func (p *Program) SSAPkg(rel string) *ssa.Package {
	path := modulePath
	if rel != "" {
		path += "/" + rel
	}
	return p.SSAPkgs[path]
}

// Func returns the SSA function for a package-level function or method
// ("Name" or "(*T).Name" / "T.Name").
func (p *Program) Func(rel, name string) *ssa.Function {
	pk := p.Pkg(rel)
	if pk == nil || pk.Types == nil {
		return nil
	}
	if p.funcIndex == nil {
		p.funcIndex = map[string]map[string]*types.Func{}
	}
	idx := p.funcIndex[rel]
	if idx == nil {
		idx = map[string]*types.Func{}
		add := func(f *types.Func) {
			k := funcKey(f)
			if c, ok := canonObj[f]; ok {
				k = c
			}
			if _, dup := idx[k]; !dup {
				idx[k] = f
			}
		}
		sc := pk.Types.Scope()
		for _, n := range sc.Names() {
			switch o := sc.Lookup(n).(type) {
			case *types.Func:
				add(o)
			case *types.TypeName:
				if nm, ok := o.Type().(*types.Named); ok && !o.IsAlias() {
					for i := 0; i < nm.NumMethods(); i++ {
						add(nm.Method(i))
					}
				}
			}
		}
		p.funcIndex[rel] = idx
	}
	f := idx[name]
	if f == nil && strings.HasPrefix(name, "(*") {
		// a value-receiver method is also in the pointer's method set
		f = idx[strings.Replace(strings.TrimPrefix(name, "(*"), ")", "", 1)]
	}
	if f == nil {
		if rel == "template" && name == "escapeTemplate" && !p.findingRoot {
			// the root analysis by its role: what both execution gates call and test
			p.findingRoot = true
			g := findRootAnalysis(p)
			p.findingRoot = false
			if g != nil {
				if obj, ok := g.Object().(*types.Func); ok {
					canonObj[obj] = name
					idx[name] = obj
					canonNotes = append(canonNotes, "function "+g.Name()+" plays the part of escapeTemplate of the baseline (called and tested by both execution gates)")
				}
				return g
			}
		}
		return nil
	}
	return p.SSA.FuncValue(f)
}

// Pos renders a position relative to the repository root.
func (p *Program) Pos(pos token.Pos) string {
	if !pos.IsValid() {
		return "-"
	}
	ps := p.Fset.Position(pos)
	f := ps.Filename
	if rel, err := filepath.Rel(p.RepoDir, f); err == nil && !strings.HasPrefix(rel, "..") {
		f = rel
	}
	return fmt.Sprintf("%s:%d", f, ps.Line)
}

// FuncDecl finds the syntax of a package-level function or method.
func (p *Program) FuncDecl(rel, recv, name string) (*ast.FuncDecl, *packages.Package) {
	pk := p.Pkg(rel)
	if pk == nil {
		return nil, nil
	}
	for _, f := range pk.Syntax {
		for _, d := range f.Decls {
			fd, ok := d.(*ast.FuncDecl)
			if !ok || fd.Name.Name != name {
				continue
			}
			r := ""
			if fd.Recv != nil && len(fd.Recv.List) == 1 {
				t := fd.Recv.List[0].Type
				if s, ok := t.(*ast.StarExpr); ok {
					t = s.X
				}
				if id, ok := t.(*ast.Ident); ok {
					r = id.Name
				}
			}
			if r == recv {
				return fd, pk
			}
		}
	}
	return nil, pk
}

// PkgVarInit returns the initialiser expression of a package-level variable, looked up by its
// canonical (baseline) name.
func (p *Program) PkgVarInit(rel, name string) (ast.Expr, *packages.Package) {
	pk := p.Pkg(rel)
	if pk == nil {
		return nil, nil
	}
	for _, f := range pk.Syntax {
		for _, d := range f.Decls {
			gd, ok := d.(*ast.GenDecl)
			if !ok || (gd.Tok != token.VAR && gd.Tok != token.CONST) {
				continue
			}
			for _, s := range gd.Specs {
				vs := s.(*ast.ValueSpec)
				for i, n := range vs.Names {
					if canonName(pk.TypesInfo.Defs[n]) == name && i < len(vs.Values) {
						return vs.Values[i], pk
					}
				}
			}
		}
	}
	return nil, pk
}

// rawPkgVarInit looks a variable up by the name it has in the current tree.
func (p *Program) rawPkgVarInit(pk *packages.Package, name string) (ast.Expr, *packages.Package) {
	for _, f := range pk.Syntax {
		for _, d := range f.Decls {
			gd, ok := d.(*ast.GenDecl)
			if !ok || (gd.Tok != token.VAR && gd.Tok != token.CONST) {
				continue
			}
			for _, s := range gd.Specs {
				vs := s.(*ast.ValueSpec)
				for i, n := range vs.Names {
					if n.Name == name && i < len(vs.Values) {
						return vs.Values[i], pk
					}
				}
			}
		}
	}
	return nil, pk
}

// SrcFuncs lists all SSA functions (including anonymous ones) of the
// repository packages that have bodies.
func (p *Program) SrcFuncs() []*ssa.Function {
	var out []*ssa.Function
	seen := map[*ssa.Function]bool{}
	var add func(f *ssa.Function)
	add = func(f *ssa.Function) {
		if f == nil || seen[f] || f.Blocks == nil {
			return
		}
		seen[f] = true
		out = append(out, f)
		for _, a := range f.AnonFuncs {
			add(a)
		}
	}
	var paths []string
	for path := range p.Pkgs {
		paths = append(paths, path)
	}
	sort.Strings(paths)
	for _, path := range paths {
		sp := p.SSAPkgs[path]
		var names []string
		for n := range sp.Members {
			names = append(names, n)
		}
		sort.Strings(names)
		for _, n := range names {
			switch m := sp.Members[n].(type) {
			case *ssa.Function:
				add(m)
			case *ssa.Type:
				for _, T := range []types.Type{m.Type(), types.NewPointer(m.Type())} {
					ms := p.SSA.MethodSets.MethodSet(T)
					for i := 0; i < ms.Len(); i++ {
						f := p.SSA.MethodValue(ms.At(i))
						if f != nil && f.Synthetic == "" {
							add(f)
						}
					}
				}
			}
		}
	}
	return out
}

// wrappedFieldNames: the names of the single string field of the repository's wrapper
// struct types (the safe types), computed from the loaded packages.
var wrappedFieldCache map[*Program]map[string]bool

func (p *Program) isWrappedFieldName(name string) bool {
	if wrappedFieldCache == nil {
		wrappedFieldCache = map[*Program]map[string]bool{}
	}
	m, ok := wrappedFieldCache[p]
	if !ok {
		m = map[string]bool{}
		for _, pk := range p.Pkgs {
			if pk.Types == nil {
				continue
			}
			sc := pk.Types.Scope()
			for _, n := range sc.Names() {
				tn, ok := sc.Lookup(n).(*types.TypeName)
				if !ok {
					continue
				}
				st, ok := tn.Type().Underlying().(*types.Struct)
				if !ok || st.NumFields() != 1 {
					continue
				}
				if b, ok := st.Field(0).Type().Underlying().(*types.Basic); ok && b.Kind() == types.String {
					m[st.Field(0).Name()] = true
				}
			}
		}
		wrappedFieldCache[p] = m
	}
	return m[name]
}
