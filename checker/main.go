package main

import (
	"flag"
	"fmt"
	"os"
	"runtime/debug"
	"runtime/pprof"
	"sort"
	"strconv"
	"strings"
	"time"
)

type ruleFunc func(p *Program, r *Report)

type propDef struct {
	level string
	run   ruleFunc
}

var props = map[string]propDef{}

func register(id, level string, f ruleFunc) { props[id] = propDef{level, f} }

func main() {
	prop := flag.String("p", "", "property id (C01..C20)")
	tier := flag.String("tier", "quick", "quick|thorough")
	list := flag.Bool("list", false, "list implemented properties")
	flag.Parse()
	if *list {
		var ids []string
		for id := range props {
			ids = append(ids, id)
		}
		sort.Strings(ids)
		fmt.Println(strings.Join(ids, " "))
		return
	}
	if t := os.Getenv("VERIF_TIER"); t == "quick" || t == "thorough" {
		*tier = t
	}
	def, ok := props[*prop]
	if !ok {
		fmt.Fprintf(os.Stderr, "unknown property %q\n", *prop)
		os.Exit(2)
	}
	if pf := os.Getenv("VERIF_PROF"); pf != "" {
		f, _ := os.Create(pf)
		pprof.StartCPUProfile(f)
		defer pprof.StopCPUProfile()
		if secs, _ := strconv.Atoi(os.Getenv("VERIF_PROF_SECS")); secs > 0 {
			go func() {
				time.Sleep(time.Duration(secs) * time.Second)
				pprof.StopCPUProfile()
				os.Exit(3)
			}()
		}
	}
	seed, _ := strconv.ParseInt(os.Getenv("VERIF_SEED"), 10, 64)
	code := runProperty(*prop, def, *tier, seed)
	pprof.StopCPUProfile()
	os.Exit(code)
}

// configurations analysed per tier: static verdicts do not get deeper by
// running longer, so thorough repeats the rules under other build targets.
var thoroughTargets = [][2]string{{"linux", "386"}, {"linux", "arm64"}, {"darwin", "amd64"}, {"darwin", "arm64"}, {"freebsd", "amd64"}}

func runProperty(id string, def propDef, tier string, seed int64) (code int) {
	rep := NewReport(id, tier, seed)
	rep.Level = def.level
	targets := [][2]string{{"", ""}}
	if tier == "thorough" {
		targets = append(targets, thoroughTargets...)
	}
	var cfgs []string
	for _, t := range targets {
		name := "default"
		if t[0] != "" {
			name = t[0] + "/" + t[1]
		}
		cfgs = append(cfgs, name)
		func() {
			defer func() {
				if e := recover(); e != nil {
					rep.Undec(id+".internal", "checker-panic["+name+"]", "", fmt.Sprintf("%v\n%s", e, debug.Stack()))
				}
			}()
			p, err := LoadProgram(t[0], t[1], true)
			if err != nil {
				rep.Undec(id+".load", "loader["+name+"]", "", err.Error())
				return
			}
			curProgram = p
			if os.Getenv("VERIF_DUMP_SYMBOLS") != "" {
				if err := dumpSymbols(p, os.Getenv("VERIF_DUMP_SYMBOLS")); err != nil {
					fmt.Println("dump-symbols:", err)
				}
			}
			if len(p.Pkgs) != 9 {
				rep.Undec(id+".load", "loader["+name+"]", "", fmt.Sprintf("expected 9 repository packages, loaded %d", len(p.Pkgs)))
			}
			rep.Analysed["packages["+name+"]"] = len(p.Pkgs)
			rep.Analysed["functions["+name+"]"] = p.NumFuncs
			pre := len(rep.Obls)
			def.run(p, rep)
			if name != "default" {
				for i := pre; i < len(rep.Obls); i++ {
					rep.Obls[i].Detail = "[" + name + "] " + rep.Obls[i].Detail
				}
			}
		}()
	}
	rep.Analysed["build_configurations"] = cfgs
	return rep.Finish()
}
