package main

import (
	"fmt"
	"os"
	"sort"
	"strings"

	"safecheck/relang"

	"golang.org/x/tools/go/ssa"
)

// runC12 first applies the rules that recognise the way URLSetSanitized is written today.
// Rule groups they do not recognise are decided again without reference to the spelling:
// the tokenisation (R1) from the byte sets of the chain of splitter calls, the safety of what
// is written (R2–R4) from the language of the result (L1, L2).
func runC12(p *Program, r *Report) {
	shape := NewReport("C12", r.Tier, r.Seed)
	runC12Shape(p, shape)
	force := os.Getenv("C12_FORCE_LANG") != ""
	failing := func(rep *Report, rules ...string) bool {
		is := map[string]bool{}
		for _, x := range rules {
			is[x] = true
		}
		for _, o := range rep.Obls {
			if is[o.Rule] && o.Status != Discharged {
				return true
			}
		}
		for rule, n := range rep.MinCounts {
			if is[rule] && rep.Counts[rule] < n {
				return true
			}
		}
		return false
	}
	drop := func(rep *Report, rules ...string) {
		is := map[string]bool{}
		for _, x := range rules {
			is[x] = true
		}
		var keep []Obligation
		for _, o := range rep.Obls {
			if !is[o.Rule] {
				keep = append(keep, o)
			}
		}
		rep.Obls = keep
		for _, x := range rules {
			delete(rep.MinCounts, x)
			delete(rep.Counts, x)
		}
	}
	if !reportFails(shape) && !force {
		lang := NewReport("C12", r.Tier, r.Seed)
		c12ByLanguage(p, lang)
		crossCheck(shape, lang)
		mergeReport(r, shape)
		return
	}
	out := shape
	if failing(shape, "C12.R1") || force {
		alt := NewReport("C12", r.Tier, r.Seed)
		if checkTokenChainBySets(p, alt) && !reportFails(alt) {
			drop(out, "C12.R1")
			out.Obls = append(out.Obls, alt.Obls...)
			for k, v := range alt.Counts {
				out.Counts[k] += v
			}
		} else if force {
			for _, o := range alt.Obls {
				fmt.Printf("CHAIN %s %s %s: %s %s\n", o.Status, o.Rule, o.Construct, o.Detail, o.Witness)
			}
		}
	}
	if failing(out, "C12.R2", "C12.R3", "C12.R4", "C12.R5") || force {
		lang := NewReport("C12", r.Tier, r.Seed)
		if c12ByLanguage(p, lang) && !reportFails(lang) {
			drop(out, "C12.R2", "C12.R3", "C12.R4", "C12.R5")
			out.Obls = append(out.Obls, lang.Obls...)
			for k, v := range lang.Counts {
				out.Counts[k] += v
			}
			for k, v := range lang.MinCounts {
				out.MinCounts[k] = v
			}
			out.NotDecided = lang.NotDecided
			out.Explain = shape.Explain + " Where the spelling was not recognised: " + lang.Explain
		} else if force {
			for _, o := range lang.Obls {
				fmt.Printf("LANG %s %s %s: %s %s\n", o.Status, o.Rule, o.Construct, o.Detail, o.Witness)
			}
		}
	}
	mergeReport(r, out)
}

// c12ByLanguage: every string URLSetSanitized can return lies in
//
//	about:invalid#zGoSafez | CAND (sep CAND)*
//	CAND = URL | URL ws+ DESC          sep = ws+ "," ws*  after a URL,  ws* "," ws*  after a DESC
//	URL  = a non-empty string without ASCII whitespace, not starting or ending with ',',
//	       that the URL guard (the function C11 decides) accepts
//	DESC = a non-empty string without ASCII whitespace or ','
//
// which the WHATWG srcset parser splits into exactly these candidates. The language of the
// result is computed from the code: tokens cut out of the input by splitter functions (their
// byte sets taken from the loops and tables), restricted by the conditions under which they
// are written, with leading/trailing bytes cut off only where the byte was tested, written
// through buffers whose emptiness tests are followed. Every descriptor token that is written
// is guarded by the descriptor check (whose body rule R5 decides). The order in which the
// input is tokenised and the continuation after ',' are not decided on this path.
func c12ByLanguage(p *Program, r *Report) bool {
	r.Trusted = []string{"go/types + go/ssa", "the URL guard's language is decided by C11 (same function object)", "strconv.ParseFloat accepts only Go float syntax", "bytes.Buffer / strings.Builder semantics"}
	r.NotDecided = []string{"that the scanner's candidate boundaries coincide with the WHATWG srcset parser for every input", "idempotence of the sanitizer"}
	r.Explain = "Decided from the language of the result: every returned string is the innocuous constant or a sequence of candidates URL [ws DESC] separated by ws+ , ws*, where URL has no ASCII whitespace, neither starts nor ends with a comma and is accepted by the URL guard, and DESC has no whitespace or comma and was accepted by the descriptor check."
	r.Min("C12.L1", 1)
	r.Min("C12.L2", 1)
	r.Min("C12.L3", 1)
	r.Min("C12.R5", 2)
	const cn = "safehtml.URLSetSanitized"
	fn := p.Func("", "URLSetSanitized")
	if fn == nil {
		r.Undec("C12.L1", cn, "", "anchor not found")
		return false
	}
	g := findURLGuard(p, NewReport("C11", "quick", 0), "C11.R1")
	if g == nil {
		r.Undec("C12.L1", cn, "", "URL guard not found")
		return false
	}
	s := NewSummarizer(p, g.Regexes)
	oe := newOutEval(p, s)
	oe.Tokens = true
	s.ExtraTerm = func(v ssa.Value) (Term, bool) {
		if ex, ok := v.(*ssa.Extract); ok {
			return oe.tokenTerm(ex)
		}
		return Term{}, false
	}
	oe.Fidelity = &cutFidelity{Byte: ',', Enc: []string{"%2c", "%2C"}}
	fr := oe.topFrame(fn)
	oe.seedTokens(fr)
	var alts []*lx
	for _, ret := range Returns(fn) {
		alts = append(alts, oe.strLx(ret.Results[0], ret.Block(), fr))
	}
	x := lxAlt(alts...)
	pos := p.Pos(fn.Pos())
	// the URL guard's language on a term of its own
	const guardKey = 900
	s2 := NewSummarizer(p, g.Regexes)
	gf := g.GuardForm(s2, guardKey)
	if u, why := gf.HasUnknown(); u || len(s2.Inexact) > 0 {
		r.Undec("C12.L1", cn+"#result-language", pos, "URL guard not summarisable exactly: "+why)
		return false
	}
	ws := relang.SetOfString("\t\n\f\r ")
	wsComma := relang.SetOfString("\t\n\f\r ,")
	var prepErr error
	d, L, err := oe.Language(x, func(L *Lang) {
		prepErr = registerSumm(L, s2, gf)
		L.AddSet(ws)
		L.AddSet(wsComma)
		L.AddString(specInnocuousURL + ",")
	})
	if err == nil {
		err = prepErr
	}
	if os.Getenv("C12_DEBUG") != "" {
		oe.dumpLx(x, "", map[*lx]bool{})
	}
	if err != nil {
		r.Undec("C12.L1", cn+"#result-language", pos, "the language of the result could not be computed: "+err.Error())
		return false
	}
	if len(oe.Problems) > 0 {
		r.Undec("C12.L1", cn+"#result-language", pos, "the result is built in a way the evaluator cannot follow: "+strings.Join(oe.Problems, "; "))
		return false
	}
	G, amb, err := L.Eval(gf)
	if err != nil || len(amb) > 0 || L.Overapprox {
		r.Undec("C12.L1", cn+"#result-language", pos, fmt.Sprintf("URL guard language not exact: %v %v", err, amb))
		return false
	}
	all := L.All()
	comma := relang.Literal(L.A, ",")
	wsStar := relang.StarOfSet(L.A, ws)
	wsPlus := relang.Minus(wsStar, relang.Literal(L.A, ""))
	noWS := relang.StarOfSet(L.A, ws.Complement())
	noWSComma := relang.Minus(relang.StarOfSet(L.A, wsComma.Complement()), relang.Literal(L.A, ""))
	urlTok := relang.Minus(relang.Minus(relang.Minus(relang.Intersect(G, noWS), relang.Literal(L.A, "")), relang.Concat(comma, all)), relang.Concat(all, comma)).Minimize()
	candT := urlTok
	candTD := relang.Concat(relang.Concat(urlTok, wsPlus), noWSComma).Minimize()
	sepT := relang.Concat(relang.Concat(wsPlus, comma), wsStar)
	sepD := relang.Concat(relang.Concat(wsStar, comma), wsStar)
	body := relang.Star(relang.Union(relang.Concat(candT, sepT), relang.Concat(candTD, sepD)).Minimize())
	spec := relang.Union(relang.Literal(L.A, specInnocuousURL), relang.Concat(body, relang.Union(candT, candTD))).Minimize()
	if os.Getenv("C12_DEBUG") != "" {
		memo := map[*lx]*relang.DFA{}
		seen := map[*lx]bool{}
		var walk func(y *lx)
		walk = func(y *lx) {
			if y == nil || seen[y] {
				return
			}
			seen[y] = true
			if y.Kind == "buf" {
				fmt.Printf("  buf %s: aware=%v pathmode=%v\n", y.Buf.fn.Name(), oe.lenAware(y.Buf), oe.pathModeApplies(y.Buf))
				if dd, err := oe.compile(y, L, map[*lx]*relang.DFA{}); err == nil {
					fmt.Printf("     accepts \"\"=%v \" \"=%v \"a\"=%v \"%%2c\"=%v \" , a\"=%v js=%v\n", dd.Accepts(""), dd.Accepts(" "), dd.Accepts("a"), dd.Accepts("%2c"), dd.Accepts(" , a"), dd.Accepts("javascript:x"))
				}
			}
			if y.Kind == "term" || y.Kind == "cutprefix" || y.Kind == "cutsuffix" {
				if dd, err := oe.compile(y, L, memo); err == nil {
					fmt.Printf("  piece %s: accepts \",\"=%v \"a,\"=%v \",a\"=%v \"\"=%v js=%v\n", trunc(y.String(), 60), dd.Accepts(","), dd.Accepts("a,"), dd.Accepts(",a"), dd.Accepts(""), dd.Accepts("javascript:x"))
				}
			}
			for _, pp := range y.Parts {
				walk(pp)
			}
			if y.Buf != nil {
				for _, ps := range y.Buf.pieces {
					for _, pc := range ps {
						walk(pc.X)
					}
				}
			}
		}
		walk(x)
		for _, w := range []string{" ", " 1", "a 1", "a  1", "a , ", " , a", "a , b 1 , c", ",", "%2c", "a", "a , b", "a,", ",a", "a 1x", "", "a b", "javascript:x", "a , javascript:x", "a,b"} {
			fmt.Printf("  %q: result=%v spec=%v urlTok=%v G=%v\n", w, d.Accepts(w), spec.Accepts(w), urlTok.Accepts(w), G.Accepts(w))
		}
	}
	if ok, w := relang.Subset(d, spec); ok {
		r.OK("C12.L1", cn+"#result-language", pos, "every result "+trunc(x.String(), 300)+" is the innocuous constant or a sequence of candidates URL [ws DESC] separated by ws+ , ws*, with URL accepted by the URL guard, free of whitespace and of leading/trailing commas")
	} else if lxHasAny(x) {
		r.Undec("C12.L1", cn+"#result-language", pos, "part of the result is built in a way the evaluator cannot follow (Σ*): "+trunc(x.String(), 300))
		return false
	} else {
		r.Viol("C12.L1", cn+"#result-language", pos, "a result is possible that is not a sequence of safe image candidates: "+trunc(x.String(), 300), w)
	}
	// L3: the helper that cuts commas off the URL token writes them back encoded, and nothing else
	{
		cf := oe.Fidelity
		cf.evaluate()
		c := cn + "#comma-encoding"
		switch {
		case len(cf.Bad) > 0:
			sort.Strings(cf.Bad)
			r.Viol("C12.L3", c, pos, "the URL that is written is not the URL of the candidate with at most a leading and a trailing comma percent-encoded: "+cf.Bad[0], "")
		case cf.Paths > 0:
			r.OK("C12.L3", c, pos, fmt.Sprintf("on each of the %d paths that write the URL token, a byte is cut off an end only where it was tested to be ',' and \"%%2c\" is written in its place; nothing else is added", cf.Paths))
		case len(cf.Skip) > 0:
			r.Undec("C12.L3", c, pos, cf.Skip[0])
		default:
			r.OK("C12.L3", c, pos, "the URL token is written whole (no helper cuts bytes off it)")
		}
	}
	// L2: tokens that are written without the URL guard's language are descriptors: each is written
	// only where the descriptor check accepted it
	var ids []int
	for id := range oe.termForms {
		ids = append(ids, id)
	}
	sort.Ints(ids)
	checked := map[*ssa.Function]bool{}
	for _, id := range ids {
		if _, isTok := oe.TokenSets[id]; !isTok {
			continue
		}
		f := fOr(oe.termForms[id]...)
		per, _ := splitByParam(f)
		pf := per[id]
		c := fmt.Sprintf("%s#token:%s", cn, oe.PseudoKey[id])
		if pf == nil {
			r.Viol("C12.L2", c, pos, "a token of the input is written without any condition on it", "")
			continue
		}
		A, amb, err := L.Eval(pf)
		if err != nil || len(amb) > 0 {
			r.Undec("C12.L2", c, pos, fmt.Sprintf("conditions not evaluable: %v %v", err, amb))
			continue
		}
		// rename: the guard language is over its own term, the conditions over the token: both are plain
		// languages over the value, so they can be compared directly
		if ok, _ := relang.Subset(A, G); ok {
			r.OK("C12.L2", c, pos, "written only where the URL guard accepts it: "+trunc(pf.String(), 200))
			continue
		}
		// otherwise the descriptor: some non-regular check must hold on every path
		var props []string
		f.Atoms(func(a *LAtom) {
			if a.Kind == "prop" {
				props = append(props, a.Str)
			}
		})
		sort.Strings(props)
		guarded := false
		var guardFn *ssa.Function
		for _, pn := range props {
			pc, ok := s.PropCalls[pn]
			if !ok || len(pc.Args) != 1 || pc.Args[0].Key() != id {
				continue
			}
			L.Props = map[string]bool{pn: false}
			B, amb, err := L.Eval(pf)
			L.Props = nil
			if err == nil && len(amb) == 0 && B.IsEmpty() {
				guarded, guardFn = true, pc.Fn
			}
		}
		if !guarded {
			r.Viol("C12.L2", c, pos, "a token of the input is written although neither the URL guard nor a descriptor check accepted it: "+trunc(pf.String(), 200), "")
			continue
		}
		r.OK("C12.L2", c, pos, "written only where "+fnName(guardFn)+" accepted it")
		if !checked[guardFn] {
			checked[guardFn] = true
			pv := NewProv(p)
			pv.NoInline = true
			checkDescriptorGuard(p, r, pv, guardFn)
		}
	}
	return true
}
