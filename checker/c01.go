package main

import (
	"fmt"
	"go/constant"
	"go/token"
	"go/types"
	"sort"
	"strings"

	"golang.org/x/tools/go/ssa"

	"safecheck/relang"
)

func init() { register("C01", "other", runC01) }

func setOfBytes(s string) *relang.Set { return relang.SetOfString(s) }

func bytesOfSet(s *relang.Set) string {
	var b []byte
	for i := 0; i+1 < len(s.R); i += 2 {
		for c := s.R[i]; c <= s.R[i+1] && c < 256; c++ {
			b = append(b, byte(c))
		}
	}
	return fmt.Sprintf("%q", string(b))
}

const htmlWSBytes = "\t\n\f\r "

// loopByteVar finds the byte s[j] indexed by a loop counter in fn (param idx is the slice).
func loopByteVar(fn *ssa.Function, sliceParam ssa.Value) (ssa.Value, *ssa.BasicBlock) {
	for _, b := range fn.Blocks {
		for _, in := range b.Instrs {
			// s[j] on a []byte is IndexAddr + load
			if u, ok := in.(*ssa.UnOp); ok && u.Op == token.MUL {
				if ia, ok := u.X.(*ssa.IndexAddr); ok && ia.X == sliceParam {
					if _, isPhi := ia.Index.(*ssa.Phi); isPhi {
						return u, b
					}
				}
			}
		}
	}
	return nil, nil
}

func runC01(p *Program, r *Report) {
	r.Trusted = []string{"go/types + go/ssa", "WHATWG tokenizer character sets (DESIGN A.10)", "C10 for HTMLEscaped", "text/template runs the inserted chain in order"}
	r.NotDecided = []string{"that tText/tTag/tAttrName/…/indexTagEnd and the offset arithmetic of escapeText agree with the WHATWG tokenizer for every template text (tokenization equality)"}
	r.Explain = "Eight structural conditions the escaper needs in order to track the browser's tokenizer: total state/delimiter dispatch tables; tokenizer byte sets (whitespace, attribute-name terminators and error bytes, quote switch, unquoted terminators and error bytes, raw-text end-tag separators, letter/digit tests) within bounds derived from the WHATWG tokenizer, extracted as byte decision tables over all 256 bytes; tag/attribute-name and unquoted positions rejected; analysis succeeds only in a text end state without error; context equality and joining cover every field of the context; branches, loop re-entry and template calls are joined under an equality test; every chain for text, RCDATA and attribute values ends in the HTML escaper."
	for _, m := range []struct {
		r string
		n int
	}{{"C01.R1", 12}, {"C01.R2", 9}, {"C01.R3", 4}, {"C01.R4", 1}, {"C01.R5", 12}, {"C01.R6", 6}, {"C01.R7", 8}, {"C01.R8", 1}, {"C01.R9", 7}, {"C01.R10", 2}, {"C01.R11", 1}, {"C01.R12", 15}, {"C01.R13", 1}, {"C01.R14", 3}, {"C01.R15", 5}, {"C01.R16", 3}, {"C01.R17", 1}, {"C01.R18", 1}, {"C01.R19", 3}, {"C01.R20", 1}, {"C01.R21", 1}} {
		r.Min(m.r, m.n)
	}
	checkSpeculativeMerge(p, r, "C01.R9")
	checkNodeDispatchPassThrough(p, r, "C01.R10")
	checkJoinNudge(p, r, "C01.R11")
	checkErrorContextsCanonical(p, r, "C01.R12")
	checkStrayLtRewrite(p, r, "C01.R13")
	checkLtRewriteGate(p, r, "C01.R21")
	tpk := p.Pkg("template")
	pv := NewProv(p)
	pv.NoInline = true
	stObj, dlObj := tpk.Types.Scope().Lookup("state"), tpk.Types.Scope().Lookup("delim")
	if stObj == nil || dlObj == nil {
		r.Undec("C01.R1", "template.state/delim", "", "anchor not found")
		return
	}
	states := ConstNames(tpk, stObj.Type())
	delims := ConstNames(tpk, dlObj.Type())
	// ---- R1 total dispatch tables ------------------------------------------------------------
	if disp, dpos, err := stateDispatch(p); err != nil {
		r.Undec("C01.R1", "template.transitionFunc", "", err.Error())
	} else {
		for _, v := range sortedInt64Keys(states) {
			c := "template.transitionFunc[" + states[v] + "]"
			name := ""
			if disp[v] != nil {
				name = disp[v].Name()
			}
			r.Check(name != "", "C01.R1", c, dpos, "transition function "+name, "state "+states[v]+" has no transition function (nil call for this lexical shape)")
		}
	}
	delimEnd := map[int64]string{}
	if lit, err := p.VarLit("template", "delimEnds"); err != nil {
		r.Undec("C01.R1", "template.delimEnds", "", err.Error())
	} else {
		for i, k := range lit.Keys {
			kv, _ := k.Int()
			s, _ := lit.Vals[i].Str()
			delimEnd[kv] = s
		}
		for _, v := range sortedInt64Keys(delims) {
			if v == 0 {
				continue
			}
			c := "template.delimEnds[" + delims[v] + "]"
			r.Check(delimEnd[v] != "", "C01.R1", c, p.Pos(lit.Pos), fmt.Sprintf("terminators %q", delimEnd[v]), "delimiter "+delims[v]+" has no terminator string")
		}
	}
	// ---- R2 byte sets ---------------------------------------------------------------------------
	W := setOfBytes(htmlWSBytes)
	// eatWhiteSpace
	if fn := p.Func("template", "eatWhiteSpace"); fn == nil {
		r.Undec("C01.R2", "template.eatWhiteSpace", "", "anchor not found")
	} else if bv, blk := loopByteVar(fn, fn.Params[0]); bv == nil {
		r.Undec("C01.R2", "template.eatWhiteSpace", p.Pos(fn.Pos()), "loop byte not found")
	} else {
		lv := decisionTable(blk, dtConfig{Tables: constBoolTables(p, "template"), Var: bv, Dom: byteDomain(), Leaf: func(b *ssa.BasicBlock) (string, bool) {
			if b != blk && b.Dominates(blk) {
				return "", false
			}
			for _, su := range b.Succs {
				if su.Dominates(b) && su.Dominates(blk) && b != blk {
					return "skip", true // back to the loop header
				}
			}
			return "", false
		}})
		skip := effectSet(lv, "skip", nil)
		stop := effectSet(lv, "return", nil)
		ok := skip.Equal(W) && stop.Equal(byteDomain().Minus(W))
		r.Check(ok && len(undecidedLeaves(lv)) == 0, "C01.R2", "template.eatWhiteSpace", p.Pos(fn.Pos()), "skips exactly TAB LF FF CR SPACE", "skipped bytes "+bytesOfSet(skip)+" differ from the HTML whitespace set")
	}
	// eatAttrName
	if fn := p.Func("template", "eatAttrName"); fn == nil {
		r.Undec("C01.R2", "template.eatAttrName", "", "anchor not found")
	} else if bv, blk := loopByteVar(fn, fn.Params[0]); bv == nil {
		r.Undec("C01.R2", "template.eatAttrName", p.Pos(fn.Pos()), "loop byte not found")
	} else {
		lv := decisionTable(blk, dtConfig{Tables: constBoolTables(p, "template"), Var: bv, Dom: byteDomain(), Leaf: func(b *ssa.BasicBlock) (string, bool) {
			if ret, ok := b.Instrs[len(b.Instrs)-1].(*ssa.Return); ok {
				if isNilConst(ret.Results[1]) {
					return "terminator", true
				}
				return "error", true
			}
			for _, su := range b.Succs {
				if su.Dominates(b) && su.Dominates(blk) && b != blk {
					return "name", true
				}
			}
			return "", false
		}})
		term, errs := effectSet(lv, "terminator", nil), effectSet(lv, "error", nil)
		lower := W.Union(setOfBytes("=>"))
		upper := lower.Union(setOfBytes("/"))
		okT := lower.Minus(term).Empty() && term.Minus(upper).Empty()
		okE := setOfBytes("\"'<").Minus(errs).Empty()
		r.Check(okT && len(undecidedLeaves(lv)) == 0, "C01.R2", "template.eatAttrName#terminators", p.Pos(fn.Pos()), "attribute names end at "+bytesOfSet(term)+" (WHATWG: whitespace, '=', '>', optionally '/')", "attribute-name terminators "+bytesOfSet(term)+" are outside the bounds W∪{=,>} ⊆ T ⊆ W∪{=,>,/}")
		r.Check(okE, "C01.R2", "template.eatAttrName#errors", p.Pos(fn.Pos()), "quotes and '<' in an attribute name are errors: "+bytesOfSet(errs), "a quote or '<' inside an attribute name is not rejected (the browser treats it as a parse error and the contexts diverge)")
	}
	// tBeforeValue quote switch
	if fn := p.Func("template", "tBeforeValue"); fn == nil {
		r.Undec("C01.R2", "template.tBeforeValue", "", "anchor not found")
	} else {
		var bv ssa.Value
		var blk *ssa.BasicBlock
		for _, b := range fn.Blocks {
			for _, in := range b.Instrs {
				if u, ok := in.(*ssa.UnOp); ok && u.Op == token.MUL && bv == nil {
					if ia, ok := u.X.(*ssa.IndexAddr); ok && ia.X == ssa.Value(fn.Params[1]) {
						bv, blk = u, b
					}
				}
			}
		}
		var delimPhi *ssa.Phi
		for _, b := range fn.Blocks {
			for _, in := range b.Instrs {
				if ph, ok := in.(*ssa.Phi); ok && ph.Comment == "delim" {
					delimPhi = ph
				}
			}
		}
		if bv == nil || delimPhi == nil {
			r.Undec("C01.R2", "template.tBeforeValue", p.Pos(fn.Pos()), "quote switch not recognised")
		} else {
			lv := decisionTable(blk, dtConfig{Var: bv, Dom: byteDomain(), Leaf: func(b *ssa.BasicBlock) (string, bool) {
				if b == delimPhi.Block() {
					return "delim", true
				}
				return "", false
			}})
			got := map[int64]*relang.Set{}
			for _, l := range lv {
				if l.Effect != "delim" {
					continue
				}
				for i, pr := range delimPhi.Block().Preds {
					if pr == l.From {
						if k, ok := constInt(delimPhi.Edges[i]); ok {
							if got[k] == nil {
								got[k] = &relang.Set{}
							}
							got[k] = got[k].Union(l.Set)
						}
					}
				}
			}
			name := func(n string) int64 {
				for k, v := range delims {
					if v == n {
						return k
					}
				}
				return -1
			}
			ok := got[name("delimDoubleQuote")] != nil && got[name("delimDoubleQuote")].Equal(setOfBytes(`"`)) &&
				got[name("delimSingleQuote")] != nil && got[name("delimSingleQuote")].Equal(setOfBytes(`'`)) &&
				got[name("delimSpaceOrTagEnd")] != nil && got[name("delimSpaceOrTagEnd")].Equal(byteDomain().Minus(setOfBytes(`"'`)))
			r.Check(ok, "C01.R2", "template.tBeforeValue#quote-switch", p.Pos(fn.Pos()), "\" opens a double-quoted, ' a single-quoted value, anything else an unquoted one", "the quote switch does not map \" and ' to the double/single-quoted delimiters")
		}
	}
	// delimEnds
	{
		name := func(n string) int64 {
			for k, v := range delims {
				if v == n {
					return k
				}
			}
			return -1
		}
		dq, sq, un := delimEnd[name("delimDoubleQuote")], delimEnd[name("delimSingleQuote")], delimEnd[name("delimSpaceOrTagEnd")]
		r.Check(dq == `"` && sq == `'`, "C01.R2", "template.delimEnds#quotes", "", "quoted values end at their own quote only", fmt.Sprintf("quoted-value terminators are %q / %q", dq, sq))
		r.Check(setOfBytes(un).Equal(W.Union(setOfBytes(">"))), "C01.R2", "template.delimEnds#unquoted", "", "unquoted values end at whitespace or '>'", fmt.Sprintf("unquoted-value terminators %q differ from W ∪ {>}", un))
	}
	// tagEndSeparators
	if lit, err := p.VarLit("template", "tagEndSeparators"); err != nil {
		r.Undec("C01.R2", "template.tagEndSeparators", "", err.Error())
	} else {
		s, _ := lit.Str()
		need := setOfBytes("> \t\n\f/")
		r.Check(need.Minus(setOfBytes(s)).Empty(), "C01.R2", "template.tagEndSeparators", p.Pos(lit.Pos), fmt.Sprintf("raw-text end tags are recognised before %q (CR is normalised to LF by the browser: observation O3)", s), fmt.Sprintf("end-tag separators %q miss one of > SPACE TAB LF FF /", s))
	}
	// unquoted error set in contextAfterText
	if fn := p.Func("template", "contextAfterText"); fn == nil {
		r.Undec("C01.R2", "template.contextAfterText", "", "anchor not found")
	} else {
		found := false
		for _, c := range callsIn(fn, "bytes.IndexAny") {
			k, ok := constString(c.Common().Args[1])
			if !ok {
				continue
			}
			// the one guarded by delim == delimSpaceOrTagEnd
			isUnq := false
			for _, a := range pv.Atoms(c.Block()) {
				if a.Pol && a.E.Op == "binop" && a.E.Name == "==" && a.E.Args[0].Op == "field" && a.E.Args[0].Name == "delim" {
					isUnq = true
				}
			}
			if !isUnq {
				continue
			}
			found = true
			need := setOfBytes("\"'<=`")
			// a hit must lead to an error context
			errCtx := false
			for _, ref := range *c.Referrers() {
				if bo, ok := ref.(*ssa.BinOp); ok && (bo.Op == token.GEQ || bo.Op == token.NEQ || bo.Op == token.GTR) {
					errCtx = true
				}
			}
			r.Check(need.Minus(setOfBytes(k)).Empty() && errCtx, "C01.R2", "template.contextAfterText#unquoted-errors", p.Pos(c.Pos()), fmt.Sprintf("%q inside an unquoted value is an error", k), fmt.Sprintf("the unquoted-value error set %q misses one of \" ' < = `", k))
		}
		if !found {
			r.Viol("C01.R2", "template.contextAfterText#unquoted-errors", p.Pos(fn.Pos()), "no error check for quote-like bytes inside unquoted attribute values", "")
		}
	}
	// asciiAlpha / asciiAlphaNum
	for name, want := range map[string]*relang.Set{"asciiAlpha": relang.NewSet('A', 'Z', 'a', 'z'), "asciiAlphaNum": relang.NewSet('A', 'Z', 'a', 'z', '0', '9')} {
		fn := p.Func("template", name)
		if fn == nil {
			r.Undec("C01.R2", "template."+name, "", "anchor not found")
			continue
		}
		lv := decisionTable(fn.Blocks[0], dtConfig{Var: fn.Params[0], Dom: byteDomain(), Leaf: func(b *ssa.BasicBlock) (string, bool) { return "", false }})
		got := effectSet(lv, "return:true", nil)
		for _, l := range lv {
			if l.Effect != "return:true" && l.Effect != "return:false" {
				lv = append(lv, dtLeaf{Set: l.Set, Effect: "undecided:non-constant result"})
				break
			}
		}
		r.Check(got.Equal(want) && len(undecidedLeaves(lv)) == 0, "C01.R2", "template."+name, p.Pos(fn.Pos()), "accepts exactly "+want.String(), "accepts "+got.String()+", expected "+want.String())
	}
	// ---- R3 forbidden positions -----------------------------------------------------------------
	checkForbiddenPositions(p, r, "C01.R3")
	// ---- R4 end context ----------------------------------------------------------------------------
	if et := p.Func("template", "escapeTemplate"); et == nil {
		r.Undec("C01.R4", "template.escapeTemplate", "", "anchor not found")
	} else {
		pe := newPathExplorer(p, et)
		pe.Inline = true
		ok := true
		n := 0
		stText := stateConst(p, "stateText")
		for _, pth := range pe.Paths() {
			v, zero, okv := pth.ResultValue(0)
			if !okv || !(zero || isNilConst(v)) {
				continue
			}
			n++
			noErr := pth.HasMatching(func(nm string, val bool) bool {
				return val && strings.HasPrefix(nm, "(== ") && strings.Contains(nm, ".err ") || (val && strings.HasPrefix(nm, "(== ") && strings.Contains(nm, ".err nil"))
			})
			textEnd := pth.HasMatching(func(nm string, val bool) bool {
				return val && strings.HasPrefix(nm, "(== ") && strings.Contains(nm, ".state "+fmt.Sprint(stText))
			})
			if !noErr || !textEnd {
				ok = false
			}
		}
		r.Check(ok && n > 0, "C01.R4", "template.escapeTemplate#end-context", p.Pos(et.Pos()), "analysis succeeds only when the output context has no error and is the text state", "analysis can succeed although the template ends inside a tag, attribute, comment or special element")
	}
	// ---- R5 field completeness ------------------------------------------------------------------------
	checkContextFieldCompleteness(p, r)
	checkContextEqStrict(p, r, "C01.R15")
	checkActionAdvance(p, r, "C01.R16")
	checkRangeReentryAgreement(p, r, "C01.R17")
	checkJoinRecordsValueDisagreement(p, r, "C01.R18")
	checkScannerLoopState(p, r, "C01.R19")
	checkCursorOffsetAgreement(p, r, "C01.R20")
	// ---- R6 joins -----------------------------------------------------------------------------------------
	checkJoins(p, r)
	checkMemoOutput(p, r, "C01.R6")
	// ---- R7 chains end in an escaper --------------------------------------------------------------------------
	if pl, err := loadPolicy(p); err != nil {
		r.Undec("C01.R7", "template#policy", "", err.Error())
	} else {
		checkAttrChainsEscape(p, r, pl, "C01.R7")
		// element content contexts
		used := map[int64]bool{}
		for _, sc := range pl.ElemContent {
			used[sc] = true
		}
		used[pl.SCByName["sanitizationContextHTML"]] = true // plain text outside any element
		for _, sc := range sortedInt64Keys(used) {
			name := pl.SC(sc)
			f := pl.SanitizerFunc(sc)
			c := "element-content-sanitizer[" + name + "]"
			if f == nil {
				r.Viol("C01.R7", c, "", "an element-content context has no sanitizer", "")
				continue
			}
			cls := funcClass(pl, f)
			typed := false
			for _, t := range typedOnlyContexts {
				if t == name {
					typed = true
				}
			}
			r.Check(cls == fnEscape || cls == fnEscapeOrHTML || typed, "C01.R7", c, p.Pos(f.Pos()), "text placed in element content is HTML-escaped (or the context is typed-only): "+cls, "data can be placed in element content without HTML escaping: "+cls)
		}
	}
	// ---- R8 = C10.R1 --------------------------------------------------------------------------------------------
	if fn := p.Func("", "HTMLEscaped"); fn == nil {
		r.Undec("C01.R8", "safehtml.HTMLEscaped", "", "anchor not found")
	} else {
		pv2 := NewProv(p)
		ok := false
		for _, st := range safeStores(fn, modulePath, "HTML") {
			e := pv2.Of(st.Store.Val)
			if calleeIs(e, "html.EscapeString") {
				ok = true
			} else {
				ok = false
				break
			}
		}
		r.Check(ok, "C01.R8", "safehtml.HTMLEscaped", p.Pos(fn.Pos()), "the escaper ends in html.EscapeString (decided in full by C10)", "HTMLEscaped does not end in html.EscapeString")
	}
}

func checkContextFieldCompleteness(p *Program, r *Report) {
	tpk := p.Pkg("template")
	type sdef struct {
		name   string
		prefix string
	}
	touched := map[string]bool{}
	eq := p.Func("template", "context.eq")
	join := p.Func("template", "join")
	if eq == nil || join == nil {
		r.Undec("C01.R5", "template.context.eq/join", "", "anchor not found")
		return
	}
	contextReads(p, eq, 0, "", touched, 0)
	contextReads(p, join, 0, "", touched, -1) // join itself only: helpers such as nudge() do not merge
	for _, sd := range []sdef{{"context", ""}, {"element", "element"}, {"attr", "attr"}} {
		o := tpk.Types.Scope().Lookup(sd.name)
		if o == nil {
			r.Undec("C01.R5", "template."+sd.name, "", "anchor not found")
			continue
		}
		st, ok := o.Type().Underlying().(*types.Struct)
		if !ok {
			r.Undec("C01.R5", "template."+sd.name, p.Pos(o.Pos()), "not a struct")
			continue
		}
		var fields []string
		for i := 0; i < st.NumFields(); i++ {
			fields = append(fields, st.Field(i).Name())
		}
		for _, f := range fields {
			path := join2(sd.prefix, f)
			if sd.name == "context" && (f == "element" || f == "attr") {
				continue // compared field by field below
			}
			c := "template.context#field:" + path
			r.Check(touched[path], "C01.R5", c, p.Pos(o.Pos()), "compared by eq or merged by join", "context field "+path+" is neither compared by eq nor merged by join: two branches that differ only in it are silently joined")
		}
	}
	var ks []string
	for k := range touched {
		ks = append(ks, k)
	}
	sort.Strings(ks)
	r.Analysed["fields_compared_or_merged"] = ks
	// a field that join() merges into its first operand must take the second operand's value into account:
	// a flag accumulated in one branch only (set by an action in the {{else}} branch, by an inner join) is
	// otherwise forgotten at the join
	checkJoinMergesBoth(p, r, "C01.R14", "")
}

// checkJoinRecordsValueDisagreement: join() keeps the static attribute value of one branch; that the branches
// wrote different text must be recorded in a flag, and "different" must mean different as written: the prefix
// validators look at the raw text (a partial character reference at its end, a '#' or '?' spelled as a reference),
// so two spellings that merely decode to the same string are not interchangeable.
func checkJoinRecordsValueDisagreement(p *Program, r *Report, rule string) {
	join := p.Func("template", "join")
	if join == nil {
		r.Undec(rule, "template.join", "", "anchor not found")
		return
	}
	flags := contextFlagStores(join, 0, "value")
	r.Check(len(flags) > 0, rule, "template.join#records-raw-value-disagreement", p.Pos(join.Pos()), fmt.Sprintf("a flag (%v) is set where the two static attribute values differ as written", flags), "join() sets no flag under a direct comparison of the two static attribute values: branches whose values differ only in spelling (\"&amp;#\" and \"&#\") are merged as equal and only the first one is validated — the other can end in a partial character reference that the data completes")
}

// checkJoinMergesBoth: every field (under prefix) that join() assigns in its first operand is read from the second.
func checkJoinMergesBoth(p *Program, r *Report, rule, prefix string) {
	join := p.Func("template", "join")
	if join == nil {
		r.Undec(rule, "template.join", "", "anchor not found")
		return
	}
	readsB := map[string]bool{}
	contextReads(p, join, 1, "", readsB, -1)
	for _, path := range contextFieldStores(join, 0) {
		if !strings.HasPrefix(path, prefix) {
			continue
		}
		c := "template.join#merges-both:" + path
		r.Check(readsB[path], rule, c, p.Pos(join.Pos()), "the merged field takes the value of both operands into account", "join() updates "+path+" of its first operand without reading "+path+" of the second: what only the second branch recorded there is forgotten — "+`<a href="{{if .N}}{{else}}{{if .N}}{{else}}java{{end}}{{end}}{{.Z}}"> and <link rel="icon {{if .C}}{{else}}{{.R}}{{end}}" href="{{.U}}">`)
	}
}

// contextFieldStores: the field paths of parameter #idx (a struct passed by value) that fn assigns.
func contextFieldStores(fn *ssa.Function, idx int) []string {
	prm := fn.Params[idx]
	var roots []ssa.Value
	for _, ref := range *prm.Referrers() {
		if st, ok := ref.(*ssa.Store); ok && st.Val == ssa.Value(prm) {
			roots = append(roots, st.Addr)
		}
	}
	seen := map[string]bool{}
	var visit func(v ssa.Value, path string)
	visit = func(v ssa.Value, path string) {
		for _, ref := range *v.Referrers() {
			switch x := ref.(type) {
			case *ssa.FieldAddr:
				if x.X == v {
					visit(x, join2(path, fieldName(x.X.Type(), x.Field)))
				}
			case *ssa.Store:
				if x.Addr == v && path != "" {
					seen[path] = true
				}
			}
		}
	}
	for _, rt := range roots {
		visit(rt, "")
	}
	var out []string
	for k := range seen {
		out = append(out, k)
	}
	sort.Strings(out)
	return out
}

// underFieldDisagreement: b is entered (within three steps) from a branch that compares two loads of
// a field called name with each other.
func underFieldDisagreement(b *ssa.BasicBlock, name string) bool {
	isLoad := func(v ssa.Value) bool {
		u, ok := v.(*ssa.UnOp)
		if !ok || u.Op != token.MUL {
			return false
		}
		fa, ok := u.X.(*ssa.FieldAddr)
		return ok && fieldName(fa.X.Type(), fa.Field) == name
	}
	seen := map[*ssa.BasicBlock]bool{}
	var walk func(x *ssa.BasicBlock, d int) bool
	walk = func(x *ssa.BasicBlock, d int) bool {
		if d > 3 || seen[x] {
			return false
		}
		seen[x] = true
		for _, pr := range x.Preds {
			if iff, ok := pr.Instrs[len(pr.Instrs)-1].(*ssa.If); ok {
				if bo, ok := iff.Cond.(*ssa.BinOp); ok && (bo.Op == token.NEQ || bo.Op == token.EQL) && isLoad(bo.X) && isLoad(bo.Y) {
					return true
				}
			}
			// only through condition chains, not through merge points
			if len(pr.Preds) == 1 && walk(pr, d+1) {
				return true
			}
		}
		return false
	}
	return walk(b, 0)
}

// contextFlagStores: the bool fields of the idx-th (context) parameter of fn that fn sets to true
// where two loads of the field onField disagree.
func contextFlagStores(fn *ssa.Function, idx int, onField string) []string {
	if idx >= len(fn.Params) {
		return nil
	}
	prm := fn.Params[idx]
	seen := map[string]bool{}
	var visit func(v ssa.Value, path string)
	visit = func(v ssa.Value, path string) {
		for _, ref := range *v.Referrers() {
			switch x := ref.(type) {
			case *ssa.FieldAddr:
				if x.X == v {
					visit(x, join2(path, fieldName(x.X.Type(), x.Field)))
				}
			case *ssa.Store:
				if c, ok := x.Val.(*ssa.Const); ok && x.Addr == v && path != "" && c.Value != nil && c.Value.Kind() == constant.Bool && constant.BoolVal(c.Value) && underFieldDisagreement(x.Block(), onField) {
					seen[path] = true
				}
			}
		}
	}
	for _, ref := range *prm.Referrers() {
		if st, ok := ref.(*ssa.Store); ok && st.Val == ssa.Value(prm) {
			visit(st.Addr, "")
		}
	}
	var out []string
	for k := range seen {
		out = append(out, k)
	}
	sort.Strings(out)
	return out
}

func checkJoins(p *Program, r *Report) {
	stErr := stateConst(p, "stateError")
	isErrAtom := func(nm string) bool {
		return strings.HasPrefix(nm, "(== ") && strings.Contains(nm, ".state "+fmt.Sprint(stErr))
	}
	// join(): every return is guarded
	if fn := p.Func("template", "join"); fn == nil {
		r.Undec("C01.R6", "template.join", "", "anchor not found")
	} else {
		pe := newPathExplorer(p, fn)
		n := 0
		for _, pth := range pe.Paths() {
			ret, isRet := pth.End().(*ssa.Return)
			if !isRet {
				continue
			}
			n++
			c := fmt.Sprintf("template.join#return[%s]", shortPath(pth))
			v := ret.Results[0]
			kind := "other"
			if u, ok := v.(*ssa.UnOp); ok {
				if al, ok := u.X.(*ssa.Alloc); ok {
					// literal error context?
					for _, ref := range *al.Referrers() {
						if fa, ok := ref.(*ssa.FieldAddr); ok && fieldName(fa.X.Type(), fa.Field) == "state" {
							for _, rr := range *fa.Referrers() {
								if st, ok := rr.(*ssa.Store); ok {
									if k, ok := constInt(st.Val); ok && k == stErr {
										kind = "error-literal"
									}
								}
							}
						}
					}
					if st := singleStoreLoose(al); st != nil {
						if cl, ok := st.Val.(*ssa.Call); ok && staticCallee(cl.Common()) == fn {
							kind = "recursive"
						}
					}
				}
			}
			hasEq := pth.HasMatching(func(nm string, val bool) bool {
				// the eq test that leads directly to this return must be the last assumed atom
				return val && strings.Contains(nm, ".eq(")
			})
			// the eq-true atom must be the one guarding this return: it is the last atom on the path
			lastIsEqTrue := len(pth.Order) > 0 && strings.HasPrefix(pth.Order[len(pth.Order)-1], "+") && strings.Contains(pth.Order[len(pth.Order)-1], ".eq(")
			errPass := len(pth.Order) > 0 && strings.HasPrefix(pth.Order[len(pth.Order)-1], "+") && isErrAtom(pth.Order[len(pth.Order)-1][1:])
			recOK := kind == "recursive" && len(pth.Order) > 0 && strings.HasPrefix(pth.Order[len(pth.Order)-1], "-") && isErrAtom(pth.Order[len(pth.Order)-1][1:])
			ok := kind == "error-literal" || (hasEq && lastIsEqTrue) || errPass || recOK
			r.Check(ok, "C01.R6", c, p.Pos(ret.Pos()), "returns an error context, an error operand, the result of a successful recursive join, or a context that just compared equal", "join() returns a context without an equality test: branches ending in different contexts are merged")
		}
		if n == 0 {
			r.Undec("C01.R6", "template.join", p.Pos(fn.Pos()), "no return paths")
		}
	}
	// escapeBranch
	if fn := p.Func("template", "(*escaper).escapeBranch"); fn == nil {
		r.Undec("C01.R6", "template.(*escaper).escapeBranch", "", "anchor not found")
	} else {
		joinFn := p.Func("template", "join")
		joins := callsIn(fn, pkgTemplate+".join")
		var reentry *ssa.Call
		for _, j := range joins {
			arg := j.Common().Args[1]
			// the re-entry context may live in a local (its fields are looked at before the join)
			if u, ok := arg.(*ssa.UnOp); ok {
				if al, ok := u.X.(*ssa.Alloc); ok {
					if st := singleStoreLoose(al); st != nil {
						arg = st.Val
					}
				}
			}
			if ex, ok := arg.(*ssa.Extract); ok {
				if cl, ok := ex.Tuple.(*ssa.Call); ok {
					if g := staticCallee(cl.Common()); g != nil && cname(g) == "escapeListConditionally" {
						reentry = j
					}
				}
			}
		}
		_ = joinFn
		pe := newPathExplorer(p, fn)
		okRet, okRange := true, reentry != nil
		n := 0
		for _, pth := range pe.Paths() {
			ret, isRet := pth.End().(*ssa.Return)
			if !isRet {
				continue
			}
			n++
			v := ret.Results[0]
			if cl, ok := v.(*ssa.Call); ok && staticCallee(cl.Common()) != nil && cname(staticCallee(cl.Common())) == "join" {
				// second operand: escapeList over the else list
				a1, ok := cl.Common().Args[1].(*ssa.Call)
				if !ok || staticCallee(a1.Common()) == nil || cname(staticCallee(a1.Common())) != "escapeList" {
					okRet = false
				}
			} else {
				// error pass-through, or a fresh error context
				if !pth.HasMatching(func(nm string, val bool) bool { return val && isErrAtom(nm) }) && !isErrorContextLiteral(v, stErr) {
					okRet = false
				}
			}
			isRange := pth.HasMatching(func(nm string, val bool) bool { return val && strings.Contains(nm, `"range"`) })
			bodyErr := pth.HasMatching(func(nm string, val bool) bool { return val && isErrAtom(nm) })
			if isRange && !bodyErr && !isErrorContextLiteral(v, stErr) && (reentry == nil || !pth.Passes(reentry)) {
				okRange = false
			}
		}
		r.Check(okRet && n > 0, "C01.R6", "template.(*escaper).escapeBranch#join", p.Pos(fn.Pos()), "returns join(context after the branch, context after the else branch)", "a branch node's output context is not the join of both branches")
		// the second pass starts where the first one ended, not where the loop was entered
		if reentry != nil {
			arg := reentry.Common().Args[1]
			if u, ok := arg.(*ssa.UnOp); ok {
				if al, ok := u.X.(*ssa.Alloc); ok {
					if st := singleStoreLoose(al); st != nil {
						arg = st.Val
					}
				}
			}
			if ex, ok := arg.(*ssa.Extract); ok {
				if cl, ok := ex.Tuple.(*ssa.Call); ok && len(cl.Common().Args) >= 2 {
					start := cl.Common().Args[1]
					fromParam := false
					switch y := start.(type) {
					case *ssa.Parameter:
						fromParam = true
					case *ssa.UnOp:
						if al, ok := y.X.(*ssa.Alloc); ok {
							for _, prm := range fn.Params {
								if allocHoldsParam(al, prm) && singleStoreLoose(al) != nil {
									fromParam = true
								}
							}
						}
					}
					if fromParam {
						okRange = false
					}
				}
			}
		}
		r.Check(okRange, "C01.R6", "template.(*escaper).escapeBranch#range-reentry", p.Pos(fn.Pos()), "for range the body is escaped again from its own output context and joined (loop re-entry)", "a range body is not re-checked from its own output context")
	}
	// computeOutCtx
	if fn := p.Func("template", "(*escaper).computeOutCtx"); fn == nil {
		r.Undec("C01.R6", "template.(*escaper).computeOutCtx", "", "anchor not found")
	} else {
		pe := newPathExplorer(p, fn)
		ok := true
		n := 0
		for _, pth := range pe.Paths() {
			ret, isRet := pth.End().(*ssa.Return)
			if !isRet {
				continue
			}
			n++
			v := pth.Resolve(ret.Results[0])
			isLit := false
			isComplit := func(x ssa.Value) bool {
				if u, okU := x.(*ssa.UnOp); okU {
					if al, okA := u.X.(*ssa.Alloc); okA && strings.Contains(al.Comment, "complit") {
						return true
					}
				}
				return false
			}
			if isComplit(v) {
				isLit = true
			} else if u, okU := v.(*ssa.UnOp); okU {
				// a local that was last assigned the error literal on this path (as a whole, or field by field)
				if al, okA := u.X.(*ssa.Alloc); okA {
					if sv, found := pth.localAt(al, len(pth.Blocks)-1, ssa.Instruction(u), 0); found && isComplit(sv) {
						isLit = true
					}
					for _, st := range storesToField(fn, pkgTemplate, "context", "state") {
						if fa := st.Addr.(*ssa.FieldAddr); fa.X == ssa.Value(al) && pth.Passes(st) {
							if k, okK := constInt(st.Val); okK && k == stErr {
								isLit = true
							}
						}
					}
				}
			}
			okPath := pth.HasMatching(func(nm string, val bool) bool {
				return val && strings.Contains(nm, "escapeTemplateBody(") && strings.Contains(nm, "#1")
			}) || pth.HasMatching(func(nm string, val bool) bool { return val && isErrAtom(nm) })
			if !isLit && !okPath {
				ok = false
			}
		}
		r.Check(ok && n > 0, "C01.R6", "template.(*escaper).computeOutCtx", p.Pos(fn.Pos()), "a called template's output context is used only if its body analysis reported a consistent result (or carries an error)", "the output context of a template call is used although its recursive analysis did not converge")
	}
}

// isErrorContextLiteral: v is a context literal built in place whose state field is the error state.
func isErrorContextLiteral(v ssa.Value, stErr int64) bool {
	u, ok := v.(*ssa.UnOp)
	if !ok {
		return false
	}
	al, ok := u.X.(*ssa.Alloc)
	if !ok {
		return false
	}
	for _, ref := range *al.Referrers() {
		if fa, ok := ref.(*ssa.FieldAddr); ok && fieldName(fa.X.Type(), fa.Field) == "state" {
			for _, rr := range *fa.Referrers() {
				if st, ok := rr.(*ssa.Store); ok {
					if k, ok := constInt(st.Val); ok && k == stErr {
						return true
					}
				}
			}
		}
	}
	return false
}
