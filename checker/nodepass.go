package main

import (
	"fmt"
	"go/types"
	"sort"
	"strings"

	"golang.org/x/tools/go/ssa"
)

// checkNodeDispatchPassThrough: the escaper's node dispatch must either analyse a
// node (hand it to an escaper method, whose result it returns) or reject it (error
// context). A case that returns the incoming context unchanged claims that the node
// neither writes output nor changes which template text is executed next; that holds
// for comment nodes only. {{break}}/{{continue}} leave a loop body early: if they pass
// through, the context computed for the end of the body (closing quote, </script>, …)
// is assumed although the rest of the body was never written.
func checkNodeDispatchPassThrough(p *Program, r *Report, rule string) {
	esc := p.Func("template", "(*escaper).escape")
	if esc == nil || len(esc.Params) < 2 {
		r.Undec(rule, "template.(*escaper).escape", "", "anchor not found")
		return
	}
	ctxParam := esc.Params[1]
	isCtxParam := func(v ssa.Value) bool {
		if v == ssa.Value(ctxParam) {
			return true
		}
		// spilled parameter: load of an alloc whose only store is the parameter
		if u, ok := v.(*ssa.UnOp); ok {
			if al, ok := u.X.(*ssa.Alloc); ok {
				n, okp := 0, false
				for _, ref := range *al.Referrers() {
					if st, ok := ref.(*ssa.Store); ok && st.Addr == ssa.Value(al) {
						n++
						okp = st.Val == ssa.Value(ctxParam)
					}
				}
				return n == 1 && okp
			}
		}
		return false
	}
	n := 0
	for i, ret := range Returns(esc) {
		n++
		c := fmt.Sprintf("template.(*escaper).escape#return%d", i)
		pos := p.Pos(ret.Pos())
		if !isCtxParam(ret.Results[0]) {
			r.OK(rule, c, pos, "returns the result of an analysis or an error context")
			continue
		}
		// node types whose case leads here
		kinds := map[string]bool{}
		for _, b := range esc.Blocks {
			iff, ok := b.Instrs[len(b.Instrs)-1].(*ssa.If)
			if !ok {
				continue
			}
			ex, ok := iff.Cond.(*ssa.Extract)
			if !ok {
				continue
			}
			ta, ok := ex.Tuple.(*ssa.TypeAssert)
			if !ok {
				continue
			}
			if b.Succs[0] == ret.Block() || b.Succs[0].Dominates(ret.Block()) {
				t := ta.AssertedType
				if pt, ok := t.(*types.Pointer); ok {
					t = pt.Elem()
				}
				if nm, ok := t.(*types.Named); ok {
					kinds[nm.Obj().Name()] = true
				} else {
					kinds[t.String()] = true
				}
			}
		}
		var bad []string
		for k := range kinds {
			if k != "CommentNode" {
				bad = append(bad, k)
			}
		}
		sort.Strings(bad)
		switch {
		case len(kinds) == 0:
			r.Viol(rule, c, pos, "node kinds without a case of their own pass through the analysis with the context unchanged instead of being rejected", "")
		case len(bad) > 0:
			r.Viol(rule, c, pos, "nodes of kind "+strings.Join(bad, ", ")+" pass through the analysis with the context unchanged: the escaper assumes the following template text is always written after them", "{{range .}}<a title=\"{{if .Last}}{{break}}{{end}}x\">{{end}}{{.}}")
		default:
			r.OK(rule, c, pos, "only comment nodes pass through unchanged")
		}
	}
	if n == 0 {
		r.Undec(rule, "template.(*escaper).escape", p.Pos(esc.Pos()), "no return found")
	}
}
