package main

import (
	"fmt"
	"go/types"
	"os"
	"strings"

	"golang.org/x/tools/go/ssa"
)

func init() { register("C06", "other", runC06) }

func runC06(p *Program, r *Report) {
	r.Trusted = []string{"go/types + go/ssa", "(*parse.Tree).Copy is a deep copy", "text/template execution is a function of the tree and the data"}
	r.NotDecided = []string{"equality of outputs over call histories (only the structural causes of history dependence below are decided)"}
	r.Explain = "Necessary conditions of history independence: a template is analysed only while escapeErr == nil (once); commit() ends with fresh edit maps and a fresh 'called' set on every path, so edits are applied once; context-specific copies must be derived from a tree that commit() cannot have rewritten yet; the memo key must cover every context field the sanitizer choice reads; parse-tree nodes are rewritten only by commit()/ensurePipelineContains or on objects created in the same function."
	for _, m := range []struct {
		r string
		n int
	}{{"C06.R1", 2}, {"C06.R2", 4}, {"C06.R3", 1}, {"C06.R4", 1}, {"C06.R5", 4}, {"C06.R6", 4}, {"C06.R8", 7}, {"C06.R10", 1}} {
		r.Min(m.r, m.n)
	}
	tsp := p.SSAPkg("template")
	pv := NewProv(p)
	pv.NoInline = true
	// ---- R1 analyse once --------------------------------------------------------------------
	for _, name := range []string{"(*Template).escape", "(*Template).lookupAndEscapeTemplate"} {
		f := p.Func("template", name)
		if f == nil {
			r.Undec("C06.R1", "template."+name, "", "anchor not found")
			continue
		}
		calls := callsIn(f, pkgTemplate+".escapeTemplate")
		if len(calls) == 0 {
			r.Undec("C06.R1", "template."+name, p.Pos(f.Pos()), "no analysis call found")
			continue
		}
		pe := newPathExplorer(p, f)
		pe.Inline = true
		ok := true
		n := 0
		tsSubj := discoverTmplStatus(p)
		if len(calls[0].Common().Args) > 0 {
			tsSubj = tsSubj.withSubject(pe, calls[0].Common().Args[0])
		}
		for _, pth := range pe.Paths() {
			if !pathPassesAny(pth, calls) {
				continue
			}
			if !tsSubj.pathFeasible(pe, pth) {
				continue // the conditions assumed about the template's record contradict each other
			}
			n++
			if ts := tsSubj; !ts.pathImplies(pe, pth, "fresh") {
				ok = false
				if os.Getenv("C06_DEBUG") != "" {
					fmt.Println("C06 path:", pth.String())
					for nm, val := range pth.Atoms {
						av, have := pe.AtomVals[nm]
						fmt.Printf("   atom %s=%v have=%v", nm, val, have)
						if have {
							fmt.Printf(" cond=%s neg=%v fresh=%v ok=%v", av.v, av.neg, ts.atomConsistent(av, val, ts.fresh), ts.atomConsistent(av, val, ts.ok))
							for _, fv := range ts.fails {
								fmt.Printf(" fail=%v", ts.atomConsistent(av, val, fv))
							}
						}
						fmt.Println()
					}
				}
			}
		}
		r.Check(ok && n > 0, "C06.R1", "template."+name+"#analyse-once", p.Pos(calls[0].Pos()), "the analysis runs only on paths where escapeErr == nil (never for a template already analysed or failed)", "a template can be analysed (and its tree rewritten) again although escapeErr is already set")
	}
	// ---- R2 commit resets ------------------------------------------------------------------------
	commit := p.Func("template", "(*escaper).commit")
	if commit == nil {
		r.Undec("C06.R2", "template.(*escaper).commit", "", "anchor not found")
	} else {
		pe := newPathExplorer(p, commit)
		paths := pe.Paths()
		// helpers called by commit that reset maps on all their paths
		helperResets := map[*ssa.Call]map[string]bool{}
		for _, b := range commit.Blocks {
			for _, in := range b.Instrs {
				if c, ok := in.(*ssa.Call); ok {
					if g := staticCallee(c.Common()); g != nil && g.Pkg == commit.Pkg && g != commit {
						if rs := resetsOnAllPaths(p, g); len(rs) > 0 {
							helperResets[c] = rs
						}
					}
				}
			}
		}
		for _, field := range []string{"called", "actionNodeEdits", "templateNodeEdits", "textNodeEdits"} {
			var resets []ssa.Instruction
			for _, st := range freshMapStores(commit, field) {
				resets = append(resets, st)
			}
			for c, rs := range helperResets {
				if rs[field] {
					resets = append(resets, c)
				}
			}
			ok := len(resets) > 0
			n := 0
			for _, pth := range paths {
				if _, isRet := pth.End().(*ssa.Return); !isRet {
					continue
				}
				n++
				if !pathPassesAny(pth, resets) {
					ok = false
				}
			}
			r.Check(ok && n > 0, "C06.R2", "template.(*escaper).commit#reset:"+field, p.Pos(commit.Pos()), "every return of commit() has replaced "+field+" by a fresh map", "commit() can return without clearing "+field+": the same edits are applied again by the next commit (a second sanitizer on every earlier action)")
		}
	}
	// ---- R3 derivation from an unrewritten tree ------------------------------------------------------
	et := p.Func("template", "(*escaper).escapeTree")
	if et == nil {
		r.Undec("C06.R3", "template.(*escaper).escapeTree", "", "anchor not found")
	} else {
		copies := callsIn(et, "(*text/template/parse.Tree).Copy")
		if len(copies) == 0 {
			r.Undec("C06.R3", "template.(*escaper).escapeTree#derive", p.Pos(et.Pos()), "no tree copy found")
		}
		for _, cp := range copies {
			src := pv.Of(cp.Common().Args[0])
			c := "template.(*escaper).escapeTree#derived-copy-source"
			pos := p.Pos(cp.Pos())
			liveTree := src.Op == "field" && src.Name == "Tree" && len(src.Args) == 1 && src.Args[0].Op == "call" && src.Args[0].Fn != nil && src.Args[0].Fn == findEscaperTemplateLookup(p)
			if !liveTree {
				r.OK("C06.R3", c, pos, "the copy is not taken from the live tree of a template of the set: "+src.String())
				continue
			}
			// accepted idiom: a dominating test that the source template has not been analysed yet
			ts := discoverTmplStatus(p)
			notCommitted := allPathsGuard(pv, cp.Block(), func(a Atom) bool {
				v, pol := atomCond(a)
				return v != nil && ts.condExcludes(v, pol, "ok")
			}, 0)
			if notCommitted {
				r.OK("C06.R3", c, pos, "copied only while the source template has not been analysed (its tree is still as parsed)")
			} else {
				r.Viol("C06.R3", c, pos, "a context-specific copy is made from the live tree of the base template, which an earlier commit() may already have rewritten: the copy inherits the sanitizers inserted for the base context and gets its own on top",
					`{{define "h"}}{{.}}{{end}}{{define "page"}}<a title="{{template "h" .}}">x</a>{{end}}: execute "h", then "page" with "<" → &amp;lt; (a fresh set gives &lt;)`)
			}
		}
	}
	// ---- R6 memo discipline --------------------------------------------------------------------------------
	checkMemoDiscipline(p, r, "C06.R6")
	checkChainAppendedUnconditionally(p, r, "C06.R10")
	checkMemoOutput(p, r, "C06.R7")
	checkSpeculativeMerge(p, r, "C06.R8")
	// ---- R4 memo key -------------------------------------------------------------------------------------
	checkMemoKey(p, r, "C06.R4")
	checkMemoKeyConditional(p, r, "C06.R4")
	// ---- R5 who may rewrite nodes --------------------------------------------------------------------------
	allowed := map[string]bool{"commit": true, "ensurePipelineContains": true}
	// an unexported helper all of whose callers are allowed is allowed as well (commit split into steps)
	for round := 0; round < 3; round++ {
		for _, h := range p.SrcFuncs() {
			if h.Pkg != tsp || h.Object() == nil || h.Object().Exported() || allowed[cname(h)] {
				continue
			}
			n, all := 0, true
			for _, f := range p.SrcFuncs() {
				if f.Pkg != tsp {
					continue
				}
				for _, b := range f.Blocks {
					for _, in := range b.Instrs {
						if cl, ok := in.(*ssa.Call); ok && staticCallee(cl.Common()) == h {
							n++
							if !allowed[cname(f)] {
								all = false
							}
						}
					}
				}
			}
			if n > 0 && all {
				allowed[cname(h)] = true
			}
		}
	}
	for _, f := range p.SrcFuncs() {
		if f.Pkg != tsp && !(f.Parent() != nil && f.Parent().Pkg == tsp) {
			continue
		}
		for _, b := range f.Blocks {
			for _, in := range b.Instrs {
				st, ok := in.(*ssa.Store)
				if !ok {
					continue
				}
				fa, ok := st.Addr.(*ssa.FieldAddr)
				if !ok {
					continue
				}
				t := fa.X.Type()
				if pt, ok := t.Underlying().(*types.Pointer); ok {
					t = pt.Elem()
				}
				n, ok := t.(*types.Named)
				if !ok || n.Obj().Pkg() == nil || n.Obj().Pkg().Path() != "text/template/parse" || !strings.HasSuffix(n.Obj().Name(), "Node") && n.Obj().Name() != "Tree" {
					continue
				}
				field := n.Obj().Name() + "." + fieldName(fa.X.Type(), fa.Field)
				c := fmt.Sprintf("%s#node-write:%s", strings.TrimPrefix(fnName(f), pkgTemplate+"."), field)
				fresh := false
				switch bx := fa.X.(type) {
				case *ssa.Alloc:
					fresh = true
				case *ssa.Call:
					if g := staticCallee(bx.Common()); g != nil && (strings.HasPrefix(g.Name(), "New") || g.Name() == "Copy") {
						fresh = true
					}
				case *ssa.UnOp:
					if fa2, ok := bx.X.(*ssa.FieldAddr); ok {
						if c2, ok := fa2.X.(*ssa.Call); ok {
							if g := staticCallee(c2.Common()); g != nil && strings.HasPrefix(g.Name(), "New") {
								fresh = true // dt.Tree.Name on the fresh derived template
							}
						}
					}
				}
				r.Check(fresh || allowed[cname(f)], "C06.R5", c, p.Pos(st.Pos()), "parse nodes are rewritten only by commit()/ensurePipelineContains or on objects created in the same function", "a parse-tree node of a template is modified outside commit(): the rewrite is not tied to the once-only analysis")
			}
		}
	}
}
