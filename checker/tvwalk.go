package main

// A small three-valued path walker: the acyclic paths of one function are followed from a start block, branch
// conditions are evaluated under a rule's assumptions (true / false / unknown — unknown follows both ways), and
// the rule keeps a per-path state that it updates at instructions and inspects at returns. Nothing is run; it
// is a refinement of "on every path" that ignores the branches the assumptions exclude.

import (
	"go/constant"
	"go/token"
	"go/types"

	"golang.org/x/tools/go/ssa"
)

type tv int

const (
	tvUnknown tv = iota
	tvTrue
	tvFalse
)

func tvOf(b bool) tv {
	if b {
		return tvTrue
	}
	return tvFalse
}

func (t tv) not() tv {
	switch t {
	case tvTrue:
		return tvFalse
	case tvFalse:
		return tvTrue
	}
	return tvUnknown
}

type tvWalk struct {
	// Leaf: the value of v under the assumptions (for values the walker does not compute itself).
	Leaf func(v ssa.Value) tv
	// Step: called for every instruction on the path, in order; st is this path's state.
	Step func(in ssa.Instruction, st map[string]bool, val func(ssa.Value) tv)
	// Branch: called when the path takes a branch whose condition the assumptions do not decide.
	Branch func(iff *ssa.If, taken bool, st map[string]bool)
	// Ret: called at every return the paths reach.
	Ret func(ret *ssa.Return, st map[string]bool, val func(ssa.Value) tv)
	// From: while Step runs, the block the path entered the current block from (to resolve phis)
	From   *ssa.BasicBlock
	Visits int // how often a path may enter the same block (default 1: acyclic; 3 follows a loop twice)
	Limit  int
	Over   bool
	paths  int
}

// pathAddrRoot: the root value and the dotted field path of an address built from FieldAddr steps.
func pathAddrRoot(addr ssa.Value) (ssa.Value, string) {
	path := ""
	for {
		fa, ok := addr.(*ssa.FieldAddr)
		if !ok {
			return addr, path
		}
		if path == "" {
			path = fieldName(fa.X.Type(), fa.Field)
		} else {
			path = fieldName(fa.X.Type(), fa.Field) + "." + path
		}
		addr = fa.X
	}
}

// loadPath: v is a load (through FieldAddr steps, or Field steps of a loaded struct) of a field path of a root.
func loadPath(v ssa.Value) (ssa.Value, string, bool) {
	switch x := v.(type) {
	case *ssa.UnOp:
		if x.Op != token.MUL {
			return nil, "", false
		}
		root, path := pathAddrRoot(x.X)
		return root, path, true
	case *ssa.Field:
		root, path, ok := loadPath(x.X)
		if !ok {
			return nil, "", false
		}
		return root, join2(path, fieldName(x.X.Type(), x.Field)), true
	}
	return nil, "", false
}

func (w *tvWalk) run(start *ssa.BasicBlock, init map[string]bool) {
	if w.Limit == 0 {
		w.Limit = 20000
	}
	if w.Visits == 0 {
		w.Visits = 1
	}
	onPath := map[*ssa.BasicBlock]int{}
	var walk func(b, from *ssa.BasicBlock, st map[string]bool, env map[ssa.Value]tv)
	walk = func(b, from *ssa.BasicBlock, st map[string]bool, env0 map[ssa.Value]tv) {
		if w.Over || onPath[b] >= w.Visits {
			return
		}
		onPath[b]++
		defer func() { onPath[b]-- }()
		cur := map[string]bool{}
		for k, v := range st {
			cur[k] = v
		}
		env := map[ssa.Value]tv{}
		for k, v := range env0 {
			env[k] = v
		}
		val := func(v ssa.Value) tv {
			if x, ok := v.(*ssa.Const); ok {
				if x.Value != nil && x.Value.Kind() == constant.Bool {
					return tvOf(constant.BoolVal(x.Value))
				}
				return tvUnknown
			}
			if t, ok := env[v]; ok {
				return t
			}
			return w.Leaf(v)
		}
		// the phis of the block take their values together, from the values of the edge taken
		phis := map[*ssa.Phi]tv{}
		for _, in := range b.Instrs {
			x, ok := in.(*ssa.Phi)
			if !ok {
				break
			}
			t := tvUnknown
			for i, p := range b.Preds {
				if p == from {
					t = val(x.Edges[i])
				}
			}
			phis[x] = t
		}
		for x, t := range phis {
			env[x] = t
		}
		for _, in := range b.Instrs {
			w.From = from
			// the boolean values this walker computes itself, at the moment they are executed
			if v, ok := in.(ssa.Value); ok {
				if _, isPhi := in.(*ssa.Phi); !isPhi {
					delete(env, v) // a value of an earlier turn of a loop
				}
			}
			switch x := in.(type) {
			case *ssa.UnOp:
				if x.Op == token.NOT {
					env[x] = val(x.X).not()
				} else if t := w.Leaf(x); t != tvUnknown {
					env[x] = t
				}
			case *ssa.BinOp:
				t := w.Leaf(x)
				if t == tvUnknown && (x.Op == token.EQL || x.Op == token.NEQ) {
					if bt, ok := x.X.Type().Underlying().(*types.Basic); ok && bt.Info()&types.IsBoolean != 0 {
						a, c := val(x.X), val(x.Y)
						if a != tvUnknown && c != tvUnknown {
							t = tvOf((a == c) == (x.Op == token.EQL))
						}
					}
				}
				if t != tvUnknown {
					env[x] = t
				}
			}
			if w.Step != nil {
				w.Step(in, cur, val)
			}
			switch x := in.(type) {
			case *ssa.Return:
				w.paths++
				if w.paths > w.Limit {
					w.Over = true
					return
				}
				if w.Ret != nil {
					w.Ret(x, cur, val)
				}
				return
			case *ssa.If:
				switch val(x.Cond) {
				case tvTrue:
					walk(b.Succs[0], b, cur, env)
				case tvFalse:
					walk(b.Succs[1], b, cur, env)
				default:
					for i, taken := range []bool{true, false} {
						st2 := cur
						if w.Branch != nil {
							st2 = map[string]bool{}
							for k, v := range cur {
								st2[k] = v
							}
							w.Branch(x, taken, st2)
						}
						env2 := map[ssa.Value]tv{}
						for k, v := range env {
							env2[k] = v
						}
						env2[x.Cond] = tvOf(taken)
						walk(b.Succs[i], b, st2, env2)
					}
				}
				return
			case *ssa.Jump:
				walk(b.Succs[0], b, cur, env)
				return
			case *ssa.Panic:
				return
			}
		}
	}
	walk(start, nil, init, nil)
}
