package main

import (
	"fmt"
	"go/token"
	"go/types"
	"sort"
	"strings"
	"unicode"

	"golang.org/x/tools/go/ssa"

	"safecheck/relang"
)

func init() {
	register("C15", "other", func(p *Program, r *Report) {
		runC15(p, r)
		checkBoundsProven(p, r, "C15.B1", "style.go")
		checkLoopsMakeProgress(p, r, "C15.B2", "style.go")
	})
}

// documented alphabets (StyleProperties doc comments + statement), DESIGN A.7
const (
	specDocRegClass  = `^[0-9A-Za-z \t+\-.!#%_/*]*$`
	specDocRegBad    = `//|/\*|\*/`
	specDocEnum      = `^[A-Za-z\-]*$`
	specCSSIdent     = `^[A-Za-z][\-A-Za-z]*$`
	specInnocuousCSS = "zGoSafezInvalidPropertyValue"
)

// emission is one write to the output buffer.
type emission struct {
	Call   *ssa.Call
	Kind   string // lit | fmt | dyn
	Lit    string
	Pieces []string // fmt: literal pieces
	Verbs  []string
	Args   []ssa.Value // fmt args (interfaces stripped) / dyn value
}

// bufferEmissions lists, in program order, the writes into local buffer buf.
// foldHexLookups rewrites the hand-written two-digit hex escape
//
//	b.WriteByte(hexdigits[c>>4]); b.WriteByte(hexdigits[c&15])
//
// (hexdigits a constant "0123456789abcdef" or its upper-case form), optionally preceded by a literal
// write in the same block, as the equivalent Fprintf emission with verb %02x / %02X on c.
func foldHexLookups(ems []emission) []emission {
	nibble := func(e emission) (v ssa.Value, hi bool, upper bool, ok bool) {
		if e.Kind != "dyn" || len(e.Args) != 1 {
			return nil, false, false, false
		}
		ix, isIx := e.Args[0].(*ssa.Index)
		if !isIx {
			return nil, false, false, false
		}
		k, isK := constString(ix.X)
		if !isK || (k != "0123456789abcdef" && k != "0123456789ABCDEF") {
			return nil, false, false, false
		}
		idx := ix.Index
		if cv, isC := idx.(*ssa.Convert); isC {
			idx = cv.X
		}
		bo, isBo := idx.(*ssa.BinOp)
		if !isBo {
			return nil, false, false, false
		}
		kv, isKv := constInt(bo.Y)
		if !isKv {
			return nil, false, false, false
		}
		switch {
		case bo.Op == token.SHR && kv == 4:
			return bo.X, true, k[10] == 'A', true
		case bo.Op == token.AND && kv == 15:
			return bo.X, false, k[10] == 'A', true
		}
		return nil, false, false, false
	}
	var out []emission
	for i := 0; i < len(ems); i++ {
		if i+1 < len(ems) && ems[i].Call.Block() == ems[i+1].Call.Block() {
			v1, hi1, up1, ok1 := nibble(ems[i])
			v2, hi2, up2, ok2 := nibble(ems[i+1])
			if ok1 && ok2 && hi1 && !hi2 && v1 == v2 && up1 == up2 {
				verb := "%02x"
				if up1 {
					verb = "%02X"
				}
				e := emission{Call: ems[i].Call, Kind: "fmt", Pieces: []string{"", ""}, Verbs: []string{verb}, Args: []ssa.Value{v1}}
				if n := len(out); n > 0 && out[n-1].Kind == "lit" && out[n-1].Call.Block() == ems[i].Call.Block() {
					e.Pieces[0] = out[n-1].Lit
					e.Call = out[n-1].Call
					out = out[:n-1]
				}
				out = append(out, e)
				i++
				continue
			}
		}
		out = append(out, ems[i])
	}
	return out
}

func bufferEmissions(fn *ssa.Function, buf ssa.Value) (ems []emission, problems []string) {
	defer func() { ems = foldHexLookups(ems) }()
	isBuf := func(v ssa.Value) bool {
		if v == buf {
			return true
		}
		if m, ok := v.(*ssa.MakeInterface); ok && m.X == buf {
			return true
		}
		return false
	}
	for _, b := range fn.Blocks {
		for _, in := range b.Instrs {
			call, ok := in.(*ssa.Call)
			if !ok {
				// other uses of the buffer
				for _, op := range in.Operands(nil) {
					if *op == buf {
						switch in.(type) {
						case *ssa.MakeInterface, *ssa.DebugRef:
						default:
							problems = append(problems, "buffer used by "+in.String())
						}
					}
				}
				continue
			}
			args := call.Common().Args
			uses := false
			for _, a := range args {
				if isBuf(a) {
					uses = true
				}
			}
			if !uses {
				continue
			}
			name := "<dynamic>"
			if f := staticCallee(call.Common()); f != nil {
				name = fnName(f)
			}
			switch name {
			case "(*bytes.Buffer).WriteString":
				if k, ok := constString(args[1]); ok {
					ems = append(ems, emission{Call: call, Kind: "lit", Lit: k})
				} else {
					ems = append(ems, emission{Call: call, Kind: "dyn", Args: []ssa.Value{args[1]}})
				}
			case "(*bytes.Buffer).WriteByte", "(*bytes.Buffer).WriteRune":
				if k, ok := constInt(args[1]); ok {
					ems = append(ems, emission{Call: call, Kind: "lit", Lit: string(rune(k))})
				} else {
					ems = append(ems, emission{Call: call, Kind: "dyn", Args: []ssa.Value{args[1]}})
				}
			case "fmt.Fprintf":
				format, okf := constString(args[1])
				va, oka := variadicArgs(args[2])
				if !okf || !oka {
					problems = append(problems, "Fprintf with non-constant format or argument list")
					continue
				}
				e := emission{Call: call, Kind: "fmt"}
				e.Pieces, e.Verbs = parseFormat(format)
				for _, a := range va {
					e.Args = append(e.Args, unIface(a))
				}
				if len(e.Verbs) != len(e.Args) {
					problems = append(problems, fmt.Sprintf("format %q has %d verbs for %d arguments", format, len(e.Verbs), len(e.Args)))
				}
				ems = append(ems, e)
			case "(*bytes.Buffer).String", "(*bytes.Buffer).Len", "(*bytes.Buffer).Grow":
			default:
				problems = append(problems, "buffer passed to "+name)
			}
		}
	}
	ord := emissionOrder(fn)
	sort.SliceStable(ems, func(i, j int) bool {
		a, b := ems[i].Call, ems[j].Call
		if a.Block() == b.Block() {
			return before(a, b)
		}
		return ord[a.Block()] < ord[b.Block()]
	})
	return
}

// emissionOrder numbers blocks in a reverse postorder that ignores back edges
// and places a loop's body before its exit (textual order of emission).
func emissionOrder(fn *ssa.Function) map[*ssa.BasicBlock]int {
	seen := map[*ssa.BasicBlock]bool{}
	var post []*ssa.BasicBlock
	var dfs func(b *ssa.BasicBlock)
	dfs = func(b *ssa.BasicBlock) {
		seen[b] = true
		for i := len(b.Succs) - 1; i >= 0; i-- {
			s := b.Succs[i]
			if !seen[s] && !s.Dominates(b) {
				dfs(s)
			}
		}
		post = append(post, b)
	}
	dfs(fn.Blocks[0])
	ord := map[*ssa.BasicBlock]int{}
	for i, b := range post {
		ord[b] = len(post) - i
	}
	return ord
}

func hyphenate(field string) string {
	var b strings.Builder
	for i, r := range field {
		if unicode.IsUpper(r) {
			if i > 0 {
				b.WriteByte('-')
			}
			b.WriteRune(unicode.ToLower(r))
		} else {
			b.WriteRune(r)
		}
	}
	return b.String()
}

func runC15Shape(p *Program, r *Report) {
	engineConsistency(p, r, "C15.E", func(n string) bool { return strings.Contains(n, "safehtml.") })

	r.Trusted = []string{"go/types + go/ssa", "fmt %s copies a string operand verbatim; %06X prints at least six upper-case hex digits", "CSS Syntax 3 (paper): a value over the documented alphabet, a double-quoted string without raw \" \\ newline, and the constant frames tokenize to one declaration per group and contain no '<'"}
	r.NotDecided = []string{"the CSS-parser-level reading of the result (follows on paper from the decided alphabets and frames)"}
	r.Explain = "Inventories every write into StyleFromProperties' buffer, groups them by the StyleProperties field whose non-emptiness guards them, and checks: one group per field in declaration order, documented property name, constant frame, dynamic part only through filter(field, pattern) / cssEscapeString(URLSanitized(·)) / identifier-guarded raw names; the value patterns' languages are included in the documented alphabets (automata over all Unicode); cssEscapeString's rune decision table excludes the CSS string metacharacters."
	for _, m := range []struct {
		r string
		n int
	}{{"C15.R1", 17}, {"C15.R2", 4}, {"C15.R3", 3}, {"C15.R4", 1}, {"C15.R5", 2}} {
		r.Min(m.r, m.n)
	}
	const cn = "safehtml.StyleFromProperties"
	fn := p.Func("", "StyleFromProperties")
	if fn == nil {
		r.Undec("C15.R1", cn, "", "anchor not found")
		return
	}
	pv := NewProv(p)
	pv.NoInline = true
	regs, _ := p.AllRegexes()
	// result = buf.String()
	stores := safeStores(fn, modulePath, "Style")
	if len(stores) != 1 {
		r.Undec("C15.R1", cn+"#result", p.Pos(fn.Pos()), fmt.Sprintf("expected one construction, found %d", len(stores)))
		return
	}
	res, _ := stores[0].Store.Val.(*ssa.Call)
	if res == nil || staticCallee(res.Common()) == nil || fnName(staticCallee(res.Common())) != "(*bytes.Buffer).String" {
		r.Viol("C15.R1", cn+"#result", p.Pos(stores[0].Store.Pos()), "result is not the buffer's contents", "")
		return
	}
	buf := res.Common().Args[0]
	ems, probs := bufferEmissions(fn, buf)
	for _, pr := range probs {
		r.Undec("C15.R1", cn+"#buffer", p.Pos(fn.Pos()), pr)
	}
	// struct fields
	propsT, _ := fn.Params[0].Type().Underlying().(*types.Struct)
	if propsT == nil {
		r.Undec("C15.R1", cn, p.Pos(fn.Pos()), "parameter is not a struct")
		return
	}
	// group emissions by guarding field
	fieldOf := func(b *ssa.BasicBlock) string {
		for _, a := range pv.Atoms(b) {
			name := ""
			a.E.Walk(func(e *Expr) bool {
				if e.Op == "field" && len(e.Args) == 1 && e.Args[0].Op == "param" && e.Args[0].Idx == 0 && name == "" {
					name = e.Name
				}
				return true
			})
			if name == "" {
				continue
			}
			// the guard must mean "field non-empty"
			e := a.E
			nonEmpty := false
			if !a.Pol && e.Op == "binop" && e.Name == "==" {
				if k, ok := e.Args[1].IsConstString(); ok && k == "" && e.Args[0].Op == "field" {
					nonEmpty = true
				}
				if e.Args[0].Op == "call" && e.Args[0].Name == "builtin:len" && e.Args[1].Op == "const" && e.Args[1].Const != nil && e.Args[1].Const.ExactString() == "0" {
					nonEmpty = true
				}
			}
			if a.Pol && e.Op == "binop" && e.Name == ">" && e.Args[0].Op == "call" && e.Args[0].Name == "builtin:len" && e.Args[1].Op == "const" && e.Args[1].Const.ExactString() == "0" {
				nonEmpty = true
			}
			if nonEmpty {
				return name
			}
			return "?" + name
		}
		return ""
	}
	groups := map[string][]emission{}
	var order []string
	for _, e := range ems {
		f := fieldOf(e.Call.Block())
		if f == "" || strings.HasPrefix(f, "?") {
			r.Viol("C15.R1", cn+"#unguarded-write", p.Pos(e.Call.Pos()), "a write is not guarded by the non-emptiness of a StyleProperties field ("+f+")", "")
			continue
		}
		if _, ok := groups[f]; !ok {
			order = append(order, f)
		}
		groups[f] = append(groups[f], e)
	}
	// declaration order
	var declared []string
	for i := 0; i < propsT.NumFields(); i++ {
		declared = append(declared, propsT.Field(i).Name())
	}
	orderOK := len(order) == len(declared)
	for i := range order {
		if orderOK && order[i] != declared[i] {
			orderOK = false
		}
	}
	// groups must be contiguous: emissions of one group not interleaved
	last := ""
	closed := map[string]bool{}
	for _, e := range ems {
		f := fieldOf(e.Call.Block())
		if f != last {
			if closed[f] {
				orderOK = false
			}
			if last != "" {
				closed[last] = true
			}
			last = f
		}
	}
	r.Check(orderOK, "C15.R1", cn+"#order", p.Pos(fn.Pos()), fmt.Sprintf("one contiguous group per field, in declaration order: %v", order), fmt.Sprintf("groups %v do not follow the declared fields %v one-to-one", order, declared))

	filterFn, filterOK := checkFilterShape(p, r, pv)
	usedPatterns := map[string][]string{} // pattern -> fields
	var escFn *ssa.Function
	for i := 0; i < propsT.NumFields(); i++ {
		fld := propsT.Field(i)
		name := fld.Name()
		c := cn + "#field:" + name
		g := groups[name]
		if len(g) == 0 {
			r.Viol("C15.R1", c, p.Pos(fld.Pos()), "field is never emitted", "")
			continue
		}
		pos := p.Pos(g[0].Call.Pos())
		css := hyphenate(name)
		if name == "BackgroundImageURLs" {
			css = "background-image"
		}
		// concatenate the group's literal skeleton, dynamic parts as \x00
		var skel strings.Builder
		var dyn []ssa.Value
		for _, e := range g {
			switch e.Kind {
			case "lit":
				skel.WriteString(e.Lit)
			case "dyn":
				skel.WriteByte(0)
				dyn = append(dyn, e.Args[0])
			case "fmt":
				for j, pc := range e.Pieces {
					skel.WriteString(pc)
					if j < len(e.Verbs) {
						if e.Verbs[j] != "%s" {
							r.Viol("C15.R1", c+"#verb", p.Pos(e.Call.Pos()), "verb "+e.Verbs[j]+" used for a value", "")
						}
						skel.WriteByte(0)
						if j < len(e.Args) {
							dyn = append(dyn, e.Args[j])
						}
					}
				}
			}
		}
		sk := skel.String()
		if isStringish(fld.Type()) {
			want := css + ":\x00;"
			if sk != want || len(dyn) != 1 {
				r.Viol("C15.R1", c, pos, fmt.Sprintf("emitted frame %q is not %q", strings.ReplaceAll(sk, "\x00", "%s"), strings.ReplaceAll(want, "\x00", "%s")), "")
				continue
			}
			// dynamic part: filter(field, pattern)
			call, _ := dyn[0].(*ssa.Call)
			okDyn := false
			pat := ""
			if call != nil && filterOK && staticCallee(call.Common()) == filterFn {
				a0 := pv.Of(call.Common().Args[0])
				a1 := pv.Of(call.Common().Args[1])
				if a0.Op == "field" && a0.Name == name && a0.Args[0].Op == "param" && a1.Op == "global" {
					okDyn = true
					pat = a1.Name
				}
			}
			if !okDyn {
				r.Viol("C15.R1", c, pos, "value is not emitted through the value filter on this field: "+pv.Of(dyn[0]).String(), "")
				continue
			}
			usedPatterns[pat] = append(usedPatterns[pat], name)
			r.OK("C15.R1", c, pos, fmt.Sprintf("%s:filter(%s, %s); guarded by the field being non-empty", css, name, pat))
			continue
		}
		// list fields: skeleton css: (elem (", " elem)*)? ;  — loop emits "[, ]elem"
		if !strings.HasPrefix(sk, css+":") || !strings.HasSuffix(sk, ";") {
			r.Viol("C15.R1", c, pos, fmt.Sprintf("list frame %q does not start with %q and end with ';'", strings.ReplaceAll(sk, "\x00", "%s"), css+":"), "")
			continue
		}
		body := strings.TrimSuffix(strings.TrimPrefix(sk, css+":"), ";")
		switch name {
		case "BackgroundImageURLs":
			okShape := body == ", url(\"\x00\")" && len(dyn) == 1
			if !okShape {
				r.Viol("C15.R4", c, pos, fmt.Sprintf("element frame %q is not [\", \"] url(\"%%s\")", strings.ReplaceAll(body, "\x00", "%s")), "")
				continue
			}
			e := pv.Of(dyn[0])
			// cssEscapeString((URL).String(URLSanitized(elem)))
			okV := e.Op == "call" && e.Fn != nil && len(e.Args) == 1 && calleeIs(e.Args[0], "(github.com/google/safehtml.URL).String") &&
				calleeIs(e.Args[0].Args[0], "github.com/google/safehtml.URLSanitized") && isRangeElemOf(e.Args[0].Args[0].Args[0], name)
			if okV {
				escFn = e.Fn
				r.OK("C15.R4", c, pos, "each element is url(\""+fnName(e.Fn)+"(URLSanitized(u).String())\"), separated by \", \"")
			} else {
				r.Viol("C15.R4", c, pos, "background-image element is not cssEscape(URLSanitized(u).String()): "+e.String(), "")
			}
			r.Check(listSeparatorGuard(pv, g), "C15.R1", c+"#separator", pos, "\", \" is written only between elements (index > 0)", "separator is not guarded by the element index")
		case "FontFamily":
			// two alternatives per element: raw name (identifier-guarded) or "\"%s\""
			okShape := (body == ", \x00\"\x00\"" || body == ", \"\x00\"\x00") && len(dyn) == 2
			if !okShape {
				r.Viol("C15.R5", c, pos, fmt.Sprintf("element frame %q is not [\", \"] (name | \"%%s\")", strings.ReplaceAll(body, "\x00", "%s")), "")
				continue
			}
			for _, d := range dyn {
				e := pv.Of(d)
				var blk *ssa.BasicBlock
				for _, em := range g {
					for _, a := range em.Args {
						if a == d {
							blk = em.Call.Block()
						}
					}
				}
				if isRangeElemOf(e, name) {
					// raw: must be guarded by identifier pattern
					okG := false
					pat := ""
					for _, a := range pv.Atoms(blk) {
						if gl, arg, m, ok := regexMatchCall(a.E); ok && a.Pol && m == "MatchString" && arg.Val == d {
							okG = true
							pat = gl
						}
					}
					if okG {
						usedPatterns[pat] = append(usedPatterns[pat], "FontFamily(raw)")
						r.OK("C15.R5", c+"#raw", p.Pos(blk.Instrs[0].Pos()), "raw name only under "+pat)
					} else {
						r.Viol("C15.R5", c+"#raw", pos, "a font-family name is written raw without an identifier guard", "")
					}
					continue
				}
				// quoted: cssEscapeString(x), x = name or name[1:len-1]
				okQ := e.Op == "call" && e.Fn != nil && len(e.Args) == 1
				if okQ {
					x := e.Args[0]
					if x.Op == "phi" {
						for _, alt := range x.Args {
							if !(isRangeElemOf(alt, name) || (alt.Op == "slice" && isRangeElemOf(alt.Args[0], name))) {
								okQ = false
							}
						}
					} else if !isRangeElemOf(x, name) {
						okQ = false
					}
					if escFn != nil && e.Fn != escFn {
						okQ = false
					}
					if escFn == nil {
						escFn = e.Fn
					}
				}
				r.Check(okQ, "C15.R5", c+"#quoted", pos, "other names are written as \"cssEscape(name without its outer quotes)\"", "quoted font-family name is not passed through the CSS string escaper: "+e.String())
			}
			r.Check(listSeparatorGuard(pv, g), "C15.R1", c+"#separator", pos, "\", \" is written only between elements (index > 0)", "separator is not guarded by the element index")
		default:
			r.Undec("C15.R1", c, pos, "no rule for list field "+name)
		}
		r.OK("C15.R1", c, pos, css+": list group, guarded by the list being non-empty")
	}

	// ---- R2 value alphabets ------------------------------------------------
	for _, pat := range sortedKeys(usedPatterns) {
		rc := regs[pat]
		c := "pattern:" + pat
		if rc == nil {
			r.Undec("C15.R2", c, "", "pattern constant not resolved")
			continue
		}
		L := NewLang()
		if _, err := L.Re(rc.Src); err != nil {
			r.Undec("C15.R2", c, p.Pos(rc.Pos), err.Error())
			continue
		}
		for _, s := range []string{specDocRegClass, specDocRegBad, specDocEnum, specCSSIdent} {
			L.MustRe(s)
		}
		L.AddString(specInnocuousCSS)
		L.Build()
		d := L.SearchRe(rc.Src)
		kinds := map[string][]string{}
		for _, user := range usedPatterns[pat] {
			k := "regular"
			if user == "Display" {
				k = "enum"
			} else if user == "FontFamily(raw)" {
				k = "identifier"
			}
			kinds[k] = append(kinds[k], user)
		}
		for _, k := range sortedKeys(kinds) {
			var spec *relang.DFA
			var what string
			switch k {
			case "enum":
				spec, what = L.SearchRe(specDocEnum), "ASCII letters and '-'"
			case "identifier":
				spec, what = L.SearchRe(specCSSIdent), "[A-Za-z][-A-Za-z]*"
			default:
				spec, what = relang.Minus(L.SearchRe(specDocRegClass), L.SearchRe(specDocRegBad)), "alphanumerics, space, tab, + - . ! # % _ / * without // /* */"
			}
			cc := c + "⊆doc(" + k + ")"
			what += fmt.Sprintf(" [fields %v]", kinds[k])
			if ok, w := relang.Subset(d, spec); ok {
				r.OK("C15.R2", cc, p.Pos(rc.Pos), "L("+pat+") ⊆ "+what)
			} else {
				r.Viol("C15.R2", cc, p.Pos(rc.Pos), "value pattern "+pat+" accepts a value outside the documented alphabet ("+what+")", w)
			}
		}
	}
	// ---- R3 string escaper ---------------------------------------------------
	if escFn == nil {
		r.Undec("C15.R3", "css-string-escaper", "", "escaper not identified")
	} else {
		checkCSSEscaper(p, r, escFn)
	}
}

func isRangeElemOf(e *Expr, field string) bool {
	// properties.Field[i]
	return e != nil && e.Op == "index" && len(e.Args) == 2 && e.Args[0].Op == "field" && e.Args[0].Name == field && e.Args[0].Args[0].Op == "param"
}

// listSeparatorGuard: the ", " literal of a list group is guarded by index > 0.
func listSeparatorGuard(pv *Prov, g []emission) bool {
	found := false
	for _, e := range g {
		if e.Kind != "lit" || e.Lit != ", " {
			continue
		}
		found = true
		ok := false
		for _, a := range pv.Atoms(e.Call.Block()) {
			x := a.E
			if a.Pol && x.Op == "binop" && x.Name == ">" && x.Args[1].Op == "const" && x.Args[1].Const != nil && x.Args[1].Const.ExactString() == "0" {
				ok = true
			}
		}
		if !ok {
			return false
		}
	}
	return found
}

// checkFilterShape: filter(value, pattern) returns value only under
// pattern.MatchString(value), the fixed innocuous constant otherwise.
func checkFilterShape(p *Program, r *Report, pv *Prov) (*ssa.Function, bool) {
	fn := p.Func("", "filter")
	// discovered by shape if renamed: a (string, *regexp.Regexp) string function
	if fn == nil {
		for _, f := range p.SrcFuncs() {
			if f.Pkg != nil && f.Pkg.Pkg.Path() == modulePath && len(f.Params) == 2 && isStringish(f.Params[0].Type()) && isNamed(f.Params[1].Type(), "regexp", "Regexp") && f.Signature.Results().Len() == 1 {
				fn = f
			}
		}
	}
	if fn == nil {
		r.Undec("C15.R2", "value-filter", "", "anchor not found")
		return nil, false
	}
	cn := fnName(fn)
	ok := true
	nParam, nConst := 0, 0
	for _, ret := range Returns(fn) {
		v := ret.Results[0]
		if v == ssa.Value(fn.Params[0]) {
			nParam++
			g := false
			for _, a := range pv.Atoms(ret.Block()) {
				if a.Pol && calleeIs(a.E, "(*regexp.Regexp).MatchString") && a.E.Args[0].Val == ssa.Value(fn.Params[1]) && a.E.Args[1].Val == ssa.Value(fn.Params[0]) {
					g = true
				}
			}
			if !g {
				ok = false
				r.Viol("C15.R2", cn+"#return-value", p.Pos(ret.Pos()), "the value is returned without pattern.MatchString(value) holding", "")
			}
		} else if k, isC := constString(v); isC {
			nConst++
			if k != specInnocuousCSS {
				ok = false
				r.Viol("C15.R2", cn+"#return-const", p.Pos(ret.Pos()), fmt.Sprintf("fallback constant %q is not %s", k, specInnocuousCSS), "")
			}
		} else {
			ok = false
			r.Viol("C15.R2", cn+"#return", p.Pos(ret.Pos()), "returns something other than the value or the innocuous constant", "")
		}
	}
	if ok && nParam >= 1 && nConst >= 1 {
		r.OK("C15.R2", cn, p.Pos(fn.Pos()), "returns its argument only under pattern.MatchString(argument), "+specInnocuousCSS+" otherwise")
		return fn, true
	}
	return fn, false
}

func checkCSSEscaper(p *Program, r *Report, fn *ssa.Function) {
	cn := fnName(fn)
	pos := p.Pos(fn.Pos())
	var next *ssa.Next
	var rng *ssa.Range
	for _, b := range fn.Blocks {
		for _, in := range b.Instrs {
			switch x := in.(type) {
			case *ssa.Next:
				next = x
			case *ssa.Range:
				rng = x
			}
		}
	}
	if next == nil || rng == nil || rng.X != ssa.Value(fn.Params[0]) || !next.IsString {
		r.Undec("C15.R3", cn, pos, "not a range loop over the string parameter")
		return
	}
	var rv *ssa.Extract
	var body *ssa.BasicBlock
	for _, ref := range *next.Referrers() {
		if ex, ok := ref.(*ssa.Extract); ok && ex.Index == 2 {
			rv = ex
			body = ex.Block()
		}
	}
	if rv == nil {
		r.Undec("C15.R3", cn, pos, "range value unused")
		return
	}
	// result must be the buffer's contents
	var buf ssa.Value
	for _, ret := range Returns(fn) {
		if c, ok := ret.Results[0].(*ssa.Call); ok && staticCallee(c.Common()) != nil && fnName(staticCallee(c.Common())) == "(*bytes.Buffer).String" {
			buf = c.Common().Args[0]
		} else {
			r.Undec("C15.R3", cn, pos, "result is not the buffer's contents")
			return
		}
	}
	ems, probs := bufferEmissions(fn, buf)
	for _, pr := range probs {
		r.Undec("C15.R3", cn+"#buffer", pos, pr)
	}
	effect := map[*ssa.BasicBlock]string{}
	for _, e := range ems {
		eff := "other"
		switch e.Kind {
		case "lit":
			eff = "const:" + fmt.Sprintf("%+q", e.Lit)
		case "dyn":
			if e.Args[0] == ssa.Value(rv) {
				eff = "raw"
			}
		case "fmt":
			if len(e.Args) == 1 && e.Args[0] == ssa.Value(rv) && len(e.Pieces) == 2 {
				eff = "escape:" + e.Pieces[0] + e.Verbs[0] + e.Pieces[1]
			}
		}
		if old, dup := effect[e.Call.Block()]; dup {
			eff = old + "+" + eff
		}
		effect[e.Call.Block()] = eff
	}
	leaves := decisionTable(body, dtConfig{Var: rv, Dom: runeDomain(), Leaf: func(b *ssa.BasicBlock) (string, bool) {
		if e, ok := effect[b]; ok {
			return e, true
		}
		if b == next.Block() {
			return "nothing", true
		}
		return "", false
	}})
	for _, u := range undecidedLeaves(leaves) {
		r.Undec("C15.R3", cn+"#table", pos, u)
	}
	tab := mergeLeaves(leaves)
	raw := &relang.Set{}
	var descr []string
	for _, k := range sortedKeys(tab) {
		descr = append(descr, k+"="+tab[k].String())
		switch {
		case k == "raw":
			raw = raw.Union(tab[k])
		case strings.HasPrefix(k, "escape:"):
			f := strings.TrimPrefix(k, "escape:")
			r.Check(f == `\%06X`, "C15.R3", cn+"#escape-format", pos, `escapes are written as \ + exactly six upper-case hex digits (cannot absorb a following character)`, fmt.Sprintf("escape format %q can swallow or mis-delimit the following character", f))
		case strings.HasPrefix(k, "const:"):
			lit := strings.TrimPrefix(k, "const:")
			r.Check((lit == `"\ufffd"` || lit == `"�"`) && tab[k].Equal(relang.NewSet(0, 0)), "C15.R3", cn+"#nul", pos, "NUL is replaced by U+FFFD", "constant "+lit+" written for "+tab[k].String())
		case k == "nothing":
			r.Viol("C15.R3", cn+"#dropped", pos, "runes "+tab[k].String()+" are dropped", "")
		default:
			r.Undec("C15.R3", cn+"#effect", pos, "unrecognised effect "+k)
		}
	}
	// runes that must not be copied raw (CSS Syntax 3 §4.3.5 + the statement's '<')
	mustEscape := relang.NewSet(0, 0x1F, '"', '"', '\\', '\\', '<', '<', 0x7F, 0x9F, 0x2028, 0x2029)
	badRaw := raw.Intersect(mustEscape)
	if badRaw.Empty() {
		r.OK("C15.R3", cn+"#raw-set", pos, "runes copied raw exclude \" \\ < U+0000–001F U+007F–009F U+2028 U+2029")
	} else {
		r.Viol("C15.R3", cn+"#raw-set", pos, "CSS string metacharacters are copied raw: "+badRaw.String(), fmt.Sprintf("%+q", string(rune(badRaw.R[0]))))
	}
	r.Analysed["css_escape_table"] = descr
}
