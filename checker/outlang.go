package main

// E9: the language of output strings. For a string-valued SSA value (or the contents of a
// bytes.Buffer / strings.Builder at a given point) this evaluator builds an expression that
// over-approximates the set of strings it can hold:
//
//   - constants are themselves; a + b is concatenation; a phi is a union;
//   - a dynamic string that the guard summariser knows as a term (a parameter, possibly through
//     conversions) has the language of the path condition of the block where it is used,
//     projected on that term;
//   - fmt.Sprintf with a constant format is the concatenation of its literal pieces and the
//     languages of its operands; a few library results have named languages (the HTML-safe JSON
//     of encoding/json.Marshal, Go-quoted strings, integers);
//   - a call of a string-returning function of the repository is the union over its returns,
//     evaluated with the parameters bound to the caller's arguments;
//   - the contents of a buffer are all strings written along the paths of the control-flow graph
//     from the buffer's creation to the point of interest: the CFG becomes an automaton whose
//     edges are the languages of the writes (loops become cycles); helpers that receive the
//     buffer are followed; a byte or rune written from a scan-loop variable is restricted to the
//     set of values that can reach the writing block (decision table);
//   - anything else is Σ* (which makes an inclusion fail, i.e. the rule using it stays undecided).
//
// Expressions are built first (so that every literal and set is known before the alphabet is
// built) and compiled to a DFA afterwards. The result is path-insensitive except for what the
// guards of the writing blocks say about the written values.

import (
	"fmt"
	"go/constant"
	"go/token"
	"go/types"
	"os"
	"strings"

	"golang.org/x/tools/go/ssa"

	"safecheck/relang"
)

type lx struct {
	Kind  string // lit any anychar set term named cat alt star buf none
	S     string
	Set   *relang.Set
	Parts []*lx
	Term  Term
	Form  *Form
	Name  string
	Buf   *bufSpec
	// Mark: in skeleton mode a named piece with a mark compiles to that placeholder
	Mark int
}

type bufPiece struct {
	At ssa.Instruction
	X  *lx
	// V: the value written (set for the parts of a returned concatenation)
	V ssa.Value
}

type bufSpec struct {
	fn     *ssa.Function
	buf    ssa.Value
	end    ssa.Instruction // nil: at every return
	fr     *oframe
	pieces map[*ssa.BasicBlock][]bufPiece
	bad    string
	// isRet: not a buffer but the string result #retIdx of a loop-free helper, seen as what is "written" by the
	// parts of the returned concatenation (so that each path is followed on its own); fallback is what the
	// path-insensitive evaluation gives
	isRet    bool
	retIdx   int
	fallback *lx
}

type oframe struct {
	fn    *ssa.Function
	env   termEnv
	bind  map[ssa.Value]*lx
	depth int
	// orig: for parameters that are not strings, the value they stand for in the outermost frame
	orig map[ssa.Value]ssa.Value
	// elems: the element of a list of known length that a value of this frame stands for, while the loop that maps
	// over the list is evaluated for that element
	elems map[ssa.Value]boundVal
	// args: what each parameter stands for in the calling frame
	args map[ssa.Value]boundVal
	// parent / callBlock: the frame this one was entered from, and the block of the call
	parent    *oframe
	callBlock *ssa.BasicBlock
}

// usePoint: the block of frame target through which control reaches the current point of frame fr (target is fr
// itself or one of its callers); def is used when target is not on the chain.
func (fr *oframe) usePoint(target *oframe, here, def *ssa.BasicBlock) *ssa.BasicBlock {
	if target == fr {
		return here
	}
	for f := fr; f != nil; f = f.parent {
		if f.parent == target && f.callBlock != nil {
			return f.callBlock
		}
	}
	return def
}

type boundVal struct {
	v  ssa.Value
	fr *oframe
}

// fieldValue: the value stored in field #field of the struct that base designates (a local struct, a literal, a
// parameter bound to one of those in a calling frame), with the block of the store and the frame it lives in.
func (oe *outEval) fieldValue(base ssa.Value, field int, fr *oframe, depth int) (ssa.Value, *ssa.BasicBlock, *oframe, bool) {
	if depth > 8 || base == nil {
		return nil, nil, nil, false
	}
	if os.Getenv("FIELD_DEBUG") != "" {
		fmt.Fprintf(os.Stderr, "fieldValue[%d] %T %s #%d in %s\n", depth, base, base, field, fr.fn.Name())
	}
	switch x := base.(type) {
	case *ssa.Alloc:
		var st *ssa.Store
		n := 0
		var whole *ssa.Store
		for _, ref := range *x.Referrers() {
			switch y := ref.(type) {
			case *ssa.FieldAddr:
				if y.Field != field {
					continue
				}
				for _, r2 := range *y.Referrers() {
					if s2, ok := r2.(*ssa.Store); ok && s2.Addr == ssa.Value(y) {
						st = s2
						n++
					}
				}
			case *ssa.Store:
				if y.Addr == ssa.Value(x) {
					if selfStore(y) {
						continue // "return r, …" with a named result r stores r to itself
					}
					if whole != nil {
						return nil, nil, nil, false
					}
					whole = y
				}
			}
		}
		if os.Getenv("FIELD_DEBUG") != "" {
			fmt.Fprintf(os.Stderr, "   alloc n=%d whole=%v\n", n, whole)
		}
		if n == 1 && (whole == nil || isZeroConst(whole.Val)) {
			return st.Val, st.Block(), fr, true
		}
		if n == 0 && whole != nil {
			return oe.fieldValue(whole.Val, field, fr, depth+1)
		}
	case *ssa.Parameter:
		if b, ok := fr.args[x]; ok {
			return oe.fieldValue(b.v, field, b.fr, depth+1)
		}
	case *ssa.UnOp:
		if eb, ok := fr.elems[x]; ok {
			return oe.fieldValue(eb.v, field, eb.fr, depth+1)
		}
		if x.Op == token.MUL {
			return oe.fieldValue(x.X, field, fr, depth+1)
		}
	case *ssa.MakeInterface:
		return oe.fieldValue(x.X, field, fr, depth+1)
	case *ssa.Extract:
		if call, ok := x.Tuple.(*ssa.Call); ok {
			return oe.resultFieldValue(call, x.Index, field, fr, depth)
		}
	case *ssa.Call:
		return oe.resultFieldValue(x, 0, field, fr, depth)
	case *ssa.Global:
		// a package-level struct: the constant its initialiser stores in the field (and nothing else writes)
		st := oe.s.singleStoreWhere(func(addr ssa.Value) bool {
			fa, ok := addr.(*ssa.FieldAddr)
			return ok && fa.X == ssa.Value(x) && fa.Field == field
		})
		if st == nil || x.Pkg == nil || st.Parent() != x.Pkg.Func("init") {
			return nil, nil, nil, false
		}
		if oe.s.singleStoreWhere(func(addr ssa.Value) bool { return addr == ssa.Value(x) }) != nil {
			return nil, nil, nil, false
		}
		if _, isConst := st.Val.(*ssa.Const); isConst {
			return st.Val, st.Block(), fr, true
		}
	}
	return nil, nil, nil, false
}

// resultFieldValue: field #field of the struct that result #idx of a call to a repository helper is: the one value
// that every return of the helper has stored there (in a frame of the helper entered from fr).
func (oe *outEval) resultFieldValue(call *ssa.Call, idx, field int, fr *oframe, depth int) (ssa.Value, *ssa.BasicBlock, *oframe, bool) {
	g := staticCallee(call.Common())
	if g == nil || g.Blocks == nil || g.Pkg == nil || !strings.HasPrefix(g.Pkg.Pkg.Path(), modulePath) || idx >= g.Signature.Results().Len() || fr.depth >= 5 || hasLoop(g) {
		return nil, nil, nil, false
	}
	key := resultFrameKey{call, fr}
	gfr := oe.resultFrames[key]
	if gfr == nil {
		gfr = oe.newCalleeFrame(g, call.Common().Args, call.Block(), fr)
		if oe.resultFrames == nil {
			oe.resultFrames = map[resultFrameKey]*oframe{}
		}
		oe.resultFrames[key] = gfr
	}
	var val ssa.Value
	var blk *ssa.BasicBlock
	var vfr *oframe
	// a helper that also returns an error: where every use of the struct is behind a test of that error, the
	// returns with a certainly non-nil error do not count
	skipErr := false
	if n := g.Signature.Results().Len(); n >= 2 && idx != n-1 && isErrorType(g.Signature.Results().At(n-1).Type()) {
		skipErr = true
		for _, ref := range *call.Referrers() {
			ex, ok := ref.(*ssa.Extract)
			if !ok || ex.Index != idx {
				continue
			}
			for _, use := range *ex.Referrers() {
				if _, dbg := use.(*ssa.DebugRef); dbg {
					continue
				}
				if !errChecked(call, use.Block()) {
					skipErr = false
				}
			}
		}
	}
	for _, ret := range Returns(g) {
		if n := len(ret.Results); skipErr && certainlyNonNil(ret.Results[n-1], ret.Block()) {
			continue
		}
		v, b, f, ok := oe.fieldValue(ret.Results[idx], field, gfr, depth+1)
		if !ok || (val != nil && (v != val || f != vfr)) {
			return nil, nil, nil, false
		}
		val, blk, vfr = v, b, f
	}
	return val, blk, vfr, val != nil
}

// selfStore: *a = *a (what a return statement that names a result variable compiles to).
func selfStore(st *ssa.Store) bool {
	u, ok := st.Val.(*ssa.UnOp)
	return ok && u.Op == token.MUL && u.X == st.Addr
}

func isZeroConst(v ssa.Value) bool {
	c, ok := v.(*ssa.Const)
	return ok && c.Value == nil
}

// fieldLoad: v reads a field of a struct: the struct designator and the field index.
func fieldLoad(v ssa.Value) (ssa.Value, int, bool) {
	switch x := v.(type) {
	case *ssa.Field:
		return x.X, x.Field, true
	case *ssa.UnOp:
		if fa, ok := x.X.(*ssa.FieldAddr); ok && x.Op == token.MUL {
			return fa.X, fa.Field, true
		}
	}
	return nil, 0, false
}

// rootOf: the value of the outermost frame that v stands for (through interface wrapping).
func (fr *oframe) rootOf(v ssa.Value) ssa.Value {
	for i := 0; i < 8; i++ {
		switch x := v.(type) {
		case *ssa.MakeInterface:
			v = x.X
			continue
		case *ssa.ChangeType:
			v = x.X
			continue
		case *ssa.ChangeInterface:
			v = x.X
			continue
		}
		break
	}
	if r, ok := fr.orig[v]; ok {
		return r
	}
	return v
}

// paramContentMarkBase: placeholder keys of the contents of safe-type parameters
const paramContentMarkBase = 5800

// joinOpen/joinSep/joinClose: in skeleton mode a path join is written as ⟦ part ‖ part ‖ … ⟧ with these symbols
const (
	joinOpen  = rune(0xF7F0)
	joinSep   = rune(0xF7F1)
	joinClose = rune(0xF7F2)
)

// jsonMarkBase: placeholder keys of encoder outputs, by the index of the top-level parameter encoded
const jsonMarkBase = 5900

// errChecked: the use in block b of result #idx of call (whose last result is an error) is
// dominated by a test that the error is nil.
func errChecked(call *ssa.Call, b *ssa.BasicBlock) bool {
	tu, ok := call.Type().(*types.Tuple)
	if !ok || tu.Len() < 2 || !isErrorType(tu.At(tu.Len()-1).Type()) {
		return true
	}
	var errv ssa.Value
	for _, ref := range *call.Referrers() {
		if ex, ok := ref.(*ssa.Extract); ok && ex.Index == tu.Len()-1 {
			errv = ex
		}
	}
	if errv == nil {
		return false
	}
	for d := b; d != nil; d = d.Idom() {
		id := d.Idom()
		if id == nil {
			break
		}
		iff, ok := id.Instrs[len(id.Instrs)-1].(*ssa.If)
		if !ok {
			continue
		}
		bo, ok := iff.Cond.(*ssa.BinOp)
		if !ok || bo.X != errv {
			continue
		}
		if k, ok := bo.Y.(*ssa.Const); !ok || k.Value != nil {
			continue
		}
		// err != nil: the false side; err == nil: the true side
		if bo.Op == token.NEQ && id.Succs[1].Dominates(b) && !id.Succs[0].Dominates(b) {
			return true
		}
		if bo.Op == token.EQL && id.Succs[0].Dominates(b) && !id.Succs[1].Dominates(b) {
			return true
		}
	}
	return false
}

// safeStructContent: v is a value of a struct type of the module with a single string field
// (the safe types); returns the language of that field.
func (oe *outEval) safeStructContent(v ssa.Value, b *ssa.BasicBlock, fr *oframe) (*lx, bool) {
	nt, ok := v.Type().(*types.Named)
	if !ok || nt.Obj().Pkg() == nil || !strings.HasPrefix(nt.Obj().Pkg().Path(), modulePath) {
		return nil, false
	}
	st, ok := nt.Underlying().(*types.Struct)
	if !ok || st.NumFields() != 1 || !isStringish(st.Field(0).Type()) {
		return nil, false
	}
	switch x := v.(type) {
	case *ssa.Const:
		return lxLit(""), true
	case *ssa.Parameter:
		if b, ok := fr.args[x]; ok {
			return oe.safeStructContent(b.v, b.fr.fn.Blocks[0], b.fr)
		}
		// a safe value handed to the function under analysis: its content is opaque
		for i, q := range x.Parent().Params {
			if q == x {
				return &lx{Kind: "named", Name: "any", Mark: paramContentMarkBase + i}, true
			}
		}
	case *ssa.Field:
		// a safe value kept in a field of another struct
		if val, blk, vfr, ok := oe.fieldValue(x.X, x.Field, fr, 0); ok {
			return oe.safeStructContent(val, fr.usePoint(vfr, b, blk), vfr)
		}
	case *ssa.UnOp:
		if eb, ok := fr.elems[x]; ok {
			return oe.safeStructContent(eb.v, eb.fr.fn.Blocks[0], eb.fr)
		}
		if fa, ok := x.X.(*ssa.FieldAddr); ok && x.Op == token.MUL {
			if val, blk, vfr, ok := oe.fieldValue(fa.X, fa.Field, fr, 0); ok {
				return oe.safeStructContent(val, fr.usePoint(vfr, b, blk), vfr)
			}
		}
		if al, ok := x.X.(*ssa.Alloc); ok && x.Op == token.MUL {
			var alts []*lx
			for _, ref := range *al.Referrers() {
				if fa, ok := ref.(*ssa.FieldAddr); ok {
					for _, r2 := range *fa.Referrers() {
						if s, ok := r2.(*ssa.Store); ok && s.Addr == ssa.Value(fa) {
							alts = append(alts, oe.strLx(s.Val, s.Block(), fr))
						}
					}
				}
			}
			if len(alts) == 0 {
				return lxLit(""), true
			}
			return lxAlt(alts...), true
		}
	case *ssa.Call:
		return oe.callLx(x, 0, b, fr), true
	case *ssa.Extract:
		if call, ok := x.Tuple.(*ssa.Call); ok {
			return oe.callLx(call, x.Index, b, fr), true
		}
	case *ssa.Phi:
		if oe.visiting[x] {
			return lxAny(), true
		}
		if oe.visiting == nil {
			oe.visiting = map[*ssa.Phi]bool{}
		}
		oe.visiting[x] = true
		defer delete(oe.visiting, x)
		var alts []*lx
		for i, e := range x.Edges {
			a, _ := oe.safeStructContent(e, x.Block().Preds[i], fr)
			if a == nil {
				a = lxAny()
			}
			alts = append(alts, a)
		}
		return lxAlt(alts...), true
	}
	return lxAny(), true
}

type outEval struct {
	p *Program
	s *Summarizer
	// Fidelity: when set, every path of a loop-free buffer helper that cuts bytes off a term is checked for
	// "what is cut off is what was tested, and is written back in its encoded form" (see cutFidelity)
	Fidelity *cutFidelity
	Named    map[string]string // name -> regular expression (full match) of a named language
	Problems []string
	active   map[*ssa.Function]int
	visiting map[*ssa.Phi]bool
	// forwarded: calls whose error result is returned together with the value (the caller tests it)
	forwarded map[*ssa.Call]bool
	// Markers: compile every term as one private-use symbol (a placeholder) instead of its guard language; the
	// skeleton of the output is then compared with a specification over the same placeholders
	Markers   bool
	pseudo    map[string]int  // pseudo-term keys (fields of struct parameters, range elements) -> term id
	PseudoKey map[int]string  // term id -> key
	termForms map[int][]*Form // term key -> the conditions under which it was written
	// intrinsic: what is known of a pseudo-term by construction (a token's bytes)
	intrinsic map[int]*Form
	TokenSets map[int]*relang.Set
	// Tokens: give the results of splitter functions terms of their own in every frame
	Tokens bool
	// termOverride: while a path of a helper is compiled, the languages of the terms on that path
	termOverride map[int]*relang.DFA
	// pseudoElems: fields and list elements of the outermost struct parameter are terms (seedPseudoTerms was used)
	pseudoElems bool
	// resultFrames: the frame of a helper whose struct result is looked into, by call and calling frame
	resultFrames map[resultFrameKey]*oframe
}

type resultFrameKey struct {
	call *ssa.Call
	fr   *oframe
}

func newOutEval(p *Program, s *Summarizer) *outEval {
	return &outEval{p: p, s: s, active: map[*ssa.Function]int{}, pseudo: map[string]int{}, PseudoKey: map[int]string{}, termForms: map[int][]*Form{}, Named: map[string]string{
		// encoding/json in HTML-safe mode: no raw '<', '>', '&', U+2028, U+2029, and no raw control characters
		"json":    `[^<>&\x{2028}\x{2029}\x00-\x1f]*`,
		"goquote": `"(?:[^"\\\n]|\\[\s\S])*"`,
		"int":     `-?[0-9]+`,
		"hexup":   `[0-9A-F]+`,
		"hexlow":  `[0-9a-f]+`,
		"any":     `[\s\S]*`,
	}}
}

func lxLit(s string) *lx { return &lx{Kind: "lit", S: s} }
func lxAny() *lx         { return &lx{Kind: "any"} }
func lxCat(ps ...*lx) *lx {
	var out []*lx
	for _, p := range ps {
		if p.Kind == "lit" && p.S == "" {
			continue
		}
		if p.Kind == "cat" {
			out = append(out, p.Parts...)
		} else {
			out = append(out, p)
		}
	}
	if len(out) == 1 {
		return out[0]
	}
	return &lx{Kind: "cat", Parts: out}
}
func lxAlt(ps ...*lx) *lx {
	if len(ps) == 1 {
		return ps[0]
	}
	return &lx{Kind: "alt", Parts: ps}
}

func (x *lx) String() string {
	switch x.Kind {
	case "lit":
		return fmt.Sprintf("%q", x.S)
	case "any":
		return "Σ*"
	case "anychar":
		return "Σ"
	case "set":
		return x.Set.String()
	case "term":
		return "⟨" + termStr(x.Term) + "⟩"
	case "named":
		return "⟨" + x.Name + "⟩"
	case "cat", "alt":
		var ss []string
		for _, p := range x.Parts {
			ss = append(ss, p.String())
		}
		sep := " "
		if x.Kind == "alt" {
			sep = " | "
		}
		return "(" + strings.Join(ss, sep) + ")"
	case "star":
		return x.Parts[0].String() + "*"
	case "buf":
		return "writes(" + strings.TrimPrefix(fnName(x.Buf.fn), modulePath) + ")"
	case "none":
		return "∅"
	case "join":
		var ss []string
		for _, p := range x.Parts {
			ss = append(ss, p.String())
		}
		return "Join(" + strings.Join(ss, ", ") + ")"
	case "trimsuffix", "trimprefix", "cutprefix", "cutsuffix":
		return fmt.Sprintf("%s(%s, %q)", x.Kind, x.Parts[0].String(), x.S)
	}
	return "?"
}

// ---- expressions of string values --------------------------------------------------------------

func unwrapIface(v ssa.Value) ssa.Value {
	for {
		switch x := v.(type) {
		case *ssa.MakeInterface:
			v = x.X
		case *ssa.ChangeInterface:
			v = x.X
		default:
			return v
		}
	}
}

func (oe *outEval) note(format string, args ...interface{}) *lx {
	oe.Problems = append(oe.Problems, fmt.Sprintf(format, args...))
	return lxAny()
}

// strLx: the language of string value v as used in block b.
func (oe *outEval) strLx(v ssa.Value, b *ssa.BasicBlock, fr *oframe) *lx {
	if k, ok := constString(v); ok {
		return lxLit(k)
	}
	if x, ok := oe.safeStructContent(v, b, fr); ok {
		return x
	}
	if x, ok := fr.bind[v]; ok && x.Kind != "term" {
		return x
	}
	if t, ok := oe.s.termOf(v, fr.env); ok && !t.Lower && t.Strip == nil && !t.Unesc {
		f := oe.s.blockCond(b, fr.env, "use of "+termStr(t))
		if x, ok := fr.bind[v]; ok && x.Kind == "term" && x.Form != nil {
			// an argument of the enclosing call: what the caller knew about it still holds
			f = fAnd(x.Form, f)
		}
		if in, ok := oe.intrinsic[t.Key()]; ok {
			f = fAnd(in, f)
		}
		return &lx{Kind: "term", Term: t, Form: f}
	}
	switch x := v.(type) {
	case *ssa.Const:
		if x.Value != nil && x.Value.Kind() == constant.String {
			return lxLit(constant.StringVal(x.Value))
		}
		if x.Value == nil && isByteSlice(x.Type()) {
			return lxLit("") // a nil byte slice
		}
	case *ssa.BinOp:
		if x.Op.String() == "+" {
			return lxCat(oe.strLx(x.X, b, fr), oe.strLx(x.Y, b, fr))
		}
	case *ssa.Phi:
		// a loop-carried string (s = s + …) has no finite expression here: Σ*
		if oe.visiting[x] {
			return lxAny()
		}
		if oe.visiting == nil {
			oe.visiting = map[*ssa.Phi]bool{}
		}
		oe.visiting[x] = true
		defer delete(oe.visiting, x)
		var alts []*lx
		for i, e := range x.Edges {
			alts = append(alts, oe.strLx(e, x.Block().Preds[i], fr))
		}
		return lxAlt(alts...)
	case *ssa.Slice:
		if isStringish(x.X.Type()) || isByteSlice(x.X.Type()) {
			return oe.sliceLx(x, b, fr)
		}
	case *ssa.Field:
		if val, blk, vfr, ok := oe.fieldValue(x.X, x.Field, fr, 0); ok {
			return oe.strLx(val, fr.usePoint(vfr, b, blk), vfr)
		}
	case *ssa.Convert:
		if isStringish(x.X.Type()) || isByteSlice(x.X.Type()) {
			return oe.strLx(x.X, b, fr)
		}
		// string(rune) / string(byte)
		if k, ok := constInt(x.X); ok {
			return lxLit(string(rune(k)))
		}
		return &lx{Kind: "anychar"}
	case *ssa.ChangeType:
		return oe.strLx(x.X, b, fr)
	case *ssa.MakeInterface:
		return oe.strLx(x.X, b, fr)
	case *ssa.Extract:
		if call, ok := x.Tuple.(*ssa.Call); ok {
			return oe.callLx(call, x.Index, b, fr)
		}
	case *ssa.Call:
		return oe.callLx(x, 0, b, fr)
	case *ssa.UnOp:
		// a local string variable with a single store
		if al, ok := x.X.(*ssa.Alloc); ok {
			if st := singleStore(al); st != nil {
				return oe.strLx(st.Val, st.Block(), fr)
			}
		}
		// a field of a local struct, or of a struct handed in by a caller
		if fa, ok := x.X.(*ssa.FieldAddr); ok && x.Op == token.MUL {
			if val, blk, vfr, ok := oe.fieldValue(fa.X, fa.Field, fr, 0); ok {
				return oe.strLx(val, fr.usePoint(vfr, b, blk), vfr)
			}
		}
	}
	return lxAny()
}

// seedFieldTerms: reads of string fields of structs that a caller filled with terms are those terms (so that
// conditions on them inside the callee are conditions on the caller's terms).
func (oe *outEval) seedFieldTerms(fr *oframe, callBlock *ssa.BasicBlock, caller *oframe) {
	for _, b := range fr.fn.Blocks {
		for _, in := range b.Instrs {
			v, ok := in.(ssa.Value)
			if !ok || !(isStringish(v.Type()) || isByteSlice(v.Type())) {
				continue
			}
			if _, bound := fr.env[v]; bound {
				continue
			}
			base, field, ok := fieldLoad(v)
			if !ok {
				continue
			}
			val, _, vfr, ok := oe.fieldValue(base, field, fr, 0)
			if os.Getenv("FIELD_DEBUG") != "" {
				fmt.Fprintf(os.Stderr, "seedFieldTerms %s in %s: ok=%v val=%v\n", v, fr.fn.Name(), ok, val)
				if ok {
					t, okT := oe.s.termOf(val, vfr.env)
					fmt.Fprintf(os.Stderr, "   term %v %v (frame %s)\n", t, okT, vfr.fn.Name())
				}
			}
			if !ok {
				continue
			}
			if vfr == fr {
				// a field of a local struct of this very function, written once
				if t, ok := oe.s.termOf(val, fr.env); ok {
					fr.env[v] = t
				}
				continue
			}
			if t, ok := oe.s.termOf(val, vfr.env); ok {
				fr.env[v] = t
				// what the caller knows about the term where it makes the call still holds in the callee
				if callBlock != nil && caller != nil && !t.Lower && !t.Upper && t.Strip == nil && !t.Unesc {
					fr.bind[v] = oe.boundTerm(t, oe.s.blockCond(callBlock, caller.env, "field "+termStr(t)), caller)
				}
			}
		}
	}
}

func isByteSlice(t types.Type) bool {
	sl, ok := t.Underlying().(*types.Slice)
	if !ok {
		return false
	}
	b, ok := sl.Elem().Underlying().(*types.Basic)
	return ok && b.Kind() == types.Uint8
}

func (oe *outEval) sprintfLx(format string, args []ssa.Value, b *ssa.BasicBlock, fr *oframe) *lx {
	pieces, verbs := parseFormat(format)
	var parts []*lx
	for i, pc := range pieces {
		parts = append(parts, lxLit(pc))
		if i >= len(verbs) {
			continue
		}
		if i >= len(args) || args[i] == nil {
			parts = append(parts, lxAny())
			continue
		}
		a := unwrapIface(args[i])
		verb := verbs[i]
		switch {
		case verb == "%s" || verb == "%v":
			if isStringish(a.Type()) || isByteSlice(a.Type()) {
				parts = append(parts, oe.strLx(a, b, fr))
			} else if bt, ok := a.Type().Underlying().(*types.Basic); ok && bt.Info()&types.IsInteger != 0 && verb == "%v" {
				parts = append(parts, &lx{Kind: "named", Name: "int"})
			} else if strLike := oe.stringerLx(a, b, fr); strLike != nil {
				parts = append(parts, strLike)
			} else {
				parts = append(parts, lxAny())
			}
		case verb == "%q":
			parts = append(parts, &lx{Kind: "named", Name: "goquote"})
		case verb == "%d":
			parts = append(parts, &lx{Kind: "named", Name: "int"})
		case strings.HasSuffix(verb, "X") && strings.Trim(verb[1:len(verb)-1], "0123456789") == "":
			parts = append(parts, &lx{Kind: "named", Name: "hexup"})
		case strings.HasSuffix(verb, "x") && strings.Trim(verb[1:len(verb)-1], "0123456789") == "":
			parts = append(parts, &lx{Kind: "named", Name: "hexlow"})
		default:
			parts = append(parts, lxAny())
		}
	}
	return lxCat(parts...)
}

// stringerLx: %s of a value with a String method of the repository.
func (oe *outEval) stringerLx(a ssa.Value, b *ssa.BasicBlock, fr *oframe) *lx {
	ms := oe.p.SSA.MethodSets.MethodSet(a.Type())
	for i := 0; i < ms.Len(); i++ {
		if ms.At(i).Obj().Name() == "String" {
			if f := oe.p.SSA.MethodValue(ms.At(i)); f != nil && f.Blocks != nil && f.Pkg != nil && strings.HasPrefix(f.Pkg.Pkg.Path(), modulePath) {
				return oe.inlineLx(f, []ssa.Value{a}, 0, b, fr)
			}
		}
	}
	return nil
}

func (oe *outEval) callLx(call *ssa.Call, idx int, b *ssa.BasicBlock, fr *oframe) *lx {
	c := call.Common()
	f := staticCallee(c)
	if f == nil && !c.IsInvoke() {
		// a function handed in as an argument: the function the caller passed (through the frames)
		v, vfr := c.Value, fr
		for i := 0; i < 6; i++ {
			prm, isPrm := v.(*ssa.Parameter)
			if !isPrm || vfr == nil {
				break
			}
			bv, ok := vfr.args[prm]
			if !ok {
				break
			}
			v, vfr = bv.v, bv.fr
		}
		switch y := v.(type) {
		case *ssa.Function:
			f = y
		case *ssa.MakeClosure:
			if len(y.Bindings) == 0 {
				f, _ = y.Fn.(*ssa.Function)
			}
		}
		if f != nil && f.Blocks != nil && f.Pkg != nil && strings.HasPrefix(f.Pkg.Pkg.Path(), modulePath) {
			return oe.inlineLx(f, c.Args, idx, call.Block(), fr)
		}
		return lxAny()
	}
	if f == nil {
		return lxAny()
	}
	if !oe.forwarded[call] && !errChecked(call, b) {
		return oe.note("result of %s used at %s without a test of its error", fnName(f), oe.p.Pos(call.Pos()))
	}
	switch fnName(f) {
	case "fmt.Sprintf":
		if format, ok := constString(c.Args[0]); ok {
			if args, ok := variadicArgs(c.Args[1]); ok {
				return oe.sprintfLx(format, args, call.Block(), fr)
			}
		}
		return oe.note("fmt.Sprintf with a non-constant format at %s", oe.p.Pos(call.Pos()))
	case "fmt.Sprint":
		if args, ok := variadicArgs(c.Args[0]); ok && len(args) == 1 {
			a := unwrapIface(args[0])
			if isStringish(a.Type()) {
				return oe.strLx(a, call.Block(), fr)
			}
		}
		return lxAny()
	case "(*bytes.Buffer).String", "(*bytes.Buffer).Bytes":
		return &lx{Kind: "buf", Buf: &bufSpec{fn: call.Parent(), buf: c.Args[0], end: call, fr: fr}}
	case "bytes.TrimSuffix", "strings.TrimSuffix", "bytes.TrimPrefix", "strings.TrimPrefix":
		if k, ok := constString(c.Args[1]); ok {
			kind := "trimsuffix"
			if strings.HasSuffix(fnName(f), "Prefix") {
				kind = "trimprefix"
			}
			return &lx{Kind: kind, S: k, Parts: []*lx{oe.strLx(c.Args[0], b, fr)}}
		}
		return lxAny()
	case "encoding/json.Marshal":
		if idx == 0 {
			mark := jsonMarkBase - 1
			if prm, ok := fr.rootOf(c.Args[0]).(*ssa.Parameter); ok {
				for i, q := range prm.Parent().Params {
					if q == prm {
						mark = jsonMarkBase + i
					}
				}
			}
			return &lx{Kind: "named", Name: "json", Mark: mark}
		}
	case "path/filepath.Join", "path.Join":
		if args, ok := variadicArgs(c.Args[0]); ok {
			var parts []*lx
			for _, a := range args {
				parts = append(parts, oe.strLx(a, call.Block(), fr))
			}
			return &lx{Kind: "join", Parts: parts}
		}
		if parts, ok := oe.listLx(c.Args[0], call.Block(), fr, 0); ok {
			return &lx{Kind: "join", Parts: parts}
		}
		return oe.note("a path join of a list the evaluator cannot follow at %s", oe.p.Pos(call.Pos()))
	case "strings.Join":
		if sep, ok := constString(c.Args[1]); ok {
			if x, ok := oe.accumulatedJoinLx(c.Args[0], sep, call.Block(), fr); ok {
				return x
			}
		}
		return lxAny()
	case "strconv.Quote":
		return &lx{Kind: "named", Name: "goquote"}
	case "strconv.Itoa":
		return &lx{Kind: "named", Name: "int"}
	}
	// the String accessor of a safe type: the content of the value
	if f.Name() == "String" && f.Signature.Recv() != nil && len(c.Args) == 1 {
		if x, ok := oe.safeStructContent(c.Args[0], call.Block(), fr); ok {
			return x
		}
	}
	if f.Blocks != nil && f.Pkg != nil && strings.HasPrefix(f.Pkg.Pkg.Path(), modulePath) {
		res := oe.inlineLx(f, c.Args, idx, call.Block(), fr)
		if oe.Markers && len(c.Args) == 1 && isStringish(c.Args[0].Type()) && oe.fromURLSanitized(c.Args[0]) {
			// skeleton mode: remember that the (escaped) text came from URLSanitized
			return lxCat(lxLit(string(markerRune(urlMarkKey))), res)
		}
		return res
	}
	return lxAny()
}

// accumulatedJoinLx: strings.Join(list, sep) where list starts empty and only grows by append(list, e…) of
// single elements (in a loop or not): E (sep E)* over the union E of the elements, and also "" unless the use is
// guarded by len(list) != 0.
func (oe *outEval) accumulatedJoinLx(list ssa.Value, sep string, b *ssa.BasicBlock, fr *oframe) (*lx, bool) {
	type elem struct {
		v ssa.Value
		b *ssa.BasicBlock
	}
	var elems []elem
	seen := map[ssa.Value]bool{}
	var collect func(v ssa.Value, depth int) bool
	collect = func(v ssa.Value, depth int) bool {
		if seen[v] {
			return true
		}
		seen[v] = true
		if depth > 12 {
			return false
		}
		switch x := v.(type) {
		case *ssa.Const:
			return x.Value == nil
		case *ssa.MakeSlice:
			k, ok := constInt(x.Len)
			return ok && k == 0
		case *ssa.Phi:
			for _, e := range x.Edges {
				if !collect(e, depth+1) {
					return false
				}
			}
			return true
		case *ssa.Call:
			bi, ok := x.Common().Value.(*ssa.Builtin)
			if !ok || bi.Name() != "append" || len(x.Common().Args) != 2 {
				return false
			}
			more, ok := variadicArgs(x.Common().Args[1])
			if !ok {
				return false
			}
			for _, m := range more {
				elems = append(elems, elem{m, x.Block()})
			}
			return collect(x.Common().Args[0], depth+1)
		}
		return false
	}
	if sl, ok := list.Type().Underlying().(*types.Slice); !ok || !isStringish(sl.Elem()) {
		return nil, false
	}
	if !collect(list, 0) || len(elems) == 0 {
		return nil, false
	}
	var alts []*lx
	for _, e := range elems {
		alts = append(alts, oe.strLx(e.v, e.b, fr))
	}
	E := lxAlt(alts...)
	res := lxCat(E, &lx{Kind: "star", Parts: []*lx{lxCat(lxLit(sep), E)}})
	nonEmpty := false
	for _, gd := range GuardsOf(b) {
		bo, ok := gd.Cond.(*ssa.BinOp)
		if !ok {
			continue
		}
		lv, isLen := isLenOf(bo.X)
		k, isK := constInt(bo.Y)
		if !isLen || !isK || k != 0 || !seen[lv] {
			continue
		}
		if _, isPhiOrList := lv.(*ssa.Phi); !isPhiOrList && lv != list {
			continue
		}
		if lv != list {
			continue
		}
		switch {
		case bo.Op == token.EQL && !gd.Pol, bo.Op == token.NEQ && gd.Pol, bo.Op == token.GTR && gd.Pol:
			nonEmpty = true
		}
	}
	if !nonEmpty {
		res = lxAlt(lxLit(""), res)
	}
	return res, true
}

// fromURLSanitized: v is URLSanitized(x).String() (possibly through conversions).
func (oe *outEval) fromURLSanitized(v ssa.Value) bool {
	e := oe.s.pv.Of(v)
	found := false
	e.Walk(func(x *Expr) bool {
		if x.Op == "call" && x.CalleeName() == modulePath+".URLSanitized" {
			found = true
		}
		return true
	})
	return found
}

// inlineLx: the union over the returns of a repository function of the language of result #idx.
// withCalleeFrame evaluates body in the frame of a call of f (parameters bound to the arguments in the calling frame).
func (oe *outEval) withCalleeFrame(f *ssa.Function, args []ssa.Value, b *ssa.BasicBlock, fr *oframe, body func(fr2 *oframe) *lx) *lx {
	if fr.depth >= 5 || oe.active[f] > 0 {
		return lxAny()
	}
	fr2 := &oframe{fn: f, env: termEnv{}, bind: map[ssa.Value]*lx{}, depth: fr.depth + 1, orig: map[ssa.Value]ssa.Value{}, args: map[ssa.Value]boundVal{}, parent: fr, callBlock: b}
	for i, prm := range f.Params {
		if i >= len(args) {
			continue
		}
		fr2.orig[prm] = fr.rootOf(args[i])
		//withCalleeFrame
		fr2.args[prm] = boundVal{args[i], fr}
		if !isStringish(prm.Type()) {
			oe.s.bindValue(prm, args[i])
		}
		if t, ok := oe.s.termOf(args[i], fr.env); ok {
			fr2.env[prm] = t
			// the argument's own guards in the caller still hold in the callee: keep them as a binding
			if isStringish(prm.Type()) {
				if !t.Lower && t.Strip == nil && !t.Unesc {
					fr2.bind[prm] = oe.boundTerm(t, oe.s.blockCond(b, fr.env, "argument "+termStr(t)), fr)
				}
			}
		} else if isStringish(prm.Type()) || isByteSlice(prm.Type()) {
			fr2.bind[prm] = oe.strLx(args[i], b, fr)
		} else if rc := oe.s.regexOf(args[i]); rc != nil {
			// a pattern passed as an argument: bound for the evaluation of this call
			if oe.s.RegexParams == nil {
				oe.s.RegexParams = map[ssa.Value]*RegexConst{}
			}
			old, had := oe.s.RegexParams[prm]
			oe.s.RegexParams[prm] = rc
			defer func(prm ssa.Value) {
				if had {
					oe.s.RegexParams[prm] = old
				} else {
					delete(oe.s.RegexParams, prm)
				}
			}(prm)
		}
	}
	if oe.Tokens {
		oe.seedTokens(fr2)
	}
	oe.seedFieldTerms(fr2, b, fr)
	oe.seedParamElems(fr2)
	oe.active[f]++
	defer func() { oe.active[f]-- }()
	return body(fr2)
}

// newCalleeFrame: a frame of f entered from block b of fr that outlives the evaluation of one call (used to look
// into the struct a helper returns). Patterns passed as arguments are not bound in it.
func (oe *outEval) newCalleeFrame(f *ssa.Function, args []ssa.Value, b *ssa.BasicBlock, fr *oframe) *oframe {
	fr2 := &oframe{fn: f, env: termEnv{}, bind: map[ssa.Value]*lx{}, depth: fr.depth + 1, orig: map[ssa.Value]ssa.Value{}, args: map[ssa.Value]boundVal{}, parent: fr, callBlock: b}
	for i, prm := range f.Params {
		if i >= len(args) {
			continue
		}
		fr2.orig[prm] = fr.rootOf(args[i])
		fr2.args[prm] = boundVal{args[i], fr}
		if t, ok := oe.s.termOf(args[i], fr.env); ok {
			fr2.env[prm] = t
			if isStringish(prm.Type()) && !t.Lower && t.Strip == nil && !t.Unesc {
				fr2.bind[prm] = oe.boundTerm(t, oe.s.blockCond(b, fr.env, "argument "+termStr(t)), fr)
			}
		} else if isStringish(prm.Type()) || isByteSlice(prm.Type()) {
			fr2.bind[prm] = oe.strLx(args[i], b, fr)
		}
	}
	if oe.Tokens {
		oe.seedTokens(fr2)
	}
	oe.seedFieldTerms(fr2, b, fr)
	oe.seedParamElems(fr2)
	return fr2
}

func (oe *outEval) inlineLx(f *ssa.Function, args []ssa.Value, idx int, b *ssa.BasicBlock, fr *oframe) *lx {
	return oe.withCalleeFrame(f, args, b, fr, func(fr2 *oframe) *lx {
		var alts []*lx
		for _, ret := range Returns(f) {
			if idx >= len(ret.Results) {
				return lxAny()
			}
			// return f(x): value and error of one call handed on together — the caller's test of the error covers it
			if ex, ok := ret.Results[idx].(*ssa.Extract); ok && len(ret.Results) >= 2 {
				if ex2, ok := ret.Results[len(ret.Results)-1].(*ssa.Extract); ok && ex2.Tuple == ex.Tuple {
					if c, ok := ex.Tuple.(*ssa.Call); ok {
						if oe.forwarded == nil {
							oe.forwarded = map[*ssa.Call]bool{}
						}
						oe.forwarded[c] = true
					}
				}
			}
			// the caller uses the value only where the error is nil: returns with a certainly non-nil error do not count
			if n := len(ret.Results); n >= 2 && idx != n-1 && isErrorType(ret.Results[n-1].Type()) && certainlyNonNil(ret.Results[n-1], ret.Block()) {
				continue
			}
			alts = append(alts, oe.strLx(ret.Results[idx], ret.Block(), fr2))
		}
		if len(alts) == 0 {
			return &lx{Kind: "none"}
		}
		res := lxAlt(alts...)
		// a loop-free helper whose result is put together from values that depend on the path taken: each path on
		// its own (what was cut off on a path and what was put in its place stay together)
		if isStringish(f.Signature.Results().At(idx).Type()) && f.Signature.Results().Len() == 1 && returnsPathDependent(f, idx) {
			bs := &bufSpec{fn: f, fr: fr2, isRet: true, retIdx: idx, fallback: res}
			if oe.pathModeApplies(bs) {
				return &lx{Kind: "buf", Buf: bs}
			}
		}
		return res
	})
}

// concatLeaves: the operands of a string concatenation, in order.
func concatLeaves(v ssa.Value, depth int) []ssa.Value {
	if bo, ok := v.(*ssa.BinOp); ok && bo.Op == token.ADD && depth < 8 {
		return append(concatLeaves(bo.X, depth+1), concatLeaves(bo.Y, depth+1)...)
	}
	return []ssa.Value{v}
}

// returnsPathDependent: some return of the loop-free f yields a concatenation with a part chosen by the path (a phi).
func returnsPathDependent(f *ssa.Function, idx int) bool {
	if !loopFree(f) {
		return false
	}
	for _, ret := range Returns(f) {
		leaves := concatLeaves(ret.Results[idx], 0)
		if len(leaves) < 2 {
			continue
		}
		for _, l := range leaves {
			if _, isPhi := l.(*ssa.Phi); isPhi {
				return true
			}
		}
	}
	return false
}

// ---- buffers ---------------------------------------------------------------------------------

// symSetAt: the values of the scan-loop variable v for which control can reach block b.
func (oe *outEval) symSetAt(v ssa.Value, b *ssa.BasicBlock) *relang.Set {
	if c, ok := v.(*ssa.Convert); ok {
		// a conversion that can lose bits (byte(r) for a rune r) does not write the scanned symbol
		if narrowingConversion(c) {
			return nil
		}
		v = c.X
	}
	var header *ssa.BasicBlock
	var dom *relang.Set
	switch x := v.(type) {
	case *ssa.Extract:
		nx, ok := x.Tuple.(*ssa.Next)
		if !ok || x.Index != 2 || !nx.IsString {
			return nil
		}
		header, dom = nx.Block(), runeDomain()
	case *ssa.Index:
		if _, ok := x.Index.(*ssa.Phi); !ok || !isStringish(x.X.Type()) {
			return nil
		}
		header, dom = x.Index.(*ssa.Phi).Block(), byteDomain()
	default:
		return nil
	}
	if len(header.Succs) != 2 {
		return nil
	}
	in := loopBlocks(header)
	rel := ""
	if b.Parent().Pkg != nil {
		rel = relOf(b.Parent().Pkg.Pkg.Path())
	}
	leaves := decisionTable(header.Succs[0], dtConfig{Tables: constBoolTables(oe.p, rel), Var: v, Dom: dom, Leaf: func(x *ssa.BasicBlock) (string, bool) {
		if x == b {
			return "hit", true
		}
		if x == header || !in[x] {
			return "miss", true
		}
		return "", false
	}, TagOf: func(ssa.Value) string { return "inner" }, Max: 60000})
	for _, l := range leaves {
		if l.Effect != "hit" && l.Effect != "miss" {
			return nil
		}
	}
	set := effectSet(leaves, "hit", nil)
	if dom.Count() == 256 {
		lifted, ok := liftByteSet(set)
		if !ok {
			return nil
		}
		return lifted
	}
	if set.Contains(0xFFFD) {
		set = set.Union(relang.NewSet(relang.INV, relang.INV))
	}
	return set
}

func (oe *outEval) charLx(v ssa.Value, b *ssa.BasicBlock) *lx {
	if k, ok := constInt(v); ok {
		return lxLit(string(rune(k)))
	}
	// a byte picked from a constant string ("0123456789ABCDEF"[i]): one of its characters
	if ix, ok := v.(*ssa.Index); ok {
		if k, ok := constString(ix.X); ok && k != "" {
			asciiOnly := true
			for i := 0; i < len(k); i++ {
				if k[i] >= 0x80 {
					asciiOnly = false
				}
			}
			if asciiOnly {
				return &lx{Kind: "set", Set: relang.SetOfString(k)}
			}
		}
	}
	if set := oe.symSetAt(v, b); set != nil {
		return &lx{Kind: "set", Set: set}
	}
	return &lx{Kind: "anychar"}
}

// isBuf: v denotes the buffer (the value itself or its address taken for an io.Writer).
func isBufRef(v, buf ssa.Value) bool {
	v = unwrapIface(v)
	return v == buf
}

// piecesOf computes, per block of fn, what is written to buf by its instructions.
func (oe *outEval) piecesOf(bs *bufSpec) {
	if bs.pieces != nil {
		return
	}
	bs.pieces = map[*ssa.BasicBlock][]bufPiece{}
	fr := bs.fr
	if bs.isRet {
		for _, ret := range Returns(bs.fn) {
			for _, leaf := range concatLeaves(ret.Results[bs.retIdx], 0) {
				bs.pieces[ret.Block()] = append(bs.pieces[ret.Block()], bufPiece{At: ret, X: oe.strLx(leaf, ret.Block(), fr), V: leaf})
			}
		}
		return
	}
	for _, b := range bs.fn.Blocks {
		for _, in := range b.Instrs {
			call, ok := in.(*ssa.Call)
			if !ok {
				// the buffer escapes in some other way?
				continue
			}
			c := call.Common()
			uses := false
			for _, a := range c.Args {
				if isBufRef(a, bs.buf) {
					uses = true
				}
			}
			if !uses {
				continue
			}
			f := staticCallee(c)
			if f == nil {
				bs.bad = "the buffer is passed to a dynamic call at " + oe.p.Pos(call.Pos())
				continue
			}
			switch fnName(f) {
			case "(*bytes.Buffer).WriteString":
				bs.pieces[b] = append(bs.pieces[b], bufPiece{At: call, X: oe.strLx(c.Args[1], b, fr)})
			case "(*bytes.Buffer).WriteByte", "(*bytes.Buffer).WriteRune":
				bs.pieces[b] = append(bs.pieces[b], bufPiece{At: call, X: oe.charLx(c.Args[1], b)})
			case "(*bytes.Buffer).Write":
				bs.pieces[b] = append(bs.pieces[b], bufPiece{At: call, X: oe.strLx(c.Args[1], b, fr)})
			case "(*bytes.Buffer).String", "(*bytes.Buffer).Len", "(*bytes.Buffer).Grow", "(*bytes.Buffer).Cap", "(*bytes.Buffer).Bytes":
			case "encoding/json.NewEncoder":
				// an encoder over the buffer: each Encode appends the JSON text and a newline; HTML escaping is
				// the default and must not be switched off, indentation must not be set
				okEnc := true
				var encodes []*ssa.Call
				for _, ref := range *call.Referrers() {
					ec, isCall := ref.(*ssa.Call)
					if !isCall {
						okEnc = false
						continue
					}
					g := staticCallee(ec.Common())
					if g == nil || len(ec.Common().Args) == 0 || ec.Common().Args[0] != ssa.Value(call) {
						okEnc = false
						continue
					}
					switch fnName(g) {
					case "(*encoding/json.Encoder).Encode":
						encodes = append(encodes, ec)
					case "(*encoding/json.Encoder).SetEscapeHTML":
						if on, isK := constBool(ec.Common().Args[1]); !isK || !on {
							okEnc = false
						}
					default:
						okEnc = false
					}
				}
				for _, ec := range encodes {
					pc := lxAny()
					if okEnc {
						mark := jsonMarkBase - 1
						if prm, ok := fr.rootOf(ec.Common().Args[1]).(*ssa.Parameter); ok {
							for i, q := range prm.Parent().Params {
								if q == prm {
									mark = jsonMarkBase + i
								}
							}
						}
						pc = lxCat(&lx{Kind: "named", Name: "json", Mark: mark}, lxLit("\n"))
					}
					bs.pieces[ec.Block()] = append(bs.pieces[ec.Block()], bufPiece{At: ec, X: pc})
				}
			case "fmt.Fprintf":
				if format, ok := constString(c.Args[1]); ok {
					if args, ok := variadicArgs(c.Args[2]); ok {
						bs.pieces[b] = append(bs.pieces[b], bufPiece{At: call, X: oe.sprintfLx(format, args, b, fr)})
						continue
					}
				}
				bs.bad = "fmt.Fprintf with a non-constant format at " + oe.p.Pos(call.Pos())
			case "fmt.Fprint", "io.WriteString":
				bs.pieces[b] = append(bs.pieces[b], bufPiece{At: call, X: lxAny()})
			default:
				if f.Blocks != nil && f.Pkg != nil && strings.HasPrefix(f.Pkg.Pkg.Path(), modulePath) && fr.depth < 5 && oe.active[f] == 0 {
					// a helper of the repository that writes into the buffer
					fr2 := &oframe{fn: f, env: termEnv{}, bind: map[ssa.Value]*lx{}, depth: fr.depth + 1, orig: map[ssa.Value]ssa.Value{}, args: map[ssa.Value]boundVal{}, parent: fr, callBlock: b}
					var hb ssa.Value
					for i, prm := range f.Params {
						if i >= len(c.Args) {
							continue
						}
						if isBufRef(c.Args[i], bs.buf) {
							hb = prm
							continue
						}
						fr2.orig[prm] = fr.rootOf(c.Args[i])
						fr2.args[prm] = boundVal{c.Args[i], fr}
						if !isStringish(prm.Type()) {
							oe.s.bindValue(prm, c.Args[i])
						}
						if t, ok := oe.s.termOf(c.Args[i], fr.env); ok {
							fr2.env[prm] = t
							if isStringish(prm.Type()) && !t.Lower && t.Strip == nil && !t.Unesc {
								fr2.bind[prm] = oe.boundTerm(t, oe.s.blockCond(b, fr.env, "argument "+termStr(t)), fr)
							}
						} else if isStringish(prm.Type()) {
							fr2.bind[prm] = oe.strLx(c.Args[i], b, fr)
						}
					}
					if hb != nil {
						if oe.Tokens {
							oe.seedTokens(fr2)
						}
						oe.seedFieldTerms(fr2, b, fr)
						oe.seedParamElems(fr2)
						oe.active[f]++
						sub := &bufSpec{fn: f, buf: hb, fr: fr2}
						oe.piecesOf(sub)
						oe.active[f]--
						bs.pieces[b] = append(bs.pieces[b], bufPiece{At: call, X: &lx{Kind: "buf", Buf: sub}})
						continue
					}
				}
				bs.bad = "the buffer is passed to " + fnName(f) + " at " + oe.p.Pos(call.Pos())
			}
		}
	}
}

// ---- registration and compilation --------------------------------------------------------------

func (oe *outEval) register(x *lx, L *Lang, seen map[*lx]bool) error {
	if seen[x] {
		return nil
	}
	seen[x] = true
	switch x.Kind {
	case "join":
		L.AddString(string([]rune{joinOpen, joinSep, joinClose}))
	case "lit", "trimsuffix", "trimprefix", "cutprefix", "cutsuffix":
		L.AddString(x.S)
	case "set":
		L.AddSet(x.Set)
	case "term":
		// a term that is part of the result: remember under which condition it is written
		oe.termForms[x.Term.Key()] = append(oe.termForms[x.Term.Key()], x.Form)
		if oe.Markers {
			L.AddString(string(markerRune(x.Term.Key())))
			break
		}
		if err := registerSumm(L, oe.s, x.Form); err != nil {
			return err
		}
	case "named":
		if oe.Markers && x.Mark != 0 {
			L.AddString(string(markerRune(x.Mark)))
			break
		}
		re, ok := oe.Named[x.Name]
		if !ok {
			return fmt.Errorf("no language named %s", x.Name)
		}
		if _, err := L.Re(re); err != nil {
			return err
		}
	case "buf":
		oe.piecesOf(x.Buf)
		for _, ps := range x.Buf.pieces {
			for _, pc := range ps {
				if err := oe.register(pc.X, L, seen); err != nil {
					return err
				}
			}
		}
		if x.Buf.fallback != nil {
			if err := oe.register(x.Buf.fallback, L, seen); err != nil {
				return err
			}
		}
	}
	for _, p := range x.Parts {
		if err := oe.register(p, L, seen); err != nil {
			return err
		}
	}
	return nil
}

func (oe *outEval) compile(x *lx, L *Lang, memo map[*lx]*relang.DFA) (*relang.DFA, error) {
	if d, ok := memo[x]; ok {
		return d, nil
	}
	var d *relang.DFA
	switch x.Kind {
	case "lit":
		d = relang.Literal(L.A, x.S)
	case "any":
		d = L.All()
	case "none":
		d = relang.EmptyLang(L.A)
	case "anychar":
		d = L.FullRe(`[\s\S]`)
	case "set":
		d = relang.Intersect(relang.StarOfSet(L.A, x.Set), L.FullRe(`[\s\S]`)).Minimize()
	case "named":
		if oe.Markers && x.Mark != 0 {
			d = relang.Literal(L.A, string(markerRune(x.Mark)))
			break
		}
		d = L.FullRe(oe.Named[x.Name])
	case "term":
		if oe.Markers {
			d = relang.Literal(L.A, string(markerRune(x.Term.Key())))
			break
		}
		per, _ := splitByParam(x.Form)
		f := per[x.Term.Key()]
		if f == nil {
			d = L.All()
		} else {
			dd, amb, err := L.Eval(f)
			if err != nil {
				return nil, err
			}
			if len(amb) > 0 {
				dd = L.All()
			}
			d = dd
		}
		if ov, ok := oe.termOverride[x.Term.Key()]; ok {
			d = relang.Intersect(d, ov).Minimize()
		}
	case "cat":
		d = relang.Literal(L.A, "")
		for _, p := range x.Parts {
			pd, err := oe.compile(p, L, memo)
			if err != nil {
				return nil, err
			}
			d = relang.Concat(d, pd)
		}
	case "alt":
		d = relang.EmptyLang(L.A)
		for _, p := range x.Parts {
			pd, err := oe.compile(p, L, memo)
			if err != nil {
				return nil, err
			}
			d = relang.Union(d, pd).Minimize()
		}
	case "trimsuffix", "trimprefix":
		pd, err := oe.compile(x.Parts[0], L, memo)
		if err != nil {
			return nil, err
		}
		lit := relang.Literal(L.A, x.S)
		if x.Kind == "trimsuffix" {
			// {w ∈ L : w does not end in k} ∪ {w : wk ∈ L}
			endsK := relang.Concat(L.All(), lit)
			d = relang.Union(relang.Minus(pd, endsK), relang.Reverse(relang.LeftQuotientLiteral(relang.Reverse(pd), reverseString(x.S)))).Minimize()
		} else {
			startsK := relang.Concat(lit, L.All())
			d = relang.Union(relang.Minus(pd, startsK), relang.LeftQuotientLiteral(pd, x.S)).Minimize()
		}
	case "join":
		if !oe.Markers {
			d = L.All() // the cleaned join of the parts is not a regular function of them
			break
		}
		d = relang.Literal(L.A, string(joinOpen))
		for i, p := range x.Parts {
			pd, err := oe.compile(p, L, memo)
			if err != nil {
				return nil, err
			}
			if i > 0 {
				d = relang.Concat(d, relang.Literal(L.A, string(joinSep)))
			}
			d = relang.Concat(d, pd)
		}
		d = relang.Concat(d, relang.Literal(L.A, string(joinClose))).Minimize()
	case "cutprefix", "cutsuffix":
		pd, err := oe.compile(x.Parts[0], L, memo)
		if err != nil {
			return nil, err
		}
		switch {
		case x.Kind == "cutprefix" && x.S != "":
			d = relang.LeftQuotientLiteral(pd, x.S)
		case x.Kind == "cutprefix":
			d = relang.DropFirst(pd)
		case x.S != "":
			d = relang.RightQuotientLiteral(pd, x.S)
		default:
			d = relang.DropLast(pd)
		}
		d = d.Minimize()
	case "star":
		pd, err := oe.compile(x.Parts[0], L, memo)
		if err != nil {
			return nil, err
		}
		d = relang.Star(pd)
	case "buf":
		bs := x.Buf
		oe.piecesOf(bs)
		if bs.bad != "" {
			oe.Problems = append(oe.Problems, bs.bad)
			d = L.All()
			break
		}
		if bs.isRet {
			d1, bad, err := oe.compileBufPathsOrBad(bs, L)
			if err != nil {
				return nil, err
			}
			if bad {
				d1, err = oe.compile(bs.fallback, L, memo)
				if err != nil {
					return nil, err
				}
			}
			d = d1
			break
		}
		if oe.pathModeApplies(bs) {
			d1, err := oe.compileBufPaths(bs, L, true)
			if err != nil {
				return nil, err
			}
			d = d1
			if oe.lenAware(bs) {
				d2, err := oe.compileBufPaths(bs, L, false)
				if err != nil {
					return nil, err
				}
				d = relang.Union(d1, d2).Minimize()
			}
			break
		}
		if oe.lenAware(bs) {
			var err error
			if _, fresh := bs.buf.(*ssa.Alloc); fresh {
				d, err = oe.compileBufAware(bs, L, memo, true)
			} else {
				var d1, d2 *relang.DFA
				d1, err = oe.compileBufAware(bs, L, memo, true)
				if err == nil {
					d2, err = oe.compileBufAware(bs, L, memo, false)
				}
				if err == nil {
					d = relang.Union(d1, d2).Minimize()
				}
			}
			if err != nil {
				return nil, err
			}
			break
		}
		g := relang.NewGraph(L.A)
		in := map[*ssa.BasicBlock]int{}
		out := map[*ssa.BasicBlock]int{}
		// a counting loop whose condition holds on entry (for shift := 20; shift >= 0; …) runs at least once: its
		// header gets a second copy for the entry from outside, which can only go into the body
		inEntry := map[*ssa.BasicBlock]int{}
		outEntry := map[*ssa.BasicBlock]int{}
		var accept []int
		for _, b := range bs.fn.Blocks {
			in[b] = g.NewState()
			if firstIterationCertain(b) {
				inEntry[b] = g.NewState()
			}
		}
		process := func(b *ssa.BasicBlock, start int) (int, error) {
			cur := start
			pcs := bs.pieces[b]
			k := 0
			for _, ins := range b.Instrs {
				if bs.end != nil && ins == bs.end {
					accept = append(accept, cur)
				}
				if k < len(pcs) && pcs[k].At == ins {
					pd, err := oe.compile(pcs[k].X, L, memo)
					if err != nil {
						return 0, err
					}
					if os.Getenv("GRAPH_DEBUG") != "" {
						fmt.Printf("  graph %s block %d piece %s: js=%v eps=%v\n", bs.fn.Name(), b.Index, trunc(pcs[k].X.String(), 40), pd.Accepts("javascript:x"), pd.Accepts(""))
					}
					nx := g.NewState()
					g.Embed(cur, nx, pd)
					cur = nx
					k++
				}
				if _, isRet := ins.(*ssa.Return); isRet && bs.end == nil {
					accept = append(accept, cur)
				}
			}
			return cur, nil
		}
		for _, b := range bs.fn.Blocks {
			cur, err := process(b, in[b])
			if err != nil {
				return nil, err
			}
			out[b] = cur
			if s0, ok := inEntry[b]; ok {
				cur, err := process(b, s0)
				if err != nil {
					return nil, err
				}
				outEntry[b] = cur
			}
		}
		startBlock, cutInto := bufStartBlock(bs)
		for _, b := range bs.fn.Blocks {
			for _, su := range b.Succs {
				if su == cutInto {
					continue // the buffer is created anew there
				}
				target := in[su]
				if s0, ok := inEntry[su]; ok && !su.Dominates(b) {
					target = s0 // entering the loop from outside
				}
				g.Eps(out[b], target)
			}
			if oe0, ok := outEntry[b]; ok {
				g.Eps(oe0, in[b.Succs[0]]) // first test holds: into the body only
			}
		}
		d = g.DFA(in[startBlock], accept)
		if os.Getenv("GRAPH_DEBUG") != "" {
			fmt.Printf("  graph %s start block %d cut %v accept %v: js=%v\n", bs.fn.Name(), startBlock.Index, cutInto, accept, d.Accepts("javascript:x"))
		}
	default:
		return nil, fmt.Errorf("language expression of kind %s", x.Kind)
	}
	memo[x] = d
	return d, nil
}

// Language builds and compiles: registers extra (specification) material through prep before the alphabet is built.
func (oe *outEval) Language(x *lx, prep func(L *Lang)) (*relang.DFA, *Lang, error) {
	L := NewLang()
	if err := oe.register(x, L, map[*lx]bool{}); err != nil {
		return nil, nil, err
	}
	L.MustRe(`[\s\S]`)
	if prep != nil {
		prep(L)
	}
	L.Build()
	d, err := oe.compile(x, L, map[*lx]*relang.DFA{})
	return d, L, err
}

// markerRune: the placeholder symbol of a term (private-use area).
func markerRune(key int) rune { return rune(0xE000 + key%6000) }

// fieldPathOf: v loads a (nested) field of parameter #i of fn: "i.f1.f2".
func fieldPathOf(fn *ssa.Function, v ssa.Value) (string, bool) {
	var path []string
	cur := v
	for depth := 0; depth < 6; depth++ {
		switch x := cur.(type) {
		case *ssa.UnOp:
			cur = x.X
		case *ssa.FieldAddr:
			path = append([]string{rawFieldName(x.X.Type(), x.Field)}, path...)
			cur = x.X
		case *ssa.Field:
			path = append([]string{rawFieldName(x.X.Type(), x.Field)}, path...)
			cur = x.X
		case *ssa.Alloc:
			st := singleStore(x)
			if st == nil {
				return "", false
			}
			cur = st.Val
		case *ssa.Parameter:
			for i, prm := range fn.Params {
				if prm == x && len(path) > 0 {
					return fmt.Sprintf("%d.%s", i, strings.Join(path, ".")), true
				}
			}
			return "", false
		default:
			return "", false
		}
	}
	return "", false
}

// seedPseudoTerms makes string-valued fields of struct parameters, and the elements of
// range loops over []string fields, terms of the frame (so that guards on them are summarised).
func (oe *outEval) seedPseudoTerms(fr *oframe) {
	oe.pseudoElems = true
	id := func(key string) int {
		if k, ok := oe.pseudo[key]; ok {
			return k
		}
		k := 100 + len(oe.pseudo)
		oe.pseudo[key] = k
		oe.PseudoKey[k] = key
		return k
	}
	for _, b := range fr.fn.Blocks {
		for _, in := range b.Instrs {
			v, ok := in.(ssa.Value)
			if !ok || !isStringish(v.Type()) {
				continue
			}
			if _, bound := fr.env[v]; bound {
				continue
			}
			switch x := v.(type) {
			case *ssa.UnOp:
				if p, ok := fieldPathOf(fr.fn, x); ok {
					fr.env[v] = Term{Param: id("field:" + p)}
					continue
				}
				// element of a slice field: load of &slice[i] (range over a []string)
				if ia, ok := x.X.(*ssa.IndexAddr); ok {
					if p, ok := fieldPathOf(fr.fn, ia.X); ok {
						fr.env[v] = Term{Param: id("elem:" + p)}
					}
				}
			case *ssa.Extract:
				if nx, ok := x.Tuple.(*ssa.Next); ok && x.Index == 2 {
					if rg, ok := nx.Iter.(*ssa.Range); ok {
						if p, ok := fieldPathOf(fr.fn, rg.X); ok {
							fr.env[v] = Term{Param: id("elem:" + p)}
						}
					}
				}
			case *ssa.Field:
				if p, ok := fieldPathOf(fr.fn, x); ok {
					fr.env[v] = Term{Param: id("field:" + p)}
				}
			}
		}
	}
}

// seedParamElems: in the frame of a helper, the elements of a range loop over a []string parameter that the
// callers (up to the outermost frame) bound to a field of the outermost function's struct parameter are that
// field's element term.
func (oe *outEval) seedParamElems(fr *oframe) {
	if !oe.pseudoElems {
		return
	}
	resolve := func(v ssa.Value) (string, bool) {
		cur, cfr := v, fr
		for i := 0; i < 6; i++ {
			prm, ok := cur.(*ssa.Parameter)
			if !ok || cfr == nil {
				break
			}
			bv, ok := cfr.args[prm]
			if !ok {
				return "", false
			}
			cur, cfr = bv.v, bv.fr
		}
		if cfr == nil || cfr.parent != nil {
			return "", false // not a value of the outermost frame
		}
		return fieldPathOf(cfr.fn, cur)
	}
	id := func(key string) int {
		if k, ok := oe.pseudo[key]; ok {
			return k
		}
		k := 100 + len(oe.pseudo)
		oe.pseudo[key] = k
		oe.PseudoKey[k] = key
		return k
	}
	for _, b := range fr.fn.Blocks {
		for _, in := range b.Instrs {
			v, ok := in.(ssa.Value)
			if !ok || !isStringish(v.Type()) {
				continue
			}
			if _, bound := fr.env[v]; bound {
				continue
			}
			var base ssa.Value
			switch x := v.(type) {
			case *ssa.UnOp:
				if ia, ok := x.X.(*ssa.IndexAddr); ok {
					base = ia.X
				}
			case *ssa.Extract:
				if nx, ok := x.Tuple.(*ssa.Next); ok && x.Index == 2 {
					if rg, ok := nx.Iter.(*ssa.Range); ok {
						base = rg.X
					}
				}
			}
			if _, isPrm := base.(*ssa.Parameter); !isPrm {
				continue
			}
			if p, ok := resolve(base); ok {
				fr.env[v] = Term{Param: id("elem:" + p)}
			}
		}
	}
}

// sameParamField: a and b are the same value, or both read the same (nested) field of the same parameter of fn
// (a parameter passed by value, or fields that fn never writes).
func sameParamField(fn *ssa.Function, a, b ssa.Value) bool {
	if a == b {
		return true
	}
	pa, oka := fieldPathOf(fn, a)
	pb, okb := fieldPathOf(fn, b)
	if !oka || !okb || pa != pb {
		return false
	}
	// no store into a field of that name anywhere in fn
	for _, blk := range fn.Blocks {
		for _, in := range blk.Instrs {
			if st, ok := in.(*ssa.Store); ok {
				if fa, ok := st.Addr.(*ssa.FieldAddr); ok {
					if p2, ok := fieldPathOf(fn, fa); ok && (p2 == pa || strings.HasPrefix(pa, p2+".")) {
						return false
					}
				}
			}
		}
	}
	return true
}

// firstIterationCertain: b is the header of a loop "for i := c0; i <op> k; …" with constants c0 and k
// for which c0 <op> k holds: the body runs at least once.
func firstIterationCertain(b *ssa.BasicBlock) bool {
	if len(b.Instrs) == 0 || len(b.Succs) != 2 {
		return false
	}
	iff, ok := b.Instrs[len(b.Instrs)-1].(*ssa.If)
	if !ok {
		return false
	}
	bo, ok := iff.Cond.(*ssa.BinOp)
	if !ok {
		return false
	}
	// range over a slice that is known not to be empty where the loop starts: i+1 < len(s) with i starting at -1,
	// under a guard len(s) > 0 (or after "if len(s) == 0 { return }")
	if inc, ok := bo.X.(*ssa.BinOp); ok && bo.Op == token.LSS && inc.Op == token.ADD {
		if ph, ok := inc.X.(*ssa.Phi); ok && ph.Block() == b {
			one, ok1 := constInt(inc.Y)
			sl, isLen := isLenOf(bo.Y)
			start := false
			for i, e := range ph.Edges {
				if !b.Dominates(b.Preds[i]) {
					if k, ok := constInt(e); ok && k == -1 {
						start = true
					}
				}
			}
			if ok1 && one == 1 && isLen && start {
				for _, gd := range GuardsOf(b) {
					gb, ok := gd.Cond.(*ssa.BinOp)
					if !ok {
						continue
					}
					gs, isL := isLenOf(gb.X)
					k, isK := constInt(gb.Y)
					if !isL || !isK || k != 0 || !sameParamField(b.Parent(), gs, sl) {
						continue
					}
					switch {
					case gb.Op == token.GTR && gd.Pol, gb.Op == token.NEQ && gd.Pol, gb.Op == token.EQL && !gd.Pol:
						return true
					}
				}
			}
		}
	}
	phi, ok := bo.X.(*ssa.Phi)
	k, okk := constInt(bo.Y)
	if !ok || !okk || phi.Block() != b || len(phi.Edges) != 2 {
		return false
	}
	isHeader := false
	var c0 int64
	found := false
	for i, e := range phi.Edges {
		if b.Dominates(b.Preds[i]) {
			isHeader = true
			continue
		}
		if v, ok := constInt(e); ok {
			c0, found = v, true
		}
	}
	if !isHeader || !found {
		return false
	}
	switch bo.Op.String() {
	case "<":
		return c0 < k
	case "<=":
		return c0 <= k
	case ">":
		return c0 > k
	case ">=":
		return c0 >= k
	case "!=":
		return c0 != k
	}
	return false
}

func reverseString(s string) string {
	r := []rune(s)
	for i, j := 0, len(r)-1; i < j; i, j = i+1, j-1 {
		r[i], r[j] = r[j], r[i]
	}
	return string(r)
}

// certainlyNonNil: the error value v is the result of fmt.Errorf / errors.New, or block b is
// dominated by the true side of v != nil (the false side of v == nil).
func certainlyNonNil(v ssa.Value, b *ssa.BasicBlock) bool {
	if c, ok := v.(*ssa.Call); ok {
		if g := staticCallee(c.Common()); g != nil && (fnName(g) == "fmt.Errorf" || fnName(g) == "errors.New") {
			return true
		}
	}
	for d := b; d != nil; d = d.Idom() {
		id := d.Idom()
		if id == nil {
			break
		}
		iff, ok := id.Instrs[len(id.Instrs)-1].(*ssa.If)
		if !ok {
			continue
		}
		bo, ok := iff.Cond.(*ssa.BinOp)
		if !ok || bo.X != v {
			continue
		}
		if k, ok := bo.Y.(*ssa.Const); !ok || k.Value != nil {
			continue
		}
		if bo.Op == token.NEQ && id.Succs[0].Dominates(b) && !id.Succs[1].Dominates(b) {
			return true
		}
		if bo.Op == token.EQL && id.Succs[1].Dominates(b) && !id.Succs[0].Dominates(b) {
			return true
		}
	}
	return false
}

// lxHasAny: some part of x is Σ* (a value the evaluator could not follow).
func lxHasAny(x *lx) bool {
	seen := map[*lx]bool{}
	var walk func(x *lx) bool
	walk = func(x *lx) bool {
		if x == nil || seen[x] {
			return false
		}
		seen[x] = true
		if x.Kind == "any" {
			return true
		}
		for _, p := range x.Parts {
			if walk(p) {
				return true
			}
		}
		if x.Buf != nil {
			for _, ps := range x.Buf.pieces {
				for _, pc := range ps {
					if walk(pc.X) {
						return true
					}
				}
			}
		}
		return false
	}
	return walk(x)
}

// ---- slices --------------------------------------------------------------------------------------

type cutAlt struct {
	n    int    // bytes cut: 0 or 1
	k    string // the byte that is known to be cut ("" = any)
	form *Form  // the condition under which the bound takes this value (an edge of a phi)
}

// edgeForm: the condition of taking the edge p→x.
func (oe *outEval) edgeForm(p, x *ssa.BasicBlock, fr *oframe) *Form {
	c := oe.s.blockCond(p, fr.env, "edge")
	if iff, ok := p.Instrs[len(p.Instrs)-1].(*ssa.If); ok && p.Succs[0] != p.Succs[1] {
		ec := oe.s.ValueForm(iff.Cond, fr.env)
		if u, _ := ec.HasUnknown(); !u {
			if p.Succs[1] == x {
				ec = fNot(ec)
			}
			c = fAnd(c, ec)
		}
	}
	return c
}

// edgeByteGuard: block b is reached only if the first (front) or last byte of x equals a constant.
func edgeByteGuard(b *ssa.BasicBlock, x ssa.Value, front bool) string {
	isPos := func(idx ssa.Value) bool {
		if front {
			k, ok := constIntExpr(idx)
			return ok && k == 0
		}
		if bo, ok := idx.(*ssa.BinOp); ok && bo.Op == token.SUB {
			if s, ok := isLenOf(bo.X); ok && s == x {
				k, okk := constIntExpr(bo.Y)
				return okk && k == 1
			}
		}
		return false
	}
	byteOf := func(v ssa.Value) bool {
		switch y := v.(type) {
		case *ssa.Index:
			return y.X == x && isPos(y.Index)
		case *ssa.Lookup:
			return y.X == x && isPos(y.Index)
		case *ssa.UnOp:
			if ia, ok := y.X.(*ssa.IndexAddr); ok && y.Op == token.MUL {
				return ia.X == x && isPos(ia.Index)
			}
		}
		return false
	}
	var test func(c ssa.Value, pol bool) string
	test = func(c ssa.Value, pol bool) string {
		switch y := c.(type) {
		case *ssa.UnOp:
			if y.Op == token.NOT {
				return test(y.X, !pol)
			}
		case *ssa.BinOp:
			if (y.Op == token.EQL && pol) || (y.Op == token.NEQ && !pol) {
				l, r := y.X, y.Y
				if _, isK := l.(*ssa.Const); isK {
					l, r = r, l
				}
				if k, ok := constInt(r); ok && byteOf(l) && k >= 0 && k < 0x80 {
					return string(rune(k))
				}
			}
		case *ssa.Call:
			if g := staticCallee(y.Common()); g != nil && pol && len(y.Common().Args) == 2 && y.Common().Args[0] == x {
				n := fnName(g)
				if (front && (n == "strings.HasPrefix" || n == "bytes.HasPrefix")) || (!front && (n == "strings.HasSuffix" || n == "bytes.HasSuffix")) {
					if k, ok := constString(y.Common().Args[1]); ok && len(k) == 1 {
						return k
					}
				}
			}
		}
		return ""
	}
	for d := b; d != nil; d = d.Idom() {
		id := d.Idom()
		if id == nil {
			break
		}
		iff, ok := id.Instrs[len(id.Instrs)-1].(*ssa.If)
		if !ok {
			continue
		}
		var k string
		if id.Succs[0].Dominates(b) && !id.Succs[1].Dominates(b) {
			k = test(iff.Cond, true)
		} else if id.Succs[1].Dominates(b) && !id.Succs[0].Dominates(b) {
			k = test(iff.Cond, false)
		}
		if k != "" {
			return k
		}
	}
	return ""
}

// cutAlts: how many bytes the bound v of a slice of x cuts off at that end, per path.
func (oe *outEval) cutAlts(v ssa.Value, x ssa.Value, front bool, b *ssa.BasicBlock, depth int, fr *oframe) ([]cutAlt, bool) {
	if v == nil {
		return []cutAlt{{}}, true
	}
	if depth > 4 {
		return nil, false
	}
	if front {
		if k, ok := constIntExpr(v); ok {
			switch k {
			case 0:
				return []cutAlt{{}}, true
			case 1:
				return []cutAlt{{n: 1, k: edgeByteGuard(b, x, true)}}, true
			}
			return nil, false
		}
	} else {
		if s, ok := isLenOf(v); ok && s == x {
			return []cutAlt{{}}, true
		}
		if bo, ok := v.(*ssa.BinOp); ok && bo.Op == token.SUB {
			if s, ok := isLenOf(bo.X); ok && s == x {
				if k, ok := constIntExpr(bo.Y); ok && k == 1 {
					return []cutAlt{{n: 1, k: edgeByteGuard(b, x, false)}}, true
				}
			}
		}
	}
	if ph, ok := v.(*ssa.Phi); ok {
		var out []cutAlt
		for i, e := range ph.Edges {
			as, ok := oe.cutAlts(e, x, front, ph.Block().Preds[i], depth+1, fr)
			if !ok {
				return nil, false
			}
			ef := oe.edgeForm(ph.Block().Preds[i], ph.Block(), fr)
			for _, a := range as {
				if a.form == nil {
					a.form = ef
				} else {
					a.form = fAnd(a.form, ef)
				}
				out = append(out, a)
			}
		}
		return out, true
	}
	return nil, false
}

func (oe *outEval) sliceLx(x *ssa.Slice, b *ssa.BasicBlock, fr *oframe) *lx {
	base := oe.strLx(x.X, b, fr)
	lows, ok1 := oe.cutAlts(x.Low, x.X, true, x.Block(), 0, fr)
	highs, ok2 := oe.cutAlts(x.High, x.X, false, x.Block(), 0, fr)
	if !ok1 || !ok2 {
		return lxAny() // bounds that only a path-by-path evaluation can follow (see bufpaths.go)
	}
	var alts []*lx
	for _, lo := range lows {
		for _, hi := range highs {
			y := base
			if base.Kind == "term" && (lo.form != nil || hi.form != nil) {
				f := base.Form
				for _, ef := range []*Form{lo.form, hi.form} {
					if ef != nil {
						f = fAnd(f, ef)
					}
				}
				y = &lx{Kind: "term", Term: base.Term, Form: f}
			}
			if lo.n == 1 {
				y = &lx{Kind: "cutprefix", S: lo.k, Parts: []*lx{y}}
			}
			if hi.n == 1 {
				y = &lx{Kind: "cutsuffix", S: hi.k, Parts: []*lx{y}}
			}
			alts = append(alts, y)
		}
	}
	return lxAlt(alts...)
}

// ---- buffers whose emptiness is tested ---------------------------------------------------------

// bufLenTest: the branch tests whether the buffer is empty; returns the index of the successor
// taken when it is empty.
func bufLenTest(iff *ssa.If, buf ssa.Value) (int, bool) {
	bo, ok := iff.Cond.(*ssa.BinOp)
	if !ok {
		return 0, false
	}
	call, ok := bo.X.(*ssa.Call)
	if !ok {
		return 0, false
	}
	g := staticCallee(call.Common())
	if g == nil || fnName(g) != "(*bytes.Buffer).Len" || len(call.Common().Args) != 1 || !isBufRef(call.Common().Args[0], buf) {
		return 0, false
	}
	if k, ok := constInt(bo.Y); !ok || k != 0 {
		return 0, false
	}
	switch bo.Op {
	case token.EQL:
		return 0, true
	case token.NEQ, token.GTR:
		return 1, true
	}
	return 0, false
}

func (oe *outEval) lenAware(bs *bufSpec) bool {
	for _, b := range bs.fn.Blocks {
		if iff, ok := b.Instrs[len(b.Instrs)-1].(*ssa.If); ok {
			if _, ok := bufLenTest(iff, bs.buf); ok {
				return true
			}
		}
	}
	// a helper that is handed the buffer and tests it
	oe.piecesOf(bs)
	for _, ps := range bs.pieces {
		for _, pc := range ps {
			if pc.X.Kind == "buf" && pc.X.Buf != bs && oe.lenAware(pc.X.Buf) {
				return true
			}
		}
	}
	return false
}

// compileBufAware: the language written to the buffer, with one bit of state: whether the buffer
// is still empty. A piece leaves it empty only by writing nothing; a test of Len() follows the
// side that agrees with the bit.
func (oe *outEval) compileBufAware(bs *bufSpec, L *Lang, memo map[*lx]*relang.DFA, entryEmpty bool) (*relang.DFA, error) {
	oe.piecesOf(bs)
	g := relang.NewGraph(L.A)
	eps := relang.Literal(L.A, "")
	inE := map[*ssa.BasicBlock]int{}
	inN := map[*ssa.BasicBlock]int{}
	outE := map[*ssa.BasicBlock]int{}
	outN := map[*ssa.BasicBlock]int{}
	var accept []int
	for _, b := range bs.fn.Blocks {
		inE[b], inN[b] = g.NewState(), g.NewState()
	}
	pieceDFAs := func(x *lx) (*relang.DFA, *relang.DFA, error) {
		if x.Kind == "buf" && x.Buf != bs && oe.pathModeApplies(x.Buf) {
			oe.piecesOf(x.Buf)
			pe, err := oe.compileBufPaths(x.Buf, L, true)
			if err != nil {
				return nil, nil, err
			}
			pn, err := oe.compileBufPaths(x.Buf, L, false)
			return pe, pn, err
		}
		if x.Kind == "buf" && x.Buf != bs && oe.lenAware(x.Buf) {
			pe, err := oe.compileBufAware(x.Buf, L, memo, true)
			if err != nil {
				return nil, nil, err
			}
			pn, err := oe.compileBufAware(x.Buf, L, memo, false)
			return pe, pn, err
		}
		pd, err := oe.compile(x, L, memo)
		return pd, pd, err
	}
	for _, b := range bs.fn.Blocks {
		curE, curN := inE[b], inN[b]
		pcs := bs.pieces[b]
		k := 0
		for _, ins := range b.Instrs {
			if bs.end != nil && ins == bs.end {
				accept = append(accept, curE, curN)
			}
			if k < len(pcs) && pcs[k].At == ins {
				pe, pn, err := pieceDFAs(pcs[k].X)
				if err != nil {
					return nil, err
				}
				nE, nN := g.NewState(), g.NewState()
				g.Embed(curE, nE, relang.Intersect(pe, eps))
				g.Embed(curE, nN, relang.Minus(pe, eps))
				g.Embed(curN, nN, pn)
				curE, curN = nE, nN
				k++
			}
			if _, isRet := ins.(*ssa.Return); isRet && bs.end == nil {
				accept = append(accept, curE, curN)
			}
		}
		outE[b], outN[b] = curE, curN
	}
	startBlock, cutInto := bufStartBlock(bs)
	for _, b := range bs.fn.Blocks {
		if iff, ok := b.Instrs[len(b.Instrs)-1].(*ssa.If); ok {
			if e, ok := bufLenTest(iff, bs.buf); ok && b.Succs[0] != cutInto && b.Succs[1] != cutInto {
				g.Eps(outE[b], inE[b.Succs[e]])
				g.Eps(outN[b], inN[b.Succs[1-e]])
				continue
			}
		}
		for _, su := range b.Succs {
			if su == cutInto {
				continue
			}
			g.Eps(outE[b], inE[su])
			g.Eps(outN[b], inN[su])
		}
	}
	start := inN[startBlock]
	if entryEmpty {
		start = inE[startBlock]
	}
	return g.DFA(start, accept).Minimize(), nil
}

// forcePieces computes the pieces of every buffer of x now (they are otherwise computed when the language is
// compiled), so that the terms they introduce are known before a specification over them is written.
func (oe *outEval) forcePieces(x *lx, seen map[*lx]bool) {
	if x == nil || seen[x] {
		return
	}
	seen[x] = true
	for _, p := range x.Parts {
		oe.forcePieces(p, seen)
	}
	if x.Buf != nil {
		oe.piecesOf(x.Buf)
		for _, ps := range x.Buf.pieces {
			for _, pc := range ps {
				oe.forcePieces(pc.X, seen)
			}
		}
		oe.forcePieces(x.Buf.fallback, seen)
	}
}

// bufStartBlock: where the content of the buffer starts to be followed: the entry of the function, or — for a buffer
// variable declared inside a loop, which is created anew (empty) each time its declaration is executed — the block
// of the declaration, whose incoming edges are then cut (second result).
func bufStartBlock(bs *bufSpec) (*ssa.BasicBlock, *ssa.BasicBlock) {
	al, ok := bs.buf.(*ssa.Alloc)
	if !ok || al.Parent() != bs.fn || al.Block() == nil || al.Block() == bs.fn.Blocks[0] {
		return bs.fn.Blocks[0], nil
	}
	inLoop := false
	seen := map[*ssa.BasicBlock]bool{}
	work := append([]*ssa.BasicBlock{}, al.Block().Succs...)
	for len(work) > 0 {
		x := work[len(work)-1]
		work = work[:len(work)-1]
		if x == al.Block() {
			inLoop = true
			break
		}
		if seen[x] {
			continue
		}
		seen[x] = true
		work = append(work, x.Succs...)
	}
	if !inLoop {
		return bs.fn.Blocks[0], nil
	}
	return al.Block(), al.Block()
}

// dumpLx prints an expression with the pieces of its buffers (debugging aid).
func (oe *outEval) dumpLx(x *lx, indent string, seen map[*lx]bool) {
	if x == nil || seen[x] {
		return
	}
	seen[x] = true
	switch x.Kind {
	case "buf":
		fmt.Printf("%sbuf of %s\n", indent, fnName(x.Buf.fn))
		for _, b := range x.Buf.fn.Blocks {
			for _, pc := range x.Buf.pieces[b] {
				fmt.Printf("%s  block %d @%s: %s\n", indent, b.Index, oe.p.Pos(pc.At.Pos()), pc.X.String())
				oe.dumpLx(pc.X, indent+"    ", seen)
			}
		}
	case "term":
		fmt.Printf("%sterm %s under %s\n", indent, termStr(x.Term), x.Form.String())
	default:
		for _, p := range x.Parts {
			oe.dumpLx(p, indent+"  ", seen)
		}
	}
}

// boundTerm: a term handed to a helper, with what the caller knows of it and what is known by construction.
func (oe *outEval) boundTerm(t Term, f *Form, fr *oframe) *lx {
	if in, ok := oe.intrinsic[t.Key()]; ok {
		f = fAnd(in, f)
	}
	// what the caller of this frame knew about the same term still holds
	for _, x := range fr.bind {
		if x != nil && x.Kind == "term" && x.Term == t && x.Form != nil {
			f = fAnd(x.Form, f)
			break
		}
	}
	return &lx{Kind: "term", Term: t, Form: f}
}

// topFrame: the frame of the function under analysis, its string parameters being the terms.
func (oe *outEval) topFrame(fn *ssa.Function) *oframe {
	fr := &oframe{fn: fn, env: termEnv{}, bind: map[ssa.Value]*lx{}, args: map[ssa.Value]boundVal{}}
	for i, prm := range fn.Params {
		if isStringish(prm.Type()) {
			fr.env[prm] = Term{Param: i}
		}
	}
	oe.seedFieldTerms(fr, nil, nil)
	return fr
}

// ---- lists of known length ---------------------------------------------------------------------

// listVals: the elements of the slice v when it is a literal of known length (in this frame or, for a parameter,
// in the frame of the caller).
func (oe *outEval) listVals(v ssa.Value, fr *oframe, depth int) ([]boundVal, bool) {
	if depth > 5 {
		return nil, false
	}
	if args, ok := variadicArgs(v); ok {
		var out []boundVal
		for _, a := range args {
			out = append(out, boundVal{a, fr})
		}
		return out, true
	}
	if prm, ok := v.(*ssa.Parameter); ok {
		if b, ok := fr.args[prm]; ok {
			return oe.listVals(b.v, b.fr, depth+1)
		}
	}
	return nil, false
}

// listLx: the []string value v as a list of known length of languages.
func (oe *outEval) listLx(v ssa.Value, b *ssa.BasicBlock, fr *oframe, depth int) ([]*lx, bool) {
	if depth > 4 {
		return listDbg(1)
	}
	if vals, ok := oe.listVals(v, fr, 0); ok {
		if sl, isSlice := v.Type().Underlying().(*types.Slice); isSlice && isStringish(sl.Elem()) {
			var parts []*lx
			for _, e := range vals {
				parts = append(parts, oe.strLx(e.v, e.fr.fn.Blocks[0], e.fr))
			}
			return parts, true
		}
		return listDbg(2)
	}
	call, ok := v.(*ssa.Call)
	if !ok {
		if os.Getenv("LIST_DEBUG") != "" {
			fmt.Printf("listLx: not a call: %T %s\n", v, v)
		}
		return listDbg(3)
	}
	g := staticCallee(call.Common())
	if g == nil || g.Blocks == nil || g.Pkg == nil || !strings.HasPrefix(g.Pkg.Pkg.Path(), modulePath) {
		return listDbg(4)
	}
	// g maps a function over a list: acc = append(acc, f(list[i])) in its only loop, and returns acc
	hs := loopHeaders(g)
	if len(hs) != 1 {
		return listDbg(5)
	}
	h := hs[0]
	in := loopBlocks(h)
	var acc *ssa.Phi
	var step *ssa.Call
	for _, ins := range h.Instrs {
		phi, ok := ins.(*ssa.Phi)
		if !ok {
			continue
		}
		if _, isSlice := phi.Type().Underlying().(*types.Slice); !isSlice {
			continue
		}
		for i, e := range phi.Edges {
			if !in[h.Preds[i]] {
				// the initial value: an empty slice
				switch y := e.(type) {
				case *ssa.Const:
					if y.Value != nil {
						return listDbg(6)
					}
				case *ssa.MakeSlice:
					if k, ok := constInt(y.Len); !ok || k != 0 {
						return listDbg(7)
					}
				default:
					return listDbg(8)
				}
				continue
			}
			c, ok := e.(*ssa.Call)
			if !ok {
				return listDbg(9)
			}
			if bi, ok := c.Common().Value.(*ssa.Builtin); !ok || bi.Name() != "append" || len(c.Common().Args) != 2 || c.Common().Args[0] != ssa.Value(phi) {
				return listDbg(10)
			}
			step = c
		}
		acc = phi
	}
	if acc == nil || step == nil {
		return listDbg(11)
	}
	for _, ret := range Returns(g) {
		if len(ret.Results) != 1 || ret.Results[0] != ssa.Value(acc) {
			return listDbg(12)
		}
	}
	added, ok := variadicArgs(step.Common().Args[1])
	if !ok || len(added) != 1 {
		return listDbg(13)
	}
	// the element of this iteration: loads of list[i] with list a parameter of g
	var list *ssa.Parameter
	var elemLoads []ssa.Value
	for blk := range in {
		for _, ins := range blk.Instrs {
			ia, ok := ins.(*ssa.IndexAddr)
			if !ok {
				continue
			}
			prm, ok := ia.X.(*ssa.Parameter)
			if !ok {
				continue // the one-element array of the append
			}
			if list != nil && prm != list {
				return listDbg(14)
			}
			list = prm
			for _, ref := range *ia.Referrers() {
				ld, ok := ref.(*ssa.UnOp)
				if !ok || ld.Op != token.MUL {
					return listDbg(15)
				}
				elemLoads = append(elemLoads, ld)
			}
		}
	}
	if list == nil || len(elemLoads) == 0 {
		return listDbg(16)
	}
	var parts []*lx
	okAll := true
	res := oe.withCalleeFrame(g, call.Common().Args, b, fr, func(fr0 *oframe) *lx {
		vals, ok := oe.listVals(list, fr0, 0)
		if !ok {
			okAll = false
			return lxAny()
		}
		for _, e := range vals {
			// a frame of its own for every element: nothing computed for one element is reused for the next
			fr2 := *fr0
			fr2.bind = map[ssa.Value]*lx{}
			for k, v := range fr0.bind {
				if _, isPrm := k.(*ssa.Parameter); isPrm {
					fr2.bind[k] = v
				}
			}
			fr2.elems = map[ssa.Value]boundVal{}
			for _, ld := range elemLoads {
				fr2.elems[ld] = e
			}
			parts = append(parts, oe.strLx(added[0], step.Block(), &fr2))
		}
		return lxLit("")
	})
	_ = res
	if !okAll {
		return listDbg(17)
	}
	return parts, true
}

func listDbg(n int) ([]*lx, bool) {
	if os.Getenv("LIST_DEBUG") != "" {
		fmt.Println("listLx: reject", n)
	}
	return nil, false
}

// narrowingConversion: an integer conversion to a type with fewer bits than its operand's.
func narrowingConversion(c *ssa.Convert) bool {
	size := func(t types.Type) int {
		b, ok := t.Underlying().(*types.Basic)
		if !ok {
			return 0
		}
		switch b.Kind() {
		case types.Int8, types.Uint8:
			return 1
		case types.Int16, types.Uint16:
			return 2
		case types.Int32, types.Uint32:
			return 4
		case types.Int, types.Uint, types.Int64, types.Uint64, types.Uintptr:
			return 8
		}
		return 0
	}
	from, to := size(c.X.Type()), size(c.Type())
	return from > 0 && to > 0 && to < from
}
