package main

import (
	"fmt"
	"go/constant"
	"go/types"

	"golang.org/x/tools/go/ssa"

	"safecheck/relang"
)

func init() { register("C20", "other", runC20) }

func stdConstRune(p *Program, pkg, name string) (rune, bool) {
	pk := p.All[pkg]
	if pk == nil || pk.Types == nil {
		return 0, false
	}
	c, ok := pk.Types.Scope().Lookup(name).(*types.Const)
	if !ok {
		return 0, false
	}
	v, ok := constant.Int64Val(c.Val())
	return rune(v), ok
}

func runC20Shape(p *Program, r *Report) {
	r.Trusted = []string{"go/types + go/ssa", "lemma (paper): if the last element contains no path separator then Clean(Join(d, s, f)) is Clean(Join(d, s)) (f ∈ {\"\", \".\"}), its parent (only f = \"..\"), or a direct child",
		"path/filepath.Join joins with Separator and cleans"}
	r.NotDecided = []string{"GOOS=windows, where '/' is a second separator (observation O2)"}
	r.Explain = "The only construction of the result is filepath.Join(dir, src, filename) with the filename last; the conjunction of guards dominating it is evaluated as a regular language over the filename and shown disjoint from {strings containing the target's path separator or list separator} ∪ {\"..\"}; error paths return the zero value."
	r.Min("C20.R1", 3)
	r.Min("C20.R2", 1)
	const cname = "template.TrustedSourceFromConstantDir"
	fn := p.Func("template", "TrustedSourceFromConstantDir")
	if fn == nil {
		r.Undec("C20.R1", cname, "", "anchor not found")
		return
	}
	regs, _ := p.AllRegexes()
	s := NewSummarizer(p, regs)
	sites := analyseCtor(p, s, fn, modulePath+"/template", "TrustedSource")
	if len(sites) != 1 {
		r.Undec("C20.R1", cname, p.Pos(fn.Pos()), fmt.Sprintf("expected one construction with content, found %d", len(sites)))
		return
	}
	site := sites[0]
	fnIdx := -1
	for i, prm := range fn.Params {
		if prm.Name() == "filename" || (i == 2 && isStringish(prm.Type()) && !isNamed(prm.Type(), modulePath+"/template", "stringConstant")) {
			fnIdx = i
		}
	}
	if fnIdx < 0 {
		r.Undec("C20.R1", cname, p.Pos(fn.Pos()), "dynamic filename parameter not found")
		return
	}
	// shape: Join(dir, src.String(), filename)
	call, _ := site.Store.Val.(*ssa.Call)
	pv := NewProv(p)
	shapeOK := false
	var descr string
	if call != nil && staticCallee(call.Common()) != nil && fnName(staticCallee(call.Common())) == "path/filepath.Join" {
		if args, ok := variadicArgs(call.Common().Args[0]); ok && len(args) >= 1 {
			last := peelConv(pv.Of(args[len(args)-1]))
			shapeOK = last.Op == "param" && last.Idx == fnIdx
			for _, a := range args[:len(args)-1] {
				e := peelConv(pv.Of(a))
				// the other elements must not derive from the dynamic filename
				e.Walk(func(x *Expr) bool {
					if x.Op == "param" && x.Idx == fnIdx {
						shapeOK = false
					}
					return true
				})
				descr += e.String() + ", "
			}
			descr += last.String()
		}
	}
	r.Check(shapeOK, "C20.R1", cname+"#join", site.Pos, "result is filepath.Join("+descr+") with the dynamic filename as last element",
		"result is not filepath.Join(…, filename): "+site.Val.String())
	nJoin := 0
	for _, b := range fn.Blocks {
		for _, in := range b.Instrs {
			if c, ok := in.(*ssa.Call); ok && staticCallee(c.Common()) != nil && fnName(staticCallee(c.Common())) == "path/filepath.Join" {
				nJoin++
			}
		}
	}
	r.Check(nJoin == 1, "C20.R1", cname+"#single-join", site.Pos, "one Join in the function", fmt.Sprintf("%d Join calls", nJoin))
	// error paths
	for i, ret := range Returns(fn) {
		if site.Store.Block().Dominates(ret.Block()) {
			continue
		}
		r.Check(zeroResultAt(ret, 0), "C20.R1", fmt.Sprintf("%s#error-return%d", cname, i), p.Pos(ret.Pos()), "error path returns the zero TrustedSource", "a path that bypasses the checked construction returns a non-zero TrustedSource")
	}
	// guards as a language over filename
	sep, ok1 := stdConstRune(p, "path/filepath", "Separator")
	lsep, ok2 := stdConstRune(p, "path/filepath", "ListSeparator")
	osSep, ok3 := stdConstRune(p, "os", "PathSeparator")
	if !ok1 || !ok2 || !ok3 {
		r.Undec("C20.R2", cname+"#separators", "", "separator constants of the target not found")
		return
	}
	per, ok := splitByParam(site.Cond)
	if !ok {
		r.Undec("C20.R2", cname+"#guards", site.Pos, "guards mix parameters")
		return
	}
	g := per[fnIdx]
	if g == nil {
		r.Viol("C20.R2", cname+"#guards", site.Pos, "no guard on the filename dominates the Join", "")
		return
	}
	L := NewLang()
	if err := registerSumm(L, s, site.Cond); err != nil {
		r.Undec("C20.R2", cname+"#guards", site.Pos, err.Error())
		return
	}
	seps := relang.SetOfRunes(sep, lsep, osSep)
	L.AddSet(seps)
	L.AddString("..")
	L.Build()
	d, amb, err := L.Eval(g)
	if err != nil || len(amb) > 0 {
		r.Undec("C20.R2", cname+"#guards", site.Pos, fmt.Sprintf("%v %v", err, amb))
		return
	}
	forbidden := relang.Union(relang.ContainsSym(L.A, seps), relang.Literal(L.A, ".."))
	if ok, w := relang.Disjoint(d, forbidden); ok {
		r.OK("C20.R2", cname+"#guards", site.Pos, fmt.Sprintf("accepted filenames %s contain none of %q %q and are not \"..\"", g.String(), sep, lsep))
	} else {
		r.Viol("C20.R2", cname+"#guards", site.Pos, fmt.Sprintf("a filename that contains a separator (%q, %q) or equals \"..\" reaches the Join; guards: %s", sep, lsep, g.String()), w)
	}
	r.Analysed["separators"] = fmt.Sprintf("%q %q (GOOS=%s)", sep, lsep, p.GOOS)
}
