package main

import (
	"go/types"
	"strings"

	"golang.org/x/tools/go/ssa"
)

// checkFileSystemProvenance (C19): the file systems that template bodies are loaded from are vouched for by the
// constructors of TrustedFS. Inside the library a file system is made from a path (os.DirFS) only to be stored,
// at once, in the fsys field of a TrustedFS literal, and the path is the content of a TrustedSource. A file
// system made anywhere else (a default for the zero TrustedFS, …) lets run-time strings choose template files.
func checkFileSystemProvenance(p *Program, r *Report, rule string) {
	n := 0
	for _, f := range p.SrcFuncs() {
		if f.Pkg == nil || !strings.HasPrefix(f.Pkg.Pkg.Path(), modulePath) {
			continue
		}
		short := strings.TrimPrefix(fnName(f), modulePath)
		for _, b := range f.Blocks {
			for _, in := range b.Instrs {
				c, ok := in.(*ssa.Call)
				if !ok {
					continue
				}
				g := staticCallee(c.Common())
				if g == nil || fnName(g) != "os.DirFS" {
					continue
				}
				n++
				cn := short + "#makes-file-system"
				pos := p.Pos(c.Pos())
				// the path: content of a TrustedSource parameter
				okArg := false
				if x, _, ok := fieldLoad(c.Common().Args[0]); ok {
					base := x
					if al, isAl := base.(*ssa.Alloc); isAl {
						if st := singleStoreLoose(al); st != nil {
							base = st.Val
						}
					}
					if prm, isP := base.(*ssa.Parameter); isP && isNamed(prm.Type(), pkgTemplate, "TrustedSource") {
						okArg = true
					}
				}
				// the result: stored only into TrustedFS.fsys
				okUse := true
				uses := 0
				var visit func(v ssa.Value, depth int)
				visit = func(v ssa.Value, depth int) {
					if depth > 3 {
						okUse = false
						return
					}
					for _, ref := range *v.Referrers() {
						switch x := ref.(type) {
						case *ssa.MakeInterface:
							visit(x, depth+1)
						case *ssa.ChangeInterface:
							visit(x, depth+1)
						case *ssa.Store:
							fa, isFA := x.Addr.(*ssa.FieldAddr)
							if isFA && isNamed(derefType(fa.X.Type()), pkgTemplate, "TrustedFS") {
								uses++
							} else {
								okUse = false
							}
						case *ssa.DebugRef:
						default:
							okUse = false
						}
					}
				}
				visit(c, 0)
				switch {
				case !okUse || uses == 0:
					r.Viol(rule, cn, pos, "a file system is made from a path outside the construction of a TrustedFS (it is returned, passed on or used directly): template files can then be chosen by run-time strings, e.g. through the zero TrustedFS", `ParseFS(template.TrustedFS{}, runtimeString)`)
				case !okArg:
					r.Viol(rule, cn, pos, "the path of the file system is not the content of a TrustedSource", "")
				default:
					r.OK(rule, cn, pos, "os.DirFS(content of a TrustedSource) stored at once as the file system of a TrustedFS")
				}
			}
		}
	}
	if n == 0 {
		r.OK(rule, "template#makes-file-system", "", "no file system is made from a path inside the library")
	}
}

func derefType(t types.Type) types.Type {
	if pt, ok := t.Underlying().(*types.Pointer); ok {
		return pt.Elem()
	}
	return t
}
