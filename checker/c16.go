package main

import (
	"fmt"
	"go/token"
	"go/types"
	"os"
	"regexp"
	"strings"

	"golang.org/x/tools/go/ssa"

	"safecheck/relang"
)

func init() {
	register("C16", "other", func(p *Program, r *Report) {
		runC16(p, r)
		checkBoundsProven(p, r, "C16.B1", "stylesheet.go")
		checkLoopsMakeProgress(p, r, "C16.B2", "stylesheet.go")
	})
}

// safeSelectorDFA is the hand-built automaton SAFE_SEL of DESIGN A.8: the CSS
// Syntax 3 tokenizer (§4.3, after §3.3 preprocessing) restricted to what a
// qualified-rule prelude may contain. Outside strings: no { } ; @ \ comment;
// '<' nowhere; every string closed on its line; a url( token must be a
// well-formed url token (quotes are not string delimiters inside it) or a url
// function with a string argument. "url(" is recognised after any character
// (conservative: CSS needs the identifier to be exactly url).
func safeSelectorDFA(a *relang.Alphabet) *relang.DFA {
	const (
		N, Nu, Nur, Nurl, Nslash, DQ, DQE, SQ, SQE, URLWS, URLBODY, URLEND, REJ = 0, 1, 2, 3, 4, 5, 6, 7, 8, 9, 10, 11, 12
	)
	isWS := func(c int32) bool { return c == ' ' || c == '\t' || c == '\n' || c == '\r' || c == '\f' }
	nonPrintable := func(c int32) bool { return c <= 8 || c == 0x0B || (c >= 0x0E && c <= 0x1F) || c == 0x7F }
	step := func(q int, c int32) int {
		if c == '<' {
			return REJ
		}
		switch q {
		case REJ:
			return REJ
		case DQ, SQ:
			quote := int32('"')
			if q == SQ {
				quote = '\''
			}
			switch c {
			case quote:
				return N
			case '\\':
				return q + 1
			case '\n', '\r', '\f':
				return REJ // bad-string token (CR and FF are newlines after preprocessing)
			}
			return q
		case DQE, SQE:
			return q - 1
		case URLWS:
			switch {
			case isWS(c):
				return URLWS
			case c == '"':
				return DQ // function token url( followed by a string
			case c == '\'':
				return SQ
			case c == ')':
				return N
			case c == '(' || c == '\\' || nonPrintable(c):
				return REJ
			}
			return URLBODY
		case URLBODY:
			switch {
			case c == ')':
				return N
			case isWS(c):
				return URLEND
			case c == '"' || c == '\'' || c == '(' || c == '\\' || nonPrintable(c):
				return REJ // bad-url token
			}
			return URLBODY
		case URLEND:
			switch {
			case isWS(c):
				return URLEND
			case c == ')':
				return N
			}
			return REJ
		}
		// outside strings
		switch c {
		case '"':
			return DQ
		case '\'':
			return SQ
		case '{', '}', ';', '@', '\\':
			return REJ
		case '/':
			return Nslash
		case '*':
			if q == Nslash {
				return REJ // comment start
			}
			return N
		case '(':
			if q == Nurl {
				return URLWS
			}
			return N
		case 'u', 'U':
			return Nu
		case 'r', 'R':
			if q == Nu {
				return Nur
			}
			return N
		case 'l', 'L':
			if q == Nur {
				return Nurl
			}
			return N
		}
		return N
	}
	return relang.FromFunc(a, 13, N, func(q int) bool { return q <= Nslash }, step)
}

const safeSelAlphabetChars = "\"'{};@\\<>/*()[]uUrRlL\n\r\f\t "

// balancedUpTo3 accepts strings whose ( ) [ ] outside CSS strings are properly
// nested with depth ≤ 3 (an under-approximation of "balanced", regular).
func balancedUpTo3(a *relang.Alphabet) *relang.DFA {
	// stack encoded as base-3 number of digits (1='(' 2='['), modes N/DQ/DQE/SQ/SQE, plus dead
	stacks := []string{""}
	for i := 0; i < len(stacks); i++ {
		if len(stacks[i]) < 3 {
			stacks = append(stacks, stacks[i]+"(", stacks[i]+"[")
		}
	}
	idx := map[string]int{}
	for i, s := range stacks {
		idx[s] = i
	}
	ns := len(stacks)
	dead := ns * 5
	step := func(q int, c int32) int {
		if q == dead {
			return dead
		}
		mode, st := q/ns, stacks[q%ns]
		switch mode {
		case 1, 3: // DQ, SQ
			quote := int32('"')
			if mode == 3 {
				quote = '\''
			}
			switch c {
			case quote:
				return idx[st]
			case '\\':
				return (mode+1)*ns + idx[st]
			}
			return q // candidates only: the guards are evaluated concretely afterwards
		case 2, 4:
			return (mode-1)*ns + idx[st]
		}
		switch c {
		case '"':
			return 1*ns + idx[st]
		case '\'':
			return 3*ns + idx[st]
		case '(', '[':
			if len(st) == 3 {
				return dead
			}
			return idx[st+string(rune(c))]
		case ')', ']':
			want := byte('(')
			if c == ']' {
				want = '['
			}
			if len(st) == 0 || st[len(st)-1] != want {
				return dead
			}
			return idx[st[:len(st)-1]]
		}
		return q
	}
	return relang.FromFunc(a, dead+1, 0, func(q int) bool { return q == 0 }, step)
}

func checkerBalanced(s string) bool {
	var st []byte
	for i := 0; i < len(s); i++ {
		switch s[i] {
		case '(', '[':
			st = append(st, s[i])
		case ')', ']':
			want := byte('(')
			if s[i] == ']' {
				want = '['
			}
			if len(st) == 0 || st[len(st)-1] != want {
				return false
			}
			st = st[:len(st)-1]
		}
	}
	return len(st) == 0
}

func runC16(p *Program, r *Report) {
	engineConsistency(p, r, "C16.E", func(n string) bool { return strings.Contains(n, "safehtml.") })

	r.Trusted = []string{"go/types + go/ssa", "SAFE_SEL: hand-written DFA of the CSS Syntax 3 tokenizer subset (DESIGN A.8)", "hasBalancedBrackets accepts properly nested strings and rejects unbalanced ones (only its presence as a guard and its bracket table are checked)", "regexp.ReplaceAllString removes one particular decomposition into matches (the over-approximation ranges over all decompositions)"}
	r.NotDecided = []string{"the stack algorithm of hasBalancedBrackets", "bracket balance itself (not regular; left out of SAFE_SEL)"}
	r.Explain = "The only construction is Sprintf(\"%s{%s}\", selector, style.String()) and every error path returns the zero StyleSheet; the guards that dominate it are turned into an over-approximation of the accepted selectors — (V|STR)* without '<' plus any further regular guard on the string-stripped selector, computed as automata over all Unicode — and shown included in SAFE_SEL; a failed inclusion is reported only when a witness is confirmed (stripped with the repository's pattern constants through package regexp, balanced by the checker's own bracket matcher)."
	for _, m := range []struct {
		r string
		n int
	}{{"C16.R1", 5}, {"C16.R2", 1}} {
		r.Min(m.r, m.n)
	}
	const cn = "safehtml.CSSRule"
	fn := p.Func("", "CSSRule")
	if fn == nil {
		r.Undec("C16.R1", cn, "", "anchor not found")
		return
	}
	regs, _ := p.AllRegexes()
	s := NewSummarizer(p, regs)
	sites := analyseCtor(p, s, fn, modulePath, "StyleSheet")
	if len(sites) != 1 {
		r.Undec("C16.R1", cn, p.Pos(fn.Pos()), fmt.Sprintf("expected one construction with content, found %d", len(sites)))
		return
	}
	site := sites[0]
	pv := NewProv(p)
	// frame
	call, _ := site.Store.Val.(*ssa.Call)
	frameOK := false
	descr := site.Val.String()
	if call != nil && staticCallee(call.Common()) != nil && fnName(staticCallee(call.Common())) == "fmt.Sprintf" {
		format, okf := constString(call.Common().Args[0])
		args, oka := variadicArgs(call.Common().Args[1])
		if okf && oka && format == "%s{%s}" && len(args) == 2 {
			a0 := peelConv(pv.Of(unIface(args[0])))
			a1 := pv.Of(unIface(args[1]))
			frameOK = a0.Op == "param" && a0.Idx == 0 && a1.Op == "field" && a1.Args[0].Op == "param" && a1.Args[0].Idx == 1
			descr = fmt.Sprintf("Sprintf(%q, %s, %s)", format, a0, a1)
		}
	} else {
		// selector + "{" + style.String() + "}"
		lv := site.Leaves
		if len(lv) == 4 {
			k1, ok1 := lv[1].IsConstString()
			k3, ok3 := lv[3].IsConstString()
			frameOK = lv[0].Op == "param" && lv[0].Idx == 0 && ok1 && k1 == "{" && ok3 && k3 == "}" && lv[2].Op == "field" && lv[2].Args[0].Op == "param" && lv[2].Args[0].Idx == 1
		}
	}
	r.Check(frameOK, "C16.R1", cn+"#frame", site.Pos, "result is exactly selector{style}: "+descr, "result is not selector + \"{\" + style + \"}\": "+descr)
	// error returns
	for i, ret := range Returns(fn) {
		if site.Store.Block().Dominates(ret.Block()) {
			k, ok := ret.Results[1].(*ssa.Const)
			r.Check(ok && k.Value == nil, "C16.R1", fmt.Sprintf("%s#return%d", cn, i), p.Pos(ret.Pos()), "success return with nil error", "the constructed rule is returned with a non-nil error")
			continue
		}
		r.Check(zeroResultAt(ret, 0), "C16.R1", fmt.Sprintf("%s#return%d", cn, i), p.Pos(ret.Pos()), "failure returns the zero StyleSheet", "a path that bypasses the checked construction returns a non-zero StyleSheet")
	}
	// presence of the bracket-balance guard on a stripped selector, and its table
	site.Cond.Atoms(func(a *LAtom) {})
	// the bracket matcher is not a regular condition: its call is kept as a proposition. It is required on every
	// path iff, assuming it answers "unbalanced", no selector reaches the construction.
	balance := false
	var balanceFn *ssa.Function
	for pname, pc := range s.PropCalls {
		if !hasLoop(pc.Fn) || len(pc.Args) != 1 || pc.Args[0].Param != 0 || pc.Args[0].Strip == nil || pc.Args[0].Lower {
			continue
		}
		Lb := NewLang()
		if err := registerSumm(Lb, s, site.Cond); err != nil {
			continue
		}
		Lb.Build()
		Lb.Props = map[string]bool{pname: false}
		d, _, err := Lb.Eval(site.Cond)
		if err == nil && d.IsEmpty() {
			balance = true
			balanceFn = pc.Fn
		}
	}
	r.Check(balance, "C16.R1", cn+"#balance-guard", site.Pos, "a bracket-balance test of the string-stripped selector is required on every path to the construction", "no bracket-balance guard on the stripped selector")
	if balanceFn != nil {
		// the closer→opener table the matcher reads (found by data flow, not by name)
		var tables []*ssa.Global
		seenG := map[*ssa.Global]bool{}
		// the matcher and the helpers of the repository it calls (classifiers, stack operations)
		fns := []*ssa.Function{balanceFn}
		seenF := map[*ssa.Function]bool{balanceFn: true}
		for i := 0; i < len(fns) && i < 16; i++ {
			for _, b := range fns[i].Blocks {
				for _, in := range b.Instrs {
					if c, ok := in.(ssa.CallInstruction); ok {
						if g := staticCallee(c.Common()); g != nil && !seenF[g] && g.Blocks != nil && g.Pkg != nil && strings.HasPrefix(g.Pkg.Pkg.Path(), modulePath) {
							seenF[g] = true
							fns = append(fns, g)
						}
					}
				}
			}
		}
		var allBlocks []*ssa.BasicBlock
		for _, f := range fns {
			allBlocks = append(allBlocks, f.Blocks...)
		}
		for _, b := range allBlocks {
			for _, in := range b.Instrs {
				if u, ok := in.(*ssa.UnOp); ok {
					if g, ok := u.X.(*ssa.Global); ok && !seenG[g] {
						if _, isMap := g.Type().(*types.Pointer).Elem().Underlying().(*types.Map); isMap {
							seenG[g] = true
							tables = append(tables, g)
						}
					}
				}
			}
		}
		tc := "safehtml." + strings.TrimPrefix(fnName(balanceFn), modulePath+".") + "#bracket-table"
		if len(tables) != 1 {
			r.Undec("C16.R1", tc, p.Pos(balanceFn.Pos()), fmt.Sprintf("the bracket matcher reads %d map tables (expected one closer→opener table)", len(tables)))
		} else if lit, err := p.VarLit("", cname(tables[0])); err != nil {
			r.Undec("C16.R1", tc, "", err.Error())
		} else {
			got := map[int64]int64{}
			for i, k := range lit.Keys {
				kk, _ := k.Int()
				vv, _ := lit.Vals[i].Int()
				got[kk] = vv
			}
			r.Check(len(got) == 2 && got[')'] == '(' && got[']'] == '[', "C16.R1", tc, p.Pos(lit.Pos), "bracket table pairs ) with ( and ] with [", fmt.Sprintf("bracket table is %v", got))
		}
		checkStackDiscipline(p, r, "C16.R1", fns)
		checkScanVisitsEveryByte(p, r, "C16.R1", fns)
	}
	// ---- R2 language ---------------------------------------------------------
	per, ok := splitByParam(site.Cond)
	if !ok || per[0] == nil {
		r.Viol("C16.R2", cn+"#guards", site.Pos, "no regular guard on the selector dominates the construction: "+site.Cond.String(), "")
		return
	}
	L := NewLang()
	if err := registerSumm(L, s, site.Cond); err != nil {
		r.Undec("C16.R2", cn+"#guards", site.Pos, err.Error())
		return
	}
	L.AddString(safeSelAlphabetChars)
	L.AddSet(relang.NewSet(0, 8, 0x0B, 0x0B, 0x0E, 0x1F, 0x7F, 0x7F))
	L.Build()
	A, amb, err := L.Eval(per[0])
	if err != nil || len(amb) > 0 {
		r.Undec("C16.R2", cn+"#guards", site.Pos, fmt.Sprintf("%v %v", err, amb))
		return
	}
	safe := safeSelectorDFA(L.A)
	badLang := relang.Minus(A, safe)
	if os.Getenv("C16_DEBUG") != "" {
		fmt.Println("C16 guards:", per[0].String())
		fmt.Println("C16 inexact:", s.Inexact)
	}
	c := cn + "#accepted⊆SAFE_SEL"
	if _, found := badLang.Witness(); !found {
		r.OK("C16.R2", c, site.Pos, "over-approximated accepted selectors "+per[0].String()+" ⊆ SAFE_SEL (no { } ; @ \\ < comment, open or bad string, or url( token outside strings)")
		return
	}
	// the bracket-balance guard is not regular: it is expected to be dropped from the
	// summary and is applied concretely when a witness is confirmed. Any other dropped
	// guard makes the failure of the inclusion inconclusive.
	for i, ix := range s.Inexact {
		if balanceFn != nil && i < len(s.InexactIn) && s.InexactIn[i] == balanceFn {
			continue
		}
		w, _ := badLang.Witness()
		r.Undec("C16.R2", c, site.Pos, fmt.Sprintf("a guard could not be modelled (%s); with the remaining ones the inclusion in SAFE_SEL fails (e.g. %s)", ix, L.A.Render(w)))
		return
	}
	// confirm a witness: must really pass the guards. Search within balanced≤3.
	cand := relang.Intersect(badLang, balancedUpTo3(L.A)).Minimize()
	confirmed := ""
	tries := 0
	for _, w := range enumerateWitnesses(cand, 200) {
		tries++
		sel := string(L.A.Bytes(w))
		if confirmSelector(sel, per[0], regs) {
			confirmed = fmt.Sprintf("%+q", sel)
			break
		}
	}
	if confirmed != "" {
		r.Viol("C16.R2", c, site.Pos, "an accepted selector leaves the CSS-safe prelude language (it can open a block, end the rule or start another one); guards: "+per[0].String(), confirmed)
	} else {
		w, _ := badLang.Witness()
		r.Undec("C16.R2", c, site.Pos, fmt.Sprintf("inclusion in SAFE_SEL fails in the over-approximation (e.g. %s) but no witness was confirmed among %d candidates", L.A.Render(w), tries))
	}
}

// enumerateWitnesses returns up to n accepted class sequences in length order.
func enumerateWitnesses(d *relang.DFA, n int) [][]int {
	type item struct {
		q    int
		path []int
	}
	var out [][]int
	// states from which acceptance is reachable
	live := make([]bool, d.N())
	for changed := true; changed; {
		changed = false
		for q := 0; q < d.N(); q++ {
			if live[q] {
				continue
			}
			if d.Acc[q] {
				live[q] = true
				changed = true
				continue
			}
			for c := range d.Trans[q] {
				if !d.A.Impossible[c] && live[d.Trans[q][c]] {
					live[q] = true
					changed = true
					break
				}
			}
		}
	}
	if !live[d.Start] {
		return nil
	}
	queue := []item{{d.Start, nil}}
	visits := make([]int, d.N())
	const perState = 6
	order := d.A.NiceOrder()
	for len(queue) > 0 && len(out) < n {
		it := queue[0]
		queue = queue[1:]
		if d.Acc[it.q] {
			out = append(out, it.path)
		}
		if len(it.path) > 64 {
			continue
		}
		for _, c := range order {
			if d.A.Impossible[c] {
				continue
			}
			t := int(d.Trans[it.q][c])
			if live[t] && visits[t] < perState {
				visits[t]++
				queue = append(queue, item{t, append(append([]int{}, it.path...), c)})
			}
		}
	}
	return out
}

// confirmSelector evaluates the guards of the construction on one concrete
// candidate, using package regexp with the repository's pattern constants and
// the checker's own bracket matcher.
func confirmSelector(sel string, guard *Form, regs map[string]*RegexConst) bool {
	applyTerm := func(t Term) string {
		x := sel
		for _, st := range []*RegexConst{t.Strip, t.Strip2} {
			if st != nil {
				x = regexp.MustCompile(st.Src).ReplaceAllString(x, "")
			}
		}
		if t.Lower {
			x = strings.ToLower(x)
		}
		return x
	}
	// the bracket-balance guard is applied to the most-stripped term that occurs in the guards
	var deepest Term
	guard.Atoms(func(a *LAtom) {
		if a.Term.Strip2 != nil || (a.Term.Strip != nil && deepest.Strip2 == nil) {
			deepest = a.Term
		}
	})
	stripped := applyTerm(deepest)
	var ev func(f *Form) bool
	ev = func(f *Form) bool {
		switch f.Op {
		case "true":
			return true
		case "false":
			return false
		case "not":
			return !ev(f.Sub[0])
		case "and":
			for _, s := range f.Sub {
				if !ev(s) {
					return false
				}
			}
			return true
		case "or":
			for _, s := range f.Sub {
				if ev(s) {
					return true
				}
			}
			return false
		case "atom":
			a := f.Atom
			t := applyTerm(a.Term)
			switch a.Kind {
			case "search":
				return regexp.MustCompile(a.Regex.Src).MatchString(t)
			case "containsAny":
				for _, r := range t {
					if a.Set.Contains(int32(r)) {
						return true
					}
				}
				return false
			case "contains":
				return strings.Contains(t, a.Str)
			case "hasprefix":
				return strings.HasPrefix(t, a.Str)
			case "hassuffix":
				return strings.HasSuffix(t, a.Str)
			case "eq":
				return t == a.Str
			case "empty":
				return t == ""
			}
		}
		return false
	}
	return ev(guard) && checkerBalanced(stripped)
}

// checkStackDiscipline: where the bracket matcher keeps the open brackets in a stack of a recognised form
// (container/list, or a slice that grows by append), the bracket that a closing bracket is compared with must be
// the one that is removed: push at the end, compare the last, remove the last (or all three at the front). Other
// representations (counters, bit stacks) are left to the trusted part of the check.
func checkStackDiscipline(p *Program, r *Report, rule string, fns []*ssa.Function) {
	n := 0
	for _, f := range fns {
		short := strings.TrimPrefix(fnName(f), modulePath+".")
		// container/list
		var backs, fronts, pushBack, pushFront []*ssa.Call
		var removes []*ssa.Call
		for _, b := range f.Blocks {
			for _, in := range b.Instrs {
				c, ok := in.(*ssa.Call)
				if !ok {
					continue
				}
				g := staticCallee(c.Common())
				if g == nil {
					continue
				}
				switch fnName(g) {
				case "(*container/list.List).Back":
					backs = append(backs, c)
				case "(*container/list.List).Front":
					fronts = append(fronts, c)
				case "(*container/list.List).PushBack":
					pushBack = append(pushBack, c)
				case "(*container/list.List).PushFront":
					pushFront = append(pushFront, c)
				case "(*container/list.List).Remove":
					removes = append(removes, c)
				}
			}
		}
		if len(removes) > 0 && (len(pushBack)+len(pushFront)) > 0 {
			n++
			ok := true
			why := ""
			if len(backs) > 0 && len(pushFront) > 0 || len(fronts) > 0 && len(pushBack) > 0 {
				ok, why = false, "brackets are pushed at one end of the list and looked at at the other"
			}
			for _, rm := range removes {
				arg := rm.Common().Args[1]
				isTop := false
				for _, t := range append(append([]*ssa.Call{}, backs...), fronts...) {
					if arg == ssa.Value(t) {
						isTop = true
					}
				}
				if !isTop {
					ok, why = false, "the element removed is not the one that was looked at"
				}
			}
			r.Check(ok, rule, short+"#stack-discipline", p.Pos(removes[0].Pos()), "the bracket compared with a closing bracket is the one removed from the list (same end for push, look and remove)", "the open-bracket stack is not used as a stack: "+why+"; mixed nestings such as a[b(c)) then count as balanced")
			continue
		}
		// a slice that grows by append
		hasAppend := false
		for _, b := range f.Blocks {
			for _, in := range b.Instrs {
				if c, ok := in.(*ssa.Call); ok {
					if bi, ok := c.Common().Value.(*ssa.Builtin); ok && bi.Name() == "append" {
						if _, isSl := c.Type().Underlying().(*types.Slice); isSl {
							hasAppend = true
						}
					}
				}
			}
		}
		if !hasAppend {
			continue
		}
		lastIdx := func(idx ssa.Value, of ssa.Value) bool {
			bo, ok := idx.(*ssa.BinOp)
			if !ok || bo.Op != token.SUB {
				return false
			}
			k, okk := constInt(bo.Y)
			lv, isLen := isLenOf(bo.X)
			return okk && k == 1 && isLen && lv == of
		}
		var tops, pops []ssa.Instruction
		okAll := true
		why := ""
		for _, b := range f.Blocks {
			for _, in := range b.Instrs {
				switch x := in.(type) {
				case *ssa.IndexAddr:
					if _, isSl := x.X.Type().Underlying().(*types.Slice); !isSl {
						continue
					}
					if _, isStr := x.X.Type().Underlying().(*types.Basic); isStr {
						continue
					}
					tops = append(tops, x)
					if !lastIdx(x.Index, x.X) {
						if k, ok := constInt(x.Index); !ok || k != 0 {
							continue // not a top-of-stack read we recognise
						}
						okAll, why = false, "brackets are appended at the end but the first one is looked at"
					}
				case *ssa.Slice:
					if _, isSl := x.X.Type().Underlying().(*types.Slice); !isSl {
						continue
					}
					pops = append(pops, x)
					lowOK := x.Low == nil
					if k, ok := constInt(x.Low); ok && k == 0 {
						lowOK = true
					}
					if !lowOK {
						okAll, why = false, "a closing bracket removes the first (outermost) open bracket instead of the last one it was compared with"
					} else if x.High == nil || !lastIdx(x.High, x.X) {
						if _, isK := constInt(x.High); x.High != nil && !isK {
							okAll, why = false, "a closing bracket does not remove exactly the last open bracket"
						}
					}
				}
			}
		}
		if len(pops) == 0 || len(tops) == 0 {
			continue
		}
		n++
		r.Check(okAll, rule, short+"#stack-discipline", p.Pos(pops[0].Pos()), "open brackets are appended at the end; the last one is compared with a closing bracket and removed", "the open-bracket stack is not used as a stack: "+why+"; mixed nestings such as a[b(c)) then count as balanced")
	}
	if n == 0 {
		r.OK(rule, "safehtml.hasBalancedBrackets#stack-discipline", "", "no stack of a recognised form (list or appended slice) in the bracket matcher: its algorithm stays in the trusted part")
	}
}

// checkScanVisitsEveryByte: the loop of the bracket matcher that walks over the selector is left only where it
// ends (its header) or by returning a verdict: a break out of it would accept what follows a matched bracket
// without looking at it ("a(b)c(" counts as balanced).
func checkScanVisitsEveryByte(p *Program, r *Report, rule string, fns []*ssa.Function) {
	for _, f := range fns {
		short := strings.TrimPrefix(fnName(f), modulePath+".")
		hs := loopHeaders(f)
		for _, h := range hs {
			outer := true
			for _, h2 := range hs {
				if h2 != h && loopBlocks(h2)[h] {
					outer = false
				}
			}
			if !outer {
				continue
			}
			in := loopBlocks(h)
			// the loop that walks over the selector: it reads bytes of a string parameter
			scans := false
			for b := range in {
				for _, ins := range b.Instrs {
					var x ssa.Value
					switch lk := ins.(type) {
					case *ssa.Lookup:
						x = lk.X
					case *ssa.Index:
						x = lk.X
					}
					if prm, ok := x.(*ssa.Parameter); ok && isStringish(prm.Type()) {
						scans = true
					}
				}
			}
			if !scans {
				continue
			}
			bad := ""
			for b := range in {
				if b == h {
					continue
				}
				for _, su := range b.Succs {
					if in[su] {
						continue
					}
					if _, isRet := su.Instrs[len(su.Instrs)-1].(*ssa.Return); isRet && len(su.Instrs) <= 2 {
						if ret := su.Instrs[len(su.Instrs)-1].(*ssa.Return); len(ret.Results) == 1 {
							if _, isK := ret.Results[0].(*ssa.Const); isK {
								continue // a verdict
							}
						}
					}
					if bad == "" && len(b.Instrs) > 0 {
						bad = p.Pos(b.Instrs[len(b.Instrs)-1].Pos())
						if bad == "-" || bad == "" {
							bad = p.Pos(f.Pos())
						}
					}
				}
			}
			r.Check(bad == "", rule, short+"#scan-visits-every-byte", p.Pos(f.Pos()), "the loop over the selector is left only at its end or with a verdict", "the loop over the selector can be left early ("+bad+") without a verdict: the brackets after that point are never matched, so a selector such as a(b)c( counts as balanced")
		}
	}
}
