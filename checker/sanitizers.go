package main

// Summaries of the run-time sanitizers bound to sanitization contexts: for
// every nil-error return, what kind of value is returned and under which
// type-assertion guards.

import (
	"fmt"
	"go/types"
	"sort"
	"strings"

	"golang.org/x/tools/go/ssa"
)

type sanReturn struct {
	Kind  string   // passthrough escaped urlsanitized urlsetsanitized const member error other
	Types []string // passthrough: asserted safe types (short names)
	Const string
	Pos   string
	Desc  string
}

type sanSummary struct {
	Fn       *ssa.Function
	Returns  []sanReturn
	Asserts  []string // every safe type asserted anywhere in the function
	Problems []string
}

func (s *sanSummary) PassTypes() []string {
	m := map[string]bool{}
	for _, r := range s.Returns {
		if r.Kind == "passthrough" {
			for _, t := range r.Types {
				m[t] = true
			}
		}
	}
	return sortedKeys(m)
}

func (s *sanSummary) Kinds() []string {
	m := map[string]bool{}
	for _, r := range s.Returns {
		m[r.Kind] = true
	}
	return sortedKeys(m)
}

func safeTypeName(t types.Type) (string, bool) {
	n, ok := t.(*types.Named)
	if !ok || n.Obj().Pkg() == nil || n.Obj().Pkg().Path() != modulePath {
		return "", false
	}
	switch n.Obj().Name() {
	case "HTML", "Script", "Style", "StyleSheet", "URL", "URLSet", "TrustedResourceURL", "Identifier":
		return n.Obj().Name(), true
	}
	return "", false
}

// indirectArg0: v == safehtmlutil.Indirect(args[0]) for the variadic parameter.
func indirectArg0(fn *ssa.Function, v ssa.Value) bool {
	return indirectArg0D(fn, v, 0)
}

func indirectArg0D(fn *ssa.Function, v ssa.Value, depth int) bool {
	c, ok := isCallTo(v, pkgUtil+".Indirect")
	if !ok {
		// a helper of the package applied to the variadic parameter, each of whose returns is nil
		// (nothing to assert on) or Indirect(its parameter[0])
		if call, isCall := v.(*ssa.Call); isCall && depth < 3 && len(fn.Params) > 0 {
			if h := staticCallee(call.Common()); h != nil && h.Pkg == fn.Pkg && h.Blocks != nil && len(h.Params) == 1 &&
				len(call.Common().Args) == 1 && call.Common().Args[0] == ssa.Value(fn.Params[len(fn.Params)-1]) && h.Signature.Results().Len() == 1 {
				n := 0
				for _, ret := range Returns(h) {
					rv := ret.Results[0]
					if k, isK := rv.(*ssa.Const); isK && k.Value == nil {
						continue
					}
					if !indirectArg0D(h, rv, depth+1) {
						return false
					}
					n++
				}
				return n > 0
			}
		}
		return false
	}
	a := c.Common().Args[0]
	u, ok := a.(*ssa.UnOp)
	if !ok {
		return false
	}
	ia, ok := u.X.(*ssa.IndexAddr)
	if !ok || len(fn.Params) == 0 || ia.X != ssa.Value(fn.Params[len(fn.Params)-1]) {
		return false
	}
	k, ok := constInt(ia.Index)
	return ok && k == 0
}

func stringifyAllArgs(fn *ssa.Function, v ssa.Value) bool {
	c, ok := isCallTo(v, pkgUtil+".Stringify")
	return ok && len(fn.Params) > 0 && c.Common().Args[0] == ssa.Value(fn.Params[len(fn.Params)-1])
}

func summariseSanitizer(p *Program, pv *Prov, fn *ssa.Function) *sanSummary {
	s := &sanSummary{Fn: fn}
	if fn == nil || fn.Blocks == nil {
		s.Problems = append(s.Problems, "no body")
		return s
	}
	// all assertions to safe types
	asserted := map[string]bool{}
	for _, b := range fn.Blocks {
		for _, in := range b.Instrs {
			if ta, ok := in.(*ssa.TypeAssert); ok {
				if n, ok := safeTypeName(ta.AssertedType); ok {
					asserted[n] = true
					if !indirectArg0(fn, ta.X) {
						s.Problems = append(s.Problems, fmt.Sprintf("assertion to %s is not applied to Indirect(args[0]) (%s)", n, p.Pos(ta.Pos())))
					}
				}
			}
		}
	}
	s.Asserts = sortedKeys(asserted)
	for _, ret := range Returns(fn) {
		pos := p.Pos(ret.Pos())
		if len(ret.Results) == 1 {
			// (string) sanitizers: comment sanitizer, normalizers
			if k, ok := constString(ret.Results[0]); ok {
				s.Returns = append(s.Returns, sanReturn{Kind: "const", Const: k, Pos: pos})
			} else {
				s.Returns = append(s.Returns, sanReturn{Kind: "other", Pos: pos, Desc: pv.Of(ret.Results[0]).String()})
			}
			continue
		}
		if k, ok := ret.Results[1].(*ssa.Const); !ok || k.Value != nil {
			_, isErrorf := isCallTo(ret.Results[1], "fmt.Errorf")
			val, isC := constString(ret.Results[0])
			if isErrorf && isC && val == "" {
				s.Returns = append(s.Returns, sanReturn{Kind: "error", Pos: pos})
			} else {
				s.Returns = append(s.Returns, sanReturn{Kind: "other", Pos: pos, Desc: "error return with a value or an unproven error"})
			}
			continue
		}
		v := ret.Results[0]
		// (T).String(x), x = extract#0 of assert(Indirect(args[0])).(T) under ok
		if c, ok := v.(*ssa.Call); ok {
			if f := staticCallee(c.Common()); f != nil && f.Name() == "String" && f.Signature.Recv() != nil {
				if tn, isSafe := safeTypeName(f.Signature.Recv().Type()); isSafe {
					x := c.Common().Args[0]
					if ex, ok := x.(*ssa.Extract); ok && ex.Index == 0 {
						if ta, ok := ex.Tuple.(*ssa.TypeAssert); ok && ta.CommaOk && types.Identical(ta.AssertedType, f.Signature.Recv().Type()) && indirectArg0(fn, ta.X) {
							guarded := false
							for _, g := range GuardsOf(ret.Block()) {
								if e2, ok := g.Cond.(*ssa.Extract); ok && g.Pol && e2.Tuple == ssa.Value(ta) && e2.Index == 1 {
									guarded = true
								}
							}
							if guarded {
								s.Returns = append(s.Returns, sanReturn{Kind: "passthrough", Types: []string{tn}, Pos: pos})
								continue
							}
						}
					}
					// escaped / sanitized forms
					if inner, ok := x.(*ssa.Call); ok {
						if g := staticCallee(inner.Common()); g != nil && len(inner.Common().Args) == 1 && stringifyAllArgs(fn, inner.Common().Args[0]) {
							switch fnName(g) {
							case modulePath + ".HTMLEscaped":
								s.Returns = append(s.Returns, sanReturn{Kind: "escaped", Pos: pos})
								continue
							case modulePath + ".URLSanitized":
								s.Returns = append(s.Returns, sanReturn{Kind: "urlsanitized", Pos: pos})
								continue
							case modulePath + ".URLSetSanitized":
								s.Returns = append(s.Returns, sanReturn{Kind: "urlsetsanitized", Pos: pos})
								continue
							}
						}
					}
				}
			}
			// Stringify(v) with v the type-switch operand, under the case's assertions
			if sc, ok := isCallTo(v, pkgUtil+".Stringify"); ok {
				if elems, ok := variadicArgs(sc.Common().Args[0]); ok && len(elems) == 1 && indirectArg0(fn, unIface(elems[0])) {
					operand := unIface(elems[0])
					var ts []string
					okAll := allPathsGuard(pv, ret.Block(), func(a Atom) bool {
						ex, ok := a.E.Val.(*ssa.Extract)
						if !ok || !a.Pol || ex.Index != 1 {
							return false
						}
						ta, ok := ex.Tuple.(*ssa.TypeAssert)
						if !ok || ta.X != operand {
							return false
						}
						if n, ok := safeTypeName(ta.AssertedType); ok {
							ts = append(ts, n)
							return true
						}
						return false
					}, 0)
					if okAll {
						m := map[string]bool{}
						for _, t := range ts {
							m[t] = true
						}
						s.Returns = append(s.Returns, sanReturn{Kind: "passthrough", Types: sortedKeys(m), Pos: pos})
						continue
					}
				}
				// enum: Stringify(args...) under set[input]
				if stringifyAllArgs(fn, v) {
					member := false
					for _, g := range GuardsOf(ret.Block()) {
						if lk, ok := g.Cond.(*ssa.Lookup); ok && g.Pol && lk.Index == v {
							member = true
						}
					}
					if !member {
						// another spelling of a membership test (==, switch): decided by language
						_, member = enumWordsOf(p, fn)
					}
					if member {
						s.Returns = append(s.Returns, sanReturn{Kind: "member", Pos: pos})
						continue
					}
					s.Returns = append(s.Returns, sanReturn{Kind: "other", Pos: pos, Desc: "returns the stringified input unchanged"})
					continue
				}
			}
		}
		if k, ok := constString(v); ok {
			s.Returns = append(s.Returns, sanReturn{Kind: "const", Const: k, Pos: pos})
			continue
		}
		s.Returns = append(s.Returns, sanReturn{Kind: "other", Pos: pos, Desc: pv.Of(v).String()})
	}
	return s
}

// context oracle (from the statement and the package documentation table):
// which safe types may pass through the sanitizer of which context.
var allowedPassThrough = map[string][]string{
	"HTML": {"HTML"}, "HTMLValOnly": {"HTML"}, "Script": {"Script"}, "Style": {"Style"}, "StyleSheet": {"StyleSheet"},
	"Identifier": {"Identifier"}, "TrustedResourceURL": {"TrustedResourceURL"}, "TrustedResourceURLOrURL": {"TrustedResourceURL", "URL"},
	"URL": {"URL"}, "RCDATA": {}, "URLSet": {}, "AsyncEnum": {}, "DirEnum": {}, "LoadingEnum": {}, "TargetEnum": {}, "None": {},
}

// typedOnlyContexts never accept plain strings.
var typedOnlyContexts = []string{"Script", "Style", "StyleSheet", "HTMLValOnly", "Identifier", "TrustedResourceURL"}

func subsetOf(a, b []string) bool {
	m := map[string]bool{}
	for _, x := range b {
		m[x] = true
	}
	for _, x := range a {
		if !m[x] {
			return false
		}
	}
	return true
}

// checkTypedOnlySanitizers: C02.R2 / C04 — the sanitizers of typed-only
// contexts return only the contents of a value of the allowed type.
func checkTypedOnlySanitizers(p *Program, r *Report, pl *Policy, rule string) {
	pv := NewProv(p)
	pv.NoInline = true
	byName := map[string]int64{}
	for v, inf := range pl.Info {
		byName[inf.Name] = v
	}
	for _, name := range typedOnlyContexts {
		v, ok := byName[name]
		c := "sanitizer-of[" + name + "]"
		if !ok {
			r.Undec(rule, c, "", "context not found in sanitizationContextInfo")
			continue
		}
		fn := pl.SanitizerFunc(v)
		if fn == nil {
			r.Viol(rule, c, "", "typed-only context has no sanitizer bound", "")
			continue
		}
		sum := summariseSanitizer(p, pv, fn)
		bad := append([]string{}, sum.Problems...)
		nPass := 0
		for _, rt := range sum.Returns {
			switch rt.Kind {
			case "passthrough":
				nPass++
				if !subsetOf(rt.Types, allowedPassThrough[name]) {
					bad = append(bad, fmt.Sprintf("passes values of type %v through (%s)", rt.Types, rt.Pos))
				}
			case "error":
			default:
				bad = append(bad, fmt.Sprintf("returns %s %s without a type check (%s)", rt.Kind, rt.Desc, rt.Pos))
			}
		}
		if nPass == 0 {
			bad = append(bad, "never accepts its own type")
		}
		sort.Strings(bad)
		r.Check(len(bad) == 0, rule, c, p.Pos(fn.Pos()), fmt.Sprintf("%s returns only the contents of a %v value, an error otherwise", fnName(fn), allowedPassThrough[name]),
			fmt.Sprintf("%s is not typed-only: %s", fnName(fn), strings.Join(bad, "; ")))
	}
}
