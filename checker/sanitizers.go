package main

// Summaries of the run-time sanitizers bound to sanitization contexts: for
// every nil-error return, what kind of value is returned and under which
// type-assertion guards.

import (
	"fmt"
	"go/types"
	"sort"
	"strings"

	"golang.org/x/tools/go/ssa"
)

type sanReturn struct {
	Kind  string   // passthrough escaped urlsanitized urlsetsanitized const member error other
	Types []string // passthrough: asserted safe types (short names)
	Const string
	Pos   string
	Desc  string
}

type sanSummary struct {
	Fn       *ssa.Function
	Returns  []sanReturn
	Asserts  []string // every safe type asserted anywhere in the function
	Problems []string
}

func (s *sanSummary) PassTypes() []string {
	m := map[string]bool{}
	for _, r := range s.Returns {
		if r.Kind == "passthrough" {
			for _, t := range r.Types {
				m[t] = true
			}
		}
	}
	return sortedKeys(m)
}

func (s *sanSummary) Kinds() []string {
	m := map[string]bool{}
	for _, r := range s.Returns {
		m[r.Kind] = true
	}
	return sortedKeys(m)
}

func safeTypeName(t types.Type) (string, bool) {
	n, ok := t.(*types.Named)
	if !ok || n.Obj().Pkg() == nil || n.Obj().Pkg().Path() != modulePath {
		return "", false
	}
	switch n.Obj().Name() {
	case "HTML", "Script", "Style", "StyleSheet", "URL", "URLSet", "TrustedResourceURL", "Identifier":
		return n.Obj().Name(), true
	}
	return "", false
}

// sanFrame: a sanitizer, or a helper of it, with the roles its values play: the variadic argument
// list ("args"), Indirect(args[0]) ("arg0i"), Stringify(args...) ("str").
type sanFrame struct {
	fn    *ssa.Function
	role  map[ssa.Value]string
	top   bool
	depth int
}

func (fr *sanFrame) isArgs(v ssa.Value) bool {
	if fr.role[v] == "args" {
		return true
	}
	return fr.top && len(fr.fn.Params) > 0 && v == ssa.Value(fr.fn.Params[len(fr.fn.Params)-1])
}

// sub: the frame of helper h called with args from fr (nil if no argument plays a role).
func (fr *sanFrame) sub(h *ssa.Function, args []ssa.Value) *sanFrame {
	if h == nil || h.Blocks == nil || h.Pkg != fr.fn.Pkg || fr.depth >= 3 {
		return nil
	}
	n := &sanFrame{fn: h, role: map[ssa.Value]string{}, depth: fr.depth + 1}
	any := false
	for i, prm := range h.Params {
		if i >= len(args) {
			continue
		}
		switch a := args[i]; {
		case fr.isArgs(a):
			n.role[prm], any = "args", true
		case fr.isArg0I(a):
			n.role[prm], any = "arg0i", true
		case fr.isStr(a):
			n.role[prm], any = "str", true
		}
	}
	if !any {
		return nil
	}
	return n
}

// isArg0I: v == safehtmlutil.Indirect(args[0]), possibly computed by a helper.
func (fr *sanFrame) isArg0I(v ssa.Value) bool {
	v = unIface(v)
	if fr.role[v] == "arg0i" {
		return true
	}
	if c, ok := isCallTo(v, pkgUtil+".Indirect"); ok {
		u, ok := c.Common().Args[0].(*ssa.UnOp)
		if !ok {
			return false
		}
		ia, ok := u.X.(*ssa.IndexAddr)
		if !ok || !fr.isArgs(ia.X) {
			return false
		}
		k, ok := constInt(ia.Index)
		return ok && k == 0
	}
	// a helper applied to the argument list, each of whose returns is nil (nothing to assert on) or Indirect(args[0])
	if call, isCall := v.(*ssa.Call); isCall {
		h := staticCallee(call.Common())
		if h == nil || h.Signature.Results().Len() != 1 {
			return false
		}
		sf := fr.sub(h, call.Common().Args)
		if sf == nil {
			return false
		}
		n := 0
		for _, ret := range Returns(h) {
			rv := ret.Results[0]
			if k, isK := rv.(*ssa.Const); isK && k.Value == nil {
				continue
			}
			if !sf.isArg0I(rv) {
				return false
			}
			n++
		}
		return n > 0
	}
	return false
}

func (fr *sanFrame) isStr(v ssa.Value) bool {
	if fr.role[v] == "str" {
		return true
	}
	c, ok := isCallTo(v, pkgUtil+".Stringify")
	return ok && fr.isArgs(c.Common().Args[0])
}

// indirectArg0 / stringifyAllArgs: the top-level forms (kept for other rules).
func indirectArg0(fn *ssa.Function, v ssa.Value) bool {
	return (&sanFrame{fn: fn, role: map[ssa.Value]string{}, top: true}).isArg0I(v)
}

func stringifyAllArgs(fn *ssa.Function, v ssa.Value) bool {
	return (&sanFrame{fn: fn, role: map[ssa.Value]string{}, top: true}).isStr(v)
}

// provenError: v is certainly a non-nil error.
func provenError(v ssa.Value) bool {
	if _, ok := isCallTo(v, "fmt.Errorf"); ok {
		return true
	}
	if _, ok := isCallTo(v, "errors.New"); ok {
		return true
	}
	// a package-level error value initialised once by one of these
	if u, ok := v.(*ssa.UnOp); ok {
		if g, ok := u.X.(*ssa.Global); ok && g.Pkg != nil {
			var only *ssa.Store
			n := 0
			for _, mem := range g.Pkg.Members {
				f, ok := mem.(*ssa.Function)
				if !ok {
					continue
				}
				for _, b := range f.Blocks {
					for _, in := range b.Instrs {
						if st, ok := in.(*ssa.Store); ok && st.Addr == ssa.Value(g) {
							n++
							only = st
						}
					}
				}
			}
			if n == 1 && only.Parent().Name() == "init" {
				return provenError(unIface(only.Val))
			}
		}
	}
	return false
}

func summariseSanitizer(p *Program, pv *Prov, fn *ssa.Function) *sanSummary {
	s := &sanSummary{Fn: fn}
	if fn == nil || fn.Blocks == nil {
		s.Problems = append(s.Problems, "no body")
		return s
	}
	asserted := map[string]bool{}
	summariseSanFrame(p, pv, &sanFrame{fn: fn, role: map[ssa.Value]string{}, top: true}, s, asserted)
	s.Asserts = sortedKeys(asserted)
	return s
}

func summariseSanFrame(p *Program, pv *Prov, fr *sanFrame, s *sanSummary, asserted map[string]bool) {
	fn := fr.fn
	// all assertions to safe types
	for _, b := range fn.Blocks {
		for _, in := range b.Instrs {
			if ta, ok := in.(*ssa.TypeAssert); ok {
				if n, ok := safeTypeName(ta.AssertedType); ok {
					asserted[n] = true
					if !fr.isArg0I(ta.X) {
						s.Problems = append(s.Problems, fmt.Sprintf("assertion to %s is not applied to Indirect(args[0]) (%s)", n, p.Pos(ta.Pos())))
					}
				}
			}
		}
	}
	for _, ret := range Returns(fn) {
		pos := p.Pos(ret.Pos())
		if len(ret.Results) == 0 {
			continue
		}
		if len(ret.Results) == 1 && fr.top {
			// (string) sanitizers: comment sanitizer, normalizers
			if k, ok := constString(ret.Results[0]); ok {
				s.Returns = append(s.Returns, sanReturn{Kind: "const", Const: k, Pos: pos})
			} else {
				s.Returns = append(s.Returns, sanReturn{Kind: "other", Pos: pos, Desc: pv.Of(ret.Results[0]).String()})
			}
			continue
		}
		if len(ret.Results) >= 2 {
			ev := unIface(ret.Results[1])
			if k, ok := ev.(*ssa.Const); !ok || k.Value != nil {
				val, isC := constString(ret.Results[0])
				// the error of a helper handed on together with its value: the helper's returns say what happens
				if ex, ok := ev.(*ssa.Extract); ok {
					if call, ok := ex.Tuple.(*ssa.Call); ok {
						if ex0, ok := ret.Results[0].(*ssa.Extract); ok && ex0.Tuple == ex.Tuple {
							if sf := fr.sub(staticCallee(call.Common()), call.Common().Args); sf != nil {
								summariseSanFrame(p, pv, sf, s, asserted)
								continue
							}
						}
						if isC && val == "" && certainlyNonNil(ev, ret.Block()) {
							s.Returns = append(s.Returns, sanReturn{Kind: "error", Pos: pos})
							continue
						}
					}
				}
				if (provenError(ev) || certainlyNonNil(ev, ret.Block())) && isC && val == "" {
					s.Returns = append(s.Returns, sanReturn{Kind: "error", Pos: pos})
				} else {
					s.Returns = append(s.Returns, sanReturn{Kind: "other", Pos: pos, Desc: "error return with a value or an unproven error"})
				}
				continue
			}
		}
		v := ret.Results[0]
		// the value of a helper (under a nil error of it): what the helper returns
		if hv := v; true {
			var call *ssa.Call
			if ex, ok := hv.(*ssa.Extract); ok && ex.Index == 0 {
				call, _ = ex.Tuple.(*ssa.Call)
			} else if c, ok := hv.(*ssa.Call); ok {
				call = c
			}
			if call != nil {
				if h := staticCallee(call.Common()); h != nil && h.Pkg == fn.Pkg && h.Blocks != nil {
					if sf := fr.sub(h, call.Common().Args); sf != nil && (h.Signature.Results().Len() == 1 || errChecked(call, ret.Block())) {
						before := len(s.Returns)
						summariseSanFrame(p, pv, sf, s, asserted)
						if h.Signature.Results().Len() >= 2 {
							// the caller reaches this return only with a nil error: the helper's error returns were handled there
							kept := s.Returns[:before]
							for _, r := range s.Returns[before:] {
								if r.Kind != "error" {
									kept = append(kept, r)
								}
							}
							s.Returns = kept
						}
						continue
					}
				}
			}
		}
		// (T).String(x), x = extract#0 of assert(Indirect(args[0])).(T) under ok
		if c, ok := v.(*ssa.Call); ok {
			if f := staticCallee(c.Common()); f != nil && f.Name() == "String" && f.Signature.Recv() != nil {
				if tn, isSafe := safeTypeName(f.Signature.Recv().Type()); isSafe {
					x := c.Common().Args[0]
					if ex, ok := x.(*ssa.Extract); ok && ex.Index == 0 {
						if ta, ok := ex.Tuple.(*ssa.TypeAssert); ok && ta.CommaOk && types.Identical(ta.AssertedType, f.Signature.Recv().Type()) && fr.isArg0I(ta.X) {
							guarded := false
							for _, g := range GuardsOf(ret.Block()) {
								if e2, ok := g.Cond.(*ssa.Extract); ok && g.Pol && e2.Tuple == ssa.Value(ta) && e2.Index == 1 {
									guarded = true
								}
							}
							if guarded {
								s.Returns = append(s.Returns, sanReturn{Kind: "passthrough", Types: []string{tn}, Pos: pos})
								continue
							}
						}
					}
					// escaped / sanitized forms
					if inner, ok := x.(*ssa.Call); ok {
						if g := staticCallee(inner.Common()); g != nil && len(inner.Common().Args) == 1 && fr.isStr(inner.Common().Args[0]) {
							switch fnName(g) {
							case modulePath + ".HTMLEscaped":
								s.Returns = append(s.Returns, sanReturn{Kind: "escaped", Pos: pos})
								continue
							case modulePath + ".URLSanitized":
								s.Returns = append(s.Returns, sanReturn{Kind: "urlsanitized", Pos: pos})
								continue
							case modulePath + ".URLSetSanitized":
								s.Returns = append(s.Returns, sanReturn{Kind: "urlsetsanitized", Pos: pos})
								continue
							}
						}
					}
				}
			}
			// Stringify(v) with v the type-switch operand, under the case's assertions
			if sc, ok := isCallTo(v, pkgUtil+".Stringify"); ok {
				if elems, ok := variadicArgs(sc.Common().Args[0]); ok && len(elems) == 1 && fr.isArg0I(unIface(elems[0])) {
					operand := unIface(elems[0])
					var ts []string
					okAll := allPathsGuard(pv, ret.Block(), func(a Atom) bool {
						ex, ok := a.E.Val.(*ssa.Extract)
						if !ok || !a.Pol || ex.Index != 1 {
							return false
						}
						ta, ok := ex.Tuple.(*ssa.TypeAssert)
						if !ok || ta.X != operand {
							return false
						}
						if n, ok := safeTypeName(ta.AssertedType); ok {
							ts = append(ts, n)
							return true
						}
						return false
					}, 0)
					if okAll {
						m := map[string]bool{}
						for _, t := range ts {
							m[t] = true
						}
						s.Returns = append(s.Returns, sanReturn{Kind: "passthrough", Types: sortedKeys(m), Pos: pos})
						continue
					}
				}
			}
		}
		// enum: Stringify(args...) under set[input]
		if fr.isStr(v) {
			member := false
			for _, g := range GuardsOf(ret.Block()) {
				if lk, ok := g.Cond.(*ssa.Lookup); ok && g.Pol && lk.Index == v {
					member = true
				}
			}
			if !member && fr.top {
				// another spelling of a membership test (==, switch): decided by language
				_, member = enumWordsOf(p, fn)
			}
			if member {
				s.Returns = append(s.Returns, sanReturn{Kind: "member", Pos: pos})
				continue
			}
			s.Returns = append(s.Returns, sanReturn{Kind: "other", Pos: pos, Desc: "returns the stringified input unchanged"})
			continue
		}
		if k, ok := constString(v); ok {
			s.Returns = append(s.Returns, sanReturn{Kind: "const", Const: k, Pos: pos})
			continue
		}
		s.Returns = append(s.Returns, sanReturn{Kind: "other", Pos: pos, Desc: pv.Of(v).String()})
	}
}

// context oracle (from the statement and the package documentation table):
// which safe types may pass through the sanitizer of which context.
var allowedPassThrough = map[string][]string{
	"HTML": {"HTML"}, "HTMLValOnly": {"HTML"}, "Script": {"Script"}, "Style": {"Style"}, "StyleSheet": {"StyleSheet"},
	"Identifier": {"Identifier"}, "TrustedResourceURL": {"TrustedResourceURL"}, "TrustedResourceURLOrURL": {"TrustedResourceURL", "URL"},
	"URL": {"URL"}, "RCDATA": {}, "URLSet": {}, "AsyncEnum": {}, "DirEnum": {}, "LoadingEnum": {}, "TargetEnum": {}, "None": {},
}

// typedOnlyContexts never accept plain strings.
var typedOnlyContexts = []string{"Script", "Style", "StyleSheet", "HTMLValOnly", "Identifier", "TrustedResourceURL"}

func subsetOf(a, b []string) bool {
	m := map[string]bool{}
	for _, x := range b {
		m[x] = true
	}
	for _, x := range a {
		if !m[x] {
			return false
		}
	}
	return true
}

// checkTypedOnlySanitizers: C02.R2 / C04 — the sanitizers of typed-only
// contexts return only the contents of a value of the allowed type.
func checkTypedOnlySanitizers(p *Program, r *Report, pl *Policy, rule string) {
	pv := NewProv(p)
	pv.NoInline = true
	byName := map[string]int64{}
	for v, inf := range pl.Info {
		byName[inf.Name] = v
	}
	for _, name := range typedOnlyContexts {
		v, ok := byName[name]
		c := "sanitizer-of[" + name + "]"
		if !ok {
			r.Undec(rule, c, "", "context not found in sanitizationContextInfo")
			continue
		}
		fn := pl.SanitizerFunc(v)
		if fn == nil {
			r.Viol(rule, c, "", "typed-only context has no sanitizer bound", "")
			continue
		}
		sum := summariseSanitizer(p, pv, fn)
		bad := append([]string{}, sum.Problems...)
		nPass := 0
		for _, rt := range sum.Returns {
			switch rt.Kind {
			case "passthrough":
				nPass++
				if !subsetOf(rt.Types, allowedPassThrough[name]) {
					bad = append(bad, fmt.Sprintf("passes values of type %v through (%s)", rt.Types, rt.Pos))
				}
			case "error":
			default:
				bad = append(bad, fmt.Sprintf("returns %s %s without a type check (%s)", rt.Kind, rt.Desc, rt.Pos))
			}
		}
		if nPass == 0 {
			bad = append(bad, "never accepts its own type")
		}
		sort.Strings(bad)
		r.Check(len(bad) == 0, rule, c, p.Pos(fn.Pos()), fmt.Sprintf("%s returns only the contents of a %v value, an error otherwise", fnName(fn), allowedPassThrough[name]),
			fmt.Sprintf("%s is not typed-only: %s", fnName(fn), strings.Join(bad, "; ")))
	}
}
