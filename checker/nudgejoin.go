package main

import (
	"fmt"
	"go/constant"
	"go/token"
	"strings"

	"golang.org/x/tools/go/ssa"
)

// stateStoresUnder explores fn under the assumption that field "state" of its context
// parameter #idx equals assumed, resolving comparisons of that field with constants,
// and reports the constant values stored into that field on reachable blocks
// (following calls that pass the context on).
func stateStoresUnder(fn *ssa.Function, idx int, assumed int64, depth int, out map[int64]bool, unknown *bool) {
	if fn == nil || fn.Blocks == nil || idx >= len(fn.Params) || depth > 4 {
		*unknown = true
		return
	}
	prm := fn.Params[idx]
	roots := map[ssa.Value]bool{prm: true}
	for _, ref := range *prm.Referrers() {
		if st, ok := ref.(*ssa.Store); ok && st.Val == ssa.Value(prm) {
			roots[st.Addr] = true
		}
	}
	isStateAddr := func(v ssa.Value) bool {
		fa, ok := v.(*ssa.FieldAddr)
		return ok && roots[fa.X] && fieldName(fa.X.Type(), fa.Field) == "state"
	}
	isStateLoad := func(v ssa.Value) bool {
		switch x := v.(type) {
		case *ssa.UnOp:
			return x.Op == token.MUL && isStateAddr(x.X)
		case *ssa.Field:
			return roots[x.X] && fieldName(x.X.Type(), x.Field) == "state"
		}
		return false
	}
	// evaluate a branch condition under the assumption (only before any store to state)
	eval := func(v ssa.Value) (bool, bool) {
		bo, ok := v.(*ssa.BinOp)
		if !ok || (bo.Op != token.EQL && bo.Op != token.NEQ) {
			return false, false
		}
		var k *ssa.Const
		switch {
		case isStateLoad(bo.X):
			k, _ = bo.Y.(*ssa.Const)
		case isStateLoad(bo.Y):
			k, _ = bo.X.(*ssa.Const)
		}
		if k == nil || k.Value == nil || k.Value.Kind() != constant.Int {
			return false, false
		}
		kv, _ := constant.Int64Val(k.Value)
		return (kv == assumed) == (bo.Op == token.EQL), true
	}
	seen := map[*ssa.BasicBlock]bool{}
	var walk func(b *ssa.BasicBlock, stored bool)
	walk = func(b *ssa.BasicBlock, stored bool) {
		if seen[b] {
			return
		}
		seen[b] = true
		for _, in := range b.Instrs {
			switch x := in.(type) {
			case *ssa.Store:
				if isStateAddr(x.Addr) {
					if k, ok := x.Val.(*ssa.Const); ok && k.Value != nil && k.Value.Kind() == constant.Int {
						kv, _ := constant.Int64Val(k.Value)
						out[kv] = true
					} else {
						*unknown = true
					}
					stored = true
				}
			case *ssa.Call:
				g := staticCallee(x.Common())
				for i, a := range x.Common().Args {
					passes := roots[a]
					if u, ok := a.(*ssa.UnOp); ok && roots[u.X] {
						passes = true
					}
					if !passes {
						continue
					}
					if g == nil || g.Pkg != fn.Pkg {
						continue
					}
					if stored {
						*unknown = true
						continue
					}
					stateStoresUnder(g, i, assumed, depth+1, out, unknown)
				}
			}
		}
		if iff, ok := b.Instrs[len(b.Instrs)-1].(*ssa.If); ok && !stored {
			if v, known := eval(iff.Cond); known {
				if v {
					walk(b.Succs[0], stored)
				} else {
					walk(b.Succs[1], stored)
				}
				return
			}
		}
		for _, s := range b.Succs {
			walk(s, stored)
		}
	}
	walk(fn.Blocks[0], false)
}

// checkJoinNudge: join() may reconcile two branch ends by "nudging" them to the context
// an action would see. That is sound for contexts inside a tag or after an attribute name,
// but not for a context that is still before an attribute value: nothing has started an
// unquoted value there, and the browser will skip white space and take the next token as
// the value. The nudge used by join must leave stateBeforeValue unchanged.
func checkJoinNudge(p *Program, r *Report, rule string) {
	join := p.Func("template", "join")
	tpk := p.Pkg("template")
	stObj := tpk.Types.Scope().Lookup("state")
	if join == nil || stObj == nil {
		r.Undec(rule, "template.join", "", "anchor not found")
		return
	}
	var bv int64 = -1
	names := ConstNames(tpk, stObj.Type())
	for v, n := range names {
		if n == "stateBeforeValue" {
			bv = v
		}
	}
	if bv < 0 {
		r.Undec(rule, "template.stateBeforeValue", "", "anchor not found")
		return
	}
	n := 0
	for _, b := range join.Blocks {
		for _, in := range b.Instrs {
			c, ok := in.(*ssa.Call)
			if !ok {
				continue
			}
			g := staticCallee(c.Common())
			if g == nil || g.Pkg != join.Pkg || g == join || len(g.Params) != 1 || !isNamed(g.Params[0].Type(), pkgTemplate, "context") || g.Signature.Results().Len() != 1 || !isNamed(g.Signature.Results().At(0).Type(), pkgTemplate, "context") {
				continue
			}
			n++
			out := map[int64]bool{}
			unknown := false
			stateStoresUnder(g, 0, bv, 0, out, &unknown)
			cn := fmt.Sprintf("template.join#nudge%d:%s", n, strings.TrimPrefix(fnName(g), pkgTemplate+"."))
			pos := p.Pos(c.Pos())
			var moved []string
			for v := range out {
				if v != bv {
					moved = append(moved, names[v])
				}
			}
			switch {
			case unknown:
				r.Undec(rule, cn, pos, "the effect of the context adjustment on a before-value context could not be evaluated")
			case len(moved) > 0:
				r.Viol(rule, cn, pos, "join() adjusts a context that is still before an attribute value to "+strings.Join(moved, ",")+" (inside an unquoted value): the text after the branch is analysed as a new attribute although the browser, when the branch wrote nothing, takes it as the value", `<img title={{if .C}}x{{end}} alt="{{.X}}"> with C=false, X="foo onmouseover=alert(1) y"`)
			default:
				r.OK(rule, cn, pos, "leaves a before-value context unchanged")
			}
		}
	}
	if n == 0 {
		r.OK(rule, "template.join#no-nudge", p.Pos(join.Pos()), "join() adjusts no contexts")
	}
}
