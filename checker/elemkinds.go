package main

import (
	"fmt"
	"go/constant"
	"go/token"
	"go/types"
	"sort"
	"strings"

	"golang.org/x/tools/go/ssa"
)

// WHATWG HTML §13.2.6.4.7 ("in body" start tags that switch the tokenizer to
// RAWTEXT / RCDATA / script data / PLAINTEXT) — written from the standard.
var whatwgNonDataBody = map[string]bool{
	"script": true, "style": true, "textarea": true, "title": true,
	"xmp": true, "iframe": true, "noembed": true, "noframes": true, "noscript": true, "plaintext": true,
}

// checkElementBodyKinds: the tag-end transition decides by a name table whether the
// body of an element is scanned as markup (tags and attributes tracked) or as an
// opaque body that ends only at its own end tag. Untrusted strings are kept out of
// script/style bodies only if
//   - every element with a typed-only content context (Script, StyleSheet) is in that
//     table (else a '<x>' written inside the body moves the escaper to x's context, where
//     plain strings are accepted), and
//   - no element whose body the browser parses as markup is in the table (else a
//     <style>/<script> written inside it goes unnoticed and an action inside gets the outer
//     element's sanitizer).
//
// findOpaqueBodyTable locates the transition function of the tag state and the name table whose
// lookup guards the switch to the opaque-body state.
var opaqueScope []*ssa.Function // the tag function and the helpers it calls (set by findOpaqueBodyTable)

// opaqueWant: the value that marks an opaque-body element in the table (nil: the table is a set, map[string]bool)
var opaqueWant *ssa.Const

// memberTestOf: v is the boolean "name is in the set": a lookup in a package-level map[string]bool; a lookup in a
// package-level map from names to kinds compared with a constant kind; or a call of a helper of the repository
// that returns such a test of its (only string) parameter. Returns the table, the kind constant (nil for a set)
// and the name looked up (in the caller's terms).
func memberTestOf(v ssa.Value, depth int) (*ssa.Global, *ssa.Const, ssa.Value, bool) {
	if depth > 3 {
		return nil, nil, nil, false
	}
	tableOf := func(x ssa.Value) (*ssa.Global, ssa.Value, bool) {
		lk, ok := x.(*ssa.Lookup)
		if !ok || lk.CommaOk {
			return nil, nil, false
		}
		u, ok := lk.X.(*ssa.UnOp)
		if !ok {
			return nil, nil, false
		}
		g, ok := u.X.(*ssa.Global)
		if !ok {
			return nil, nil, false
		}
		if mt, ok := g.Type().(*types.Pointer).Elem().Underlying().(*types.Map); !ok || !isStringish(mt.Key()) {
			return nil, nil, false
		}
		return g, lk.Index, true
	}
	switch x := v.(type) {
	case *ssa.Lookup:
		if g, key, ok := tableOf(x); ok {
			if b, isB := x.Type().Underlying().(*types.Basic); isB && b.Kind() == types.Bool {
				return g, nil, key, true
			}
		}
	case *ssa.BinOp:
		if x.Op == token.EQL {
			for _, side := range [][2]ssa.Value{{x.X, x.Y}, {x.Y, x.X}} {
				k, isK := side[1].(*ssa.Const)
				if !isK || k.Value == nil {
					continue
				}
				if g, key, ok := tableOf(side[0]); ok {
					return g, k, key, true
				}
			}
		}
	case *ssa.Call:
		h := staticCallee(x.Common())
		if h != nil && h.Blocks != nil && h.Pkg != nil && strings.HasPrefix(h.Pkg.Pkg.Path(), modulePath) && len(x.Common().Args) == 2 && len(h.Params) == 2 {
			// set.has(name): a method of a named set type that looks its second parameter up in its first
			if rets := Returns(h); len(rets) == 1 && len(rets[0].Results) == 1 {
				if lk, ok := rets[0].Results[0].(*ssa.Lookup); ok && !lk.CommaOk {
					for i := 0; i < 2; i++ {
						if lk.X == ssa.Value(h.Params[i]) && lk.Index == ssa.Value(h.Params[1-i]) {
							tbl := x.Common().Args[i]
							if ct, ok := tbl.(*ssa.ChangeType); ok {
								tbl = ct.X
							}
							if u, ok := tbl.(*ssa.UnOp); ok {
								if g, ok := u.X.(*ssa.Global); ok {
									if b, isB := lk.Type().Underlying().(*types.Basic); isB && b.Kind() == types.Bool {
										return g, nil, x.Common().Args[1-i], true
									}
								}
							}
						}
					}
				}
			}
			return nil, nil, nil, false
		}
		if h == nil || h.Blocks == nil || h.Pkg == nil || !strings.HasPrefix(h.Pkg.Pkg.Path(), modulePath) || len(x.Common().Args) != 1 || len(h.Params) != 1 {
			return nil, nil, nil, false
		}
		rets := Returns(h)
		if len(rets) != 1 || len(rets[0].Results) != 1 {
			return nil, nil, nil, false
		}
		g, want, key, ok := memberTestOf(rets[0].Results[0], depth+1)
		if !ok || key != ssa.Value(h.Params[0]) {
			return nil, nil, nil, false
		}
		return g, want, x.Common().Args[0], true
	}
	return nil, nil, nil, false
}

// nameSetOfTable: the names that the table maps to want (to true, for a set).
func nameSetOfTable(tl *Lit, want *ssa.Const) (map[string]bool, error) {
	if want == nil {
		return tl.StringBoolSet()
	}
	if tl.Kind != "map" {
		return nil, fmt.Errorf("not a map literal")
	}
	wv, ok := constant.Int64Val(want.Value)
	if !ok {
		return nil, fmt.Errorf("the kind compared with is not an integer constant")
	}
	out := map[string]bool{}
	for i, k := range tl.Keys {
		ks, ok := k.Str()
		if !ok {
			return nil, fmt.Errorf("non-constant key")
		}
		n, ok := tl.Vals[i].Int()
		if !ok {
			return nil, fmt.Errorf("non-constant value for %q", ks)
		}
		if n == wv {
			out[ks] = true
		}
	}
	return out, nil
}

func findOpaqueBodyTable(p *Program, r *Report, rule string) (*ssa.Function, *ssa.Global) {
	tpk := p.Pkg("template")
	stObj := tpk.Types.Scope().Lookup("state")
	disp, _, err := stateDispatch(p)
	if stObj == nil || err != nil {
		r.Undec(rule, "template.transitionFunc", "", "anchor not found")
		return nil, nil
	}
	states := ConstNames(tpk, stObj.Type())
	var tagFn *ssa.Function
	special := int64(-1)
	for v, n := range states {
		if n == "stateSpecialElementBody" {
			special = v
		}
		if n == "stateTag" {
			tagFn = disp[v]
		}
	}
	if tagFn == nil || special < 0 {
		r.Undec(rule, "template.transitionFunc[stateTag]", "", "anchor not found")
		return nil, nil
	}
	// the table whose lookup guards a store of the opaque-body state (in the tag function or in a helper it calls)
	var tables []*ssa.Global
	scope := []*ssa.Function{tagFn}
	for i := 0; i < len(scope) && i < 12; i++ {
		for _, b := range scope[i].Blocks {
			for _, in := range b.Instrs {
				if cl, ok := in.(*ssa.Call); ok {
					if g := staticCallee(cl.Common()); g != nil && g.Pkg == tagFn.Pkg && g.Blocks != nil {
						dup := false
						for _, x := range scope {
							if x == g {
								dup = true
							}
						}
						if !dup {
							scope = append(scope, g)
						}
					}
				}
			}
		}
	}
	opaqueScope = scope
	var allBlocks []*ssa.BasicBlock
	for _, g := range scope {
		allBlocks = append(allBlocks, g.Blocks...)
	}
	for _, b := range allBlocks {
		{
			iff, ok := b.Instrs[len(b.Instrs)-1].(*ssa.If)
			if !ok {
				continue
			}
			g, want, _, ok := memberTestOf(iff.Cond, 0)
			if !ok {
				continue
			}
			for _, d := range b.Parent().Blocks {
				if !edgeDominates(b, b.Succs[0], d) {
					continue
				}
				for _, in2 := range d.Instrs {
					if st, ok := in2.(*ssa.Store); ok {
						if k, ok := st.Val.(*ssa.Const); ok && k.Value != nil && k.Value.Kind() == constant.Int {
							if v, _ := constant.Int64Val(k.Value); v == special {
								tables = append(tables, g)
								opaqueWant = want
							}
						}
					}
				}
			}
		}
	}
	c := strings.TrimPrefix(fnName(tagFn), pkgTemplate+".")
	if len(tables) != 1 {
		r.Undec(rule, "template."+c+"#opaque-body-table", p.Pos(tagFn.Pos()), fmt.Sprintf("expected one name table guarding the switch to the opaque-body state, found %d", len(tables)))
		return nil, nil
	}
	return tagFn, tables[0]
}

func checkElementBodyKinds(p *Program, r *Report, rule string, pl *Policy) {
	tagFn, table := findOpaqueBodyTable(p, r, rule)
	if tagFn == nil {
		return
	}
	tables := []*ssa.Global{table}
	tl, err := p.VarLit("template", cname(tables[0]))
	if err != nil {
		r.Undec(rule, "template."+tables[0].Name(), "", err.Error())
		return
	}
	set, err := nameSetOfTable(tl, opaqueWant)
	if err != nil {
		r.Undec(rule, "template."+tables[0].Name(), p.Pos(tl.Pos), err.Error())
		return
	}
	pos := p.Pos(tl.Pos)
	tn := "template." + tables[0].Name()
	var extra []string
	for e := range set {
		if !whatwgNonDataBody[e] {
			extra = append(extra, e)
		}
	}
	sort.Strings(extra)
	r.Check(len(extra) == 0, rule, tn+"#only-non-markup-bodies", pos, fmt.Sprintf("every element scanned as an opaque body (%v) has a raw-text/RCDATA body in the browser", sortedKeys(set)),
		fmt.Sprintf("the body of %v is parsed as markup by the browser but scanned as an opaque body by the escaper: a <style>/<script> or URL attribute written inside it gets the outer element's sanitizer", extra))
	// typed-only content contexts
	var missing []string
	n := 0
	for el, sc := range pl.ElemContent {
		name := pl.SC(sc)
		if name == "Script" || name == "StyleSheet" {
			n++
			if !set[el] {
				missing = append(missing, el)
			}
		}
	}
	sort.Strings(missing)
	r.Check(len(missing) == 0 && n > 0, rule, tn+"#typed-bodies-are-opaque", pos, fmt.Sprintf("the %d elements with a typed-only content context are scanned as opaque bodies", n),
		fmt.Sprintf("%v has a typed-only content context but its body is scanned as markup: after a '<x>' inside the body an action gets x's context and accepts plain strings", missing))
	for _, e := range []string{"script", "style"} {
		r.Check(set[e], rule, tn+"["+e+"]", pos, "<"+e+"> bodies are opaque to the tag scanner", "<"+e+"> is not scanned as an opaque body: `<"+e+">\"<b>\"{{.}}</"+e+">` HTML-escapes a plain string into the "+e+" body")
	}
}

// checkConditionalNamesBodyKind: after a join of branches that spell different element
// names, only element.name is consulted when the tag ends; the other possible names
// (element.names) must be compared with it against the opaque-body table, or a
// {{if}}<script{{else}}<b{{end}}> lets the escaper scan a script body as markup.
func checkConditionalNamesBodyKind(p *Program, r *Report, rule string) {
	tagFn, table := findOpaqueBodyTable(p, r, rule)
	if tagFn == nil {
		return
	}
	c := strings.TrimPrefix(fnName(tagFn), pkgTemplate+".") + "#conditional-names-body-kind"
	// lookups in the table, classified by where the key comes from
	fromNames := func(v ssa.Value) bool {
		found := false
		seen := map[ssa.Value]bool{}
		var walk func(ssa.Value)
		walk = func(y ssa.Value) {
			if y == nil || seen[y] || found {
				return
			}
			seen[y] = true
			switch x := y.(type) {
			case *ssa.FieldAddr:
				if fieldName(x.X.Type(), x.Field) == "names" && isNamed(x.X.Type(), pkgTemplate, "element") {
					found = true
					return
				}
			case *ssa.Field:
				if fieldName(x.X.Type(), x.Field) == "names" && isNamed(x.X.Type(), pkgTemplate, "element") {
					found = true
					return
				}
			}
			if in, ok := y.(ssa.Instruction); ok {
				for _, op := range in.Operands(nil) {
					walk(*op)
				}
			}
		}
		walk(v)
		return found
	}
	var nameLk, namesLk []ssa.Value
	var scopeBlocks []*ssa.BasicBlock
	for _, g := range opaqueScope {
		scopeBlocks = append(scopeBlocks, g.Blocks...)
	}
	for _, b := range scopeBlocks {
		for _, in := range b.Instrs {
			v, ok := in.(ssa.Value)
			if !ok {
				continue
			}
			g, want, key, ok := memberTestOf(v, 0)
			if !ok || g != table {
				continue
			}
			if (want == nil) != (opaqueWant == nil) || (want != nil && !constant.Compare(want.Value, token.EQL, opaqueWant.Value)) {
				continue
			}
			if fromNames(key) {
				namesLk = append(namesLk, v)
			} else {
				nameLk = append(nameLk, v)
			}
		}
	}
	pos := p.Pos(tagFn.Pos())
	if len(namesLk) == 0 {
		r.Viol(rule, c, pos, "when a tag ends, only element.name is looked up in "+table.Name()+"; the other names the element can have after a join of branches (element.names) are never compared with it: the escaper scans the body as markup (or as an opaque body) although one branch opened an element of the other kind",
			`{{if .C}}<script{{else}}<b{{end}}>var a = "<i>"; {{.X}}</script> with a plain string X`)
		return
	}
	// a disagreement must lead to an error context: some comparison of a names lookup with a name lookup
	cmp := false
	for _, b := range scopeBlocks {
		for _, in := range b.Instrs {
			bo, ok := in.(*ssa.BinOp)
			if !ok {
				continue
			}
			isN := func(v ssa.Value) bool {
				for _, l := range namesLk {
					if v == l {
						return true
					}
				}
				return false
			}
			isO := func(v ssa.Value) bool {
				for _, l := range nameLk {
					if v == l {
						return true
					}
				}
				return false
			}
			if (isN(bo.X) && isO(bo.Y)) || (isN(bo.Y) && isO(bo.X)) {
				cmp = true
			}
		}
	}
	r.Check(cmp, rule, c, pos, "every name the element can have after a join is compared with element.name against "+table.Name()+" before the tag's body kind is decided", "element.names is looked up in "+table.Name()+" but never compared with the lookup of element.name")
}

// checkAttrNameContinuation: an attribute name can run over several text nodes
// (src{{if .C}}doc{{end}}=). The transition function of the attribute-name state eats
// the continuation but must also record it, because the sanitizer for the value is
// chosen from attr.name.
func checkAttrNameContinuation(p *Program, r *Report, rule string) {
	tpk := p.Pkg("template")
	stObj := tpk.Types.Scope().Lookup("state")
	disp, _, err := stateDispatch(p)
	if stObj == nil || err != nil {
		r.Undec(rule, "template.transitionFunc", "", "anchor not found")
		return
	}
	states := ConstNames(tpk, stObj.Type())
	var fn *ssa.Function
	for v, n := range states {
		if n == "stateAttrName" {
			fn = disp[v]
		}
	}
	if fn == nil {
		r.Undec(rule, "template.transitionFunc[stateAttrName]", "", "anchor not found")
		return
	}
	c := strings.TrimPrefix(fnName(fn), pkgTemplate+".") + "#name-continuation"
	n := len(storesToField(fn, pkgTemplate, "attr", "name"))
	r.Check(n > 0, rule, c, p.Pos(fn.Pos()), "the continuation of an attribute name is appended to attr.name",
		"the attribute-name state consumes the rest of a name that started in an earlier text node without recording it in attr.name: the value is sanitized for the prefix only (src instead of srcdoc)")
}

// checkElementNameContinuation: the element-name analogue of checkAttrNameContinuation. The text scanner reads an
// element name up to the end of a text node and enters the tag state; the text node after an action or comment is
// written right behind it, so name characters at its start continue the element name for the browser. The tag-state
// function treats them as the start of an attribute name; nothing appends them to element.name (or refuses them).
func checkElementNameContinuation(p *Program, r *Report, rule string) {
	tpk := p.Pkg("template")
	stObj := tpk.Types.Scope().Lookup("state")
	disp, _, err := stateDispatch(p)
	if stObj == nil || err != nil {
		r.Undec(rule, "template.transitionFunc", "", "anchor not found")
		return
	}
	var fn *ssa.Function
	for v, n := range ConstNames(tpk, stObj.Type()) {
		if n == "stateTag" {
			fn = disp[v]
		}
	}
	if fn == nil {
		r.Undec(rule, "template.transitionFunc[stateTag]", "", "anchor not found")
		return
	}
	c := strings.TrimPrefix(fnName(fn), pkgTemplate+".") + "#element-name-continuation"
	n := len(storesToField(fn, pkgTemplate, "element", "name"))
	r.Check(n > 0, rule, c, p.Pos(fn.Pos()), "the continuation of an element name is appended to element.name",
		"the tag state reads the rest of an element name that started in an earlier text node as an attribute name: the element's body is sanitized for the prefix only (<s{{/**/}}cript>{{.X}}</script> is analysed as an <s> element and emits a script)")
}

// checkOpaqueBodyNotUndone: at the end of a start tag the element name alone decides whether the text that
// follows is an opaque (raw-text / RCDATA) body. Once the tag function has chosen the opaque-body state, nothing
// on the way to its return may take the element away again or reset the state unless the name is known not to be
// one of the opaque-body elements (a lookup in a table disjoint from theirs, e.g. the void elements): browsers
// ignore the self-closing flag on HTML elements, so "<textarea/>" still opens an RCDATA body.
func checkOpaqueBodyNotUndone(p *Program, r *Report, rule string) {
	tmp := NewReport(r.Property, r.Tier, r.Seed)
	tagFn, table := findOpaqueBodyTable(p, tmp, rule)
	if tagFn == nil {
		r.Obls = append(r.Obls, tmp.Obls...)
		return
	}
	tl, err := p.VarLit("template", cname(table))
	if err != nil {
		r.Undec(rule, "template."+table.Name(), "", err.Error())
		return
	}
	special, err := nameSetOfTable(tl, opaqueWant)
	if err != nil {
		r.Undec(rule, "template."+table.Name(), "", err.Error())
		return
	}
	tpk := p.Pkg("template")
	stObj := tpk.Types.Scope().Lookup("state")
	var specialState int64 = -1
	for v, n := range ConstNames(tpk, stObj.Type()) {
		if n == "stateSpecialElementBody" {
			specialState = v
		}
	}
	disjointTable := func(g *ssa.Global, want *ssa.Const) bool {
		l, err := p.VarLit("template", cname(g))
		if err != nil {
			return false
		}
		set, err := nameSetOfTable(l, want)
		if err != nil {
			return false
		}
		for k := range set {
			if special[k] {
				return false
			}
		}
		return true
	}
	n := 0
	for _, f := range opaqueScope {
		short := strings.TrimPrefix(fnName(f), pkgTemplate+".")
		// blocks that store the opaque-body state
		var chosen []*ssa.BasicBlock
		for _, st := range storesToField(f, pkgTemplate, "context", "state") {
			if k, ok := constInt(st.Val); ok && k == specialState {
				chosen = append(chosen, st.Block())
			}
		}
		if len(chosen) == 0 {
			continue
		}
		var undo []*ssa.Store
		for _, st := range storesToField(f, pkgTemplate, "context", "state") {
			if k, ok := constInt(st.Val); ok && k != specialState {
				undo = append(undo, st)
			}
		}
		for _, st := range storesToField(f, pkgTemplate, "context", "element") {
			if isZeroConst(st.Val) {
				undo = append(undo, st)
			}
		}
		for _, st := range undo {
			after := false
			for _, cb := range chosen {
				if cb == st.Block() {
					for _, in := range cb.Instrs {
						if s2, ok := in.(*ssa.Store); ok && s2 != st {
							if k, ok := constInt(s2.Val); ok && k == specialState && before(s2, st) {
								after = true
							}
						}
					}
				} else if blockReaches(cb, st.Block()) {
					after = true
				}
			}
			if !after {
				continue
			}
			n++
			guarded := false
			for _, g := range GuardsOf(st.Block()) {
				gl, want, _, ok := memberTestOf(g.Cond, 0)
				if !ok {
					continue
				}
				sameSet := gl == table && (want == nil) == (opaqueWant == nil) && (want == nil || constant.Compare(want.Value, token.EQL, opaqueWant.Value))
				if (g.Pol && !sameSet && disjointTable(gl, want)) || (!g.Pol && sameSet) {
					guarded = true
				}
			}
			fa := st.Addr.(*ssa.FieldAddr)
			cn := fmt.Sprintf("%s#undoes-opaque-body:%s", short, fieldName(fa.X.Type(), fa.Field))
			r.Check(guarded, rule, cn, p.Pos(st.Pos()), "after the opaque-body state was chosen, the element is dropped only for names looked up in a table disjoint from "+table.Name(),
				"after the tag function has chosen the opaque-body state for the element, it can drop the element or reset the state without knowing that the name is not one of "+fmt.Sprint(sortedKeys(special))+": the browser still parses the following text as a raw-text/RCDATA body ("+`<textarea/>{{.}}</textarea> passes a safehtml.HTML value unescaped`+")")
		}
	}
	if n == 0 {
		r.OK(rule, "template."+strings.TrimPrefix(fnName(tagFn), pkgTemplate+".")+"#undoes-opaque-body", p.Pos(tagFn.Pos()), "nothing resets the state or the element after the opaque-body state was chosen")
	}
}
