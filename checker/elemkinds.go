package main

import (
	"fmt"
	"go/constant"
	"go/types"
	"sort"
	"strings"

	"golang.org/x/tools/go/ssa"
)

// WHATWG HTML §13.2.6.4.7 ("in body" start tags that switch the tokenizer to
// RAWTEXT / RCDATA / script data / PLAINTEXT) — written from the standard.
var whatwgNonDataBody = map[string]bool{
	"script": true, "style": true, "textarea": true, "title": true,
	"xmp": true, "iframe": true, "noembed": true, "noframes": true, "noscript": true, "plaintext": true,
}

// checkElementBodyKinds: the tag-end transition decides by a name table whether the
// body of an element is scanned as markup (tags and attributes tracked) or as an
// opaque body that ends only at its own end tag. Untrusted strings are kept out of
// script/style bodies only if
//   - every element with a typed-only content context (Script, StyleSheet) is in that
//     table (else a '<x>' written inside the body moves the escaper to x's context, where
//     plain strings are accepted), and
//   - no element whose body the browser parses as markup is in the table (else a
//     <style>/<script> written inside it goes unnoticed and an action inside gets the outer
//     element's sanitizer).
func checkElementBodyKinds(p *Program, r *Report, rule string, pl *Policy) {
	tpk := p.Pkg("template")
	stObj := tpk.Types.Scope().Lookup("state")
	lit, err := p.VarLit("template", "transitionFunc")
	if stObj == nil || err != nil {
		r.Undec(rule, "template.transitionFunc", "", "anchor not found")
		return
	}
	states := ConstNames(tpk, stObj.Type())
	var tagFn *ssa.Function
	special := int64(-1)
	for v, n := range states {
		if n == "stateSpecialElementBody" {
			special = v
		}
	}
	for i, k := range lit.Keys {
		kv, _ := k.Int()
		if states[kv] == "stateTag" {
			if f, ok := lit.Vals[i].Obj.(*types.Func); ok {
				tagFn = p.SSA.FuncValue(f)
			}
		}
	}
	if tagFn == nil || special < 0 {
		r.Undec(rule, "template.transitionFunc[stateTag]", "", "anchor not found")
		return
	}
	// the table whose lookup guards a store of the opaque-body state
	var tables []*ssa.Global
	for _, b := range tagFn.Blocks {
		for _, in := range b.Instrs {
			lk, ok := in.(*ssa.Lookup)
			if !ok {
				continue
			}
			u, ok := lk.X.(*ssa.UnOp)
			if !ok {
				continue
			}
			g, ok := u.X.(*ssa.Global)
			if !ok {
				continue
			}
			iff, ok := b.Instrs[len(b.Instrs)-1].(*ssa.If)
			if !ok || iff.Cond != ssa.Value(lk) {
				continue
			}
			for _, d := range tagFn.Blocks {
				if !edgeDominates(b, b.Succs[0], d) {
					continue
				}
				for _, in2 := range d.Instrs {
					if st, ok := in2.(*ssa.Store); ok {
						if k, ok := st.Val.(*ssa.Const); ok && k.Value != nil && k.Value.Kind() == constant.Int {
							if v, _ := constant.Int64Val(k.Value); v == special {
								tables = append(tables, g)
							}
						}
					}
				}
			}
		}
	}
	c := strings.TrimPrefix(fnName(tagFn), pkgTemplate+".")
	if len(tables) != 1 {
		r.Undec(rule, "template."+c+"#opaque-body-table", p.Pos(tagFn.Pos()), fmt.Sprintf("expected one name table guarding the switch to the opaque-body state, found %d", len(tables)))
		return
	}
	tl, err := p.VarLit("template", tables[0].Name())
	if err != nil {
		r.Undec(rule, "template."+tables[0].Name(), "", err.Error())
		return
	}
	set, err := tl.StringBoolSet()
	if err != nil {
		r.Undec(rule, "template."+tables[0].Name(), p.Pos(tl.Pos), err.Error())
		return
	}
	pos := p.Pos(tl.Pos)
	tn := "template." + tables[0].Name()
	var extra []string
	for e := range set {
		if !whatwgNonDataBody[e] {
			extra = append(extra, e)
		}
	}
	sort.Strings(extra)
	r.Check(len(extra) == 0, rule, tn+"#only-non-markup-bodies", pos, fmt.Sprintf("every element scanned as an opaque body (%v) has a raw-text/RCDATA body in the browser", sortedKeys(set)),
		fmt.Sprintf("the body of %v is parsed as markup by the browser but scanned as an opaque body by the escaper: a <style>/<script> or URL attribute written inside it gets the outer element's sanitizer", extra))
	// typed-only content contexts
	var missing []string
	n := 0
	for el, sc := range pl.ElemContent {
		name := pl.SC(sc)
		if name == "Script" || name == "StyleSheet" {
			n++
			if !set[el] {
				missing = append(missing, el)
			}
		}
	}
	sort.Strings(missing)
	r.Check(len(missing) == 0 && n > 0, rule, tn+"#typed-bodies-are-opaque", pos, fmt.Sprintf("the %d elements with a typed-only content context are scanned as opaque bodies", n),
		fmt.Sprintf("%v has a typed-only content context but its body is scanned as markup: after a '<x>' inside the body an action gets x's context and accepts plain strings", missing))
	for _, e := range []string{"script", "style"} {
		r.Check(set[e], rule, tn+"["+e+"]", pos, "<"+e+"> bodies are opaque to the tag scanner", "<"+e+"> is not scanned as an opaque body: `<"+e+">\"<b>\"{{.}}</"+e+">` HTML-escapes a plain string into the "+e+" body")
	}
}
