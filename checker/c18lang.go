package main

import (
	"fmt"
	"os"

	"safecheck/relang"
)

// runC18 first applies the rules written for the current spelling; when they do not recognise the code the
// same clauses are decided on the language of the result (helpers, methods on local structs, builders and
// validators that panic instead of returning are followed).
func runC18(p *Program, r *Report) {
	shape := NewReport("C18", r.Tier, r.Seed)
	runC18Shape(p, shape)
	if !reportFails(shape) && os.Getenv("C18_FORCE_LANG") == "" {
		lang := NewReport("C18", r.Tier, r.Seed)
		c18ByLanguage(p, lang)
		crossCheck(shape, lang)
		mergeReport(r, shape)
		return
	}
	lang := NewReport("C18", r.Tier, r.Seed)
	if c18ByLanguage(p, lang) && !reportFails(lang) {
		// keep the engine self-check of the shape report
		for _, o := range shape.Obls {
			if o.Rule == "C18.E" {
				lang.Obls = append(lang.Obls, o)
			}
		}
		mergeReport(r, lang)
		return
	}
	if os.Getenv("C18_FORCE_LANG") != "" {
		for _, o := range lang.Obls {
			fmt.Printf("LANG %s %s %s: %s %s\n", o.Status, o.Rule, o.Construct, o.Detail, o.Witness)
		}
	}
	mergeReport(r, shape)
}

func c18ByLanguage(p *Program, r *Report) bool {
	r.Trusted = []string{"go/types + go/ssa construction", "regexp/syntax semantics as modelled by relang (unit-tested against package regexp)"}
	r.Explain = "Decided on the result of both constructors: with the parameters replaced by placeholders the returned text is exactly the value, resp. prefix \"-\" value; with the parameters replaced by the languages of the conditions under which they are written, every returned text is in [A-Za-z][-_A-Za-z0-9]*."
	r.Min("C18.R1", 2)
	r.Min("C18.R2", 2)
	regs, _ := p.AllRegexes()
	okAll := true
	for _, w := range []struct {
		fn    string
		parts int
	}{{"IdentifierFromConstant", 1}, {"IdentifierFromConstantPrefix", 2}} {
		fn := p.Func("", w.fn)
		cname := "safehtml." + w.fn
		if fn == nil {
			r.Undec("C18.R1", cname, "", "anchor not found")
			okAll = false
			continue
		}
		pos := p.Pos(fn.Pos())
		eval := func(markers bool) (*lx, *outEval, *Summarizer) {
			s := NewSummarizer(p, regs)
			oe := newOutEval(p, s)
			oe.Markers = markers
			fr := oe.topFrame(fn)
			var alts []*lx
			for _, ret := range Returns(fn) {
				alts = append(alts, oe.strLx(ret.Results[0], ret.Block(), fr))
			}
			return lxAlt(alts...), oe, s
		}
		// R1: the skeleton
		x, oe, _ := eval(true)
		want := string(markerRune(0))
		if w.parts == 2 {
			want = string(markerRune(0)) + "-" + string(markerRune(1))
		}
		d, L, err := oe.Language(x, func(L *Lang) { L.AddString(want) })
		if os.Getenv("C18_DEBUG") != "" && err == nil {
			oe.dumpLx(x, "", map[*lx]bool{})
			w, _ := relang.Subset(d, relang.EmptyLang(L.A))
			fmt.Printf("  empty=%v problems=%v\n", w, oe.Problems)
		}
		switch {
		case err != nil:
			r.Undec("C18.R1", cname+"#shape", pos, "the result could not be evaluated: "+err.Error())
			okAll = false
		case len(oe.Problems) > 0 || lxHasAny(x):
			r.Undec("C18.R1", cname+"#shape", pos, "the result is built in a way the evaluator cannot follow: "+trunc(x.String(), 200))
			okAll = false
		default:
			if ok, wit := relang.Equivalent(d, relang.Literal(L.A, want)); ok {
				r.OK("C18.R1", cname+"#shape", pos, "by language: the returned text is exactly "+map[int]string{1: "the value", 2: "prefix \"-\" value"}[w.parts])
			} else {
				r.Viol("C18.R1", cname+"#shape", pos, "the returned text "+trunc(x.String(), 200)+" is not "+map[int]string{1: "the value", 2: "prefix \"-\" value"}[w.parts], wit)
			}
		}
		// R2: the language
		x2, oe2, s2 := eval(false)
		d2, L2, err := oe2.Language(x2, func(L *Lang) { L.MustRe(specID) })
		switch {
		case err != nil:
			r.Undec("C18.R2", cname, pos, "the language of the result could not be computed: "+err.Error())
			okAll = false
		case len(oe2.Problems) > 0 || lxHasAny(x2):
			r.Undec("C18.R2", cname, pos, "the result is built in a way the evaluator cannot follow: "+trunc(x2.String(), 200))
			okAll = false
		default:
			if ok, wit := relang.Subset(d2, L2.SearchRe(specID)); ok {
				r.OK("C18.R2", cname, pos, "every returned identifier "+trunc(x2.String(), 160)+" ⊆ [A-Za-z][-_A-Za-z0-9]*")
			} else if len(s2.Inexact) > 0 {
				r.Undec("C18.R2", cname, pos, "a guard could not be modelled ("+s2.Inexact[0]+"); with the remaining ones an identifier outside [A-Za-z][-_A-Za-z0-9]* would be returned")
				okAll = false
			} else {
				r.Viol("C18.R2", cname, pos, "a returned identifier is outside [A-Za-z][-_A-Za-z0-9]*: "+trunc(x2.String(), 200), wit)
			}
		}
	}
	return okAll
}
