package relang

import (
	"fmt"
	"regexp/syntax"
	"sort"
	"unicode"
)

// ---- regex → NFA with assertions ------------------------------------------

type assertKind uint8

const (
	aBeginText assertKind = iota
	aEndText
	aBeginLine
	aEndLine
	aWordB
	aNoWordB
)

type tedge struct {
	set *Set
	to  int
}
type aedge struct {
	kind assertKind
	to   int
}
type nstate struct {
	eps  []int
	asrt []aedge
	tr   []tedge
}

// Regex is a parsed Go regular expression together with its Thompson NFA.
type Regex struct {
	Src       string
	re        *syntax.Regexp
	st        []nstate
	start     int
	accept    int
	NumGroups int
	HasMulti  bool // uses (?m) line anchors
	capSpec   *CaptureSpec
	cross     [][2]int // Equal mode: the eps edges that leave the group with the constant matched
}

// CaptureSpec restricts the matches considered: group Group must (Equal) or
// must not (!Equal) have matched exactly Const. A group that did not
// participate counts as "not equal" (FindStringSubmatch reports "").
type CaptureSpec struct {
	Group int
	Const string
	Equal bool
}

// Parse parses with Go's regexp (Perl) syntax and builds the NFA.
func Parse(src string) (*Regex, error) { return ParseCapture(src, nil) }

func ParseCapture(src string, cs *CaptureSpec) (*Regex, error) {
	re, err := syntax.Parse(src, syntax.Perl)
	if err != nil {
		return nil, err
	}
	ng := re.MaxCap()
	re = re.Simplify()
	r := &Regex{Src: src, re: re, NumGroups: ng, capSpec: cs}
	if cs != nil && cs.Const == "" {
		return nil, fmt.Errorf("relang: empty capture constant is not supported")
	}
	s, e, err := r.build(re)
	if err != nil {
		return nil, err
	}
	r.start, r.accept = s, e
	if cs != nil && cs.Equal {
		// Two layers: the accepting state is reachable only after the group
		// was left with the constant matched (a match that bypasses the
		// group reports "" for it and is not "equal").
		n := len(r.st)
		isCross := map[[2]int]bool{}
		for _, c := range r.cross {
			isCross[c] = true
		}
		for q := 0; q < n; q++ {
			var ns nstate
			for _, t := range r.st[q].eps {
				ns.eps = append(ns.eps, t+n)
			}
			for _, a := range r.st[q].asrt {
				ns.asrt = append(ns.asrt, aedge{a.kind, a.to + n})
			}
			for _, t := range r.st[q].tr {
				ns.tr = append(ns.tr, tedge{t.set, t.to + n})
			}
			r.st = append(r.st, ns)
		}
		for q := 0; q < n; q++ {
			var keep []int
			for _, t := range r.st[q].eps {
				if isCross[[2]int{q, t}] {
					keep = append(keep, t+n)
				} else {
					keep = append(keep, t)
				}
			}
			r.st[q].eps = keep
		}
		r.accept = e + n
	}
	return r, nil
}

func MustParse(src string) *Regex {
	r, err := Parse(src)
	if err != nil {
		panic(fmt.Sprintf("relang: %q: %v", src, err))
	}
	return r
}

func (r *Regex) newState() int {
	r.st = append(r.st, nstate{})
	return len(r.st) - 1
}

func (r *Regex) eps(from, to int) { r.st[from].eps = append(r.st[from].eps, to) }

// Sets returns every symbol set used on a transition (for the alphabet).
func (r *Regex) Sets() []*Set {
	var out []*Set
	for i := range r.st {
		for _, t := range r.st[i].tr {
			out = append(out, t.set)
		}
	}
	return out
}

func foldOrbit(c rune) *Set {
	s := SetOfRunes(c)
	for f := unicode.SimpleFold(c); f != c; f = unicode.SimpleFold(f) {
		s = s.Union(SetOfRunes(f))
	}
	return s
}

func (r *Regex) build(re *syntax.Regexp) (int, int, error) {
	s, e := r.newState(), r.newState()
	switch re.Op {
	case syntax.OpNoMatch:
	case syntax.OpEmptyMatch:
		r.eps(s, e)
	case syntax.OpLiteral:
		cur := s
		for i, c := range re.Rune {
			var set *Set
			if re.Flags&syntax.FoldCase != 0 {
				set = foldOrbit(c)
			} else {
				set = SetOfRunes(c)
			}
			nxt := e
			if i < len(re.Rune)-1 {
				nxt = r.newState()
			}
			r.st[cur].tr = append(r.st[cur].tr, tedge{set, nxt})
			cur = nxt
		}
		if len(re.Rune) == 0 {
			r.eps(s, e)
		}
	case syntax.OpCharClass:
		set := &Set{}
		for i := 0; i+1 < len(re.Rune); i += 2 {
			set.R = append(set.R, int32(re.Rune[i]), int32(re.Rune[i+1]))
		}
		set.norm()
		r.st[s].tr = append(r.st[s].tr, tedge{set, e})
	case syntax.OpAnyCharNotNL:
		r.st[s].tr = append(r.st[s].tr, tedge{NewSet(0, '\n'-1, '\n'+1, MaxRune), e})
	case syntax.OpAnyChar:
		r.st[s].tr = append(r.st[s].tr, tedge{NewSet(0, MaxRune), e})
	case syntax.OpBeginLine:
		r.HasMulti = true
		r.st[s].asrt = append(r.st[s].asrt, aedge{aBeginLine, e})
	case syntax.OpEndLine:
		r.HasMulti = true
		r.st[s].asrt = append(r.st[s].asrt, aedge{aEndLine, e})
	case syntax.OpBeginText:
		r.st[s].asrt = append(r.st[s].asrt, aedge{aBeginText, e})
	case syntax.OpEndText:
		r.st[s].asrt = append(r.st[s].asrt, aedge{aEndText, e})
	case syntax.OpWordBoundary:
		r.st[s].asrt = append(r.st[s].asrt, aedge{aWordB, e})
	case syntax.OpNoWordBoundary:
		r.st[s].asrt = append(r.st[s].asrt, aedge{aNoWordB, e})
	case syntax.OpCapture:
		lo := len(r.st)
		s1, e1, err := r.build(re.Sub[0])
		if err != nil {
			return 0, 0, err
		}
		hi := len(r.st)
		if r.capSpec != nil && re.Cap == r.capSpec.Group {
			r.captureProduct(lo, hi, s1, e1, s, e)
		} else {
			r.eps(s, s1)
			r.eps(e1, e)
		}
	case syntax.OpStar:
		s1, e1, err := r.build(re.Sub[0])
		if err != nil {
			return 0, 0, err
		}
		r.eps(s, s1)
		r.eps(s, e)
		r.eps(e1, s1)
		r.eps(e1, e)
	case syntax.OpPlus:
		s1, e1, err := r.build(re.Sub[0])
		if err != nil {
			return 0, 0, err
		}
		r.eps(s, s1)
		r.eps(e1, s1)
		r.eps(e1, e)
	case syntax.OpQuest:
		s1, e1, err := r.build(re.Sub[0])
		if err != nil {
			return 0, 0, err
		}
		r.eps(s, s1)
		r.eps(s, e)
		r.eps(e1, e)
	case syntax.OpConcat:
		cur := s
		for _, sub := range re.Sub {
			s1, e1, err := r.build(sub)
			if err != nil {
				return 0, 0, err
			}
			r.eps(cur, s1)
			cur = e1
		}
		r.eps(cur, e)
	case syntax.OpAlternate:
		for _, sub := range re.Sub {
			s1, e1, err := r.build(sub)
			if err != nil {
				return 0, 0, err
			}
			r.eps(s, s1)
			r.eps(e1, e)
		}
	case syntax.OpRepeat:
		return 0, 0, fmt.Errorf("relang: OpRepeat survived Simplify")
	default:
		return 0, 0, fmt.Errorf("relang: unsupported regexp op %v", re.Op)
	}
	return s, e, nil
}

// captureProduct replaces the fragment [lo,hi) (entry s1, exit e1) by its
// product with the tracker automaton for the constant of capSpec, wired
// between s and e. Tracker states: 0..len(K) = number of runes of K matched so
// far and no deviation; len(K)+1 = deviated (or too long).
func (r *Regex) captureProduct(lo, hi, s1, e1, s, e int) {
	K := []rune(r.capSpec.Const)
	nT := len(K) + 2
	dead := len(K) + 1
	n := hi - lo
	base := len(r.st)
	for i := 0; i < n*nT; i++ {
		r.newState()
	}
	id := func(q, t int) int { return base + (q-lo)*nT + t }
	for q := lo; q < hi; q++ {
		for t := 0; t < nT; t++ {
			from := id(q, t)
			for _, to := range r.st[q].eps {
				r.st[from].eps = append(r.st[from].eps, id(to, t))
			}
			for _, a := range r.st[q].asrt {
				r.st[from].asrt = append(r.st[from].asrt, aedge{a.kind, id(a.to, t)})
			}
			for _, tr := range r.st[q].tr {
				if t < len(K) {
					k := SetOfRunes(K[t])
					if in := tr.set.Intersect(k); !in.Empty() {
						r.st[from].tr = append(r.st[from].tr, tedge{in, id(tr.to, t+1)})
					}
					if out := tr.set.Minus(k); !out.Empty() {
						r.st[from].tr = append(r.st[from].tr, tedge{out, id(tr.to, dead)})
					}
				} else {
					r.st[from].tr = append(r.st[from].tr, tedge{tr.set, id(tr.to, dead)})
				}
			}
		}
	}
	r.eps(s, id(s1, 0))
	for t := 0; t < nT; t++ {
		if (t == len(K)) == r.capSpec.Equal {
			r.eps(id(e1, t), e)
			if r.capSpec.Equal {
				r.cross = append(r.cross, [2]int{id(e1, t), e})
			}
		}
	}
}

// ---- assertion-aware subset construction ----------------------------------

// Mode selects what the DFA recognises.
type Mode int

const (
	Search Mode = iota // strings that contain a match (MatchString / Find != nil)
	Full               // strings matched entirely (as if wrapped in \A(?:…)\z)
)

type dkey struct {
	set  string
	prev uint8
}

// DFA is a complete deterministic automaton over an Alphabet.
type DFA struct {
	A     *Alphabet
	Trans [][]int32 // [state][class]
	Acc   []bool
	Start int
}

func (d *DFA) N() int { return len(d.Acc) }

func setContains(set *Set, sym int32) bool {
	if sym == INV {
		return set.Contains(unicode.ReplacementChar)
	}
	return set.Contains(sym)
}

func (r *Regex) closure(pending []int, prev, next uint8) ([]int, bool) {
	seen := map[int]bool{}
	var stack, out []int
	for _, q := range pending {
		if !seen[q] {
			seen[q] = true
			stack = append(stack, q)
		}
	}
	hit := false
	for len(stack) > 0 {
		q := stack[len(stack)-1]
		stack = stack[:len(stack)-1]
		out = append(out, q)
		if q == r.accept {
			hit = true
		}
		push := func(t int) {
			if !seen[t] {
				seen[t] = true
				stack = append(stack, t)
			}
		}
		for _, t := range r.st[q].eps {
			push(t)
		}
		for _, a := range r.st[q].asrt {
			ok := false
			switch a.kind {
			case aBeginText:
				ok = prev == kStart
			case aEndText:
				ok = next == kEnd
			case aBeginLine:
				ok = prev == kStart || prev == kNewline
			case aEndLine:
				ok = next == kEnd || next == kNewline
			case aWordB:
				ok = (prev == kWord) != (next == kWord)
			case aNoWordB:
				ok = (prev == kWord) == (next == kWord)
			}
			if ok {
				push(a.to)
			}
		}
	}
	return out, hit
}

func keyOf(set []int) string {
	sort.Ints(set)
	b := make([]byte, 0, len(set)*3)
	last := -1
	for _, q := range set {
		if q == last {
			continue
		}
		last = q
		b = append(b, byte(q), byte(q>>8), byte(q>>16))
	}
	return string(b)
}

// Compile builds the DFA of the regex over alphabet a (which must have been
// built from at least r.Sets()).
func (r *Regex) Compile(a *Alphabet, mode Mode) *DFA {
	d := &DFA{A: a}
	nc := a.N()
	// per-transition class membership, cached
	type tk struct {
		q, i int
	}
	member := map[tk][]bool{}
	classIn := func(q, i int, c int) bool {
		k := tk{q, i}
		m, ok := member[k]
		if !ok {
			m = make([]bool, nc)
			set := r.st[q].tr[i].set
			for cc := 0; cc < nc; cc++ {
				m[cc] = setContains(set, a.Reps[cc])
			}
			member[k] = m
		}
		return m[c]
	}
	index := map[dkey]int{}
	var pend [][]int
	var prevs []uint8
	add := func(set []int, prev uint8) int {
		k := dkey{keyOf(set), prev}
		if id, ok := index[k]; ok {
			return id
		}
		id := len(pend)
		index[k] = id
		cp := append([]int(nil), set...)
		sort.Ints(cp)
		pend = append(pend, cp)
		prevs = append(prevs, prev)
		d.Trans = append(d.Trans, nil)
		d.Acc = append(d.Acc, false)
		return id
	}
	const accAll = -2
	// state 0: absorbing accept (Search mode only)
	d.Trans = append(d.Trans, make([]int32, nc))
	d.Acc = append(d.Acc, true)
	pend = append(pend, nil)
	prevs = append(prevs, 0)
	index[dkey{"\xff\xff\xffACC", 0}] = 0
	start := add([]int{r.start}, kStart)
	d.Start = start
	for id := 1; id < len(pend); id++ {
		set := pend[id]
		prev := prevs[id]
		withStart := set
		if mode == Search {
			withStart = append(append([]int(nil), set...), r.start)
		}
		// acceptance at end of text
		_, hit := r.closure(withStart, prev, kEnd)
		d.Acc[id] = hit
		row := make([]int32, nc)
		for c := 0; c < nc; c++ {
			next := a.kind[c]
			cl, hit := r.closure(withStart, prev, next)
			if hit && mode == Search {
				row[c] = 0
				continue
			}
			var np []int
			for _, q := range cl {
				for i := range r.st[q].tr {
					if classIn(q, i, c) {
						np = append(np, r.st[q].tr[i].to)
					}
				}
			}
			row[c] = int32(add(np, next))
		}
		d.Trans[id] = row
	}
	_ = accAll
	return d
}
