package relang

import (
	"fmt"
	"regexp/syntax"
	"sort"
)

// ---- basic DFAs -------------------------------------------------------------

// Empty language.
func EmptyLang(a *Alphabet) *DFA {
	d := &DFA{A: a, Start: 0}
	d.Trans = [][]int32{make([]int32, a.N())}
	d.Acc = []bool{false}
	return d
}

// StarOfSet accepts the strings all of whose symbols are in set (INV is a
// symbol of its own here, not U+FFFD).
func StarOfSet(a *Alphabet, set *Set) *DFA {
	d := &DFA{A: a, Start: 0}
	n := a.N()
	d.Trans = [][]int32{make([]int32, n), make([]int32, n)}
	d.Acc = []bool{true, false}
	for c := 0; c < n; c++ {
		d.Trans[1][c] = 1
		if set.Contains(a.Reps[c]) {
			d.Trans[0][c] = 0
		} else {
			d.Trans[0][c] = 1
		}
	}
	return d
}

// ContainsSym accepts the strings that contain at least one symbol of set.
func ContainsSym(a *Alphabet, set *Set) *DFA { return Complement(StarOfSet(a, set.Complement())) }

// Literal accepts exactly the given string.
func Literal(a *Alphabet, s string) *DFA {
	cl := a.ClassesOfString(s)
	n := a.N()
	d := &DFA{A: a, Start: 0}
	dead := len(cl) + 1
	for i := 0; i <= dead; i++ {
		row := make([]int32, n)
		for c := range row {
			row[c] = int32(dead)
		}
		d.Trans = append(d.Trans, row)
		d.Acc = append(d.Acc, i == len(cl))
	}
	for i, c := range cl {
		d.Trans[i][c] = int32(i + 1)
	}
	return d
}

// ---- boolean operations -------------------------------------------------------

func Complement(d *DFA) *DFA {
	o := &DFA{A: d.A, Trans: d.Trans, Start: d.Start, Acc: make([]bool, len(d.Acc))}
	for i, a := range d.Acc {
		o.Acc[i] = !a
	}
	return o
}

func product(x, y *DFA, acc func(a, b bool) bool) *DFA {
	if x.A != y.A {
		panic("relang: product over different alphabets")
	}
	n := x.A.N()
	type pr struct{ a, b int32 }
	index := map[pr]int32{}
	var list []pr
	add := func(p pr) int32 {
		if id, ok := index[p]; ok {
			return id
		}
		id := int32(len(list))
		index[p] = id
		list = append(list, p)
		return id
	}
	d := &DFA{A: x.A}
	d.Start = int(add(pr{int32(x.Start), int32(y.Start)}))
	for i := 0; i < len(list); i++ {
		p := list[i]
		row := make([]int32, n)
		for c := 0; c < n; c++ {
			row[c] = add(pr{x.Trans[p.a][c], y.Trans[p.b][c]})
		}
		d.Trans = append(d.Trans, row)
		d.Acc = append(d.Acc, acc(x.Acc[p.a], y.Acc[p.b]))
	}
	return d
}

func Intersect(x, y *DFA) *DFA { return product(x, y, func(a, b bool) bool { return a && b }) }
func Union(x, y *DFA) *DFA     { return product(x, y, func(a, b bool) bool { return a || b }) }
func Minus(x, y *DFA) *DFA     { return product(x, y, func(a, b bool) bool { return a && !b }) }

// Witness returns a shortest accepted string (as class sequence), or ok=false
// if the language is empty. Impossible classes (surrogates) are never used.
func (d *DFA) Witness() (classes []int, ok bool) {
	n := d.A.N()
	prev := make([]int32, d.N())
	via := make([]int32, d.N())
	for i := range prev {
		prev[i] = -2
	}
	prev[d.Start] = -1
	queue := []int{d.Start}
	for len(queue) > 0 {
		q := queue[0]
		queue = queue[1:]
		if d.Acc[q] {
			var rev []int
			for s := q; prev[s] != -1; s = int(prev[s]) {
				rev = append(rev, int(via[s]))
			}
			for i, j := 0, len(rev)-1; i < j; i, j = i+1, j-1 {
				rev[i], rev[j] = rev[j], rev[i]
			}
			return rev, true
		}
		// prefer printable representatives: iterate classes ordered by "niceness"
		for _, c := range d.A.niceOrder() {
			if d.A.Impossible[c] {
				continue
			}
			t := int(d.Trans[q][c])
			if prev[t] == -2 {
				prev[t] = int32(q)
				via[t] = int32(c)
				queue = append(queue, t)
			}
		}
		_ = n
	}
	return nil, false
}

var niceCache = map[*Alphabet][]int{}

// NiceOrder lists the classes with printable representatives first.
func (a *Alphabet) NiceOrder() []int { return a.niceOrder() }

func (a *Alphabet) niceOrder() []int {
	if o, ok := niceCache[a]; ok {
		return o
	}
	o := make([]int, a.N())
	for i := range o {
		o[i] = i
	}
	score := func(c int) int {
		r := a.Reps[c]
		switch {
		case r >= 'a' && r <= 'z':
			return 0
		case r > 0x20 && r < 0x7f:
			return 1
		case r == 0x20:
			return 2
		case r < 0x80:
			return 3
		case r == INV:
			return 5
		}
		return 4
	}
	sort.SliceStable(o, func(i, j int) bool { return score(o[i]) < score(o[j]) })
	niceCache[a] = o
	return o
}

func (d *DFA) IsEmpty() bool {
	_, ok := d.Witness()
	return !ok
}

// Subset reports whether L(x) ⊆ L(y); if not, a witness in L(x)∖L(y).
func Subset(x, y *DFA) (bool, string) {
	w, ok := Minus(x, y).Witness()
	if !ok {
		return true, ""
	}
	return false, x.A.Render(w)
}

// Disjoint reports whether L(x) ∩ L(y) = ∅; if not, a common string.
func Disjoint(x, y *DFA) (bool, string) {
	w, ok := Intersect(x, y).Witness()
	if !ok {
		return true, ""
	}
	return false, x.A.Render(w)
}

// Accepts runs the DFA on a concrete Go string.
func (d *DFA) Accepts(s string) bool {
	q := d.Start
	for _, c := range d.A.ClassesOfString(s) {
		q = int(d.Trans[q][c])
	}
	return d.Acc[q]
}

// ---- NFA-level operations (concatenation, star, reversal) -------------------

type cnfa struct {
	a     *Alphabet
	eps   [][]int
	tr    []map[int][]int // state -> class -> targets
	start []int
	acc   []bool
}

func (d *DFA) toNFA() *cnfa {
	n := &cnfa{a: d.A}
	for q := 0; q < d.N(); q++ {
		m := map[int][]int{}
		for c, t := range d.Trans[q] {
			m[c] = []int{int(t)}
		}
		n.tr = append(n.tr, m)
		n.eps = append(n.eps, nil)
		n.acc = append(n.acc, d.Acc[q])
	}
	n.start = []int{d.Start}
	return n
}

func (n *cnfa) determinize() *DFA {
	nc := n.a.N()
	closure := func(set []int) []int {
		seen := map[int]bool{}
		var out, st []int
		for _, q := range set {
			if !seen[q] {
				seen[q] = true
				st = append(st, q)
			}
		}
		for len(st) > 0 {
			q := st[len(st)-1]
			st = st[:len(st)-1]
			out = append(out, q)
			for _, t := range n.eps[q] {
				if !seen[t] {
					seen[t] = true
					st = append(st, t)
				}
			}
		}
		sort.Ints(out)
		return out
	}
	index := map[string]int{}
	var sets [][]int
	d := &DFA{A: n.a}
	add := func(set []int) int {
		set = closure(set)
		k := keyOf(set)
		if id, ok := index[k]; ok {
			return id
		}
		id := len(sets)
		index[k] = id
		sets = append(sets, set)
		acc := false
		for _, q := range set {
			if n.acc[q] {
				acc = true
			}
		}
		d.Acc = append(d.Acc, acc)
		d.Trans = append(d.Trans, nil)
		return id
	}
	d.Start = add(n.start)
	for id := 0; id < len(sets); id++ {
		row := make([]int32, nc)
		for c := 0; c < nc; c++ {
			var np []int
			for _, q := range sets[id] {
				np = append(np, n.tr[q][c]...)
			}
			row[c] = int32(add(np))
		}
		d.Trans[id] = row
	}
	return d
}

// Concat returns L(x)·L(y).
func Concat(x, y *DFA) *DFA {
	nx, ny := x.toNFA(), y.toNFA()
	off := len(nx.tr)
	for q := range ny.tr {
		m := map[int][]int{}
		for c, ts := range ny.tr[q] {
			for _, t := range ts {
				m[c] = append(m[c], t+off)
			}
		}
		nx.tr = append(nx.tr, m)
		nx.eps = append(nx.eps, nil)
		nx.acc = append(nx.acc, ny.acc[q])
	}
	for q := 0; q < off; q++ {
		if nx.acc[q] {
			nx.eps[q] = append(nx.eps[q], ny.start[0]+off)
			nx.acc[q] = false
		}
	}
	return nx.determinize().Minimize()
}

// Star returns L(x)*.
func Star(x *DFA) *DFA {
	n := x.toNFA()
	s := len(n.tr)
	n.tr = append(n.tr, map[int][]int{})
	n.eps = append(n.eps, []int{x.Start})
	n.acc = append(n.acc, true)
	for q := 0; q < s; q++ {
		if n.acc[q] {
			n.eps[q] = append(n.eps[q], s)
		}
	}
	n.start = []int{s}
	return n.determinize().Minimize()
}

// Reverse returns the reversal of L(x).
func Reverse(x *DFA) *DFA {
	n := &cnfa{a: x.A}
	for q := 0; q < x.N(); q++ {
		n.tr = append(n.tr, map[int][]int{})
		n.eps = append(n.eps, nil)
		n.acc = append(n.acc, q == x.Start)
		if x.Acc[q] {
			n.start = append(n.start, q)
		}
	}
	for q := 0; q < x.N(); q++ {
		for c, t := range x.Trans[q] {
			n.tr[t][c] = append(n.tr[t][c], q)
		}
	}
	if len(n.start) == 0 {
		return EmptyLang(x.A)
	}
	return n.determinize()
}

// Minimize (Moore) – keeps products small.
func (d *DFA) Minimize() *DFA {
	// restrict to reachable
	n := d.A.N()
	reach := map[int]int{}
	order := []int{d.Start}
	reach[d.Start] = 0
	for i := 0; i < len(order); i++ {
		for c := 0; c < n; c++ {
			t := int(d.Trans[order[i]][c])
			if _, ok := reach[t]; !ok {
				reach[t] = len(order)
				order = append(order, t)
			}
		}
	}
	m := len(order)
	part := make([]int, m)
	for i, q := range order {
		if d.Acc[q] {
			part[i] = 1
		}
	}
	for {
		index := map[string]int{}
		np := make([]int, m)
		buf := make([]byte, 0, 4*(n+1))
		for i, q := range order {
			buf = buf[:0]
			buf = append(buf, byte(part[i]), byte(part[i]>>8), byte(part[i]>>16))
			for c := 0; c < n; c++ {
				p := part[reach[int(d.Trans[q][c])]]
				buf = append(buf, byte(p), byte(p>>8), byte(p>>16))
			}
			k := string(buf)
			id, ok := index[k]
			if !ok {
				id = len(index)
				index[k] = id
			}
			np[i] = id
		}
		same := len(index) == countDistinct(part)
		part = np
		if same {
			break
		}
	}
	k := countDistinct(part)
	o := &DFA{A: d.A, Trans: make([][]int32, k), Acc: make([]bool, k)}
	for i, q := range order {
		p := part[i]
		if o.Trans[p] == nil {
			row := make([]int32, n)
			for c := 0; c < n; c++ {
				row[c] = int32(part[reach[int(d.Trans[q][c])]])
			}
			o.Trans[p] = row
			o.Acc[p] = d.Acc[q]
		}
	}
	o.Start = part[0]
	return o
}

func countDistinct(p []int) int {
	m := map[int]bool{}
	for _, x := range p {
		m[x] = true
	}
	return len(m)
}

// Equivalent reports whether two DFAs accept the same language, with a
// distinguishing witness otherwise.
func Equivalent(x, y *DFA) (bool, string) {
	if ok, w := Subset(x, y); !ok {
		return false, w + " (in first only)"
	}
	if ok, w := Subset(y, x); !ok {
		return false, w + " (in second only)"
	}
	return true, ""
}

// InverseMap returns { s : f(s) ∈ L(d) } for a letter-to-letter map f (applied
// to every symbol). It verifies, by scanning the whole symbol space, that the
// alphabet is fine enough for f (every symbol of a class is sent to columns of
// d that behave identically); otherwise it returns an error.
func InverseMap(d *DFA, f func(int32) int32) (*DFA, error) {
	a := d.A
	n := a.N()
	// column equivalence of d
	colKey := make([]string, n)
	for c := 0; c < n; c++ {
		b := make([]byte, 0, 3*d.N())
		for q := 0; q < d.N(); q++ {
			t := d.Trans[q][c]
			b = append(b, byte(t), byte(t>>8), byte(t>>16))
		}
		colKey[c] = string(b)
	}
	img := make([]int, n)
	for c := 0; c < n; c++ {
		img[c] = a.ClassOf(f(a.Reps[c]))
	}
	for s := int32(0); s < NSym; s++ {
		c := a.ClassOf(s)
		if a.Impossible[c] {
			continue
		}
		if colKey[a.ClassOf(f(s))] != colKey[img[c]] {
			return nil, fmt.Errorf("relang: alphabet too coarse for map at %s", symName(s))
		}
	}
	o := &DFA{A: a, Start: d.Start, Acc: d.Acc, Trans: make([][]int32, d.N())}
	for q := 0; q < d.N(); q++ {
		row := make([]int32, n)
		for c := 0; c < n; c++ {
			row[c] = d.Trans[q][img[c]]
		}
		o.Trans[q] = row
	}
	return o, nil
}

// CaptureOK checks that group g of the pattern occurs exactly once and is not
// under a repetition, the precondition of the capture product.
func CaptureOK(src string, g int) error {
	re, err := syntax.Parse(src, syntax.Perl)
	if err != nil {
		return err
	}
	re = re.Simplify()
	count := 0
	var bad error
	var walk func(r *syntax.Regexp, rep bool)
	walk = func(r *syntax.Regexp, rep bool) {
		if r.Op == syntax.OpCapture && r.Cap == g {
			count++
			if rep {
				bad = fmt.Errorf("capture group %d is under a repetition", g)
			}
		}
		rr := rep || r.Op == syntax.OpStar || r.Op == syntax.OpPlus || r.Op == syntax.OpRepeat
		for _, s := range r.Sub {
			walk(s, rr)
		}
	}
	walk(re, false)
	if bad != nil {
		return bad
	}
	if count != 1 {
		return fmt.Errorf("capture group %d occurs %d times after simplification", g, count)
	}
	return nil
}

// LiftErase returns { w : some decomposition w = v0 s1 v1 … sn vn with every
// s_i ∈ L(seg) (non-empty) has v0 v1 … vn ∈ L(r) }: the strings that, after
// erasing some segments belonging to seg, are in r. The real "remove every
// leftmost non-overlapping match" operation uses one particular such
// decomposition, so for any r the result contains every string whose stripped
// form is in r (over-approximation).
func LiftErase(r, seg *DFA) *DFA {
	a := r.A
	nr, ns := r.N(), seg.N()
	n := &cnfa{a: a}
	// states: [0,nr) outside; nr + q*ns + s inside a segment
	total := nr + nr*ns
	for i := 0; i < total; i++ {
		n.tr = append(n.tr, map[int][]int{})
		n.eps = append(n.eps, nil)
		n.acc = append(n.acc, i < nr && r.Acc[i])
	}
	nc := a.N()
	for q := 0; q < nr; q++ {
		for c := 0; c < nc; c++ {
			// consume as kept symbol
			n.tr[q][c] = append(n.tr[q][c], int(r.Trans[q][c]))
			// start a segment
			s1 := int(seg.Trans[seg.Start][c])
			n.tr[q][c] = append(n.tr[q][c], nr+q*ns+s1)
		}
		for s := 0; s < ns; s++ {
			id := nr + q*ns + s
			for c := 0; c < nc; c++ {
				n.tr[id][c] = append(n.tr[id][c], nr+q*ns+int(seg.Trans[s][c]))
			}
			if seg.Acc[s] {
				n.eps[id] = append(n.eps[id], q)
			}
		}
	}
	n.start = []int{r.Start}
	return n.determinize()
}

// FromFunc builds a DFA from an explicit transition function over symbols. The
// alphabet must separate every symbol the function distinguishes (checked on
// class representatives only; callers add the relevant sets to the builder).
func FromFunc(a *Alphabet, nStates, start int, acc func(q int) bool, step func(q int, sym int32) int) *DFA {
	d := &DFA{A: a, Start: start}
	for q := 0; q < nStates; q++ {
		row := make([]int32, a.N())
		for c := 0; c < a.N(); c++ {
			row[c] = int32(step(q, a.Reps[c]))
		}
		d.Trans = append(d.Trans, row)
		d.Acc = append(d.Acc, acc(q))
	}
	return d
}

// Graph is an automaton under construction whose edges are ε-moves or whole languages
// (embedded automata). It is used to describe all strings that can be written along the
// paths of a control-flow graph.
type Graph struct {
	n *cnfa
}

func NewGraph(a *Alphabet) *Graph {
	return &Graph{n: &cnfa{a: a}}
}

func (g *Graph) NewState() int {
	g.n.tr = append(g.n.tr, map[int][]int{})
	g.n.eps = append(g.n.eps, nil)
	g.n.acc = append(g.n.acc, false)
	return len(g.n.tr) - 1
}

// Eps adds an ε-move.
func (g *Graph) Eps(from, to int) { g.n.eps[from] = append(g.n.eps[from], to) }

// Embed adds, from state `from` to state `to`, exactly the strings of L(d).
func (g *Graph) Embed(from, to int, d *DFA) {
	off := len(g.n.tr)
	for q := 0; q < d.N(); q++ {
		m := map[int][]int{}
		for c, t := range d.Trans[q] {
			m[c] = []int{int(t) + off}
		}
		g.n.tr = append(g.n.tr, m)
		g.n.eps = append(g.n.eps, nil)
		g.n.acc = append(g.n.acc, false)
	}
	g.n.eps[from] = append(g.n.eps[from], d.Start+off)
	for q := 0; q < d.N(); q++ {
		if d.Acc[q] {
			g.n.eps[q+off] = append(g.n.eps[q+off], to)
		}
	}
}

// DFA determinises the graph with the given start and accepting states.
func (g *Graph) DFA(start int, accept []int) *DFA {
	n := &cnfa{a: g.n.a, tr: g.n.tr, eps: g.n.eps, start: []int{start}, acc: make([]bool, len(g.n.tr))}
	for _, q := range accept {
		n.acc[q] = true
	}
	return n.determinize().Minimize()
}

// LeftQuotientLiteral: {w : k·w ∈ L(d)} (the runes of k must be classes of their own in d's alphabet).
func LeftQuotientLiteral(d *DFA, k string) *DFA {
	q := d.Start
	for _, c := range d.A.ClassesOfString(k) {
		q = int(d.Trans[q][c])
	}
	return &DFA{A: d.A, Trans: d.Trans, Acc: d.Acc, Start: q}
}

// DropLast: {w : wc ∈ L(d) for some symbol c}.
func DropLast(d *DFA) *DFA {
	acc := make([]bool, d.N())
	for q := 0; q < d.N(); q++ {
		for _, t := range d.Trans[q] {
			if d.Acc[t] {
				acc[q] = true
				break
			}
		}
	}
	return &DFA{A: d.A, Trans: d.Trans, Acc: acc, Start: d.Start}
}

// DropFirst: {w : cw ∈ L(d) for some symbol c}.
func DropFirst(d *DFA) *DFA { return Reverse(DropLast(Reverse(d))) }

// RightQuotientLiteral: {w : w·k ∈ L(d)}.
func RightQuotientLiteral(d *DFA, k string) *DFA {
	r := []rune(k)
	for i, j := 0, len(r)-1; i < j; i, j = i+1, j-1 {
		r[i], r[j] = r[j], r[i]
	}
	return Reverse(LeftQuotientLiteral(Reverse(d), string(r)))
}
