package relang

import (
	"math/rand"
	"regexp"
	"strings"
	"testing"
	"unicode"
)

var pats = []string{
	`^(?:([a-z0-9+.-]+):|[^&:\/?#]*(?:[\/?#]|$))`,
	`^[a-zA-Z]`, `^[-_a-zA-Z0-9]*$`, `^[$_a-zA-Z][$_a-zA-Z0-9]+$`,
	`^[a-zA-Z][-a-zA-Z]+$`, `^(?:[*/]?(?:[0-9a-zA-Z+-.!#%_ \t]|$))*$`, `^[a-zA-Z-]*$`,
	`"([^"\r\n\f\\]|\\[\s\S])*"|'([^'\r\n\f\\]|\\[\s\S])*'`,
	`[^-_a-zA-Z0-9#.:* ,>+~[\]()=^$|]`, `%{[[:word:]]+}`,
	`(?i)^(?:(?:https:)?//[0-9a-z.:\[\]-]+/|/[^/\\]|about:blank#)`,
	`(?i)(?:\.|%2e)(?:\.|%2e)`, `^data-[a-z_][-a-z0-9_]*$`,
	`&(?:[[:alpha:]][[:alnum:]]*|#(?:[xX][[:xdigit:]]*|[[:digit:]]*))?$`,
	`^[[:alpha:]](?:[[:alnum:]]|[+.-])*:`, `%[[:xdigit:]]?$`, `[[:space:]]|[[:cntrl:]]`,
	`(?m)^a$`, `\bfoo\b`, `a\Bb`, `(?m)x$\ny`, `(?s)a.b`, `a.b`, `^$`, `(?i)k+s`,
}

func TestAgainstRegexp(t *testing.T) {
	rng := rand.New(rand.NewSource(1))
	for _, p := range pats {
		re := MustParse(p)
		b := NewBuilder()
		for _, s := range re.Sets() {
			b.AddSet(s)
		}
		a := b.Build()
		d := re.Compile(a, Search)
		gre := regexp.MustCompile(p)
		// symbols: one per class (non-impossible) + extra interesting ones
		var syms []string
		for c := 0; c < a.N(); c++ {
			if a.Impossible[c] {
				continue
			}
			syms = append(syms, string(a.Bytes([]int{c})))
		}
		syms = append(syms, "ſ", "K", "\n", "a", "x", "y", "foo", " ", "\xff", "İ")
		for n := 0; n < 20000; n++ {
			l := rng.Intn(7)
			var sb strings.Builder
			for i := 0; i < l; i++ {
				sb.WriteString(syms[rng.Intn(len(syms))])
			}
			s := sb.String()
			if got, want := d.Accepts(s), gre.MatchString(s); got != want {
				t.Fatalf("pattern %q string %+q: dfa=%v regexp=%v", p, s, got, want)
			}
		}
		// minimized agrees
		m := d.Minimize()
		if ok, w := Equivalent(d, m); !ok {
			t.Fatalf("minimize changed language of %q: %s", p, w)
		}
		// reverse twice agrees
		if ok, w := Equivalent(d, Reverse(Reverse(d))); !ok {
			t.Fatalf("reverse∘reverse changed language of %q: %s", p, w)
		}
	}
}

func TestCapture(t *testing.T) {
	p := pats[0]
	reAny := MustParse(p)
	reEq, _ := ParseCapture(p, &CaptureSpec{1, "javascript", true})
	reNe, _ := ParseCapture(p, &CaptureSpec{1, "javascript", false})
	b := NewBuilder()
	for _, r := range []*Regex{reAny, reEq, reNe} {
		for _, s := range r.Sets() {
			b.AddSet(s)
		}
	}
	lower := func(s int32) int32 {
		if s == INV {
			return unicode.ReplacementChar
		}
		return int32(unicode.ToLower(rune(s)))
	}
	b.AddMap(lower)
	a := b.Build()
	dAny, dEq, dNe := reAny.Compile(a, Search), reEq.Compile(a, Search), reNe.Compile(a, Search)
	if ok, w := Disjoint(dEq, dNe); !ok {
		t.Fatalf("ambiguous: %s", w)
	}
	if ok, w := Equivalent(dAny, Union(dEq, dNe)); !ok {
		t.Fatalf("eq ∪ ne != any: %s", w)
	}
	gre := regexp.MustCompile(p)
	accept, err := InverseMap(dNe, lower)
	if err != nil {
		t.Fatal(err)
	}
	isSafe := func(u string) bool {
		u = strings.ToLower(u)
		sm := gre.FindStringSubmatch(u)
		if sm == nil {
			return false
		}
		return len(sm) == 2 && sm[1] != "javascript"
	}
	rng := rand.New(rand.NewSource(2))
	syms := []string{"j", "a", "v", "s", "c", "r", "i", "p", "t", ":", "J", "A", "İ", "K", "ſ", "/", "&", "?", "#", "x", "\t", "\xff", " ", "javascript", "JAVASCRIPT", "+"}
	for n := 0; n < 200000; n++ {
		l := rng.Intn(6)
		var sb strings.Builder
		for i := 0; i < l; i++ {
			sb.WriteString(syms[rng.Intn(len(syms))])
		}
		s := sb.String()
		if got, want := accept.Accepts(s), isSafe(s); got != want {
			t.Fatalf("string %+q: dfa=%v isSafeURL=%v", s, got, want)
		}
	}
}
