// Package relang is a small regular-language engine over the alphabet of all
// Unicode code points plus one extra symbol INV standing for a byte that is not
// part of a valid UTF-8 sequence (Go's regexp, range-over-string and
// strings.Map all see such a byte as U+FFFD, width 1).
//
// Languages are represented by complete DFAs over a finite partition of that
// alphabet into classes. The partition is computed from the rune predicates of
// an obligation, so every operation is exact over the whole code-point space.
package relang

import (
	"fmt"
	"sort"
	"strings"
	"unicode/utf8"
)

const (
	MaxRune = 0x10FFFF
	INV     = 0x110000 // the invalid-byte symbol
	NSym    = 0x110001
)

// Set is a set of symbols given as sorted, disjoint, inclusive ranges.
type Set struct {
	R []int32 // lo0,hi0,lo1,hi1,...
}

func NewSet(pairs ...int32) *Set {
	s := &Set{}
	for i := 0; i+1 < len(pairs); i += 2 {
		s.R = append(s.R, pairs[i], pairs[i+1])
	}
	return s.norm()
}

func SetOfRunes(rs ...rune) *Set {
	s := &Set{}
	for _, r := range rs {
		s.R = append(s.R, int32(r), int32(r))
	}
	return s.norm()
}

func SetOfString(str string) *Set {
	s := &Set{}
	for _, r := range str {
		s.R = append(s.R, int32(r), int32(r))
	}
	return s.norm()
}

func (s *Set) norm() *Set {
	type pr struct{ lo, hi int32 }
	var ps []pr
	for i := 0; i+1 < len(s.R); i += 2 {
		if s.R[i] <= s.R[i+1] {
			ps = append(ps, pr{s.R[i], s.R[i+1]})
		}
	}
	sort.Slice(ps, func(i, j int) bool { return ps[i].lo < ps[j].lo })
	var out []int32
	for _, p := range ps {
		n := len(out)
		if n > 0 && p.lo <= out[n-1]+1 {
			if p.hi > out[n-1] {
				out[n-1] = p.hi
			}
			continue
		}
		out = append(out, p.lo, p.hi)
	}
	s.R = out
	return s
}

func (s *Set) Contains(sym int32) bool {
	// binary search over pairs
	lo, hi := 0, len(s.R)/2
	for lo < hi {
		m := (lo + hi) / 2
		if sym < s.R[2*m] {
			hi = m
		} else if sym > s.R[2*m+1] {
			lo = m + 1
		} else {
			return true
		}
	}
	return false
}

func (s *Set) Empty() bool { return len(s.R) == 0 }

func (s *Set) Union(t *Set) *Set {
	u := &Set{R: append(append([]int32{}, s.R...), t.R...)}
	return u.norm()
}

// Complement within [0, INV].
func (s *Set) Complement() *Set {
	out := &Set{}
	next := int32(0)
	for i := 0; i+1 < len(s.R); i += 2 {
		if s.R[i] > next {
			out.R = append(out.R, next, s.R[i]-1)
		}
		next = s.R[i+1] + 1
	}
	if next <= INV {
		out.R = append(out.R, next, INV)
	}
	return out
}

func (s *Set) Intersect(t *Set) *Set {
	return s.Complement().Union(t.Complement()).Complement()
}

func (s *Set) Minus(t *Set) *Set { return s.Intersect(t.Complement()) }

func (s *Set) Equal(t *Set) bool {
	if len(s.R) != len(t.R) {
		return false
	}
	for i := range s.R {
		if s.R[i] != t.R[i] {
			return false
		}
	}
	return true
}

func (s *Set) String() string {
	var b strings.Builder
	b.WriteByte('{')
	for i := 0; i+1 < len(s.R); i += 2 {
		if i > 0 {
			b.WriteByte(' ')
		}
		if s.R[i] == s.R[i+1] {
			fmt.Fprintf(&b, "%s", symName(s.R[i]))
		} else {
			fmt.Fprintf(&b, "%s-%s", symName(s.R[i]), symName(s.R[i+1]))
		}
	}
	b.WriteByte('}')
	return b.String()
}

func symName(s int32) string {
	if s == INV {
		return "INV"
	}
	if s > 0x20 && s < 0x7f {
		return fmt.Sprintf("%q", rune(s))
	}
	return fmt.Sprintf("U+%04X", s)
}

// Count returns the number of symbols in the set.
func (s *Set) Count() int {
	n := 0
	for i := 0; i+1 < len(s.R); i += 2 {
		n += int(s.R[i+1]-s.R[i]) + 1
	}
	return n
}

var (
	surrogates = NewSet(0xD800, 0xDFFF)
	wordSet    = NewSet('0', '9', 'A', 'Z', '_', '_', 'a', 'z')
	nlSet      = NewSet('\n', '\n')
)

// Alphabet is a partition of the symbol space into classes.
type Alphabet struct {
	classOf    []uint16
	Reps       []int32 // a representative symbol per class
	Impossible []bool  // classes made only of surrogates (never produced by decoding)
	kind       []uint8 // per class: kOther, kWord, kNewline
	sets       []*Set  // the sets the partition was built from
}

const (
	kOther = iota
	kWord
	kNewline
	kStart // only as "previous" context
	kEnd   // only as "next" context
)

func (a *Alphabet) N() int { return len(a.Reps) }

func (a *Alphabet) ClassOf(sym int32) int { return int(a.classOf[sym]) }

// Builder collects the predicates an obligation needs.
type Builder struct {
	sets []*Set
	maps []func(int32) int32
}

func NewBuilder() *Builder {
	b := &Builder{}
	b.AddSet(surrogates)
	b.AddSet(wordSet)
	b.AddSet(nlSet)
	b.AddSet(NewSet(INV, INV))
	return b
}

func (b *Builder) AddSet(s *Set) { b.sets = append(b.sets, s) }

// AddMap asks for a partition on which "class of f(sym)" is uniform per class
// (needed by InverseMap).
func (b *Builder) AddMap(f func(int32) int32) { b.maps = append(b.maps, f) }

func (b *Builder) Build() *Alphabet {
	cls := make([]uint32, NSym)
	// elementary intervals from the range boundaries of all sets
	bounds := []int32{0, NSym}
	for _, set := range b.sets {
		for i := 0; i+1 < len(set.R); i += 2 {
			bounds = append(bounds, set.R[i], set.R[i+1]+1)
		}
	}
	sort.Slice(bounds, func(i, j int) bool { return bounds[i] < bounds[j] })
	sigIndex := map[string]uint32{}
	n := uint32(0)
	sig := make([]byte, (len(b.sets)+7)/8)
	for i := 0; i+1 < len(bounds); i++ {
		lo, hi := bounds[i], bounds[i+1]
		if lo == hi || lo >= NSym {
			continue
		}
		for k := range sig {
			sig[k] = 0
		}
		for k, set := range b.sets {
			if set.Contains(lo) {
				sig[k/8] |= 1 << (k % 8)
			}
		}
		id, ok := sigIndex[string(sig)]
		if !ok {
			id = n
			n++
			sigIndex[string(sig)] = id
		}
		for s := lo; s < hi && s < NSym; s++ {
			cls[s] = id
		}
	}
	for _, f := range b.maps {
		old := append([]uint32(nil), cls...)
		on := n
		table := make([]int32, int(on)*int(on))
		for i := range table {
			table[i] = -1
		}
		n = 0
		for s := int32(0); s < NSym; s++ {
			k := int(old[s])*int(on) + int(old[f(s)])
			if table[k] < 0 {
				table[k] = int32(n)
				n++
			}
			cls[s] = uint32(table[k])
		}
	}
	if n > 60000 {
		panic("relang: too many alphabet classes")
	}
	a := &Alphabet{classOf: make([]uint16, NSym), sets: b.sets}
	a.Reps = make([]int32, n)
	have := make([]bool, n)
	for s := int32(0); s < NSym; s++ {
		c := cls[s]
		a.classOf[s] = uint16(c)
		if !have[c] {
			have[c] = true
			a.Reps[c] = s
		} else if r := a.Reps[c]; !(r > 0x20 && r < 0x7f) && s > 0x20 && s < 0x7f {
			a.Reps[c] = s // prefer a printable ASCII representative
		}
	}
	a.Impossible = make([]bool, n)
	a.kind = make([]uint8, n)
	for c := range a.Reps {
		r := a.Reps[c]
		a.Impossible[c] = surrogates.Contains(r)
		switch {
		case wordSet.Contains(r):
			a.kind[c] = kWord
		case nlSet.Contains(r):
			a.kind[c] = kNewline
		}
	}
	return a
}

// Render turns a class sequence into a Go-quoted witness string.
func (a *Alphabet) Render(classes []int) string {
	var b []byte
	for _, c := range classes {
		r := a.Reps[c]
		if r == INV {
			b = append(b, 0xff)
		} else {
			b = utf8.AppendRune(b, rune(r))
		}
	}
	return fmt.Sprintf("%+q", string(b))
}

// Bytes returns the witness as raw bytes.
func (a *Alphabet) Bytes(classes []int) []byte {
	var b []byte
	for _, c := range classes {
		r := a.Reps[c]
		if r == INV {
			b = append(b, 0xff)
		} else {
			b = utf8.AppendRune(b, rune(r))
		}
	}
	return b
}

// ClassesOfString maps a Go string to its class sequence (invalid bytes → INV).
func (a *Alphabet) ClassesOfString(s string) []int {
	var out []int
	for i := 0; i < len(s); {
		r, w := utf8.DecodeRuneInString(s[i:])
		if r == utf8.RuneError && w == 1 {
			out = append(out, a.ClassOf(INV))
		} else {
			out = append(out, a.ClassOf(int32(r)))
		}
		i += w
	}
	return out
}
