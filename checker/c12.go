package main

import (
	"fmt"
	"go/constant"
	"go/token"
	"go/types"
	"regexp"
	"safecheck/relang"
	"sort"

	"golang.org/x/tools/go/ssa"
)

func init() {
	register("C12", "other", func(p *Program, r *Report) {
		runC12(p, r)
		checkBoundsProven(p, r, "C12.B1", "urlset.go")
		checkLoopsMakeProgress(p, r, "C12.B2", "urlset.go")
		checkScansStartAtZero(p, r, "C12.B3", "urlset.go")
	})
}

// boolTable evaluates a package-level [256]bool filled by constant-index
// stores. Returns the set of indices set to true and where the stores are.
func boolTables(p *Program, rel string) (map[string]map[int]bool, []string) {
	out := map[string]map[int]bool{}
	var problems []string
	sp := p.SSAPkg(rel)
	for _, m := range sp.Members {
		g, ok := m.(*ssa.Global)
		if !ok {
			continue
		}
		arr, ok := g.Type().(*types.Pointer).Elem().Underlying().(*types.Array)
		if !ok || arr.Len() != 256 {
			continue
		}
		if b, ok := arr.Elem().Underlying().(*types.Basic); !ok || b.Kind() != types.Bool {
			continue
		}
		out[cname(g)] = map[int]bool{}
	}
	for _, f := range p.SrcFuncs() {
		for _, b := range f.Blocks {
			for _, in := range b.Instrs {
				st, ok := in.(*ssa.Store)
				if !ok {
					continue
				}
				var g *ssa.Global
				var idx ssa.Value
				switch a := st.Addr.(type) {
				case *ssa.IndexAddr:
					g, _ = a.X.(*ssa.Global)
					idx = a.Index
				case *ssa.Global:
					g = a
				}
				if g == nil || g.Pkg != sp {
					continue
				}
				tab, isTab := out[cname(g)]
				if !isTab {
					continue
				}
				isInit := f.Pkg == sp && (f.Name() == "init" || (len(f.Name()) > 5 && f.Name()[:5] == "init#"))
				k, okIdx := int64(0), false
				if idx != nil {
					k, okIdx = constInt(idx)
				}
				c, okVal := st.Val.(*ssa.Const)
				if !isInit || !okIdx || !okVal || c.Value == nil || c.Value.Kind() != constant.Bool {
					problems = append(problems, fmt.Sprintf("table %s is written by a non-constant store in %s (%s)", g.Name(), fnName(f), p.Pos(st.Pos())))
					continue
				}
				tab[int(k)] = constant.BoolVal(c.Value)
			}
		}
	}
	return out, problems
}

func trueSet(m map[int]bool) []int {
	var out []int
	for k, v := range m {
		if v {
			out = append(out, k)
		}
	}
	sort.Ints(out)
	return out
}

func sameInts(a, b []int) bool {
	if len(a) != len(b) {
		return false
	}
	for i := range a {
		if a[i] != b[i] {
			return false
		}
	}
	return true
}

var htmlWS = []int{0x09, 0x0A, 0x0C, 0x0D, 0x20}

type bufOp struct {
	Call *ssa.Call
	Name string
}

// bufferOps lists the calls in fn that receive buf (as receiver or argument).
func bufferOps(fn *ssa.Function, buf ssa.Value) (ops []bufOp, escapes []ssa.Instruction) {
	for _, b := range fn.Blocks {
		for _, in := range b.Instrs {
			uses := false
			for _, op := range in.Operands(nil) {
				if *op == buf {
					uses = true
				}
			}
			if !uses {
				continue
			}
			switch x := in.(type) {
			case *ssa.Call:
				name := "<dynamic>"
				if f := staticCallee(x.Common()); f != nil {
					name = fnName(f)
				}
				ops = append(ops, bufOp{x, name})
			case *ssa.DebugRef:
			default:
				escapes = append(escapes, in)
			}
		}
	}
	return
}

// forwardReach: can block a reach block b without using a back edge?
func forwardReach(a, b *ssa.BasicBlock) bool {
	seen := map[*ssa.BasicBlock]bool{}
	var dfs func(x *ssa.BasicBlock) bool
	dfs = func(x *ssa.BasicBlock) bool {
		if x == b {
			return true
		}
		if seen[x] {
			return false
		}
		seen[x] = true
		for _, s := range x.Succs {
			if s.Dominates(x) {
				continue // back edge
			}
			if dfs(s) {
				return true
			}
		}
		return false
	}
	return dfs(a)
}

func before(a, b ssa.Instruction) bool {
	if a.Block() == b.Block() {
		for _, in := range a.Block().Instrs {
			if in == a {
				return true
			}
			if in == b {
				return false
			}
		}
	}
	return forwardReach(a.Block(), b.Block()) && !forwardReach(b.Block(), a.Block())
}

func runC12Shape(p *Program, r *Report) {
	r.Trusted = []string{"go/types + go/ssa", "the URL guard's language is decided by C11 (same function object)", "strconv.ParseFloat accepts only Go float syntax (incl. hex floats, inf/nan, underscores only with base prefix)", "bytes.Buffer semantics"}
	r.NotDecided = []string{"that the scanner's candidate boundaries coincide with the WHATWG srcset parser for every input", "idempotence of the sanitizer"}
	r.Explain = "Decides necessary conditions: the two byte tables equal the WHATWG ASCII-whitespace set (plus ',' for descriptors); the loop tokenises with skip/take helpers over those tables in the WHATWG order; every byte written to the output is the separator constant (whitespace before its comma), the guarded URL through the comma-encoding helper, one space, or the guarded descriptor; all of these writes are dominated by len(url)!=0 ∧ URLguard(url) ∧ descriptorOK(metadata) on the same values; the empty-result constant; the shapes of the comma helper and the descriptor check."
	for _, m := range []struct {
		r string
		n int
	}{{"C12.R1", 4}, {"C12.R2", 3}, {"C12.R3", 6}, {"C12.R4", 4}, {"C12.R5", 2}} {
		r.Min(m.r, m.n)
	}
	const cn = "safehtml.URLSetSanitized"
	fn := p.Func("", "URLSetSanitized")
	if fn == nil {
		r.Undec("C12.R1", cn, "", "anchor not found")
		return
	}
	pv := NewProv(p)
	pv.NoInline = true
	// ---- R1 tables ---------------------------------------------------------
	tabs, probs := boolTables(p, "")
	for _, pr := range probs {
		r.Viol("C12.R1", "safehtml#byte-tables", "", pr, "")
	}
	// the tokenising chain in the loop
	type step struct {
		call  *ssa.Call
		fn    *ssa.Function
		table string
	}
	var chain []step
	for _, b := range fn.Blocks {
		for _, in := range b.Instrs {
			c, ok := in.(*ssa.Call)
			if !ok {
				continue
			}
			f := staticCallee(c.Common())
			if f == nil || f.Pkg == nil || f.Pkg.Pkg.Path() != modulePath || len(c.Common().Args) != 2 {
				continue
			}
			u, ok := c.Common().Args[1].(*ssa.UnOp)
			if !ok {
				continue
			}
			g, ok := u.X.(*ssa.Global)
			if !ok {
				continue
			}
			if _, isTab := tabs[cname(g)]; isTab {
				chain = append(chain, step{c, f, g.Name()})
			}
		}
	}
	if len(chain) != 5 {
		r.Undec("C12.R1", cn+"#token-chain", p.Pos(fn.Pos()), fmt.Sprintf("expected 5 skip/take calls over byte tables, found %d", len(chain)))
		return
	}
	// classify helpers by shape
	kind := map[*ssa.Function]string{}
	for _, st := range chain {
		if _, ok := kind[st.fn]; !ok {
			kind[st.fn] = consumeKind(st.fn)
		}
	}
	wantKinds := []string{"skipIn", "takeNotIn", "skipIn", "takeNotIn", "skipIn"}
	chainOK := true
	var descr []string
	for i, st := range chain {
		k := kind[st.fn]
		descr = append(descr, k+"("+st.table+")")
		if k != wantKinds[i] {
			chainOK = false
		}
		// input is the rest of the previous step
		in := st.call.Common().Args[0]
		if i == 0 {
			if _, ok := in.(*ssa.Phi); !ok {
				chainOK = false
			}
		} else if ex, ok := in.(*ssa.Extract); !ok || ex.Tuple != ssa.Value(chain[i-1].call) || ex.Index != 1 {
			chainOK = false
		}
	}
	r.Check(chainOK, "C12.R1", cn+"#token-chain", p.Pos(chain[0].call.Pos()), "candidate = skip ws, take URL, skip ws, take descriptor, skip ws, each on the rest of the previous: "+fmt.Sprint(descr),
		"tokenising chain is not skip/take/skip/take/skip over consecutive rests: "+fmt.Sprint(descr))
	for i, st := range chain {
		want := htmlWS
		role := "whitespace"
		if i == 3 {
			want = append(append([]int{}, htmlWS...), ',')
			sort.Ints(want)
			role = "descriptor terminators (whitespace and comma)"
		}
		got := trueSet(tabs[st.table])
		c := fmt.Sprintf("%s#table%d:%s", cn, i, st.table)
		r.Check(sameInts(got, want), "C12.R1", c, p.Pos(st.call.Pos()), fmt.Sprintf("table %s = %v = WHATWG %s", st.table, got, role),
			fmt.Sprintf("table %s = %v differs from the WHATWG %s set %v", st.table, got, role, want))
	}
	urlVal := ssa.Value(nil)
	metaVal := ssa.Value(nil)
	for _, ref := range *chain[1].call.Referrers() {
		if ex, ok := ref.(*ssa.Extract); ok && ex.Index == 0 {
			urlVal = ex
		}
	}
	for _, ref := range *chain[3].call.Referrers() {
		if ex, ok := ref.(*ssa.Extract); ok && ex.Index == 0 {
			metaVal = ex
		}
	}
	// continuation: loop continues only when rest starts with ',' and drops exactly that byte
	contOK := false
	if phi, ok := chain[0].call.Common().Args[0].(*ssa.Phi); ok {
		for _, e := range phi.Edges {
			if sl, ok := e.(*ssa.Slice); ok {
				lo, okLo := constInt(sl.Low)
				if ex, ok := sl.X.(*ssa.Extract); ok && ex.Tuple == ssa.Value(chain[4].call) && ex.Index == 1 && okLo && lo == 1 && sl.High == nil {
					// guarded by rest[0] == ','
					for _, a := range pv.Atoms(sl.Block()) {
						if a.E.Op == "binop" && a.E.Name == "==" && a.Pol {
							if k, ok := a.E.Args[1].Const, a.E.Args[1].Op == "const"; ok && k != nil && k.Kind() == constant.Int {
								if v, _ := constant.Int64Val(k); v == ',' {
									contOK = true
								}
							}
						}
					}
				}
			}
		}
	}
	r.Check(contOK, "C12.R1", cn+"#continuation", p.Pos(fn.Pos()), "the next candidate starts after exactly one ',' following the previous one", "loop continuation is not 'rest[0]==',' then rest[1:]'")

	// ---- buffer ------------------------------------------------------------
	var buf *ssa.Alloc
	for _, in := range fn.Blocks[0].Instrs {
		if a, ok := in.(*ssa.Alloc); ok && isNamed(a.Type().(*types.Pointer).Elem(), "bytes", "Buffer") {
			buf = a
		}
	}
	if buf == nil {
		r.Undec("C12.R3", cn+"#buffer", p.Pos(fn.Pos()), "output buffer not found")
		return
	}
	ops, esc := bufferOps(fn, buf)
	for _, e := range esc {
		r.Undec("C12.R3", cn+"#buffer-escape", p.Pos(e.Pos()), "buffer used by "+e.String())
	}
	g := findURLGuard(p, NewReport("C11", "quick", 0), "C11.R1") // discovery only; C11 reports on it
	var sepW, urlW, spW, metaW *ssa.Call
	var helper *ssa.Function
	sepRe := regexp.MustCompile(`^[\t\n\f\r ]+,[\t\n\f\r ]*$`)
	for i, op := range ops {
		c := fmt.Sprintf("%s#bufop%d:%s", cn, i, op.Name)
		pos := p.Pos(op.Call.Pos())
		args := op.Call.Common().Args
		switch op.Name {
		case "(*bytes.Buffer).Len", "(*bytes.Buffer).String", "(*bytes.Buffer).Grow":
			continue
		case "(*bytes.Buffer).WriteString":
			if k, ok := constString(args[1]); ok {
				if sepW != nil {
					r.Viol("C12.R3", c, pos, "second constant write", "")
					continue
				}
				sepW = op.Call
				r.Check(sepRe.MatchString(k), "C12.R3", c, pos, fmt.Sprintf("separator %q has ASCII whitespace before its comma (a URL can never absorb it)", k),
					fmt.Sprintf("separator %q lets the comma glue to the preceding URL or descriptor", k))
			} else if args[1] == metaVal {
				metaW = op.Call
				r.OK("C12.R3", c, pos, "writes the descriptor token")
			} else {
				r.Viol("C12.R3", c, pos, "writes "+pv.Of(args[1]).String()+", which is neither the separator nor the descriptor", "")
			}
		case "(*bytes.Buffer).WriteByte":
			k, ok := constInt(args[1])
			isWS := false
			for _, w := range htmlWS {
				if ok && int(k) == w {
					isWS = true
				}
			}
			spW = op.Call
			r.Check(isWS, "C12.R3", c, pos, "single ASCII whitespace between URL and descriptor", "byte written between URL and descriptor is not ASCII whitespace")
		default:
			f := staticCallee(op.Call.Common())
			if f != nil && f.Pkg != nil && f.Pkg.Pkg.Path() == modulePath && len(args) == 2 && args[0] == urlVal && args[1] == ssa.Value(buf) {
				urlW = op.Call
				helper = f
				r.OK("C12.R3", c, pos, "URL written through "+fnName(f))
			} else {
				r.Viol("C12.R3", c, pos, "unexpected operation on the output buffer", "")
			}
		}
	}
	if urlW == nil {
		r.Viol("C12.R3", cn+"#url-write", p.Pos(fn.Pos()), "no write of the URL token through a helper found", "")
		return
	}
	orderOK := (sepW == nil || before(sepW, urlW)) && (metaW == nil || before(urlW, metaW)) && (spW == nil || metaW == nil || before(spW, metaW)) && (spW == nil || before(urlW, spW))
	r.Check(orderOK && metaW != nil && spW != nil, "C12.R3", cn+"#order", p.Pos(urlW.Pos()), "per candidate: [separator] URL [space descriptor]", "writes are not in the order separator, URL, space, descriptor")

	// ---- R2 guards ---------------------------------------------------------
	var metaGuard *ssa.Function
	for _, w := range []*ssa.Call{sepW, urlW, spW, metaW} {
		if w == nil {
			continue
		}
		hasLen, hasURL, hasMeta := false, false, false
		for _, a := range pv.Atoms(w.Block()) {
			e := a.E
			if !a.Pol && e.Op == "binop" && e.Name == "==" && e.Args[0].Op == "call" && e.Args[0].Name == "builtin:len" && e.Args[0].Args[0].Val == urlVal {
				if k, ok := e.Args[1].Const, e.Args[1].Op == "const"; ok && k != nil && k.ExactString() == "0" {
					hasLen = true
				}
			}
			if a.Pol && e.Op == "call" && e.Fn != nil && len(e.Args) == 1 {
				if e.Args[0].Val == urlVal && g != nil && e.Fn == g.Fn {
					hasURL = true
				}
				if e.Args[0].Val == metaVal && e.Fn.Pkg != nil && e.Fn.Pkg.Pkg.Path() == modulePath {
					hasMeta = true
					metaGuard = e.Fn
				}
			}
		}
		c := fmt.Sprintf("%s#guards-of:%s", cn, fnName(staticCallee(w.Common())))
		if w == metaW {
			c += "(descriptor)"
		} else if w == sepW {
			c += "(separator)"
		}
		var miss []string
		if !hasLen {
			miss = append(miss, "len(url) != 0")
		}
		if !hasURL && g != nil {
			// not literally the guard function: decide by language that the guards on this
			// candidate's URL accept only what the URL guard accepts
			ok, why := urlGuardedByLanguage(p, g, w.Block(), urlVal)
			if ok {
				hasURL = true
			} else {
				miss = append(miss, "URL guard (the function C11 summarises) on this candidate's URL ["+why+"]")
			}
		} else if !hasURL {
			miss = append(miss, "URL guard (the function C11 summarises) on this candidate's URL")
		}
		if !hasMeta {
			miss = append(miss, "descriptor well-formedness on this candidate's descriptor")
		}
		r.Check(len(miss) == 0, "C12.R2", c, p.Pos(w.Pos()), "dominated by len(url)!=0 ∧ URLguard(url) ∧ descriptorOK(metadata)", fmt.Sprintf("write is not dominated by: %v", miss))
	}
	// ---- result stores -----------------------------------------------------
	nConst, nBuf := 0, 0
	for i, st := range safeStores(fn, modulePath, "URLSet") {
		c := fmt.Sprintf("%s#result%d", cn, i)
		pos := p.Pos(st.Store.Pos())
		if k, ok := constString(st.Store.Val); ok {
			nConst++
			emptyGuard := false
			for _, a := range pv.Atoms(st.Store.Block()) {
				e := a.E
				if a.Pol && e.Op == "binop" && e.Name == "==" && calleeIs(e.Args[0], "(*bytes.Buffer).Len") && e.Args[0].Args[0].Val == ssa.Value(buf) {
					emptyGuard = true
				}
			}
			r.Check(k == specInnocuousURL && emptyGuard, "C12.R3", c, pos, "empty result ⇒ exactly "+specInnocuousURL, fmt.Sprintf("constant result %q, or not guarded by an empty buffer", k))
		} else if call, ok := st.Store.Val.(*ssa.Call); ok && staticCallee(call.Common()) != nil && fnName(staticCallee(call.Common())) == "(*bytes.Buffer).String" && call.Common().Args[0] == ssa.Value(buf) {
			nBuf++
			r.OK("C12.R3", c, pos, "result is the buffer's contents")
		} else {
			r.Viol("C12.R3", c, pos, "result is neither the buffer nor the innocuous constant: "+pv.Of(st.Store.Val).String(), "")
		}
	}
	if nConst != 1 || nBuf != 1 {
		r.Undec("C12.R3", cn+"#results", p.Pos(fn.Pos()), fmt.Sprintf("expected one constant and one buffer result, found %d/%d", nConst, nBuf))
	}
	if ok, why := returnsOnlyLocalComposite(fn, 0); !ok {
		r.Undec("C12.R3", cn+"#returns", p.Pos(fn.Pos()), why)
	}

	// ---- R4 comma helper ---------------------------------------------------
	if helper != nil {
		checkCommaHelper(p, r, pv, helper)
	}
	// ---- R5 descriptor -----------------------------------------------------
	if metaGuard != nil {
		checkDescriptorGuard(p, r, pv, metaGuard)
	} else {
		r.Undec("C12.R5", "descriptor-guard", "", "descriptor guard not identified")
	}
	r.Analysed["tables"] = map[string][]int{}
	for n, t := range tabs {
		r.Analysed["table:"+n] = trueSet(t)
	}
}

// consumeKind classifies a (string, [256]bool) -> (consumed, rest) helper:
// "takeNotIn" stops at the first byte whose mask entry is true, "skipIn" at
// the first whose entry is false; both return (str[:i], str[i:]) there and
// (str, "") when the end is reached.
func consumeKind(fn *ssa.Function) string {
	if len(fn.Params) != 2 || fn.Signature.Results().Len() != 2 {
		return "unknown"
	}
	kind := "unknown"
	for _, b := range fn.Blocks {
		iff, ok := b.Instrs[len(b.Instrs)-1].(*ssa.If)
		if !ok {
			continue
		}
		// cond: mask[str[i]] (load of IndexAddr(local copy of mask, str[i]))
		ld, ok := iff.Cond.(*ssa.UnOp)
		if !ok || ld.Op != token.MUL {
			continue
		}
		ia, ok := ld.X.(*ssa.IndexAddr)
		if !ok {
			continue
		}
		// the byte index: str[i]
		idx := ia.Index
		if cv, ok := idx.(*ssa.Convert); ok {
			idx = cv.X
		}
		bi, ok := idx.(*ssa.Index)
		if !ok || bi.X != ssa.Value(fn.Params[0]) {
			continue
		}
		al, ok := ia.X.(*ssa.Alloc)
		if !ok {
			continue
		}
		st := singleStoreLoose(al)
		if st == nil || st.Val != ssa.Value(fn.Params[1]) {
			continue
		}
		i := bi.Index
		// which successor returns (str[0:i], str[i:n])?
		for k, su := range b.Succs {
			ret, ok := su.Instrs[len(su.Instrs)-1].(*ssa.Return)
			if !ok || len(ret.Results) != 2 {
				continue
			}
			s0, ok0 := ret.Results[0].(*ssa.Slice)
			s1, ok1 := ret.Results[1].(*ssa.Slice)
			if !ok0 || !ok1 || s0.X != ssa.Value(fn.Params[0]) || s1.X != ssa.Value(fn.Params[0]) {
				continue
			}
			lo0, okLo := int64(0), true
			if s0.Low != nil {
				lo0, okLo = constInt(s0.Low)
			}
			if !okLo || lo0 != 0 || s0.High != i || s1.Low != i {
				continue
			}
			if k == 0 {
				kind = "takeNotIn"
			} else {
				kind = "skipIn"
			}
		}
	}
	if kind == "unknown" {
		return kind
	}
	// the fall-through return is (str, "")
	okEnd := false
	for _, ret := range Returns(fn) {
		if ret.Results[0] == ssa.Value(fn.Params[0]) {
			if k, ok := constString(ret.Results[1]); ok && k == "" {
				okEnd = true
			}
		}
	}
	if !okEnd {
		return "unknown"
	}
	return kind
}

func singleStoreLoose(a *ssa.Alloc) *ssa.Store {
	var st *ssa.Store
	for _, r := range *a.Referrers() {
		if s, ok := r.(*ssa.Store); ok && s.Addr == ssa.Value(a) {
			if st != nil {
				return nil
			}
			st = s
		}
	}
	return st
}

func constIntExpr(v ssa.Value) (int64, bool) {
	if k, ok := constInt(v); ok {
		return k, true
	}
	if b, ok := v.(*ssa.BinOp); ok {
		x, ok1 := constIntExpr(b.X)
		y, ok2 := constIntExpr(b.Y)
		if ok1 && ok2 {
			switch b.Op {
			case token.ADD:
				return x + y, true
			case token.SUB:
				return x - y, true
			}
		}
	}
	return 0, false
}

func checkCommaHelper(p *Program, r *Report, pv *Prov, fn *ssa.Function) {
	cn := fnName(fn)
	url, buf := ssa.Value(fn.Params[0]), ssa.Value(fn.Params[1])
	ops, esc := bufferOps(fn, buf)
	for _, e := range esc {
		r.Undec("C12.R4", cn+"#buffer-escape", p.Pos(e.Pos()), e.String())
	}
	var enc []*ssa.Call
	var sliceW *ssa.Call
	for i, op := range ops {
		c := fmt.Sprintf("%s#bufop%d", cn, i)
		if op.Name != "(*bytes.Buffer).WriteString" {
			r.Viol("C12.R4", c, p.Pos(op.Call.Pos()), "unexpected buffer operation "+op.Name, "")
			continue
		}
		a := op.Call.Common().Args[1]
		if k, ok := constString(a); ok {
			r.Check(k == "%2c" || k == "%2C", "C12.R4", c, p.Pos(op.Call.Pos()), "constant write is the percent-encoding of ','", fmt.Sprintf("constant %q written into the URL", k))
			enc = append(enc, op.Call)
		} else if sl, ok := a.(*ssa.Slice); ok && sl.X == url {
			if sliceW != nil {
				r.Viol("C12.R4", c, p.Pos(op.Call.Pos()), "the URL is written more than once", "")
			}
			sliceW = op.Call
		} else {
			r.Viol("C12.R4", c, p.Pos(op.Call.Pos()), "writes "+pv.Of(a).String(), "")
		}
	}
	if sliceW == nil {
		r.Viol("C12.R4", cn+"#slice", p.Pos(fn.Pos()), "the URL is never written", "")
		return
	}
	sl := sliceW.Common().Args[1].(*ssa.Slice)
	// byte tests url[k] == ','
	commaTest := func(a Atom) (string, bool) {
		e := a.E
		if !a.Pol || e.Op != "binop" || e.Name != "==" || e.Args[0].Op != "index" || e.Args[0].Args[0].Val != url {
			return "", false
		}
		if k := e.Args[1]; k.Op != "const" || k.Const == nil || k.Const.ExactString() != "44" {
			return "", false
		}
		idx := e.Args[0].Args[1]
		if idx.Op == "const" && idx.Const != nil && idx.Const.ExactString() == "0" {
			return "first", true
		}
		if idx.Op == "binop" && idx.Name == "-" && idx.Args[0].Op == "call" && idx.Args[0].Name == "builtin:len" && idx.Args[0].Args[0].Val == url && idx.Args[1].Op == "const" && idx.Args[1].Const.ExactString() == "1" {
			return "last", true
		}
		return "", false
	}
	blockHas := func(b *ssa.BasicBlock, which string) bool {
		for _, a := range pv.Atoms(b) {
			if w, ok := commaTest(a); ok && w == which {
				return true
			}
		}
		return false
	}
	// low bound: phi{0, 1 under first-comma}
	lowOK, highOK := false, false
	if phi, ok := sl.Low.(*ssa.Phi); ok {
		lowOK = true
		for i, e := range phi.Edges {
			k, ok := constIntExpr(e)
			pred := phi.Block().Preds[i]
			switch {
			case ok && k == 0 && !blockHas(pred, "first"):
			case ok && k == 1 && blockHas(pred, "first"):
			default:
				lowOK = false
			}
		}
	}
	isLen := func(v ssa.Value) bool {
		c, ok := v.(*ssa.Call)
		if !ok {
			return false
		}
		bi, ok := c.Common().Value.(*ssa.Builtin)
		return ok && bi.Name() == "len" && c.Common().Args[0] == url
	}
	var endFlag *ssa.Phi
	if phi, ok := sl.High.(*ssa.Phi); ok {
		highOK = true
		for i, e := range phi.Edges {
			pred := phi.Block().Preds[i]
			if isLen(e) && !blockHas(pred, "last") {
				continue
			}
			if b, ok := e.(*ssa.BinOp); ok && b.Op == token.SUB && isLen(b.X) {
				if k, ok := constInt(b.Y); ok && k == 1 && blockHas(pred, "last") {
					continue
				}
			}
			highOK = false
		}
		// companion flag phi in the same block: true exactly on the "last" edges
		for _, in := range phi.Block().Instrs {
			if f, ok := in.(*ssa.Phi); ok && f != phi && f.Type().Underlying() == types.Typ[types.Bool] {
				okF := true
				for i, e := range f.Edges {
					c, ok := e.(*ssa.Const)
					if !ok || c.Value == nil {
						okF = false
						continue
					}
					if constant.BoolVal(c.Value) != blockHas(phi.Block().Preds[i], "last") {
						okF = false
					}
				}
				if okF {
					endFlag = f
				}
			}
		}
	}
	r.Check(lowOK && highOK, "C12.R4", cn+"#slice", p.Pos(sliceW.Pos()), "the URL is written without exactly the leading/trailing comma bytes that were tested", "slice bounds do not correspond to the leading/trailing comma tests")
	// each encoding write corresponds to a tested comma
	nFirst, nLast := 0, 0
	for _, e := range enc {
		switch {
		case blockHas(e.Block(), "first") && before(e, sliceW):
			nFirst++
		case before(sliceW, e):
			// guarded by the end flag
			ok := false
			for _, g := range GuardsOf(e.Block()) {
				if g.Pol && endFlag != nil && g.Cond == ssa.Value(endFlag) {
					ok = true
				}
			}
			if ok || blockHas(e.Block(), "last") {
				nLast++
			} else {
				r.Viol("C12.R4", cn+"#trailing-encode", p.Pos(e.Pos()), "a trailing %2c is written without a trailing-comma test", "")
			}
		default:
			r.Viol("C12.R4", cn+"#encode", p.Pos(e.Pos()), "a %2c write is not tied to a comma test", "")
		}
	}
	r.Check(nFirst == 1 && nLast == 1, "C12.R4", cn+"#encodes", p.Pos(fn.Pos()), "a removed leading/trailing comma is re-emitted as %2c, before/after the URL", fmt.Sprintf("expected one leading and one trailing %%2c write, found %d/%d", nFirst, nLast))
}

func checkDescriptorGuard(p *Program, r *Report, pv *Prov, fn *ssa.Function) {
	cn := fnName(fn)
	md := ssa.Value(fn.Params[0])
	isLenMd := func(e *Expr) bool {
		return e.Op == "call" && e.Name == "builtin:len" && e.Args[0].Val == md
	}
	lastByte := func(e *Expr) bool { // metadata[len-1]
		return e.Op == "index" && e.Args[0].Val == md && e.Args[1].Op == "binop" && e.Args[1].Name == "-" && isLenMd(e.Args[1].Args[0]) && e.Args[1].Args[1].Op == "const" && e.Args[1].Args[1].Const.ExactString() == "1"
	}
	folded := func(e *Expr) bool { // last | 32
		return e.Op == "binop" && e.Name == "|" && lastByte(e.Args[0]) && e.Args[1].Op == "const" && e.Args[1].Const.ExactString() == "32"
	}
	letterGuards := func(b *ssa.BasicBlock) bool {
		lo, hi := false, false
		for _, a := range pv.Atoms(b) {
			e := a.E
			if !a.Pol || e.Op != "binop" {
				continue
			}
			if e.Name == "<=" && e.Args[0].Op == "const" && e.Args[0].Const.ExactString() == "97" && folded(e.Args[1]) {
				lo = true
			}
			if e.Name == ">=" && e.Args[1].Op == "const" && e.Args[1].Const.ExactString() == "97" && folded(e.Args[0]) {
				lo = true
			}
			if e.Name == "<=" && e.Args[1].Op == "const" && e.Args[1].Const.ExactString() == "122" && folded(e.Args[0]) {
				hi = true
			}
			if e.Name == ">=" && e.Args[0].Op == "const" && e.Args[0].Const.ExactString() == "122" && folded(e.Args[1]) {
				hi = true
			}
		}
		return lo && hi
	}
	for i, ret := range Returns(fn) {
		c := fmt.Sprintf("%s#return%d", cn, i)
		pos := p.Pos(ret.Pos())
		v := ret.Results[0]
		if k, ok := v.(*ssa.Const); ok && k.Value != nil {
			if !constant.BoolVal(k.Value) {
				r.OK("C12.R5", c, pos, "rejects")
				continue
			}
			empty := false
			for _, a := range pv.Atoms(ret.Block()) {
				if a.Pol && a.E.Op == "binop" && a.E.Name == "==" && isLenMd(a.E.Args[0]) && a.E.Args[1].Op == "const" && a.E.Args[1].Const.ExactString() == "0" {
					empty = true
				}
				// metadata == ""
				if a.Pol && a.E.Op == "binop" && a.E.Name == "==" && a.E.Args[0].Val == md && a.E.Args[1].Op == "const" && a.E.Args[1].Const.ExactString() == `""` {
					empty = true
				}
			}
			r.Check(empty, "C12.R5", c, pos, "accepts outright only the empty descriptor", "returns true for a non-empty descriptor without parsing it")
			continue
		}
		// err == nil of ParseFloat(prefix)
		b, ok := v.(*ssa.BinOp)
		var pf *ssa.Call
		if ok && b.Op == token.EQL {
			if ex, ok := b.X.(*ssa.Extract); ok && ex.Index == 1 {
				if c, ok := ex.Tuple.(*ssa.Call); ok && staticCallee(c.Common()) != nil && fnName(staticCallee(c.Common())) == "strconv.ParseFloat" {
					if k, ok := b.Y.(*ssa.Const); ok && k.Value == nil {
						pf = c
					}
				}
			}
		}
		if pf == nil {
			r.Viol("C12.R5", c, pos, "accepts on a condition other than strconv.ParseFloat succeeding: "+pv.Of(v).String(), "")
			continue
		}
		arg := pf.Common().Args[0]
		edges := []ssa.Value{arg}
		preds := []*ssa.BasicBlock{pf.Block()}
		if phi, ok := arg.(*ssa.Phi); ok {
			edges = phi.Edges
			preds = phi.Block().Preds
		}
		okArg := true
		for j, e := range edges {
			if e == md {
				continue
			}
			sl, ok := e.(*ssa.Slice)
			if !ok || sl.X != md {
				okArg = false
				continue
			}
			lo := int64(0)
			okLo := true
			if sl.Low != nil {
				lo, okLo = constInt(sl.Low)
			}
			hb, okH := sl.High.(*ssa.BinOp)
			okHigh := false
			if okH && hb.Op == token.SUB {
				if k, ok := constInt(hb.Y); ok && k == 1 {
					if c, ok := hb.X.(*ssa.Call); ok {
						if bi, ok := c.Common().Value.(*ssa.Builtin); ok && bi.Name() == "len" && c.Common().Args[0] == md {
							okHigh = true
						}
					}
				}
			}
			if !okLo || lo != 0 || !okHigh || !letterGuards(preds[j]) {
				okArg = false
			}
		}
		r.Check(okArg, "C12.R5", c, pos, "accepts iff ParseFloat succeeds on the descriptor, or on the descriptor without its last byte when that byte is an ASCII letter",
			"the string handed to ParseFloat drops more than one final ASCII letter")
	}
}

// dependsOnValue reports whether v is computed from x (operands followed inside the function).
func dependsOnValue(v, x ssa.Value) bool {
	seen := map[ssa.Value]bool{}
	var walk func(ssa.Value) bool
	walk = func(y ssa.Value) bool {
		if y == x {
			return true
		}
		if seen[y] {
			return false
		}
		seen[y] = true
		in, ok := y.(ssa.Instruction)
		if !ok {
			return false
		}
		for _, op := range in.Operands(nil) {
			if *op != nil && walk(*op) {
				return true
			}
		}
		return false
	}
	return walk(v)
}

// urlGuardedByLanguage decides whether the guards that dominate block b and that test
// urlVal accept only strings accepted by the URL guard g (language inclusion). Guards on
// other values are ignored (they can only shrink the accepted set).
func urlGuardedByLanguage(p *Program, g *urlGuard, b *ssa.BasicBlock, urlVal ssa.Value) (bool, string) {
	s := NewSummarizer(p, g.Regexes)
	env := termEnv{urlVal: Term{Param: 0}}
	var fs []*Form
	for _, gd := range GuardsOf(b) {
		if !dependsOnValue(gd.Cond, urlVal) {
			continue
		}
		f := s.ValueForm(gd.Cond, env)
		if u, _ := f.HasUnknown(); u {
			continue // a dropped conjunct only enlarges the accepted set
		}
		if !gd.Pol {
			f = fNot(f)
		}
		fs = append(fs, f)
	}
	if len(fs) == 0 {
		return false, "no summarisable guard on the URL"
	}
	cond := fAnd(fs...)
	per, ok := splitByParam(cond)
	if !ok || per[Term{Param: 0}.Key()] == nil {
		return false, "guards are not conditions on the URL alone"
	}
	s2 := NewSummarizer(p, g.Regexes)
	gf := g.GuardForm(s2, 0)
	if u, why := gf.HasUnknown(); u || len(s2.Inexact) > 0 {
		return false, "URL guard not summarisable exactly: " + why
	}
	L := NewLang()
	if err := registerSumm(L, s, cond); err != nil {
		return false, err.Error()
	}
	if err := registerSumm(L, s2, gf); err != nil {
		return false, err.Error()
	}
	L.Build()
	A, amb, err := L.Eval(per[Term{Param: 0}.Key()])
	if err != nil || len(amb) > 0 {
		return false, fmt.Sprintf("%v %v", err, amb)
	}
	G, amb, err := L.Eval(gf)
	if err != nil || len(amb) > 0 || L.Overapprox {
		return false, fmt.Sprintf("URL guard language not exact: %v %v", err, amb)
	}
	if ok, w := relang.Subset(A, G); !ok {
		return false, "a URL passes the guards here that the URL guard rejects, e.g. " + w
	}
	return true, ""
}
