package main

// E5: decision tables. For code that touches one byte/rune variable only
// through comparisons with constants, walk the CFG from a start block, split
// the variable's value set at every such comparison, fork (with a tag) on any
// other condition, and classify each leaf by the effect reached. This is an
// abstract interpretation over the finite domain "set of values of one
// variable"; nothing is executed.

import (
	"fmt"
	"go/constant"
	"go/token"
	"go/types"
	"os"
	"sort"
	"strings"

	"golang.org/x/tools/go/ssa"

	"safecheck/relang"
)

type dtLeaf struct {
	Set    *relang.Set
	Effect string
	Tags   []string
	Block  *ssa.BasicBlock
	From   *ssa.BasicBlock // predecessor on the explored path (to resolve phis in Block)
}

// TableOf, when set, evaluates a package-level lookup table indexed by the
// variable: the set of indices whose entry is true / non-zero.
type tableEval func(g *ssa.Global) (*relang.Set, bool)

type dtConfig struct {
	// Aliases: other SSA values known to hold the same value as Var (repeated loads of an unmodified field)
	Aliases map[ssa.Value]bool
	Tables  tableEval
	Var     ssa.Value
	Dom     *relang.Set
	Leaf    func(b *ssa.BasicBlock) (string, bool) // effect reached in this block?
	TagOf   func(cond ssa.Value) string            // label for a non-variable condition ("" = untagged fork)
	Max     int
	// CallSet, when set, evaluates a call whose truth depends on the variable alone (unicode.Is(table, v), …): the
	// subset of the domain on which it is true
	CallSet func(c *ssa.Call) (*relang.Set, bool)
}

func cmpSplit(op token.Token, k int64, s *relang.Set, varOnLeft bool) (t, f *relang.Set) {
	if !varOnLeft {
		switch op {
		case token.LSS:
			op = token.GTR
		case token.LEQ:
			op = token.GEQ
		case token.GTR:
			op = token.LSS
		case token.GEQ:
			op = token.LEQ
		}
	}
	const max = relang.INV
	var ts *relang.Set
	switch op {
	case token.EQL:
		ts = relang.NewSet(int32(k), int32(k))
	case token.NEQ:
		ts = relang.NewSet(int32(k), int32(k)).Complement()
	case token.LSS:
		ts = relang.NewSet(0, int32(k-1))
	case token.LEQ:
		ts = relang.NewSet(0, int32(k))
	case token.GTR:
		ts = relang.NewSet(int32(k+1), max)
	case token.GEQ:
		ts = relang.NewSet(int32(k), max)
	default:
		return nil, nil
	}
	return s.Intersect(ts), s.Minus(ts)
}

// decisionTable explores from start. An unexplorable construct yields a leaf
// with Effect "undecided:…".
func decisionTable(start *ssa.BasicBlock, cfg dtConfig) []dtLeaf {
	var leaves []dtLeaf
	if cfg.Max == 0 {
		cfg.Max = 5000
	}
	steps := 0
	type key struct {
		b, from *ssa.BasicBlock
		set     string
		tags    string
	}
	seen := map[key]bool{}
	strip := func(v ssa.Value) ssa.Value {
		if c, ok := v.(*ssa.Convert); ok && !narrowingConversion(c) {
			return c.X
		}
		return v
	}
	// split evaluates a condition on the variable: the subsets of s on which
	// it is true / false. ok=false if the condition is not of that form.
	var split func(cond ssa.Value, s *relang.Set, path []*ssa.BasicBlock, depth int) (t, f *relang.Set, ok bool)
	split = func(cond ssa.Value, s *relang.Set, path []*ssa.BasicBlock, depth int) (*relang.Set, *relang.Set, bool) {
		if depth > 8 {
			return nil, nil, false
		}
		switch c := cond.(type) {
		case *ssa.Const:
			if bv, ok := constBool(c); ok {
				if bv {
					return s, &relang.Set{}, true
				}
				return &relang.Set{}, s, true
			}
		case *ssa.UnOp:
			if c.Op == token.NOT {
				t, f, ok := split(c.X, s, path, depth+1)
				return f, t, ok
			}
			// table[c].flag: a boolean column of a package-level table of structs
			if fa, ok := c.X.(*ssa.FieldAddr); ok && c.Op == token.MUL {
				if ia, ok := fa.X.(*ssa.IndexAddr); ok && (strip(ia.Index) == cfg.Var || cfg.Aliases[strip(ia.Index)]) {
					if g, ok := ia.X.(*ssa.Global); ok {
						if ts, ok := structTableColumn(g, fieldName(fa.X.Type(), fa.Field)); ok {
							return s.Intersect(ts), s.Minus(ts), true
						}
					}
				}
			}
			// table[c] with table a parameter bound to a byte set for this summary
			if ia, ok := c.X.(*ssa.IndexAddr); ok && c.Op == token.MUL && (strip(ia.Index) == cfg.Var || cfg.Aliases[strip(ia.Index)]) {
				if ts, ok := paramSetOf(ia.X); ok {
					return s.Intersect(ts), s.Minus(ts), true
				}
			}
			// table[c]: load of &table[c] with table a package-level array
			if ia, ok := c.X.(*ssa.IndexAddr); ok && c.Op == token.MUL && cfg.Tables != nil {
				if g, ok := ia.X.(*ssa.Global); ok && strip(ia.Index) == cfg.Var {
					if ts, ok := cfg.Tables(g); ok {
						return s.Intersect(ts), s.Minus(ts), true
					}
				}
			}
		case *ssa.BinOp:
			// b == flag / b != flag with flag a boolean constant (or a parameter bound to one for this summary)
			if c.Op == token.EQL || c.Op == token.NEQ {
				for _, side := range [][2]ssa.Value{{c.X, c.Y}, {c.Y, c.X}} {
					bv, isK := constBool(side[1])
					if !isK {
						bv, isK = scanParamBools[side[1]]
					}
					if !isK {
						continue
					}
					if t, f, ok := split(side[0], s, path, depth+1); ok {
						if bv == (c.Op == token.EQL) {
							return t, f, true
						}
						return f, t, true
					}
				}
			}
			// classify(c) == K: a pure classifier of the repository applied to the variable, compared with a constant:
			// the classes are read off the classifier's own decision table
			if c.Op == token.EQL || c.Op == token.NEQ {
				for _, side := range [][2]ssa.Value{{c.X, c.Y}, {c.Y, c.X}} {
					call, isCall := side[0].(*ssa.Call)
					kv, isK := constInt(side[1])
					if !isCall || !isK || call.Common().IsInvoke() || len(call.Common().Args) != 1 || depth >= 4 {
						continue
					}
					arg := strip(call.Common().Args[0])
					if arg != cfg.Var && !cfg.Aliases[arg] {
						continue
					}
					g := staticCallee(call.Common())
					if g == nil || g.Blocks == nil || len(g.Params) != 1 || g.Pkg == nil || !strings.HasPrefix(g.Pkg.Pkg.Path(), modulePath) {
						continue
					}
					sub := decisionTable(g.Blocks[0], dtConfig{Var: g.Params[0], Dom: s, Leaf: func(*ssa.BasicBlock) (string, bool) { return "", false }, Max: 2000, CallSet: cfg.CallSet, Tables: cfg.Tables})
					eq := &relang.Set{}
					okSub := true
					for _, l := range sub {
						if l.Effect != "return" || len(l.Tags) > 0 {
							okSub = false
							break
						}
						ret, isRet := l.Block.Instrs[len(l.Block.Instrs)-1].(*ssa.Return)
						if !isRet || len(ret.Results) != 1 {
							okSub = false
							break
						}
						rv := ret.Results[0]
						if ph, isPhi := rv.(*ssa.Phi); isPhi && ph.Block() == l.Block && l.From != nil {
							for i, pr := range l.Block.Preds {
								if pr == l.From {
									rv = ph.Edges[i]
								}
							}
						}
						k, isConst := constInt(rv)
						if !isConst {
							// the class is read from a column of a package-level table indexed by the variable
							okCol := false
							if u, isLoad := rv.(*ssa.UnOp); isLoad && u.Op == token.MUL {
								if fa, isFA := u.X.(*ssa.FieldAddr); isFA {
									if ia, isIA := fa.X.(*ssa.IndexAddr); isIA && strip(ia.Index) == ssa.Value(g.Params[0]) {
										if tg, isG := ia.X.(*ssa.Global); isG {
											if col, n, ok := structTableColumnInts(tg, fieldName(fa.X.Type(), fa.Field)); ok {
												okCol = true
												for _, rg := range rangesOf(l.Set) {
													for c := rg[0]; c <= rg[1]; c++ {
														if c < 0 || c >= n {
															okCol = false // an index outside the table on this path
															break
														}
														if col[c] == kv {
															eq = eq.Union(relang.NewSet(int32(c), int32(c)))
														}
													}
												}
											}
										}
									}
								}
							}
							if !okCol {
								okSub = false
								break
							}
							continue
						}
						if k == kv {
							eq = eq.Union(l.Set)
						}
					}
					if okSub {
						if c.Op == token.EQL {
							return eq, s.Minus(eq), true
						}
						return s.Minus(eq), eq, true
					}
				}
			}
			// a comparison of a value computed from the variable by constant arithmetic (c | 0x20,
			// c - '0', …): evaluated element by element over the (small) current set
			if _, direct := derive(c.X, cfg, 0); !direct {
				if _, direct := derive(c.Y, cfg, 0); !direct {
					fx, _ := derive(c.X, cfg, 0)
					fy, _ := derive(c.Y, cfg, 0)
					_, xc := constInt(c.X)
					_, yc := constInt(c.Y)
					if (fx != nil || xc) && (fy != nil || yc) && !(xc && yc) && s.Count() <= 1200000 {
						return splitElementwise(c, s, fx, fy)
					}
				}
			}
			if strip(c.X) == cfg.Var || cfg.Aliases[strip(c.X)] {
				if kv, ok := constInt(c.Y); ok {
					if t, f := cmpSplit(c.Op, kv, s, true); t != nil {
						return t, f, true
					}
				}
			} else if strip(c.Y) == cfg.Var || cfg.Aliases[strip(c.Y)] {
				if kv, ok := constInt(c.X); ok {
					if t, f := cmpSplit(c.Op, kv, s, false); t != nil {
						return t, f, true
					}
				}
			}
		case *ssa.Index:
			if ts, ok := paramSetOf(c.X); ok && (strip(c.Index) == cfg.Var || cfg.Aliases[strip(c.Index)]) {
				return s.Intersect(ts), s.Minus(ts), true
			}
			if cfg.Tables != nil {
				if u, ok := c.X.(*ssa.UnOp); ok {
					if g, ok := u.X.(*ssa.Global); ok && strip(c.Index) == cfg.Var {
						if ts, ok := cfg.Tables(g); ok {
							return s.Intersect(ts), s.Minus(ts), true
						}
					}
				}
			}
		case *ssa.Call:
			if cfg.CallSet != nil {
				if ts, ok := cfg.CallSet(c); ok {
					return s.Intersect(ts), s.Minus(ts), true
				}
			}
			// a predicate parameter bound to a byte set for this summary
			if !c.Common().IsInvoke() && len(c.Common().Args) == 1 && (strip(c.Common().Args[0]) == cfg.Var || cfg.Aliases[strip(c.Common().Args[0])]) {
				if ts, ok := paramSetOf(c.Common().Value); ok {
					return s.Intersect(ts), s.Minus(ts), true
				}
			}
			// a pure byte predicate of the repository applied to the variable: use its own table
			if g := staticCallee(c.Common()); g != nil && g.Blocks != nil && len(g.Params) == 1 && len(c.Common().Args) == 1 && strip(c.Common().Args[0]) == cfg.Var &&
				g.Pkg != nil && strings.HasPrefix(g.Pkg.Pkg.Path(), modulePath) && depth < 4 {
				sub := decisionTable(g.Blocks[0], dtConfig{Var: g.Params[0], Dom: s, Leaf: func(*ssa.BasicBlock) (string, bool) { return "", false }, Max: 500, CallSet: cfg.CallSet, Tables: cfg.Tables})
				okSub := true
				for _, l := range sub {
					if l.Effect != "return:true" && l.Effect != "return:false" {
						okSub = false
						if os.Getenv("DT_DEBUG") != "" {
							fmt.Printf("DT sub %s: leaf %s set=%s tags=%v\n", g.Name(), l.Effect, l.Set, l.Tags)
						}
					}
				}
				if okSub {
					t := effectSet(sub, "return:true", nil)
					return t, s.Minus(t), true
				}
			}
		case *ssa.Phi:
			// a boolean && / || value: resolved by the edge the path took into its block
			for k := len(path) - 1; k >= 1; k-- {
				if path[k] == c.Block() {
					for i, p := range c.Block().Preds {
						if p == path[k-1] {
							return split(c.Edges[i], s, path[:k], depth+1)
						}
					}
					break
				}
			}
		}
		return nil, nil, false
	}
	var walk func(b *ssa.BasicBlock, path []*ssa.BasicBlock, s *relang.Set, tags []string, depth int)
	walk = func(b *ssa.BasicBlock, prev []*ssa.BasicBlock, s *relang.Set, tags []string, depth int) {
		path := append(append([]*ssa.BasicBlock{}, prev...), b)
		var from *ssa.BasicBlock
		if len(prev) > 0 {
			from = prev[len(prev)-1]
		}
		// a block met for the third time on one path: a cycle that does not narrow the variable any further
		occ := 0
		for _, pb := range prev {
			if pb == b {
				occ++
			}
		}
		if occ >= 2 {
			return
		}
		steps++
		if steps > cfg.Max || depth > 200 {
			leaves = append(leaves, dtLeaf{Set: s, Effect: "undecided:exploration limit", Tags: tags, Block: b, From: from})
			return
		}
		k := key{b, from, s.String(), strings.Join(tags, "&") + pathKey(prev)}
		if seen[k] {
			return
		}
		seen[k] = true
		if eff, ok := cfg.Leaf(b); ok {
			leaves = append(leaves, dtLeaf{Set: s, Effect: eff, Tags: tags, Block: b, From: from})
			return
		}
		switch last := b.Instrs[len(b.Instrs)-1].(type) {
		case *ssa.Jump:
			walk(b.Succs[0], path, s, tags, depth+1)
		case *ssa.If:
			if t, f, ok := split(last.Cond, s, path, 0); ok {
				if !t.Empty() {
					walk(b.Succs[0], path, t, tags, depth+1)
				}
				if !f.Empty() {
					walk(b.Succs[1], path, f, tags, depth+1)
				}
				return
			}
			// a flag that was set on the way (a phi): the value it has on this path
			condV := last.Cond
			for i := 0; i < 4; i++ {
				ph, ok := condV.(*ssa.Phi)
				if !ok {
					break
				}
				resolved := false
				for k := len(path) - 1; k >= 1 && !resolved; k-- {
					if path[k] == ph.Block() {
						for j, pr := range ph.Block().Preds {
							if pr == path[k-1] {
								condV = ph.Edges[j]
								resolved = true
							}
						}
						break
					}
				}
				if !resolved {
					break
				}
			}
			// does the condition depend on the variable in a way we do not model?
			if dependsOn(condV, cfg.Var, 0) {
				leaves = append(leaves, dtLeaf{Set: s, Effect: "undecided:condition on the variable that is not a comparison with a constant: " + last.Cond.String(), Tags: tags, Block: b, From: from})
				return
			}
			tag := ""
			if cfg.TagOf != nil {
				tag = cfg.TagOf(condV)
			}
			if tag == "" {
				tag = condV.Name()
			}
			walk(b.Succs[0], path, s, appendTag(tags, tag+"=true"), depth+1)
			walk(b.Succs[1], path, s, appendTag(tags, tag+"=false"), depth+1)
		case *ssa.Return:
			if len(last.Results) == 1 {
				if t, f, ok := split(last.Results[0], s, path, 0); ok {
					if !t.Empty() {
						leaves = append(leaves, dtLeaf{Set: t, Effect: "return:true", Tags: tags, Block: b, From: from})
					}
					if !f.Empty() {
						leaves = append(leaves, dtLeaf{Set: f, Effect: "return:false", Tags: tags, Block: b, From: from})
					}
					return
				}
			}
			leaves = append(leaves, dtLeaf{Set: s, Effect: "return", Tags: tags, Block: b, From: from})
		case *ssa.Panic:
			leaves = append(leaves, dtLeaf{Set: s, Effect: "panic", Tags: tags, Block: b, From: from})
		default:
			leaves = append(leaves, dtLeaf{Set: s, Effect: "undecided:terminator", Tags: tags, Block: b, From: from})
		}
	}
	walk(start, nil, cfg.Dom, nil, 0)
	_ = hasBoolPhi
	return leaves
}

// pathKey distinguishes histories only when the function has boolean phis
// (whose value depends on the path taken).
var hasBoolPhi = false

func pathKey(path []*ssa.BasicBlock) string {
	if len(path) == 0 {
		return ""
	}
	fn := path[0].Parent()
	need := false
	for _, b := range fn.Blocks {
		for _, in := range b.Instrs {
			if ph, ok := in.(*ssa.Phi); ok {
				if bt, ok := ph.Type().Underlying().(*types.Basic); ok && bt.Kind() == types.Bool {
					need = true
				}
			}
		}
	}
	if !need {
		return ""
	}
	var sb strings.Builder
	for _, b := range path {
		fmt.Fprintf(&sb, "/%d", b.Index)
	}
	return sb.String()
}

func appendTag(tags []string, t string) []string {
	for _, x := range tags {
		if x == t {
			return tags
		}
	}
	out := append(append([]string{}, tags...), t)
	return out
}

func dependsOn(v, target ssa.Value, depth int) bool {
	if v == target {
		return true
	}
	if depth > 6 {
		return false
	}
	switch x := v.(type) {
	case *ssa.BinOp:
		return dependsOn(x.X, target, depth+1) || dependsOn(x.Y, target, depth+1)
	case *ssa.UnOp:
		return dependsOn(x.X, target, depth+1)
	case *ssa.Convert:
		return dependsOn(x.X, target, depth+1)
	case *ssa.Call:
		for _, a := range x.Common().Args {
			if dependsOn(a, target, depth+1) {
				return true
			}
		}
	case *ssa.Phi:
		for _, e := range x.Edges {
			if dependsOn(e, target, depth+1) {
				return true
			}
		}
	}
	return false
}

// mergeLeaves unions the value sets per (effect, tags) key.
func mergeLeaves(leaves []dtLeaf) map[string]*relang.Set {
	out := map[string]*relang.Set{}
	for _, l := range leaves {
		tags := append([]string{}, l.Tags...)
		sort.Strings(tags)
		k := l.Effect
		if len(tags) > 0 {
			k += " [" + strings.Join(tags, ",") + "]"
		}
		if out[k] == nil {
			out[k] = &relang.Set{}
		}
		out[k] = out[k].Union(l.Set)
	}
	return out
}

// effectSet unions the sets of all leaves with the given effect that are
// compatible with the tag assignments in need (a leaf that never branched on a
// tag applies to both of its values).
func effectSet(leaves []dtLeaf, effect string, need []string) *relang.Set {
	opposite := func(n string) string {
		if strings.HasSuffix(n, "=true") {
			return strings.TrimSuffix(n, "=true") + "=false"
		}
		return strings.TrimSuffix(n, "=false") + "=true"
	}
	s := &relang.Set{}
	for _, l := range leaves {
		if l.Effect != effect {
			continue
		}
		ok := true
		for _, n := range need {
			for _, t := range l.Tags {
				if t == opposite(n) {
					ok = false
				}
			}
		}
		if ok {
			s = s.Union(l.Set)
		}
	}
	return s
}

func undecidedLeaves(leaves []dtLeaf) []string {
	var out []string
	for _, l := range leaves {
		if strings.HasPrefix(l.Effect, "undecided") {
			out = append(out, fmt.Sprintf("%s on %s", l.Effect, l.Set))
		}
	}
	return out
}

// theProgram: the loaded program (for evaluators that are reached without one).
var theProgram *Program

func byteDomain() *relang.Set { return relang.NewSet(0, 255) }
func runeDomain() *relang.Set {
	// every value a range-over-string can yield
	return relang.NewSet(0, 0xD7FF, 0xE000, relang.MaxRune)
}

func constBool(v ssa.Value) (bool, bool) {
	c, ok := v.(*ssa.Const)
	if !ok || c.Value == nil || c.Value.Kind() != constant.Bool {
		return false, false
	}
	return constant.BoolVal(c.Value), true
}

// constBoolTables evaluates package-level [N]bool / [N]uint8 arrays of a
// repository package: composite-literal initialisers and constant-index
// stores in init functions. A table written anywhere else is not evaluated.
func constBoolTables(p *Program, rel string) tableEval {
	cache := map[*ssa.Global]*relang.Set{}
	bad := map[*ssa.Global]bool{}
	stores, _ := boolTables(p, rel)
	return func(g *ssa.Global) (*relang.Set, bool) {
		if bad[g] {
			return nil, false
		}
		if s, ok := cache[g]; ok {
			return s, true
		}
		if g.Pkg != p.SSAPkg(rel) {
			return nil, false
		}
		set := &relang.Set{}
		// literal initialiser
		if e, pk := p.PkgVarInit(rel, g.Name()); e != nil {
			l := EvalLit(pk, e, g.Type().(*types.Pointer).Elem())
			if litErr(l) == "" && l.Kind == "array" {
				for i, k := range l.Keys {
					kv, _ := k.Int()
					on := false
					if b, ok := l.Vals[i].Bool(); ok {
						on = b
					} else if n, ok := l.Vals[i].Int(); ok {
						on = n != 0
					}
					if on {
						set = set.Union(relang.NewSet(int32(kv), int32(kv)))
					}
				}
			} else if tbl, ok := foldedIntTable(p, g); ok {
				// not a literal: built once by a foldable function
				for i, v := range tbl {
					if v != 0 {
						set = set.Union(relang.NewSet(int32(i), int32(i)))
					}
				}
				cache[g] = set
				return set, true
			} else {
				bad[g] = true
				return nil, false
			}
		}
		for k, v := range stores[g.Name()] {
			if v {
				set = set.Union(relang.NewSet(int32(k), int32(k)))
			}
		}
		// any non-constant write disqualifies the table
		for _, f := range p.SrcFuncs() {
			for _, b := range f.Blocks {
				for _, in := range b.Instrs {
					if st, ok := in.(*ssa.Store); ok {
						if ia, ok := st.Addr.(*ssa.IndexAddr); ok && ia.X == ssa.Value(g) {
							isInit := strings.HasPrefix(f.Name(), "init")
							_, okIdx := constInt(ia.Index)
							if !isInit || !okIdx {
								bad[g] = true
								return nil, false
							}
						}
						if st.Addr == ssa.Value(g) && !(f.Synthetic != "" && f.Name() == "init") {
							bad[g] = true
							return nil, false
						}
					}
				}
			}
		}
		cache[g] = set
		return set, true
	}
}

// derive: if v is the variable itself (or an alias) the result is (nil, true). If v is computed from
// the variable by arithmetic with constants, the result is its evaluation function and false.
// Otherwise (nil, false) with ok… see callers: ok = (f != nil) || direct.
func derive(v ssa.Value, cfg dtConfig, depth int) (func(int64) int64, bool) {
	if c, ok := v.(*ssa.Convert); ok {
		inner, direct := derive(c.X, cfg, depth+1)
		b, okb := c.Type().Underlying().(*types.Basic)
		if !okb {
			return nil, false
		}
		var mask int64
		switch b.Kind() {
		case types.Uint8:
			mask = 0xFF
		case types.Uint16:
			mask = 0xFFFF
		case types.Int, types.Int32, types.Int64, types.Uint32, types.Uint, types.Uint64:
			mask = 0
		default:
			return nil, false
		}
		if direct {
			if mask == 0 {
				return nil, true
			}
			return func(x int64) int64 { return x & mask }, false
		}
		if inner == nil {
			return nil, false
		}
		if mask == 0 {
			return inner, false
		}
		return func(x int64) int64 { return inner(x) & mask }, false
	}
	if v == cfg.Var || cfg.Aliases[v] {
		return nil, true
	}
	if depth > 6 {
		return nil, false
	}
	// a lookup in a constant table of integers (a literal, or built once by a foldable function)
	if u, ok := v.(*ssa.UnOp); ok && u.Op == token.MUL && theProgram != nil {
		if ia, ok := u.X.(*ssa.IndexAddr); ok {
			if g, ok := ia.X.(*ssa.Global); ok {
				if tbl, ok := foldedIntTable(theProgram, g); ok {
					inner, direct := derive(ia.Index, cfg, depth+1)
					if !direct && inner == nil {
						return nil, false
					}
					if inner == nil {
						inner = func(x int64) int64 { return x }
					}
					return func(x int64) int64 {
						i := inner(x)
						if i < 0 || i >= int64(len(tbl)) {
							return -1 << 40 // out of range: no table value
						}
						return tbl[i]
					}, false
				}
			}
		}
	}
	bo, ok := v.(*ssa.BinOp)
	if !ok {
		return nil, false
	}
	var inner func(int64) int64
	var k int64
	varLeft := true
	if kv, ok := constInt(bo.Y); ok {
		f, direct := derive(bo.X, cfg, depth+1)
		if !direct && f == nil {
			return nil, false
		}
		inner, k = f, kv
	} else if kv, ok := constInt(bo.X); ok {
		f, direct := derive(bo.Y, cfg, depth+1)
		if !direct && f == nil {
			return nil, false
		}
		inner, k, varLeft = f, kv, false
	} else {
		return nil, false
	}
	if inner == nil {
		inner = func(x int64) int64 { return x }
	}
	wrap := func(x int64) int64 { return x }
	if b, ok := bo.Type().Underlying().(*types.Basic); ok && b.Kind() == types.Uint8 {
		wrap = func(x int64) int64 { return x & 0xFF }
	}
	var op func(a, b int64) int64
	switch bo.Op {
	case token.OR:
		op = func(a, b int64) int64 { return a | b }
	case token.AND:
		op = func(a, b int64) int64 { return a & b }
	case token.XOR:
		op = func(a, b int64) int64 { return a ^ b }
	case token.ADD:
		op = func(a, b int64) int64 { return a + b }
	case token.SUB:
		op = func(a, b int64) int64 { return a - b }
	case token.AND_NOT:
		op = func(a, b int64) int64 { return a &^ b }
	default:
		return nil, false
	}
	if varLeft {
		return func(x int64) int64 { return wrap(op(inner(x), k)) }, false
	}
	return func(x int64) int64 { return wrap(op(k, inner(x))) }, false
}

// splitElementwise evaluates a comparison whose operands are derived values or constants for every
// element of s.
func splitElementwise(c *ssa.BinOp, s *relang.Set, fx, fy func(int64) int64) (*relang.Set, *relang.Set, bool) {
	val := func(f func(int64) int64, v ssa.Value, e int64) int64 {
		if k, ok := constInt(v); ok {
			return k
		}
		return f(e)
	}
	var ts []int32
	for i := 0; i+1 < len(s.R); i += 2 {
		for e := s.R[i]; e <= s.R[i+1]; e++ {
			a, b := val(fx, c.X, int64(e)), val(fy, c.Y, int64(e))
			var r bool
			switch c.Op {
			case token.EQL:
				r = a == b
			case token.NEQ:
				r = a != b
			case token.LSS:
				r = a < b
			case token.LEQ:
				r = a <= b
			case token.GTR:
				r = a > b
			case token.GEQ:
				r = a >= b
			default:
				return nil, nil, false
			}
			if r {
				ts = append(ts, e, e)
			}
		}
	}
	t := relang.NewSet(ts...)
	return t, s.Minus(t), true
}

// structTableColumn: the indices of a package-level array/slice of structs (written once, as a literal) whose
// boolean field is true.
func structTableColumn(g *ssa.Global, field string) (*relang.Set, bool) {
	if curProgram == nil || g.Pkg == nil {
		return nil, false
	}
	if pk := curProgram.All[g.Pkg.Pkg.Path()]; pk != nil {
		if vr, ok := g.Object().(*types.Var); ok && curProgram.assignedAnywhere(pk, vr) {
			return nil, false
		}
	}
	lit, err := curProgram.VarLit(relOf(g.Pkg.Pkg.Path()), cname(g))
	if err != nil || lit.Kind != "array" {
		return nil, false
	}
	set := &relang.Set{}
	for i, k := range lit.Keys {
		idx, ok := k.Int()
		v := lit.Vals[i]
		if !ok || v.Kind != "struct" {
			return nil, false
		}
		for j, fn := range v.Field {
			if fn != field {
				continue
			}
			b, ok := v.Vals[j].Bool()
			if !ok {
				return nil, false
			}
			if b {
				set = set.Union(relang.NewSet(int32(idx), int32(idx)))
			}
		}
	}
	return set, true
}

// structTableColumnInts: the integer (enum) values of column field of a package-level table of structs, by index;
// elements that do not set the field have the zero value. n is the length of the table.
func structTableColumnInts(g *ssa.Global, field string) (map[int64]int64, int64, bool) {
	if curProgram == nil || g.Pkg == nil {
		return nil, 0, false
	}
	if pk := curProgram.All[g.Pkg.Pkg.Path()]; pk != nil {
		if vr, ok := g.Object().(*types.Var); ok && curProgram.assignedAnywhere(pk, vr) {
			return nil, 0, false
		}
	}
	lit, err := curProgram.VarLit(relOf(g.Pkg.Pkg.Path()), cname(g))
	if err != nil || lit.Kind != "array" {
		return nil, 0, false
	}
	arr, ok := g.Type().(*types.Pointer).Elem().Underlying().(*types.Array)
	if !ok {
		return nil, 0, false
	}
	out := map[int64]int64{}
	for i, k := range lit.Keys {
		idx, ok := k.Int()
		v := lit.Vals[i]
		if !ok || v.Kind != "struct" {
			return nil, 0, false
		}
		out[idx] = 0
		for j, fn := range v.Field {
			if fn != field {
				continue
			}
			n, ok := v.Vals[j].Int()
			if !ok {
				return nil, 0, false
			}
			out[idx] = n
		}
	}
	return out, arr.Len(), true
}

// rangesOf: the intervals of a set (only used for small integer domains).
func rangesOf(s *relang.Set) [][2]int64 {
	var out [][2]int64
	for i := 0; i+1 < len(s.R); i += 2 {
		lo, hi := int64(s.R[i]), int64(s.R[i+1])
		if hi-lo > 100000 {
			hi = lo + 100000
		}
		out = append(out, [2]int64{lo, hi})
	}
	return out
}
