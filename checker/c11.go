package main

import (
	"fmt"
	"go/types"
	"os"
	"strings"

	"golang.org/x/tools/go/ssa"

	"safecheck/relang"
)

func init() {
	register("C11", "proof", func(p *Program, r *Report) {
		runC11(p, r)
		checkBoundsProven(p, r, "C11.B1", "url.go")
		checkLoopsMakeProgress(p, r, "C11.B2", "url.go")
	})
}

// safeStores returns the stores into the single string field of safe type
// typeName made by fn.
func safeStores(fn *ssa.Function, pkgPath, typeName string) []FieldStore {
	return FieldStoresIn(fn, func(n *types.Named, field string) bool {
		return n.Obj().Name() == typeName && n.Obj().Pkg() != nil && n.Obj().Pkg().Path() == pkgPath
	})
}

// returnsOnlyLocalComposite checks that every value of safe type returned by
// fn is a load of a composite literal built in fn (so the field stores are the
// complete description of what can be returned) or the zero value.
func returnsOnlyLocalComposite(fn *ssa.Function, idx int) (bool, string) {
	for _, ret := range Returns(fn) {
		v := ret.Results[idx]
		switch x := v.(type) {
		case *ssa.UnOp:
			if _, ok := x.X.(*ssa.Alloc); ok {
				continue
			}
		case *ssa.Const:
			continue // zero value
		}
		return false, fmt.Sprintf("returns %s", v.String())
	}
	return true, ""
}

const specInnocuousURL = "about:invalid#zGoSafez"

// C11 specification languages (DESIGN Appendix A.1), written from the property
// statement and the WHATWG URL standard; ASCII case is spelled out because
// Go's (?i) folds Unicode-wide.
const (
	specT   = `[\t\n\r]*`
	specBAD = `^[\x00-\x20]*[jJ]` + specT + `[aA]` + specT + `[vV]` + specT + `[aA]` + specT + `[sS]` + specT + `[cC]` + specT + `[rR]` + specT + `[iI]` + specT + `[pP]` + specT + `[tT]` + specT + `:`
	specAMP = `^[^:/?#]*&`
	specS1a = `^[A-Za-z0-9+.\-]+:`
	specS1b = `^[jJ][aA][vV][aA][sS][cC][rR][iI][pP][tT]:`
	specS2  = `^[^&:/?#]*(?:[/?#]|$)`
)

// urlGuardLanguage derives, from the source, the set of strings for which the
// URL guard (the function whose result decides whether URLSanitized keeps its
// input) returns true.
type urlGuard struct {
	Fn      *ssa.Function // nil when the guard is not one function (decided by the language of the result)
	Form    *Form
	Summ    *Summarizer
	Regexes map[string]*RegexConst
	Name    string
	Pos     string
}

// GuardForm: the guard's condition on term #key.
func (g *urlGuard) GuardForm(s *Summarizer, key int) *Form {
	if g.Fn != nil {
		return s.FuncForm(g.Fn, termEnv{g.Fn.Params[0]: Term{Param: key}})
	}
	return renameTermForm(g.Form, 0, key)
}

// renameTermForm: a copy of f in which every atom about parameter #from is about parameter #to.
func renameTermForm(f *Form, from, to int) *Form {
	if f == nil {
		return nil
	}
	n := &Form{Op: f.Op, Why: f.Why, In: f.In}
	for _, s := range f.Sub {
		n.Sub = append(n.Sub, renameTermForm(s, from, to))
	}
	if f.Atom != nil {
		a := *f.Atom
		if a.Term.Param == from {
			a.Term.Param = to
		}
		n.Atom = &a
	}
	return n
}

func findURLGuard(p *Program, r *Report, rule string) *urlGuard {
	fn := p.Func("", "URLSanitized")
	if fn == nil {
		r.Undec(rule, "safehtml.URLSanitized", "", "anchor not found")
		return nil
	}
	shape := NewReport(r.Property, r.Tier, r.Seed)
	g := findURLGuardShape(p, shape, rule, fn)
	if g != nil && !reportFails(shape) {
		mergeObls(r, shape)
		return g
	}
	lang := NewReport(r.Property, r.Tier, r.Seed)
	if g2 := findURLGuardByLanguage(p, lang, rule, fn); g2 != nil && !reportFails(lang) {
		mergeObls(r, lang)
		return g2
	}
	if os.Getenv("C11_DEBUG") != "" {
		for _, o := range lang.Obls {
			fmt.Printf("LANG %s %s %s: %s %s\n", o.Status, o.Rule, o.Construct, o.Detail, o.Witness)
		}
	}
	mergeObls(r, shape)
	return g
}

func mergeObls(dst, src *Report) {
	dst.Obls = append(dst.Obls, src.Obls...)
	for k, v := range src.Counts {
		dst.Counts[k] += v
	}
}

// findURLGuardByLanguage: the result of URLSanitized, with the input replaced by a placeholder, is the input or
// the innocuous constant; the guard is the disjunction of the conditions under which the input is returned.
func findURLGuardByLanguage(p *Program, r *Report, rule string, fn *ssa.Function) *urlGuard {
	regs, _ := p.AllRegexes()
	s := NewSummarizer(p, regs)
	oe := newOutEval(p, s)
	oe.Markers = true
	fr := oe.topFrame(fn)
	var alts []*lx
	for _, ret := range Returns(fn) {
		alts = append(alts, oe.strLx(ret.Results[0], ret.Block(), fr))
	}
	x := lxAlt(alts...)
	pos := p.Pos(fn.Pos())
	m0 := string(markerRune(0))
	d, L, err := oe.Language(x, func(L *Lang) { L.AddString(m0 + specInnocuousURL) })
	if err != nil || len(oe.Problems) > 0 || lxHasAny(x) {
		r.Undec(rule, "safehtml.URLSanitized#shape", pos, "the result is built in a way the evaluator cannot follow: "+trunc(x.String(), 200))
		return nil
	}
	want := relang.Union(relang.Literal(L.A, m0), relang.Literal(L.A, specInnocuousURL))
	if ok, w := relang.Equivalent(d, want); !ok {
		r.Viol(rule, "safehtml.URLSanitized#store-other", pos, "URLSanitized may return something that is neither its input nor the innocuous URL (or never one of them): "+trunc(x.String(), 200), w)
		return nil
	}
	r.OK(rule, "safehtml.URLSanitized#store-input", pos, "by language: the result is the input itself or the innocuous constant")
	r.OK(rule, "safehtml.URLSanitized#store-const", pos, "fallback constant is "+specInnocuousURL)
	forms := oe.termForms[0]
	if len(forms) == 0 {
		return nil
	}
	f := fOr(forms...)
	per, _ := splitByParam(f)
	if per[0] != nil {
		f = per[0]
	}
	return &urlGuard{Fn: nil, Form: f, Summ: s, Regexes: regs, Name: "safehtml.URLSanitized#returns-input-when", Pos: pos}
}

func findURLGuardShape(p *Program, r *Report, rule string, fn *ssa.Function) *urlGuard {
	// a pattern that cannot be resolved to a constant makes the guard that uses it unsummarisable (reported
	// there); unresolved patterns elsewhere in the repository are no concern of this property
	regs, _ := p.AllRegexes()
	pv := NewProv(p)
	pv.NoInline = true
	stores := safeStores(fn, modulePath, "URL")
	if ok, why := returnsOnlyLocalComposite(fn, 0); !ok {
		r.Undec(rule, "safehtml.URLSanitized#returns", p.Pos(fn.Pos()), why)
	}
	var guardFn *ssa.Function
	nParam, nConst := 0, 0
	for _, st := range stores {
		e := pv.Of(st.Store.Val)
		pos := p.Pos(st.Store.Pos())
		switch {
		case e.Op == "param" && e.Idx == 0:
			nParam++
			// must be dominated by guard(param)==true
			found := false
			for _, g := range GuardsOf(st.Store.Block()) {
				a := normAtom(pv.Of(g.Cond), g.Pol)
				if a.Pol && a.E.Op == "call" && a.E.Fn != nil && len(a.E.Args) == 1 && a.E.Args[0].Op == "param" && a.E.Args[0].Idx == 0 {
					guardFn = a.E.Fn
					found = true
				}
			}
			if found {
				r.OK(rule, "safehtml.URLSanitized#store-input", pos, "input stored only under "+fnName(guardFn)+"(input)==true")
			} else {
				r.Viol(rule, "safehtml.URLSanitized#store-input", pos, "the input is stored into URL.str without a dominating guard call on it", "")
			}
		default:
			if s, ok := e.IsConstString(); ok {
				nConst++
				r.Check(s == specInnocuousURL, rule, "safehtml.URLSanitized#store-const", pos,
					"fallback constant is "+specInnocuousURL, fmt.Sprintf("fallback constant is %q, the statement fixes %q", s, specInnocuousURL))
			} else {
				r.Viol(rule, "safehtml.URLSanitized#store-other", pos, "URLSanitized may return something that is neither its input nor the innocuous URL: "+e.String(), "")
			}
		}
	}
	if nParam == 0 || nConst == 0 {
		r.Undec(rule, "safehtml.URLSanitized#shape", p.Pos(fn.Pos()), fmt.Sprintf("expected a store of the input and a store of the innocuous constant, found %d/%d", nParam, nConst))
	}
	if guardFn == nil {
		return nil
	}
	s := NewSummarizer(p, regs)
	env := termEnv{}
	if len(guardFn.Params) != 1 {
		r.Undec(rule, fnName(guardFn), p.Pos(guardFn.Pos()), "guard is not a one-argument function")
		return nil
	}
	env[guardFn.Params[0]] = Term{Param: 0}
	f := s.FuncForm(guardFn, env)
	return &urlGuard{Fn: guardFn, Form: f, Summ: s, Regexes: regs, Name: fnName(guardFn), Pos: p.Pos(guardFn.Pos())}
}

func registerSumm(l *Lang, s *Summarizer, f *Form) error {
	if err := l.Register(f); err != nil {
		return err
	}
	for _, g := range s.exitGroups {
		for _, c := range g {
			if err := l.Register(c); err != nil {
				return err
			}
		}
	}
	return nil
}

func runC11(p *Program, r *Report) {
	engineConsistency(p, r, "C11.E", func(n string) bool { return strings.Contains(n, "safehtml.safeURLPattern") })

	runURLGuardRules(p, r, "C11", true)
}

// runURLGuardRules decides the URL guard obligations under rule names <pfx>.R1…R7. With full=false
// only the safety obligations (shape, language, no javascript scheme, no '&' before the first
// delimiter) are recorded, under <pfx>.U1…U5 (used by C02, which relies on the same guard).
func runURLGuardRules(p *Program, r *Report, pfx string, full bool) {
	rn := func(i int) string {
		if full {
			return fmt.Sprintf("%s.R%d", pfx, i)
		}
		return fmt.Sprintf("%s.U%d", pfx, i)
	}
	if full {
		r.Trusted = []string{"go/types + go/ssa construction", "regexp/syntax as the definition of Go regexp syntax; relang's NFA semantics (cross-checked against package regexp in relang's unit tests)",
			"strings.ToLower = per-rune unicode.ToLower with invalid bytes mapped to U+FFFD", "WHATWG URL scheme-state summary in specBAD (DESIGN A.1)",
			"paper lemma: no '&' before the first of [:/?#] ⇒ character-reference decoding leaves the scheme prefix unchanged"}
		r.Explain = "URLSanitized's shape (input under guard / constant otherwise) is read from SSA; the guard function is summarised into a formula over regexp-match atoms and evaluated to a DFA over all code points + an invalid-byte symbol, with strings.ToLower as inverse letter homomorphism; safety, the no-'&'-before-delimiter lemma premise and the converse inclusion are automata emptiness checks with shortest witnesses."
		r.Min("C11.R1", 2)
		r.Min("C11.R4", 1)
	}
	g := findURLGuard(p, r, rn(1))
	if g == nil {
		r.Undec(rn(2), "url-guard", "", "guard function not found")
		return
	}
	gname := g.Name
	pos := g.Pos
	if u, why := g.Form.HasUnknown(); u {
		r.Undec(rn(2), gname, pos, "guard not summarisable: "+why+" in "+g.Form.String())
		return
	}
	L := NewLang()
	if err := registerSumm(L, g.Summ, g.Form); err != nil {
		r.Undec(rn(2), gname, pos, err.Error())
		return
	}
	for _, s := range []string{specBAD, specAMP, specS1a, specS1b, specS2} {
		L.MustRe(s)
	}
	L.AddString(specInnocuousURL)
	L.Build()
	A, amb, err := L.Eval(g.Form)
	if err != nil {
		r.Undec(rn(2), gname, pos, err.Error())
		return
	}
	r.OK(rn(2), gname, pos, "accepted language A = "+g.Form.String())
	// R3 capture unambiguity
	if len(amb) > 0 {
		for _, a := range amb {
			r.Undec(rn(3), gname+"#capture", pos, a)
		}
	} else {
		n := 0
		g.Form.Atoms(func(a *LAtom) {
			if a.Kind == "capeq" {
				n++
			}
		})
		r.OK(rn(3), gname+"#capture", pos, fmt.Sprintf("%d capture comparisons are independent of match priority", n))
	}
	exact := L.CheckExact(g.Summ)
	// R4 safety
	bad := L.SearchRe(specBAD)
	if ok, w := relang.Disjoint(A, bad); ok {
		r.OK(rn(4), gname+"#A∩BAD", pos, "no accepted string has the javascript scheme under WHATWG parsing")
	} else {
		r.Viol(rn(4), gname+"#A∩BAD", pos, "an accepted string is parsed by a browser as a javascript: URL", w)
	}
	// R5 no '&' before first delimiter
	if ok, w := relang.Disjoint(A, L.SearchRe(specAMP)); ok {
		r.OK(rn(5), gname+"#A∩AMP", pos, "no accepted string has '&' before its first [:/?#] (premise of the decoding lemma)")
	} else {
		r.Viol(rn(5), gname+"#A∩AMP", pos, "an accepted string has '&' before its first delimiter, so character-reference decoding can change the scheme", w)
	}
	if !full {
		return
	}
	// R6 converse
	s1 := relang.Minus(L.SearchRe(specS1a), L.SearchRe(specS1b))
	s2 := L.SearchRe(specS2)
	if len(exact) > 0 {
		r.Undec(rn(6), gname+"#S1∪S2⊆A", pos, "guard summary is only an over-approximation: "+exact[0])
	} else if ok, w := relang.Subset(relang.Union(s1, s2), A); ok {
		r.OK(rn(6), gname+"#S1∪S2⊆A", pos, "every non-javascript ASCII-scheme URL and every URL whose ':'/'&' come after the first [/?#] is kept")
	} else {
		r.Viol(rn(6), gname+"#S1∪S2⊆A", pos, "a URL the statement promises to keep is replaced", w)
	}
	// R7 innocuous constant
	if bad.Accepts(specInnocuousURL) {
		r.Viol(rn(7), "safehtml.InnocuousURL", "", "the innocuous URL itself has the javascript scheme", "")
	} else {
		r.OK(rn(7), "safehtml.InnocuousURL", "", "innocuous URL is not a javascript: URL")
	}
	c := p.Pkg("").Types.Scope().Lookup("InnocuousURL")
	if k, ok := c.(*types.Const); ok && k.Val().ExactString() == fmt.Sprintf("%q", specInnocuousURL) {
		r.OK(rn(7), "safehtml.InnocuousURL#value", p.Pos(c.Pos()), "exported constant has the value fixed by the statement")
	} else {
		r.Viol(rn(7), "safehtml.InnocuousURL#value", "", "exported constant InnocuousURL is not "+specInnocuousURL, "")
	}
	r.Analysed["alphabet_classes"] = L.A.N()
	r.Analysed["guard_formula"] = g.Form.String()
}
