package main

import (
	"fmt"
	"go/constant"
	"go/token"
	"go/types"
	"sort"
	"strings"

	"safecheck/relang"

	"golang.org/x/tools/go/ssa"
)

// An action at the very start of an attribute value is sanitized as a complete value
// of its own (a whole URL, one word of an enumeration). Static template text that
// follows it is appended to that value by the browser, so whether the text is
// acceptable depends on the fact that an action precedes it (attr.dynamicStart):
//
//   <a href="{{.X}}script:alert(1)">   X = "java"   (a safe relative URL on its own)
//   <a target="{{.X}}x">               X = "_self"  (a listed word on its own)
//
// The rules below require that the scanner of attribute-value text consults a
// validator that reads attr.dynamicStart on every path that keeps or leaves the value,
// and evaluate that validator under "an action started the value, the text is not
// empty, nothing static was seen in between": for every URL context the texts it
// lets through contain no ':' before the first '/', '?' or '#'; for every enumerated
// context it lets no text through.

// specColonInFirstSegment: text (after character-reference decoding) whose ':' would end a
// scheme when appended to a URL that has no '/', '?' or '#'.
const specColonInFirstSegment = `^[^/?#]*:`

type assumeEval struct {
	p      *Program
	sc     ssa.Value // the looked-up sanitization context
	errv   ssa.Value // the error of the lookup
	k      int64     // assumed value of sc
	truthy map[ssa.Value]bool
}

func (a *assumeEval) cond(v ssa.Value) (bool, bool) {
	if t, ok := a.truthy[v]; ok {
		return t, true
	}
	switch x := v.(type) {
	case *ssa.UnOp:
		if x.Op == token.NOT {
			t, ok := a.cond(x.X)
			return !t, ok
		}
	case *ssa.BinOp:
		if x.Op != token.EQL && x.Op != token.NEQ {
			return false, false
		}
		l, r := x.X, x.Y
		if _, isK := l.(*ssa.Const); isK {
			l, r = r, l
		}
		if a.sc != nil && l == a.sc {
			if kv, ok := constInt(r); ok {
				return (kv == a.k) == (x.Op == token.EQL), true
			}
		}
		if a.errv != nil && l == a.errv {
			if k, ok := r.(*ssa.Const); ok && k.Value == nil {
				return x.Op == token.EQL, true // the lookup succeeded
			}
		}
	case *ssa.Call:
		g := staticCallee(x.Common())
		if g != nil && a.sc != nil && len(x.Common().Args) == 1 && x.Common().Args[0] == a.sc && g.Blocks != nil {
			return evalEnumPredicate(g, a.k)
		}
	}
	return false, false
}

// evalEnumPredicate evaluates a one-parameter boolean function of an integer constant (by the
// decision table of the function over its parameter: comparisons, switches, table columns).
func evalEnumPredicate(g *ssa.Function, k int64) (bool, bool) {
	if len(g.Params) != 1 || g.Signature.Results().Len() != 1 || g.Blocks == nil || k < 0 || k > 255 {
		return false, false
	}
	lv := decisionTable(g.Blocks[0], dtConfig{Var: g.Params[0], Dom: relang.NewSet(int32(k), int32(k)), Leaf: func(b *ssa.BasicBlock) (string, bool) { return "", false }})
	t, f := false, false
	for _, l := range lv {
		switch l.Effect {
		case "return:true":
			t = true
		case "return:false":
			f = true
		default:
			return false, false
		}
	}
	if t == f {
		return false, false
	}
	return t, true
}

// readsDynamicStart: v is the value of the dynamicStart field (of any context/attr value).
func isDynamicStartLoad(v ssa.Value) bool {
	switch x := v.(type) {
	case *ssa.Field:
		return fieldName(x.X.Type(), x.Field) == "dynamicStart"
	case *ssa.UnOp:
		if fa, ok := x.X.(*ssa.FieldAddr); ok && x.Op == token.MUL {
			return fieldName(fa.X.Type(), fa.Field) == "dynamicStart"
		}
	}
	return false
}

func isAttrValueLoad(v ssa.Value) bool {
	named := func(t types.Type) bool {
		if pt, ok := t.Underlying().(*types.Pointer); ok {
			t = pt.Elem()
		}
		return isNamed(t, pkgTemplate, "attr")
	}
	switch x := v.(type) {
	case *ssa.Field:
		return named(x.X.Type()) && fieldName(x.X.Type(), x.Field) == "value"
	case *ssa.UnOp:
		if fa, ok := x.X.(*ssa.FieldAddr); ok && x.Op == token.MUL {
			return named(fa.X.Type()) && fieldName(fa.X.Type(), fa.Field) == "value"
		}
	}
	return false
}

func fnReadsDynamicStart(f *ssa.Function) bool {
	for _, b := range f.Blocks {
		for _, in := range b.Instrs {
			if v, ok := in.(ssa.Value); ok && isDynamicStartLoad(v) {
				return true
			}
		}
	}
	return false
}

// isErrorContextReturn: the return hands out a context literal in the error state.
func isErrorContextReturn(ret *ssa.Return, errVal int64) bool {
	if len(ret.Results) == 0 {
		return false
	}
	u, ok := ret.Results[0].(*ssa.UnOp)
	if !ok || u.Op != token.MUL {
		return false
	}
	al, ok := u.X.(*ssa.Alloc)
	if !ok {
		return false
	}
	for _, ref := range *al.Referrers() {
		fa, ok := ref.(*ssa.FieldAddr)
		if !ok || fieldName(al.Type(), fa.Field) != "state" {
			continue
		}
		for _, r2 := range *fa.Referrers() {
			if st, ok := r2.(*ssa.Store); ok {
				if k, ok := constInt(st.Val); ok && k == errVal {
					return true
				}
			}
		}
	}
	return false
}

func checkTextAfterStartAction(p *Program, r *Report, urlRule, enumRule string) {
	rules := []string{}
	for _, x := range []string{urlRule, enumRule} {
		if x != "" {
			rules = append(rules, x)
		}
	}
	undecAll := func(c, pos, why string) {
		for _, x := range rules {
			r.Undec(x, c, pos, why)
		}
	}
	tpk := p.Pkg("template")
	T := p.Func("template", "contextAfterText")
	stObj := tpk.Types.Scope().Lookup("state")
	dlObj := tpk.Types.Scope().Lookup("delim")
	scObj := tpk.Types.Scope().Lookup("sanitizationContext")
	if T == nil || T.Blocks == nil || stObj == nil || dlObj == nil || scObj == nil {
		undecAll("template.contextAfterText", "", "anchor not found")
		return
	}
	var errState, delimNone int64 = -1, -1
	for v, n := range ConstNames(tpk, stObj.Type()) {
		if n == "stateError" {
			errState = v
		}
	}
	for v, n := range ConstNames(tpk, dlObj.Type()) {
		if n == "delimNone" {
			delimNone = v
		}
	}
	scNames := ConstNames(tpk, scObj.Type())
	// ---- the validator call in the text scanner
	var vcall *ssa.Call
	var V *ssa.Function
	for _, b := range T.Blocks {
		for _, in := range b.Instrs {
			c, ok := in.(*ssa.Call)
			if !ok {
				continue
			}
			g := staticCallee(c.Common())
			if g == nil || g.Pkg != T.Pkg || g.Blocks == nil || g.Signature.Results().Len() != 1 || !isErrorType(g.Signature.Results().At(0).Type()) {
				continue
			}
			if fnReadsDynamicStart(g) {
				vcall, V = c, g
			}
		}
	}
	tname := "template.contextAfterText"
	if vcall == nil {
		msg := "static text that follows an action at the start of an attribute value is accepted exactly like text at the start of the value: nothing on the path of attribute-value text reads attr.dynamicStart"
		if fnReadsDynamicStart(T) {
			undecAll(tname+"#text-after-start-action", p.Pos(T.Pos()), "attr.dynamicStart is read in the text scanner itself; the inline validation is not modelled")
			return
		}
		if urlRule != "" {
			r.Viol(urlRule, tname+"#text-after-start-action", p.Pos(T.Pos()), msg+"; the value of the action, sanitized as a complete URL, may be a scheme-less word that the text completes into a scheme", `<a href="{{.X}}script:alert(1)"> with X="java" emits href="javascript:alert(1)"`)
		}
		if enumRule != "" {
			r.Viol(enumRule, tname+"#text-after-start-action", p.Pos(T.Pos()), msg+"; in an enumerated context the emitted word is extended into a word that is not listed", `<a target="{{.X}}x"> with X="_self" emits target="_selfx"`)
		}
		return
	}
	vname := strings.TrimPrefix(fnName(V), pkgTemplate+".")
	// ---- caller side: a failure of the validator ends in error contexts only, and the call
	// dominates every place where the value is extended or left
	{
		ok := true
		why := ""
		var iff *ssa.If
		if last, isIf := vcall.Block().Instrs[len(vcall.Block().Instrs)-1].(*ssa.If); isIf {
			if bo, isB := last.Cond.(*ssa.BinOp); isB && bo.Op == token.NEQ && bo.X == ssa.Value(vcall) {
				iff = last
			}
		}
		if iff == nil {
			ok, why = false, "the result of "+vname+" is not tested right after the call"
		} else {
			seen := map[*ssa.BasicBlock]bool{}
			var walk func(b *ssa.BasicBlock)
			walk = func(b *ssa.BasicBlock) {
				if seen[b] || !ok {
					return
				}
				seen[b] = true
				if ret, isRet := b.Instrs[len(b.Instrs)-1].(*ssa.Return); isRet {
					if !isErrorContextReturn(ret, errState) {
						ok, why = false, "a failure of "+vname+" can end in a return of a context that is not in the error state ("+p.Pos(ret.Pos())+")"
					}
					return
				}
				for _, s := range b.Succs {
					walk(s)
				}
			}
			walk(vcall.Block().Succs[0])
		}
		if ok {
			for _, b := range T.Blocks {
				if vcall.Block().Dominates(b) {
					continue
				}
				for _, in := range b.Instrs {
					switch x := in.(type) {
					case *ssa.Store:
						if fa, isFA := x.Addr.(*ssa.FieldAddr); isFA && fieldName(fa.X.Type(), fa.Field) == "value" {
							if pt, isP := fa.X.Type().Underlying().(*types.Pointer); isP && isNamed(pt.Elem(), pkgTemplate, "attr") {
								ok, why = false, "attr.value is extended at "+p.Pos(x.Pos())+" on a path that does not pass "+vname
							}
						}
					case *ssa.Return:
						if isErrorContextReturn(x, errState) {
							continue
						}
						// returns of the part that handles text outside attribute values
						outside := false
						for d := b; d != nil; d = d.Idom() {
							id := d.Idom()
							if id == nil {
								break
							}
							if f2, isIf := id.Instrs[len(id.Instrs)-1].(*ssa.If); isIf && id.Succs[0] == d && id.Succs[1] != d {
								if bo, isB := f2.Cond.(*ssa.BinOp); isB && bo.Op == token.EQL {
									if k, okk := constInt(bo.Y); okk && k == delimNone && isNamed(bo.X.Type(), pkgTemplate, "delim") {
										outside = true
									}
								}
							}
						}
						if !outside {
							ok, why = false, "the scanner returns a valid context at "+p.Pos(x.Pos())+" from inside an attribute value on a path that does not pass "+vname
						}
					}
				}
			}
		}
		for _, x := range rules {
			r.Check(ok, x, tname+"#validator-on-every-path:"+vname, p.Pos(vcall.Pos()), "every path of the text scanner that extends or leaves an attribute value passes "+vname+"; its failure ends in error contexts only", why)
		}
	}
	// ---- the validator under "an action started the value, the text is not empty"
	var textPrm *ssa.Parameter
	for _, prm := range V.Params {
		if isStringish(prm.Type()) {
			textPrm = prm
		}
	}
	var lookup *ssa.Call
	for _, b := range V.Blocks {
		for _, in := range b.Instrs {
			if c, ok := in.(*ssa.Call); ok {
				if tu, ok := c.Type().(*types.Tuple); ok && tu.Len() == 2 && isNamed(tu.At(0).Type(), pkgTemplate, "sanitizationContext") {
					lookup = c
				}
			}
		}
	}
	if textPrm == nil || lookup == nil {
		undecAll("template."+vname, p.Pos(V.Pos()), "the validator's text parameter or its policy lookup was not identified")
		return
	}
	ae := &assumeEval{p: p, truthy: map[ssa.Value]bool{}}
	env := termEnv{textPrm: Term{Param: 0}}
	for _, b := range V.Blocks {
		for _, in := range b.Instrs {
			v, ok := in.(ssa.Value)
			if !ok {
				continue
			}
			if isDynamicStartLoad(v) {
				ae.truthy[v] = true
			}
			switch x := in.(type) {
			case *ssa.Extract:
				if x.Tuple == ssa.Value(lookup) {
					if x.Index == 0 {
						ae.sc = x
					} else {
						ae.errv = x
					}
				}
			case *ssa.BinOp:
				switch x.Op {
				case token.EQL, token.NEQ:
					// text == "" / len(text) == 0 are false
					isText := x.X == ssa.Value(textPrm)
					if c, isCall := x.X.(*ssa.Call); isCall {
						if bi, isB := c.Common().Value.(*ssa.Builtin); isB && bi.Name() == "len" && c.Common().Args[0] == ssa.Value(textPrm) {
							if k, okk := constInt(x.Y); okk && k == 0 {
								ae.truthy[x] = x.Op == token.NEQ
							}
						}
					}
					if isText {
						if k, okk := constString(x.Y); okk && k == "" {
							ae.truthy[x] = x.Op == token.NEQ
						}
					}
				case token.ADD:
					// attr.value + text, with nothing static seen since the action
					if emptyUnderAssumption(x.X) && x.Y == ssa.Value(textPrm) {
						env[x] = Term{Param: 0}
					}
				}
			}
		}
	}
	// no early return under the assumptions
	{
		seen := map[*ssa.BasicBlock]bool{}
		early := ""
		var walk func(b *ssa.BasicBlock)
		walk = func(b *ssa.BasicBlock) {
			if seen[b] || early != "" {
				return
			}
			seen[b] = true
			for _, pr := range b.Preds {
				if b.Dominates(pr) {
					return // a loop header: the loops are handled from the lookup on
				}
			}
			switch last := b.Instrs[len(b.Instrs)-1].(type) {
			case *ssa.Return:
				early = p.Pos(last.Pos())
			case *ssa.If:
				if t, ok := ae.cond(last.Cond); ok {
					if t {
						walk(b.Succs[0])
					} else {
						walk(b.Succs[1])
					}
					return
				}
				walk(b.Succs[0])
				walk(b.Succs[1])
			default:
				for _, s := range b.Succs {
					walk(s)
				}
			}
		}
		walk(V.Blocks[0])
		for _, x := range rules {
			r.Check(early == "", x, "template."+vname+"#no-early-accept", p.Pos(V.Pos()), "with an action at the start of the value and non-empty text the validator reaches its policy lookup", "with an action at the start of the value and non-empty text the validator can return before looking at the text ("+early+")")
		}
	}
	regs, _ := p.AllRegexes()
	sm := NewSummarizer(p, regs)
	// accepted(K): the texts for which, after the lookup yielded K, the validator goes on to the
	// next candidate name or returns nil
	accepted := func(k int64) (*Form, string) {
		ae.k = k
		var alts []*Form
		why := ""
		onPath := map[*ssa.BasicBlock]bool{}
		var walk func(b *ssa.BasicBlock, acc []*Form, first bool)
		walk = func(b *ssa.BasicBlock, acc []*Form, first bool) {
			if why != "" || len(alts) > 64 {
				return
			}
			if !first && (b.Dominates(lookup.Block()) || b == lookup.Block()) {
				alts = append(alts, fAnd(append([]*Form{fTrue()}, acc...)...)) // next candidate
				return
			}
			if onPath[b] {
				return
			}
			onPath[b] = true
			defer delete(onPath, b)
			switch last := b.Instrs[len(b.Instrs)-1].(type) {
			case *ssa.Return:
				if k, ok := last.Results[0].(*ssa.Const); ok && k.Value == nil {
					alts = append(alts, fAnd(append([]*Form{fTrue()}, acc...)...))
				}
			case *ssa.If:
				if t, ok := ae.cond(last.Cond); ok {
					if t {
						walk(b.Succs[0], acc, false)
					} else {
						walk(b.Succs[1], acc, false)
					}
					return
				}
				f := sm.ValueForm(last.Cond, env)
				if u, _ := f.HasUnknown(); u {
					if dependsOn(last.Cond, textPrm, 0) {
						why = "a condition on the text (" + p.Pos(last.Cond.Pos()) + ") could not be modelled as a property of the text"
						return
					}
					// a condition on something else: either way
					walk(b.Succs[0], acc, false)
					walk(b.Succs[1], acc, false)
					return
				}
				walk(b.Succs[0], append(append([]*Form(nil), acc...), f), false)
				walk(b.Succs[1], append(append([]*Form(nil), acc...), fNot(f)), false)
			default:
				for _, s := range b.Succs {
					walk(s, acc, false)
				}
			}
		}
		walk(lookup.Block(), nil, true)
		if why != "" {
			return nil, why
		}
		if len(alts) == 0 {
			return &Form{Op: "false"}, ""
		}
		return fOr(alts...), ""
	}
	var ks []int64
	for k := range scNames {
		ks = append(ks, k)
	}
	sort.Slice(ks, func(i, j int) bool { return ks[i] < ks[j] })
	for _, k := range ks {
		name := scNames[k]
		short := strings.TrimPrefix(name, "sanitizationContext")
		isEnum := strings.HasSuffix(short, "Enum")
		isURL := short == "URL" || short == "TrustedResourceURLOrURL"
		rule := ""
		switch {
		case isEnum:
			rule = enumRule
		case isURL:
			rule = urlRule
		}
		if rule == "" {
			continue
		}
		cn := fmt.Sprintf("template.%s#accepts[%s]", vname, short)
		pos := p.Pos(lookup.Pos())
		f, why := accepted(k)
		if f == nil {
			r.Undec(rule, cn, pos, why)
			continue
		}
		var opaque []string
		f.Atoms(func(a *LAtom) {
			if a.Kind == "prop" {
				opaque = append(opaque, a.Str)
			}
		})
		if len(opaque) > 0 {
			r.Undec(rule, cn, pos, "the verdict depends on a helper that is not a regular property of the text: "+strings.Join(opaque, ", "))
			continue
		}
		L := NewLang()
		if err := registerSumm(L, sm, f); err != nil {
			r.Undec(rule, cn, pos, err.Error())
			continue
		}
		L.MustRe(specColonInFirstSegment)
		L.MustRe(`^.`)
		L.Build()
		d, amb, err := L.Eval(f)
		if err != nil || len(amb) > 0 {
			r.Undec(rule, cn, pos, fmt.Sprintf("conditions not evaluable: %v %v", err, amb))
			continue
		}
		bad := L.SearchRe(specColonInFirstSegment)
		what := "contains a ':' before the first '/', '?' or '#'"
		if isEnum {
			bad = L.SearchRe(`^.`)
			what = "is not empty"
		}
		if ok, wit := relang.Disjoint(d, bad); ok {
			r.OK(rule, cn, pos, "after an action at the start of the value no text is let through that "+what+"; accepted: "+f.String())
		} else {
			r.Viol(rule, cn, pos, "after an action at the start of the value (sanitized as a complete value of its own) static text is let through that "+what+"; accepted: "+f.String(), wit)
		}
	}
}

var _ = constant.MakeBool

// emptyUnderAssumption: the value is attr.value (empty under the rule's assumption "nothing static was seen since
// the action"), the empty string, or a merge of the two (the validator may drop the recorded value when it is
// ambiguous).
func emptyUnderAssumption(v ssa.Value) bool {
	if isAttrValueLoad(v) {
		return true
	}
	if k, ok := constString(v); ok && k == "" {
		return true
	}
	if ph, ok := v.(*ssa.Phi); ok {
		for _, e := range ph.Edges {
			if e == v || !emptyUnderAssumption(e) {
				return false
			}
		}
		return len(ph.Edges) > 0
	}
	if bo, ok := v.(*ssa.BinOp); ok && bo.Op == token.ADD {
		return emptyUnderAssumption(bo.X) && emptyUnderAssumption(bo.Y)
	}
	return false
}
