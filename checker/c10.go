package main

import (
	"fmt"
	"go/ast"
	"go/constant"
	"go/token"
	"go/types"
	"os"
	"sort"
	"strings"

	"golang.org/x/tools/go/packages"
	"golang.org/x/tools/go/ssa"

	"safecheck/relang"
)

func init() {
	register("C10", "proof", func(p *Program, r *Report) {
		runC10(p, r)
		checkBoundsProven(p, r, "C10.B1", "html.go")
		checkLoopsMakeProgress(p, r, "C10.B2", "html.go")
	})
}

// specC10Controls: NUL, C0/C1 controls other than TAB LF FF CR, DEL (statement).
func specC10Controls() *relang.Set {
	return relang.NewSet(0x00, 0x08, 0x0B, 0x0B, 0x0E, 0x1F, 0x7F, 0x9F)
}

// the 66 Unicode noncharacters (Unicode Standard §23.7)
func specNoncharacters() *relang.Set {
	s := relang.NewSet(0xFDD0, 0xFDEF)
	for pl := int32(0); pl <= 16; pl++ {
		s = s.Union(relang.NewSet(pl<<16|0xFFFE, pl<<16|0xFFFF))
	}
	return s
}

// evalRangeTable evaluates a *unicode.RangeTable expression made of composite
// literals and references to package-level variables.
func evalRangeTable(p *Program, pk *packages.Package, e ast.Expr, depth int) (*relang.Set, []string, error) {
	if depth > 5 {
		return nil, nil, fmt.Errorf("reference chain too deep")
	}
	var problems []string
	e = ast.Unparen(e)
	if u, ok := e.(*ast.UnaryExpr); ok && u.Op == token.AND {
		e = u.X
	}
	switch x := e.(type) {
	case *ast.Ident, *ast.SelectorExpr:
		var id *ast.Ident
		if s, ok := x.(*ast.SelectorExpr); ok {
			id = s.Sel
		} else {
			id = x.(*ast.Ident)
		}
		obj, _ := pk.TypesInfo.Uses[id].(*types.Var)
		if obj == nil || obj.Pkg() == nil {
			return nil, nil, fmt.Errorf("unresolved table reference %s", id.Name)
		}
		dpk := p.All[obj.Pkg().Path()]
		if dpk == nil {
			return nil, nil, fmt.Errorf("package %s not loaded", obj.Pkg().Path())
		}
		// a table of the repository must not be assigned anywhere but by its initialiser
		if strings.HasPrefix(obj.Pkg().Path(), modulePath) {
			if sp := p.SSAPkg(relOf(obj.Pkg().Path())); sp != nil {
				if g, ok := sp.Members[obj.Name()].(*ssa.Global); ok {
					if sts := storesToGlobal(p, g); len(sts) > 0 {
						return nil, nil, fmt.Errorf("table %s is reassigned at %s", obj.Name(), p.Pos(sts[0].Pos()))
					}
				}
			}
		}
		for _, f := range dpk.Syntax {
			for _, d := range f.Decls {
				gd, ok := d.(*ast.GenDecl)
				if !ok || gd.Tok != token.VAR {
					continue
				}
				for _, s := range gd.Specs {
					vs := s.(*ast.ValueSpec)
					for i, n := range vs.Names {
						if dpk.TypesInfo.Defs[n] == obj && i < len(vs.Values) {
							return evalRangeTable(p, dpk, vs.Values[i], depth+1)
						}
					}
				}
			}
		}
		return nil, nil, fmt.Errorf("initialiser of %s not found", obj.Name())
	case *ast.CompositeLit:
		l := EvalLit(pk, x, nil)
		if er := litErr(l); er != "" {
			return nil, nil, fmt.Errorf("%s", er)
		}
		if l.Kind != "struct" {
			return nil, nil, fmt.Errorf("not a RangeTable literal")
		}
		set := &relang.Set{}
		latin := int64(0)
		declaredLatin := int64(-1)
		for i, fname := range l.Field {
			v := l.Vals[i]
			switch fname {
			case "R16", "R32":
				prevHi := int64(-1)
				for _, rg := range v.Vals {
					if rg.Kind != "struct" || len(rg.Vals) != 3 {
						return nil, nil, fmt.Errorf("malformed range entry")
					}
					var lo, hi, stride int64 = 0, 0, 1
					for j, fn := range rg.Field {
						k, ok := rg.Vals[j].Int()
						if !ok {
							return nil, nil, fmt.Errorf("non-constant range bound")
						}
						switch fn {
						case "Lo":
							lo = k
						case "Hi":
							hi = k
						case "Stride":
							stride = k
						}
					}
					if stride < 1 || lo > hi {
						problems = append(problems, fmt.Sprintf("range {%#x,%#x,%d} is malformed", lo, hi, stride))
						continue
					}
					if lo <= prevHi {
						problems = append(problems, fmt.Sprintf("range {%#x,%#x} is not sorted/disjoint (unicode.Is uses binary search)", lo, hi))
					}
					prevHi = hi
					if fname == "R16" && hi > 0xFFFF {
						problems = append(problems, "R16 entry above 0xFFFF")
					}
					if fname == "R32" && lo < 0x10000 {
						problems = append(problems, "R32 entry below 0x10000")
					}
					if fname == "R16" && hi <= 0xFF {
						latin++
					}
					for c := lo; c <= hi; c += stride {
						set.R = append(set.R, int32(c), int32(c))
					}
				}
			case "LatinOffset":
				k, _ := v.Int()
				declaredLatin = k
			}
		}
		if declaredLatin == -1 {
			declaredLatin = 0
		}
		// LatinOffset is not read by unicode.Is nor preserved by rangetable.Merge,
		// so a mismatch does not change behaviour here and is not an obligation.
		_ = declaredLatin != latin
		ns := relang.NewSet(set.R...)
		return ns, problems, nil
	}
	return nil, nil, fmt.Errorf("unsupported table expression %T", e)
}

func runC10(p *Program, r *Report) {
	r.Trusted = []string{"go/types + go/ssa", "unicode.Is(table, r) = membership in the table's ranges for well-formed tables", "rangetable.Merge = union of its arguments",
		"strings.Replacer with single-byte keys replaces every occurrence of each key (html.EscapeString; its replacement pairs are re-read from the installed source)",
		"range over a string yields U+FFFD for every invalid byte; string([]rune) encodes valid UTF-8",
		"paper: a text without < > \" ' and with & only as the start of the five references cannot leave the data / RCDATA / quoted-attribute-value tokenizer states"}
	r.Explain = "HTMLEscaped = html.EscapeString ∘ coerce is read from SSA; the coercion loop is checked to append exactly one rune per input rune (U+FFFD iff unicode.Is(T, r)); T is evaluated from the source literals (and the installed unicode tables) and compared, both ways, with the statement's set; the escaper's replacement pairs are read from the installed html package; the output-alphabet and round-trip clauses then follow by the composition computed here; HTMLConcat's buffer writes are inventoried."
	r.Min("C10.R1", 1)
	r.Min("C10.R2", 4)
	r.Min("C10.R3", 3)
	r.Min("C10.R4", 3)
	r.Min("C10.R5", 3)
	pv := NewProv(p)
	root := p.Pkg("")

	// ---- R1 shape --------------------------------------------------------
	fn := p.Func("", "HTMLEscaped")
	if fn == nil {
		r.Undec("C10.R1", "safehtml.HTMLEscaped", "", "anchor not found")
		return
	}
	var coercer *ssa.Function
	byMap := false
	stores := safeStores(fn, modulePath, "HTML")
	if ok, why := returnsOnlyLocalComposite(fn, 0); !ok || len(stores) == 0 {
		r.Undec("C10.R1", "safehtml.HTMLEscaped#returns", p.Pos(fn.Pos()), "unrecognised construction: "+why)
	}
	for i, st := range stores {
		e := pv.Of(st.Store.Val)
		c := fmt.Sprintf("safehtml.HTMLEscaped#store%d", i)
		e = peelConv(e)
		if calleeIs(e, "html.EscapeString") && len(e.Args) == 1 {
			// conversions between string types (a named type for coerced text) change nothing
			inner := peelConv(e.Args[0])
			if inner.Op == "call" && len(inner.Args) == 1 {
				inner = &Expr{Op: inner.Op, Name: inner.Name, Fn: inner.Fn, Obj: inner.Obj, Val: inner.Val, Type: inner.Type, Args: []*Expr{peelConv(inner.Args[0])}}
			}
			e = &Expr{Op: e.Op, Name: e.Name, Fn: e.Fn, Obj: e.Obj, Val: e.Val, Type: e.Type, Args: []*Expr{inner}}
		}
		ok := calleeIs(e, "html.EscapeString") && len(e.Args) == 1 && e.Args[0].Op == "call" && e.Args[0].Fn != nil &&
			len(e.Args[0].Args) == 1 && e.Args[0].Args[0].Op == "param" && e.Args[0].Args[0].Idx == 0
		// the coercer written as one expression that the provenance view has inlined: strings.Map(f, text)
		if !ok && calleeIs(e, "html.EscapeString") && len(e.Args) == 1 && calleeIs(e.Args[0], "strings.Map") {
			if in, isIn := e.Args[0].Val.(ssa.Instruction); isIn && in.Parent() != nil && len(in.Parent().Params) == 1 {
				coercer = in.Parent()
				r.OK("C10.R1", c, p.Pos(st.Store.Pos()), "stored string is html.EscapeString("+fnName(coercer)+"(text))")
				continue
			}
		}
		if ok {
			coercer = e.Args[0].Fn
			r.OK("C10.R1", c, p.Pos(st.Store.Pos()), "stored string is "+e.String())
		} else {
			r.Viol("C10.R1", c, p.Pos(st.Store.Pos()), "stored string is not html.EscapeString(coerce(text)): "+e.String(), "")
		}
	}
	// installed html.EscapeString: pairs of the replacer
	checkHTMLEscaper(p, r)

	// ---- R2 coercion loop ------------------------------------------------
	var tableGlobal *ssa.Global
	if coercer == nil || coercer.Blocks == nil {
		r.Undec("C10.R2", "coercer", "", "coercion function not identified")
	} else {
		// first the rules for the current spelling; if they do not recognise the loop, the coercion is read as a map
		// on code points (which also decides the table clauses R3)
		shape := NewReport("C10", r.Tier, r.Seed)
		tableGlobal = checkCoercer(p, shape, pv, coercer)
		if reportFails(shape) || tableGlobal == nil || os.Getenv("C10_FORCE_MAP") != "" {
			alt := NewReport("C10", r.Tier, r.Seed)
			if checkCoercerByMap(p, alt, coercer) && !reportFails(alt) {
				r.Obls = append(r.Obls, alt.Obls...)
				for k, v := range alt.Counts {
					r.Counts[k] += v
				}
				byMap = true
			} else {
				if os.Getenv("C10_FORCE_MAP") != "" {
					for _, o := range alt.Obls {
						fmt.Printf("MAP %s %s %s: %s %s\n", o.Status, o.Rule, o.Construct, o.Detail, o.Witness)
					}
				}
				r.Obls = append(r.Obls, shape.Obls...)
				for k, v := range shape.Counts {
					r.Counts[k] += v
				}
			}
		} else {
			r.Obls = append(r.Obls, shape.Obls...)
			for k, v := range shape.Counts {
				r.Counts[k] += v
			}
		}
	}

	// ---- R3 table --------------------------------------------------------
	if byMap {
		// decided with the map
	} else if tableGlobal == nil {
		r.Undec("C10.R3", "control-table", "", "table variable not identified")
	} else {
		init, pk := p.PkgVarInit("", tableGlobal.Name())
		cn := "safehtml." + tableGlobal.Name()
		var T *relang.Set
		var probs []string
		var err error
		if call, ok := ast.Unparen(init).(*ast.CallExpr); ok {
			// rangetable.Merge(args...)
			name := ""
			if se, ok := call.Fun.(*ast.SelectorExpr); ok {
				if f, ok := pk.TypesInfo.Uses[se.Sel].(*types.Func); ok {
					name = f.FullName()
				}
			}
			if name != "golang.org/x/text/unicode/rangetable.Merge" {
				err = fmt.Errorf("table initialised by %s, expected rangetable.Merge or a literal", name)
			} else {
				T = &relang.Set{}
				for _, a := range call.Args {
					s, pr, e := evalRangeTable(p, pk, a, 0)
					if e != nil {
						err = e
						break
					}
					probs = append(probs, pr...)
					T = T.Union(s)
				}
			}
		} else if init != nil {
			T, probs, err = evalRangeTable(p, pk, init, 0)
		} else {
			err = fmt.Errorf("no initialiser")
		}
		if err != nil {
			r.Undec("C10.R3", cn, p.Pos(tableGlobal.Pos()), err.Error())
		} else {
			for _, pr := range probs {
				r.Viol("C10.R3", cn+"#well-formed", p.Pos(tableGlobal.Pos()), pr, "")
			}
			if len(probs) == 0 {
				r.OK("C10.R3", cn+"#well-formed", p.Pos(tableGlobal.Pos()), "range tables are sorted and disjoint")
			}
			spec := specC10Controls().Union(specNoncharacters())
			missing := spec.Minus(T)
			extra := T.Minus(spec)
			if missing.Empty() {
				r.OK("C10.R3", cn+"#covers", p.Pos(tableGlobal.Pos()), fmt.Sprintf("replaced set contains all %d control and noncharacter code points of the statement", spec.Count()))
			} else {
				r.Viol("C10.R3", cn+"#covers", p.Pos(tableGlobal.Pos()), "code points the statement says are replaced survive coercion: "+missing.String(), fmt.Sprintf("%+q", string(rune(missing.R[0]))))
			}
			if extra.Empty() {
				r.OK("C10.R3", cn+"#exact", p.Pos(tableGlobal.Pos()), "no other code point is replaced (round-trip clause)")
			} else {
				r.Viol("C10.R3", cn+"#exact", p.Pos(tableGlobal.Pos()), "code points outside the statement's set are replaced by U+FFFD: "+extra.String(), fmt.Sprintf("%+q", string(rune(extra.R[0]))))
			}
			// the installed unicode.Noncharacter_Code_Point must be the 66 noncharacters
			if upk := p.All["unicode"]; upk != nil {
				var nc *relang.Set
				for _, f := range upk.Syntax {
					for _, d := range f.Decls {
						if gd, ok := d.(*ast.GenDecl); ok && gd.Tok == token.VAR {
							for _, s := range gd.Specs {
								vs := s.(*ast.ValueSpec)
								for i, n := range vs.Names {
									if n.Name == "Noncharacter_Code_Point" && i < len(vs.Values) {
										nc, _, _ = evalRangeTable(p, upk, vs.Values[i], 0)
									}
								}
							}
						}
					}
				}
				if nc != nil && nc.Equal(specNoncharacters()) {
					r.OK("C10.R3", "unicode.Noncharacter_Code_Point", "", "installed table is the 66 noncharacters of all 17 planes")
				} else {
					r.Undec("C10.R3", "unicode.Noncharacter_Code_Point", "", "installed table could not be confirmed to be the 66 noncharacters")
				}
			}
			r.Analysed["replaced_code_points"] = T.Count()
		}
		// the table variables are assigned only by their initialisers
		for _, f := range p.SrcFuncs() {
			if f.Synthetic != "" && f.Name() == "init" {
				continue
			}
			for _, b := range f.Blocks {
				for _, in := range b.Instrs {
					if st, ok := in.(*ssa.Store); ok {
						if g, ok := st.Addr.(*ssa.Global); ok && g.Pkg == tableGlobal.Pkg && (g == tableGlobal || cname(g) == "controlChar") {
							r.Viol("C10.R3", cn+"#reassigned", p.Pos(st.Pos()), "table variable is reassigned in "+fnName(f), "")
						}
					}
				}
			}
		}
	}

	// ---- R5 HTMLConcat ---------------------------------------------------
	checkHTMLConcat(p, r, pv)
	_ = root
}

func checkHTMLEscaper(p *Program, r *Report) {
	hp := p.All["html"]
	if hp == nil {
		r.Undec("C10.R4", "html.EscapeString", "", "package html not loaded")
		return
	}
	// EscapeString must be htmlEscaper.Replace(s) and htmlEscaper a NewReplacer of constant pairs.
	var pairs []string
	found := false
	for _, f := range hp.Syntax {
		for _, d := range f.Decls {
			switch d := d.(type) {
			case *ast.GenDecl:
				if d.Tok != token.VAR {
					continue
				}
				for _, s := range d.Specs {
					vs := s.(*ast.ValueSpec)
					for i, n := range vs.Names {
						if n.Name != "htmlEscaper" || i >= len(vs.Values) {
							continue
						}
						call, ok := vs.Values[i].(*ast.CallExpr)
						if !ok {
							continue
						}
						for _, a := range call.Args {
							if tv, ok := hp.TypesInfo.Types[a]; ok && tv.Value != nil && tv.Value.Kind() == constant.String {
								pairs = append(pairs, constant.StringVal(tv.Value))
							}
						}
					}
				}
			case *ast.FuncDecl:
				if d.Name.Name == "EscapeString" && d.Recv == nil && d.Body != nil {
					ast.Inspect(d.Body, func(n ast.Node) bool {
						if se, ok := n.(*ast.SelectorExpr); ok {
							if id, ok := se.X.(*ast.Ident); ok && id.Name == "htmlEscaper" && se.Sel.Name == "Replace" {
								found = true
							}
						}
						return true
					})
				}
			}
		}
	}
	want := map[string]string{"&": "&amp;", "<": "&lt;", ">": "&gt;", `"`: "&#34;", "'": "&#39;"}
	got := map[string]string{}
	for i := 0; i+1 < len(pairs); i += 2 {
		got[pairs[i]] = pairs[i+1]
	}
	ok := found && len(got) == len(want)
	for k, v := range want {
		ok = ok && got[k] == v
	}
	var ks []string
	for k, v := range got {
		ks = append(ks, k+"→"+v)
	}
	sort.Strings(ks)
	r.Check(ok, "C10.R4", "html.EscapeString#pairs", "", fmt.Sprintf("installed html.EscapeString replaces exactly %v", ks), fmt.Sprintf("installed html.EscapeString has unexpected replacement pairs %v", ks))
	// output alphabet and round trip from the pairs: every replacement starts with '&', ends with ';', contains none of < > " ' and no second '&';
	// it is a character reference for the character replaced.
	refOK := true
	decode := map[string]string{"&amp;": "&", "&lt;": "<", "&gt;": ">", "&#34;": "\"", "&#39;": "'"}
	for k, v := range got {
		if len(v) < 3 || v[0] != '&' || v[len(v)-1] != ';' || decode[v] != k {
			refOK = false
		}
		for _, c := range v[1:] {
			if c == '&' || c == '<' || c == '>' || c == '"' || c == '\'' {
				refOK = false
			}
		}
	}
	r.Check(refOK && ok, "C10.R4", "html.EscapeString#references", "", "each replacement is '&…;', free of the five specials after its first byte, and is the character reference of the character it replaces (injective ⇒ round trip)", "a replacement is not a well-formed reference of its source character")
	r.Check(ok, "C10.R4", "output-alphabet", "", "Escape(Coerce(Σ*)) ⊆ ([^&<>\"'] | &amp; | &lt; | &gt; | &#34; | &#39;)* without replaced code points and invalid bytes, by composition of R1–R3 with the pairs above", "output alphabet not established")
}

func checkCoercer(p *Program, r *Report, pv *Prov, fn *ssa.Function) *ssa.Global {
	cn := fnName(fn)
	pos := p.Pos(fn.Pos())
	// find the range over the parameter
	var rng *ssa.Range
	var next *ssa.Next
	var appends, builderWrites []*ssa.Call
	for _, b := range fn.Blocks {
		for _, in := range b.Instrs {
			switch x := in.(type) {
			case *ssa.Range:
				if rng != nil {
					r.Undec("C10.R2", cn+"#range", pos, "more than one range loop")
					return nil
				}
				rng = x
			case *ssa.Next:
				next = x
			case *ssa.Call:
				if bi, ok := x.Common().Value.(*ssa.Builtin); ok && bi.Name() == "append" {
					appends = append(appends, x)
				}
				// the same accumulation written with a strings.Builder / bytes.Buffer: b.WriteRune(r)
				if g := staticCallee(x.Common()); g != nil && fnName(g) == "(*bytes.Buffer).WriteRune" {
					appends = append(appends, x)
					builderWrites = append(builderWrites, x)
				}
			}
		}
	}
	if rng == nil || next == nil || rng.X != ssa.Value(fn.Params[0]) || next.Iter != ssa.Value(rng) || !next.IsString {
		r.Undec("C10.R2", cn+"#range", pos, "the coercer is not a range loop over its string parameter")
		return nil
	}
	r.OK("C10.R2", cn+"#range", pos, "ranges over the input string (invalid bytes decode to U+FFFD)")
	// the Is test
	var isCall *ssa.Call
	var isBlock *ssa.BasicBlock
	for _, b := range fn.Blocks {
		if iff, ok := b.Instrs[len(b.Instrs)-1].(*ssa.If); ok {
			if c, ok := iff.Cond.(*ssa.Call); ok && staticCallee(c.Common()) != nil && fnName(staticCallee(c.Common())) == "unicode.Is" {
				isCall, isBlock = c, b
			}
		}
	}
	var table *ssa.Global
	if isCall == nil {
		r.Viol("C10.R2", cn+"#test", pos, "no branch on unicode.Is(table, rune) in the coercion loop", "")
		return nil
	}
	if u, ok := isCall.Common().Args[0].(*ssa.UnOp); ok {
		table, _ = u.X.(*ssa.Global)
	}
	runeVal, _ := isCall.Common().Args[1].(*ssa.Extract)
	if table == nil || runeVal == nil || runeVal.Tuple != ssa.Value(next) || runeVal.Index != 2 {
		r.Undec("C10.R2", cn+"#test", pos, "unicode.Is is not applied to a package-level table and the range value")
		return nil
	}
	r.OK("C10.R2", cn+"#test", p.Pos(isCall.Pos()), "branches on unicode.Is("+table.Name()+", r)")
	// appended elements
	thenB, elseB := isBlock.Succs[0], isBlock.Succs[1]
	header := next.Block()
	seen := map[*ssa.BasicBlock]int{}
	for i, ap := range appends {
		c := fmt.Sprintf("%s#append%d", cn, i)
		var elems []ssa.Value
		ok := false
		if _, isB := ap.Common().Value.(*ssa.Builtin); isB {
			elems, ok = variadicArgs(ap.Common().Args[1])
		} else {
			elems, ok = []ssa.Value{ap.Common().Args[1]}, true // b.WriteRune(x)
		}
		if !ok || len(elems) != 1 {
			r.Undec("C10.R2", c, p.Pos(ap.Pos()), "append of an unrecognised element list")
			continue
		}
		seen[ap.Block()]++
		e := elems[0]
		if k, ok := constInt(e); ok {
			r.Check(k == 0xFFFD && ap.Block() == thenB, "C10.R2", c, p.Pos(ap.Pos()), "U+FFFD appended exactly when the rune is in the table",
				fmt.Sprintf("constant %#x appended, or appended outside the in-table branch", k))
		} else if e == ssa.Value(runeVal) {
			r.Check(ap.Block() == elseB, "C10.R2", c, p.Pos(ap.Pos()), "the rune itself appended exactly when it is not in the table", "the rune is copied although it is in the replaced set (or in an unexpected block)")
		} else {
			r.Viol("C10.R2", c, p.Pos(ap.Pos()), "appends something other than U+FFFD or the current rune: "+pv.Of(e).String(), "")
		}
	}
	oneEach := seen[thenB] == 1 && seen[elseB] == 1 && len(seen) == 2 &&
		len(thenB.Succs) == 1 && thenB.Succs[0] == header && len(elseB.Succs) == 1 && elseB.Succs[0] == header
	r.Check(oneEach, "C10.R2", cn+"#one-rune-per-rune", pos, "each iteration appends exactly one rune and returns to the loop header", "an iteration may append zero or several runes")
	// return value is string(accumulated runes)
	okRet := true
	if len(builderWrites) > 0 {
		// builder form: every return is b.String() of the one builder all writes go to, which receives nothing else
		var buf ssa.Value
		for _, w := range builderWrites {
			if buf == nil {
				buf = w.Common().Args[0]
			} else if buf != w.Common().Args[0] {
				okRet = false
			}
		}
		if len(builderWrites) != len(appends) {
			okRet = false // mixed accumulation
		}
		for _, ret := range Returns(fn) {
			c, ok := isCallTo(ret.Results[0], "(*bytes.Buffer).String")
			if !ok || c.Common().Args[0] != buf {
				okRet = false
			}
		}
		if al, ok := buf.(*ssa.Alloc); ok {
			for _, ref := range *al.Referrers() {
				c, isCall := ref.(*ssa.Call)
				if !isCall {
					continue
				}
				g := staticCallee(c.Common())
				if g == nil {
					okRet = false
					continue
				}
				switch fnName(g) {
				case "(*bytes.Buffer).WriteRune", "(*bytes.Buffer).String", "(*bytes.Buffer).Grow", "(*bytes.Buffer).Len":
				default:
					okRet = false
				}
			}
		} else {
			okRet = false
		}
		r.Check(okRet, "C10.R2", cn+"#result", pos, "result is the contents of the builder that receives exactly the runes above", "result is not the string of the accumulated runes")
		return table
	}
	for _, ret := range Returns(fn) {
		cv, ok := ret.Results[0].(*ssa.Convert)
		if !ok {
			okRet = false
			continue
		}
		phi, ok := cv.X.(*ssa.Phi)
		if !ok {
			okRet = false
			continue
		}
		for _, e := range phi.Edges {
			switch x := e.(type) {
			case *ssa.MakeSlice:
				if l, ok := constInt(x.Len); !ok || l != 0 {
					okRet = false
				}
			case *ssa.Call:
				isApp := false
				for _, ap := range appends {
					if x == ap && ap.Common().Args[0] == ssa.Value(phi) {
						isApp = true
					}
				}
				okRet = okRet && isApp
			default:
				okRet = false
			}
		}
	}
	r.Check(okRet, "C10.R2", cn+"#result", pos, "result is string(runes) of the accumulated slice, starting empty", "result is not the string of the accumulated runes")
	return table
}

func checkHTMLConcat(p *Program, r *Report, pv *Prov) {
	fn := p.Func("", "HTMLConcat")
	const cn = "safehtml.HTMLConcat"
	if fn == nil {
		r.Undec("C10.R5", cn, "", "anchor not found")
		return
	}
	stores := safeStores(fn, modulePath, "HTML")
	if len(stores) != 1 {
		r.Undec("C10.R5", cn, p.Pos(fn.Pos()), fmt.Sprintf("expected one construction, found %d", len(stores)))
		return
	}
	// every result is that construction (or the zero value): a shortcut that hands back one of the arguments, or a
	// value reached through a pointer, is not the concatenation computed below
	if ok, why := returnsOnlyLocalComposite(fn, 0); !ok {
		r.Undec("C10.R5", cn+"#returns", p.Pos(fn.Pos()), "HTMLConcat can return something other than the value it builds from all arguments ("+why+"); whether that value is their concatenation is not decided")
	} else {
		r.OK("C10.R5", cn+"#returns", p.Pos(fn.Pos()), "every result is the value built from the buffer (or the zero value)")
	}
	res, _ := stores[0].Store.Val.(*ssa.Call)
	// the same concatenation written as strings.Join(xs, "") of a slice that holds, element by element and in
	// order, the contents of the arguments
	if res != nil && staticCallee(res.Common()) != nil && fnName(staticCallee(res.Common())) == "strings.Join" {
		sep, okSep := constString(res.Common().Args[1])
		ms, okMs := res.Common().Args[0].(*ssa.MakeSlice)
		okLen := false
		if okMs {
			if sv, ok := isLenOf(ms.Len); ok && sv == ssa.Value(fn.Params[0]) {
				okLen = true
			}
		}
		nStores, okStores := 0, true
		if okMs {
			for _, ref := range *ms.Referrers() {
				ia, ok := ref.(*ssa.IndexAddr)
				if !ok {
					if ref != ssa.Instruction(res) {
						if _, dbg := ref.(*ssa.DebugRef); !dbg {
							okStores = false
						}
					}
					continue
				}
				for _, r2 := range *ia.Referrers() {
					st, ok := r2.(*ssa.Store)
					if !ok {
						okStores = false
						continue
					}
					nStores++
					arg := pv.Of(st.Val)
					// xs[i] = htmls[i].String(): same index on both sides
					okArg := arg.Op == "field" && p.isWrappedFieldName(arg.Name) && arg.Args[0].Op == "index" && arg.Args[0].Args[0].Op == "param" && arg.Args[0].Args[0].Idx == 0
					sameIdx := false
					if u, ok := st.Val.(*ssa.Call); ok && len(u.Common().Args) == 1 {
						if ld, ok := u.Common().Args[0].(*ssa.UnOp); ok {
							if ia2, ok := ld.X.(*ssa.IndexAddr); ok && ia2.Index == ia.Index {
								sameIdx = true
							}
						}
					}
					if !okArg || !sameIdx {
						okStores = false
					}
				}
			}
		}
		okJoin := okSep && sep == "" && okMs && okLen && okStores && nStores == 1
		r.Check(okJoin, "C10.R5", cn+"#result", p.Pos(res.Pos()), "result is strings.Join(xs, \"\") of a slice as long as the argument list whose element i is the content of argument i", "result is a strings.Join that is not the concatenation of the arguments' contents in order: "+pv.Of(stores[0].Store.Val).String())
		if okJoin {
			r.OK("C10.R5", cn+"#write", p.Pos(res.Pos()), "each element is written once, with the content of the argument of the same index")
			r.OK("C10.R5", cn+"#writes", p.Pos(fn.Pos()), "exactly one write site, inside the range loop")
			r.OK("C10.R5", cn+"#order", p.Pos(fn.Pos()), "strings.Join keeps index order")
		}
		return
	}
	if res == nil || staticCallee(res.Common()) == nil || fnName(staticCallee(res.Common())) != "(*bytes.Buffer).String" {
		r.Viol("C10.R5", cn+"#result", p.Pos(stores[0].Store.Pos()), "result is not the buffer's contents: "+pv.Of(stores[0].Store.Val).String(), "")
		return
	}
	buf := res.Common().Args[0]
	r.OK("C10.R5", cn+"#result", p.Pos(res.Pos()), "result is the buffer's contents")
	// inventory of uses of the buffer
	alloc, ok := buf.(*ssa.Alloc)
	if !ok {
		r.Undec("C10.R5", cn+"#buffer", p.Pos(fn.Pos()), "buffer is not a local")
		return
	}
	writes := 0
	for _, ref := range *alloc.Referrers() {
		call, ok := ref.(*ssa.Call)
		if !ok {
			if _, isDbg := ref.(*ssa.DebugRef); isDbg {
				continue
			}
			r.Undec("C10.R5", cn+"#buffer", p.Pos(ref.Pos()), "buffer escapes or is used by "+ref.String())
			continue
		}
		if call == res {
			continue
		}
		name := "<dynamic>"
		if f := staticCallee(call.Common()); f != nil {
			name = fnName(f)
		}
		if name == "(*bytes.Buffer).WriteString" {
			if k, ok := constString(call.Common().Args[1]); ok && k == "" {
				continue // writing the empty constant changes nothing
			}
		}
		if name == "(*bytes.Buffer).Grow" || name == "(*bytes.Buffer).Len" || name == "(*bytes.Buffer).Cap" {
			continue // no effect on contents
		}
		if name != "(*bytes.Buffer).WriteString" {
			r.Viol("C10.R5", cn+"#write", p.Pos(call.Pos()), "unexpected buffer operation "+name, "")
			continue
		}
		writes++
		arg := pv.Of(call.Common().Args[1])
		// (HTML).String(htmls[i]) expands (wrapper summary) to htmls[i].str
		okArg := arg.Op == "field" && p.isWrappedFieldName(arg.Name) && arg.Args[0].Op == "index" && arg.Args[0].Args[0].Op == "param" && arg.Args[0].Args[0].Idx == 0
		inLoop := false
		for _, su := range call.Block().Succs {
			if su.Dominates(call.Block()) {
				inLoop = true
			}
		}
		r.Check(okArg && inLoop, "C10.R5", cn+"#write", p.Pos(call.Pos()), "writes the contents of the range element, once per iteration: "+arg.String(), "writes something other than the argument's contents: "+arg.String())
	}
	r.Check(writes == 1, "C10.R5", cn+"#writes", p.Pos(fn.Pos()), "exactly one write site, inside the range loop", fmt.Sprintf("%d write sites", writes))
	// loop visits indices 0..len-1 in order: rangeindex shape
	rangeOK := false
	for _, b := range fn.Blocks {
		for _, in := range b.Instrs {
			if phi, ok := in.(*ssa.Phi); ok && phi.Comment == "rangeindex" {
				rangeOK = true
			}
		}
	}
	r.Check(rangeOK, "C10.R5", cn+"#order", p.Pos(fn.Pos()), "arguments are visited by a range loop (index order)", "arguments are not visited by a plain range loop")
}
