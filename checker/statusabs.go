package main

// The escape status of a template, whatever its representation. The library records in each Template whether
// its analysis has run and how it ended; the rules used to read that record as "escapeErr == nil / a sticky error /
// the sentinel errEscapeOK". Here the record is found by what the root analysis does: the *status fields* are the
// fields of Template of type error, bool or integer that the root analysis (and the helpers spliced into it)
// stores into; the *states* are the value vectors those fields have at the end of its paths — one for success
// (every nil-returning path that writes the record must leave the same vector), some for failure — and the zero
// vector of a fresh template. Values are symbols: nil, a package-level sentinel, some other non-nil error,
// true/false, an integer. A branch condition speaks about the status when it reads only status fields (directly or
// through small helpers, which are interpreted over the symbols); a path "implies OK" when its conditions are
// consistent with the success vector and with no other.

import (
	"fmt"
	"go/constant"
	"go/token"
	"go/types"
	"sort"
	"strings"

	"golang.org/x/tools/go/ssa"
)

type symKind int

const (
	symUnknown symKind = iota
	symNil
	symSentinel // the value of a package-level variable (g)
	symOther    // some non-nil error that is no sentinel
	symBoolean
	symInteger
)

type symVal struct {
	kind symKind
	g    *ssa.Global
	b    bool
	n    int64
}

func (v symVal) String() string {
	switch v.kind {
	case symNil:
		return "nil"
	case symSentinel:
		return v.g.Name()
	case symOther:
		return "error"
	case symBoolean:
		return fmt.Sprint(v.b)
	case symInteger:
		return fmt.Sprint(v.n)
	}
	return "?"
}

type statusVec map[int]symVal

func (a statusVec) equal(b statusVec, fields []int) bool {
	for _, f := range fields {
		if a[f] != b[f] {
			return false
		}
	}
	return true
}

func (a statusVec) render(ts *tmplStatus) string {
	var parts []string
	for _, f := range ts.fields {
		parts = append(parts, ts.names[f]+"="+a[f].String())
	}
	return "{" + strings.Join(parts, " ") + "}"
}

type tmplStatus struct {
	p       *Program
	fields  []int
	names   map[int]string
	fresh   statusVec
	ok      statusVec
	fails   []statusVec
	problem string
	// subject: see pathConsistent
	subject string
	// allStores: every store to a status field in the root analysis and the helpers spliced into it (also those in
	// loops, which no enumerated path passes)
	allStores []*ssa.Store
	// okStores: the stores, on the success paths of the root analysis, that move a field away from its fresh value
	okStores []*ssa.Store
	// failStores: likewise on the failing paths
	failStores []*ssa.Store
}

var tmplStatusCache = map[*Program]*tmplStatus{}

func isTemplatePtr(t types.Type) bool {
	pt, ok := t.Underlying().(*types.Pointer)
	return ok && isNamed(pt.Elem(), pkgTemplate, "Template")
}

// statusFieldAddr: addr is &x.f for a *Template x and a status field f.
func (ts *tmplStatus) statusFieldAddr(addr ssa.Value) (int, bool) {
	fa, ok := addr.(*ssa.FieldAddr)
	if !ok || !isTemplatePtr(fa.X.Type()) {
		return 0, false
	}
	if _, is := ts.names[fa.Field]; !is {
		return 0, false
	}
	return fa.Field, true
}

// eval computes the symbol of v under the status vector st; bind maps parameters of spliced/interpreted helpers
// to their arguments.
func (ts *tmplStatus) eval(v ssa.Value, st statusVec, bind map[ssa.Value]ssa.Value, depth int) symVal {
	if depth > 12 || v == nil {
		return symVal{}
	}
	if w, ok := bind[v]; ok && w != v {
		return ts.eval(w, st, bind, depth+1)
	}
	switch x := v.(type) {
	case *ssa.Const:
		if x.Value == nil {
			if b, ok := x.Type().Underlying().(*types.Basic); ok {
				switch {
				case b.Info()&types.IsBoolean != 0:
					return symVal{kind: symBoolean}
				case b.Info()&types.IsInteger != 0:
					return symVal{kind: symInteger}
				}
				return symVal{}
			}
			return symVal{kind: symNil}
		}
		switch x.Value.Kind() {
		case constant.Bool:
			return symVal{kind: symBoolean, b: constant.BoolVal(x.Value)}
		case constant.Int:
			if n, ok := constant.Int64Val(x.Value); ok {
				return symVal{kind: symInteger, n: n}
			}
		}
	case *ssa.MakeInterface:
		// an interface made from a concrete value is not nil
		return symVal{kind: symOther}
	case *ssa.ChangeInterface:
		return ts.eval(x.X, st, bind, depth+1)
	case *ssa.ChangeType:
		return ts.eval(x.X, st, bind, depth+1)
	case *ssa.Convert:
		return ts.eval(x.X, st, bind, depth+1)
	case *ssa.UnOp:
		switch x.Op {
		case token.NOT:
			a := ts.eval(x.X, st, bind, depth+1)
			if a.kind == symBoolean {
				return symVal{kind: symBoolean, b: !a.b}
			}
		case token.MUL:
			if f, ok := ts.statusFieldAddr(x.X); ok && st != nil {
				return st[f]
			}
			if g, ok := x.X.(*ssa.Global); ok && isErrorType(x.Type()) {
				return symVal{kind: symSentinel, g: g}
			}
		}
	case *ssa.BinOp:
		a := ts.eval(x.X, st, bind, depth+1)
		b := ts.eval(x.Y, st, bind, depth+1)
		if a.kind == symUnknown || b.kind == symUnknown {
			return symVal{}
		}
		switch x.Op {
		case token.EQL, token.NEQ:
			eq, known := false, true
			switch {
			case a.kind == symOther && b.kind == symOther:
				known = false // two unknown non-nil errors
			case a.kind == symOther || b.kind == symOther:
				eq = false // a non-nil error that is no sentinel equals neither nil nor a sentinel
			default:
				eq = a == b
			}
			if !known {
				return symVal{}
			}
			return symVal{kind: symBoolean, b: eq == (x.Op == token.EQL)}
		case token.LAND, token.AND:
			if a.kind == symBoolean && b.kind == symBoolean {
				return symVal{kind: symBoolean, b: a.b && b.b}
			}
		case token.LOR, token.OR:
			if a.kind == symBoolean && b.kind == symBoolean {
				return symVal{kind: symBoolean, b: a.b || b.b}
			}
		case token.LSS, token.LEQ, token.GTR, token.GEQ:
			if a.kind == symInteger && b.kind == symInteger {
				var r bool
				switch x.Op {
				case token.LSS:
					r = a.n < b.n
				case token.LEQ:
					r = a.n <= b.n
				case token.GTR:
					r = a.n > b.n
				default:
					r = a.n >= b.n
				}
				return symVal{kind: symBoolean, b: r}
			}
		}
	case *ssa.Call:
		// a small helper of the package, interpreted over the symbols
		g := staticCallee(x.Common())
		if g == nil || g.Blocks == nil || g.Pkg == nil || g.Pkg.Pkg.Path() != pkgTemplate || g.Signature.Results().Len() != 1 || len(g.Blocks) > 12 || hasLoop(g) {
			return symVal{}
		}
		nb := map[ssa.Value]ssa.Value{}
		for k, w := range bind {
			nb[k] = w
		}
		for i, prm := range g.Params {
			if i < len(x.Common().Args) {
				nb[prm] = x.Common().Args[i]
			}
		}
		return ts.interpret(g, st, nb, depth+1)
	}
	return symVal{}
}

// interpret runs the loop-free helper g over symbols: every branch condition must evaluate to a boolean.
func (ts *tmplStatus) interpret(g *ssa.Function, st statusVec, bind map[ssa.Value]ssa.Value, depth int) symVal {
	b := g.Blocks[0]
	var prev *ssa.BasicBlock
	phis := map[ssa.Value]ssa.Value{}
	for steps := 0; steps < 40; steps++ {
		for _, in := range b.Instrs {
			ph, ok := in.(*ssa.Phi)
			if !ok {
				break
			}
			for i, pr := range b.Preds {
				if pr == prev {
					phis[ph] = ph.Edges[i]
				}
			}
		}
		nb := bind
		if len(phis) > 0 {
			nb = map[ssa.Value]ssa.Value{}
			for k, w := range bind {
				nb[k] = w
			}
			for k, w := range phis {
				nb[k] = w
			}
		}
		switch last := b.Instrs[len(b.Instrs)-1].(type) {
		case *ssa.Return:
			if len(last.Results) != 1 {
				return symVal{}
			}
			return ts.eval(last.Results[0], st, nb, depth+1)
		case *ssa.Jump:
			prev, b = b, b.Succs[0]
		case *ssa.If:
			c := ts.eval(last.Cond, st, nb, depth+1)
			if c.kind != symBoolean {
				return symVal{}
			}
			if c.b {
				prev, b = b, b.Succs[0]
			} else {
				prev, b = b, b.Succs[1]
			}
		default:
			return symVal{}
		}
	}
	return symVal{}
}

// finalStatus: the status vector a template has after the path, starting from the fresh one (only the stores the
// path passes count, in path order).
func (ts *tmplStatus) finalStatus(pth *cfgPath) (statusVec, []*ssa.Store) {
	st := statusVec{}
	for k, v := range ts.fresh {
		st[k] = v
	}
	var stores []*ssa.Store
	for _, b := range pth.Blocks {
		for _, in := range b.Instrs {
			s, ok := in.(*ssa.Store)
			if !ok {
				continue
			}
			f, ok := ts.statusFieldAddr(s.Addr)
			if !ok {
				continue
			}
			bind := map[ssa.Value]ssa.Value{}
			for k, v := range pth.Bind {
				bind[k] = v
			}
			val := ts.eval(pth.Resolve(s.Val), st, bind, 0)
			// a value known non-nil on the path (err under "err != nil")
			if val.kind == symUnknown && isErrorType(s.Val.Type()) {
				val = symVal{kind: symOther}
			}
			st[f] = val
			stores = append(stores, s)
		}
	}
	return st, stores
}

func discoverTmplStatus(p *Program) *tmplStatus {
	if ts, ok := tmplStatusCache[p]; ok {
		return ts
	}
	ts := &tmplStatus{p: p, names: map[int]string{}, fresh: statusVec{}}
	tmplStatusCache[p] = ts
	tpk := p.Pkg("template")
	tn, _ := tpk.Types.Scope().Lookup("Template").(*types.TypeName)
	if tn == nil {
		ts.problem = "type Template not found"
		return ts
	}
	stt, _ := tn.Type().Underlying().(*types.Struct)
	et := p.Func("template", "escapeTemplate")
	if stt == nil || et == nil {
		ts.problem = "root analysis not found"
		return ts
	}
	pe := newPathExplorer(p, et)
	pe.Inline = true
	paths := pe.Paths()
	// status fields: error / bool / integer fields of Template that the root analysis stores into
	cand := map[int]bool{}
	for i := 0; i < stt.NumFields(); i++ {
		t := stt.Field(i).Type()
		if isErrorType(t) {
			cand[i] = true
		} else if b, ok := t.Underlying().(*types.Basic); ok && b.Info()&(types.IsBoolean|types.IsInteger) != 0 {
			cand[i] = true
		}
	}
	for _, g := range pe.Funcs() {
		for _, b := range g.Blocks {
			for _, in := range b.Instrs {
				if s, ok := in.(*ssa.Store); ok {
					if fa, ok := s.Addr.(*ssa.FieldAddr); ok && isTemplatePtr(fa.X.Type()) && cand[fa.Field] {
						ts.names[fa.Field] = canonName(stt.Field(fa.Field))
						ts.allStores = append(ts.allStores, s)
					}
				}
			}
		}
	}
	for f := range ts.names {
		ts.fields = append(ts.fields, f)
	}
	sort.Ints(ts.fields)
	if len(ts.fields) == 0 {
		ts.problem = "the root analysis records its outcome in no field of the template"
		return ts
	}
	for _, f := range ts.fields {
		t := stt.Field(f).Type()
		switch {
		case isErrorType(t):
			ts.fresh[f] = symVal{kind: symNil}
		default:
			if b, ok := t.Underlying().(*types.Basic); ok && b.Info()&types.IsBoolean != 0 {
				ts.fresh[f] = symVal{kind: symBoolean}
			} else {
				ts.fresh[f] = symVal{kind: symInteger}
			}
		}
	}
	seenStore := map[*ssa.Store]bool{}
	seenFail := map[*ssa.Store]bool{}
	for _, pth := range paths {
		v, zero, ok := pth.ResultValue(0)
		if !ok {
			continue
		}
		final, stores := ts.finalStatus(pth)
		if len(stores) == 0 {
			continue // the template is not in the set: nothing recorded
		}
		if zero || isNilConst(v) {
			if ts.ok == nil {
				ts.ok = final
			} else if !ts.ok.equal(final, ts.fields) {
				ts.problem = "two successful paths of the root analysis leave different records: " + ts.ok.render(ts) + " / " + final.render(ts)
			}
			for _, s := range stores {
				if !seenStore[s] {
					seenStore[s] = true
					ts.okStores = append(ts.okStores, s)
				}
			}
		} else {
			dup := false
			for _, fv := range ts.fails {
				if fv.equal(final, ts.fields) {
					dup = true
				}
			}
			if !dup {
				ts.fails = append(ts.fails, final)
			}
			for _, s := range stores {
				if !seenFail[s] {
					seenFail[s] = true
					ts.failStores = append(ts.failStores, s)
				}
			}
		}
	}
	if ts.ok == nil && ts.problem == "" {
		ts.problem = "no successful path of the root analysis records its outcome in the template"
	}
	// nothing else writes the record (apart from giving a new template the fresh values)
	inRoot := map[*ssa.Function]bool{}
	for _, g := range pe.Funcs() {
		inRoot[g] = true
	}
	for _, f := range p.SrcFuncs() {
		if inRoot[f] || f.Pkg == nil || f.Pkg.Pkg.Path() != pkgTemplate {
			continue
		}
		for _, b := range f.Blocks {
			for _, in := range b.Instrs {
				st, ok := in.(*ssa.Store)
				if !ok {
					continue
				}
				fld, ok := ts.statusFieldAddr(st.Addr)
				if !ok {
					continue
				}
				if v := ts.eval(st.Val, nil, nil, 0); v.kind != symUnknown && v == ts.fresh[fld] {
					continue
				}
				if ts.problem == "" {
					ts.problem = "the record of the outcome (" + ts.names[fld] + ") is also written outside the root analysis, in " + fnName(f) + " at " + p.Pos(st.Pos())
				}
			}
		}
	}
	if ts.ok != nil {
		for _, f := range ts.fields {
			if ts.ok[f].kind == symUnknown {
				ts.problem = "the record of a successful analysis is not a constant (" + ts.names[f] + ")"
			}
		}
		if ts.ok.equal(ts.fresh, ts.fields) {
			ts.problem = "a successful analysis leaves the template's record as it is for a fresh template " + ts.fresh.render(ts)
		}
		for _, fv := range ts.fails {
			if fv.equal(ts.ok, ts.fields) {
				ts.problem = "a failed analysis leaves the same record as a successful one " + ts.ok.render(ts)
			}
		}
	}
	return ts
}

// atomConsistent: the branch condition behind an atom, with the value it has on the path, is possible under st
// (true also when the condition does not speak about the status).
func (ts *tmplStatus) atomConsistent(av atomVal, val bool, st statusVec) bool {
	bind := av.bind
	r := ts.eval(av.v, st, bind, 0)
	if r.kind != symBoolean {
		return true
	}
	return r.b == (val != av.neg)
}

// speaksOfStatus: the condition reads a status field.
func (ts *tmplStatus) speaksOfStatus(av atomVal) bool {
	a := ts.eval(av.v, ts.fresh, av.bind, 0)
	return a.kind == symBoolean
}

// subject: when set, only the conditions that read the record of this template count (the provenance expression of
// the *Template value, as the path explorer prints it); conditions about other templates say nothing about it.
func (ts *tmplStatus) pathConsistent(pe *pathExplorer, pth *cfgPath, st statusVec) bool {
	for name, val := range pth.Atoms {
		av, ok := pe.AtomVals[name]
		if !ok {
			continue
		}
		if ts.subject != "" {
			if b, ok := ts.baseOf(pe, av); ok && b != ts.subject {
				continue
			}
		}
		if !ts.atomConsistent(av, val, st) {
			return false
		}
	}
	return true
}

// withSubject returns a view of ts that only listens to conditions about the given template value.
func (ts *tmplStatus) withSubject(pe *pathExplorer, v ssa.Value) *tmplStatus {
	c := *ts
	c.subject = pe.pv.Of(v).String()
	return &c
}

// baseOf: the template whose record the condition reads (the first status-field load found), in the caller's terms.
func (ts *tmplStatus) baseOf(pe *pathExplorer, av atomVal) (string, bool) {
	var find func(v ssa.Value, depth int) ssa.Value
	find = func(v ssa.Value, depth int) ssa.Value {
		if depth > 8 || v == nil {
			return nil
		}
		if w, ok := av.bind[v]; ok && w != v {
			return find(w, depth+1)
		}
		switch x := v.(type) {
		case *ssa.UnOp:
			if x.Op == token.MUL {
				if _, ok := ts.statusFieldAddr(x.X); ok {
					return x.X.(*ssa.FieldAddr).X
				}
				return nil
			}
			return find(x.X, depth+1)
		case *ssa.BinOp:
			if b := find(x.X, depth+1); b != nil {
				return b
			}
			return find(x.Y, depth+1)
		case *ssa.Call:
			for _, a := range x.Common().Args {
				if isTemplatePtr(a.Type()) {
					return a
				}
			}
		case *ssa.ChangeInterface:
			return find(x.X, depth+1)
		}
		return nil
	}
	b := find(av.v, 0)
	if b == nil {
		return "", false
	}
	for i := 0; i < 6; i++ {
		w, ok := av.bind[b]
		if !ok || w == b {
			break
		}
		b = w
	}
	return pe.pv.Of(b).String(), true
}

// pathImplies: the conditions assumed on the path are possible for the wanted state and for no other.
// which: "ok", "fresh", "failed" (some failure state, none of the others).
func (ts *tmplStatus) pathImplies(pe *pathExplorer, pth *cfgPath, which string) bool {
	if ts.problem != "" || ts.ok == nil {
		return false
	}
	cOK := ts.pathConsistent(pe, pth, ts.ok)
	cFresh := ts.pathConsistent(pe, pth, ts.fresh)
	cFail := false
	for _, fv := range ts.fails {
		if ts.pathConsistent(pe, pth, fv) {
			cFail = true
		}
	}
	switch which {
	case "ok":
		return cOK && !cFresh && !cFail
	case "fresh":
		return cFresh && !cOK && !cFail
	case "failed":
		return cFail && !cOK && !cFresh
	case "notfresh":
		return !cFresh
	}
	return false
}

// pathFeasible: the status conditions assumed on the path are possible for some state a template can be in (a path
// that assumes "no error recorded" in the caller and "an error recorded" in a spliced helper is none).
func (ts *tmplStatus) pathFeasible(pe *pathExplorer, pth *cfgPath) bool {
	if ts.problem != "" || ts.ok == nil {
		return true
	}
	if ts.pathConsistent(pe, pth, ts.ok) || ts.pathConsistent(pe, pth, ts.fresh) {
		return true
	}
	for _, fv := range ts.fails {
		if ts.pathConsistent(pe, pth, fv) {
			return true
		}
	}
	return false
}

// condExcludes: the single condition cond with value val is impossible under every state of the given kind
// ("ok", "failed", "nonfresh" = ok and all failed).
func (ts *tmplStatus) condExcludes(cond ssa.Value, val bool, which string) bool {
	if ts.problem != "" || ts.ok == nil {
		return false
	}
	av := atomVal{v: cond}
	var states []statusVec
	switch which {
	case "ok":
		states = []statusVec{ts.ok}
	case "failed":
		states = ts.fails
	case "nonfresh":
		states = append([]statusVec{ts.ok}, ts.fails...)
	}
	if len(states) == 0 {
		return false
	}
	for _, st := range states {
		if ts.atomConsistent(av, val, st) {
			return false
		}
	}
	return true
}

// atomCond: the SSA condition behind a normalised guard atom and the value it has there (normAtom rewrites x != y to
// ¬(x == y) but keeps the value of the original comparison).
func atomCond(a Atom) (ssa.Value, bool) {
	v, pol := a.E.Val, a.Pol
	if bo, ok := v.(*ssa.BinOp); ok && bo.Op == token.NEQ && a.E.Op == "binop" && a.E.Name == "==" {
		pol = !pol
	}
	return v, pol
}
