package main

// Range re-entry. The body of {{range}} is analysed twice: once from the context before the loop and once more
// from the context the first pass ends in, to see that a second iteration ends in the same context. The edits of
// the second pass are thrown away, so every action keeps the sanitizers chosen for the first iteration. That is
// only sound if the second pass would choose the same ones: a body that changes the attribute value it sits in
// ("/x/{{range .L}}{{.}}?{{end}}") puts later items into another URL component than the first. The rule demands
// that the discarded re-analysis is compared with the kept one: the acceptance callback handed to the
// conditional analysis exists and reads the action edits of both escapers.

import (
	"go/constant"
	"go/token"
	"go/types"
	"strings"

	"golang.org/x/tools/go/ssa"
)

func checkRangeReentryAgreement(p *Program, r *Report, rule string) {
	fn := p.Func("template", "(*escaper).escapeBranch")
	cond := p.Func("template", "(*escaper).escapeListConditionally")
	if fn == nil || cond == nil {
		r.Undec(rule, "template.(*escaper).escapeBranch", "", "anchor not found")
		return
	}
	c := "template.(*escaper).escapeBranch#reentry-compares-edits"
	n := 0
	for _, b := range fn.Blocks {
		for _, in := range b.Instrs {
			call, ok := in.(ssa.CallInstruction)
			if !ok || staticCallee(call.Common()) != cond {
				continue
			}
			args := call.Common().Args
			if len(args) == 0 {
				continue
			}
			n++
			filter := args[len(args)-1]
			for i := 0; i < 4; i++ {
				switch y := filter.(type) {
				case *ssa.MakeInterface:
					filter = y.X
					continue
				case *ssa.ChangeType:
					filter = y.X
					continue
				case *ssa.Convert:
					filter = y.X
					continue
				}
				break
			}
			var body *ssa.Function
			switch y := filter.(type) {
			case *ssa.MakeClosure:
				body, _ = y.Fn.(*ssa.Function)
			case *ssa.Function:
				body = y
			}
			// a bound method value: the method behind the wrapper
			bound := false
			if body != nil && strings.HasPrefix(body.Synthetic, "bound method wrapper") {
				var m *ssa.Function
				for _, bb := range body.Blocks {
					for _, ins := range bb.Instrs {
						if cl, ok := ins.(*ssa.Call); ok {
							m = staticCallee(cl.Common())
						}
					}
				}
				body, bound = m, true
			}
			if body == nil {
				r.Viol(rule, c, p.Pos(in.Pos()), "the second analysis of a range body is discarded without being compared with the first: every action keeps the sanitizers chosen for the first iteration although later iterations may need others — <a href=\"/x/{{range .L}}{{.}}?{{end}}\"> only normalises the second item, which lies in the query and can add '&', '=' and '#'", "")
				continue
			}
			// the callback reads the action edits of two different escapers
			bases := map[ssa.Value]bool{}
			var visit func(f *ssa.Function, depth int)
			visit = func(f *ssa.Function, depth int) {
				if f == nil || depth > 2 {
					return
				}
				for _, bb := range f.Blocks {
					for _, ins := range bb.Instrs {
						if fa, ok := ins.(*ssa.FieldAddr); ok {
							if base, ok := hostedIn(fa, pkgTemplate, "escaper"); ok && fieldName(fa.X.Type(), fa.Field) == "actionNodeEdits" {
								// a captured escaper is read through a free variable: identify by the value loaded
								if u, ok := base.(*ssa.UnOp); ok {
									bases[u.X] = true
								} else {
									bases[base] = true
								}
							}
						}
					}
				}
				for _, a := range f.AnonFuncs {
					visit(a, depth+1)
				}
			}
			visit(body, 0)
			// what the callback finds out must reach escapeBranch: it answers with a computed result, or writes a
			// variable it captured, or a field behind a pointer it was bound to — not a field of its own copy of a
			// value receiver
			visible := false
			var visibleStores []*ssa.Store
			for _, ret := range Returns(body) {
				for _, rv := range ret.Results {
					if _, isK := rv.(*ssa.Const); !isK {
						visible = true
					}
				}
			}
			for _, bb := range body.Blocks {
				for _, ins := range bb.Instrs {
					st, ok := ins.(*ssa.Store)
					if !ok {
						continue
					}
					root := st.Addr
					for i := 0; i < 6; i++ {
						switch y := root.(type) {
						case *ssa.FieldAddr:
							root = y.X
							continue
						case *ssa.IndexAddr:
							root = y.X
							continue
						}
						break
					}
					was := visible
					visible = false
					switch y := root.(type) {
					case *ssa.FreeVar:
						visible = true
					case *ssa.Parameter:
						if _, isPtr := y.Type().Underlying().(*types.Pointer); isPtr && !isNamed(y.Type(), pkgTemplate, "escaper") {
							visible = true
						}
					case *ssa.UnOp:
						// a pointer loaded from a captured variable or from the bound receiver
						if _, isFV := y.X.(*ssa.FreeVar); isFV {
							visible = true
						}
					}
					if visible {
						visibleStores = append(visibleStores, st)
					}
					visible = visible || was
				}
			}
			_ = bound
			if len(bases) >= 2 && !visible {
				r.Viol(rule, c+"#recorded", p.Pos(in.Pos()), "the acceptance callback of the range re-entry analysis compares the two analyses but what it finds is lost: it answers with a constant and writes only its own locals (a method with a value receiver updates a copy of the struct it is bound to), so escapeBranch never learns that later iterations need other sanitizers", "")
				continue
			}
			r.Check(len(bases) >= 2, rule, c, p.Pos(in.Pos()), "the discarded second analysis of a range body is compared with the first: actions must get the same sanitizers in both", "the acceptance callback of the range re-entry analysis does not compare the action edits of the two analyses")
			// the verdict of the callback tells escapeListConditionally whether to merge the edits of the second
			// analysis into the first; the first has edits for the same nodes, and recording a second edit for a node
			// panics: the callback must always answer false
			{
				merges := false
				if callee := staticCallee(call.Common()); callee != nil {
					for _, cb := range callee.Blocks {
						for _, ci := range cb.Instrs {
							cc, ok := ci.(*ssa.Call)
							if !ok {
								continue
							}
							if g := staticCallee(cc.Common()); g != nil && g.Pkg == callee.Pkg && functionPanics(g) {
								merges = true
							}
						}
					}
				}
				constFalse := true
				for _, ret := range Returns(body) {
					for _, rv := range ret.Results {
						k, isK := rv.(*ssa.Const)
						if !isK || k.Value == nil || k.Value.Kind() != constant.Bool || constant.BoolVal(k.Value) {
							constFalse = false
						}
					}
				}
				if merges {
					r.Check(constFalse, rule, c+"#never-merges", p.Pos(in.Pos()), "the acceptance callback of the re-entry analysis always answers false: the edits of the second analysis are discarded", "the acceptance callback of the re-entry analysis can answer true: the edits of the second analysis are then recorded for nodes the first analysis has already edited, and recording a second edit for a node panics — Execute panics instead of returning the re-entry error")
				}
			}
			// a difference must be a difference of the lists as they are: a comparison up to an equivalence of
			// sanitizer names (the one used to merge predefined escapers) treats _normalizeURL and _queryEscapeURL
			// as the same
			if len(bases) >= 2 {
				inexact := ""
				for _, bb := range body.Blocks {
					for _, ins := range bb.Instrs {
						cc, ok := ins.(*ssa.Call)
						if !ok {
							continue
						}
						g := staticCallee(cc.Common())
						if g == nil || g.Pkg != body.Pkg || g.Blocks == nil {
							continue
						}
						if tb, ok := g.Signature.Results().At(0).Type().Underlying().(*types.Basic); g.Signature.Results().Len() != 1 || !ok || tb.Kind() != types.Bool {
							continue
						}
						if comparesUpToEquivalence(g, 0) {
							inexact = fnName(g)
						}
					}
				}
				r.Check(inexact == "", rule, c+"#exact-comparison", p.Pos(in.Pos()), "the sanitizer lists of the two analyses are compared as they are", "the acceptance callback compares the sanitizer lists through "+inexact+", which identifies names through a table of equivalent escapers: a first iteration in the path of a URL (_normalizeURL) and later ones in its query (_queryEscapeURL) count as the same — `<a href=\"/go/{{range .}}{{.}}?next=/go/{{end}}done\">` lets the second item add '&', '=' and '#'")
			}
			// each kind of edit that depends on the context (the sanitizers of an action, the callee of a template
			// call) is compared in a loop of its own, and what that loop finds is recorded
			if len(bases) >= 2 && len(visibleStores) > 0 {
				for _, kind := range []string{"actionNodeEdits", "templateNodeEdits"} {
					loops, recorded := 0, false
					for _, bb := range body.Blocks {
						for _, ins := range bb.Instrs {
							nx, ok := ins.(*ssa.Next)
							if !ok {
								continue
							}
							rg, ok := nx.Iter.(*ssa.Range)
							if !ok {
								continue
							}
							ld, ok := rg.X.(*ssa.UnOp)
							if !ok {
								continue
							}
							fa, ok := ld.X.(*ssa.FieldAddr)
							if !ok || fieldName(fa.X.Type(), fa.Field) != kind {
								continue
							}
							loops++
							if len(bb.Succs) == 2 {
								for _, vs := range visibleStores {
									if bb.Succs[0].Dominates(vs.Block()) {
										recorded = true
									}
								}
							}
						}
					}
					if loops == 0 {
						continue // compared in another way: the rule above stands alone
					}
					// what is recorded in the loop is recorded where the two analyses were found to differ: a direct
					// comparison of two computed values on the way to the store must have come out "different"
					if recorded {
						wrong := ""
						for _, bb := range body.Blocks {
							for _, ins := range bb.Instrs {
								nx, ok := ins.(*ssa.Next)
								if !ok || len(bb.Succs) != 2 {
									continue
								}
								rg, ok := nx.Iter.(*ssa.Range)
								if !ok {
									continue
								}
								ld, ok := rg.X.(*ssa.UnOp)
								if !ok {
									continue
								}
								fa, ok := ld.X.(*ssa.FieldAddr)
								if !ok || fieldName(fa.X.Type(), fa.Field) != kind {
									continue
								}
								for _, vs := range visibleStores {
									if !bb.Succs[0].Dominates(vs.Block()) {
										continue
									}
									found := false
									for _, gd := range GuardsOf(vs.Block()) {
										if !bb.Succs[0].Dominates(gd.At) {
											continue
										}
										switch c := gd.Cond.(type) {
										case *ssa.BinOp:
											if c.Op != token.EQL && c.Op != token.NEQ {
												continue
											}
											_, k1 := c.X.(*ssa.Const)
											_, k2 := c.Y.(*ssa.Const)
											if k1 || k2 {
												continue
											}
											if (c.Op == token.NEQ) == gd.Pol {
												found = true
											} else if wrong == "" {
												wrong = "the difference is recorded where the two values were found equal"
											}
										case *ssa.Call, *ssa.UnOp:
											found = true // a helper's verdict: its sense is not decided here
										}
									}
									if !found && wrong == "" {
										wrong = "a difference is recorded on a way that does not pass a comparison of the two analyses that came out different"
									}
								}
							}
						}
						r.Check(wrong == "", rule, c+"#records-a-difference:"+kind, p.Pos(in.Pos()), "what the loop over "+kind+" records is recorded where the two analyses differ", wrong+": either every range body is refused, or a body whose second iteration needs other sanitizers is accepted")
					}
					r.Check(recorded, rule, c+"#records:"+kind, p.Pos(in.Pos()), "a difference found in the loop over "+kind+" is recorded where escapeBranch sees it", "the acceptance callback ranges over "+kind+" of the second analysis but records nothing it finds there: a range body whose second iteration needs other sanitizers (or another context-specific callee) is accepted with those of the first")
				}
			}
		}
	}
	if n == 0 {
		r.Undec(rule, c, p.Pos(fn.Pos()), "no conditional re-analysis of the range body found")
	}
}

// functionPanics: the function contains a panic instruction.
func functionPanics(g *ssa.Function) bool {
	for _, b := range g.Blocks {
		for _, in := range b.Instrs {
			if _, ok := in.(*ssa.Panic); ok {
				return true
			}
		}
	}
	return false
}

// comparesUpToEquivalence: the boolean helper (or one it calls) looks a string up in a package-level table before
// comparing — it compares names up to the equivalence the table defines, not the names themselves.
func comparesUpToEquivalence(g *ssa.Function, depth int) bool {
	if depth > 3 || g == nil || g.Blocks == nil {
		return false
	}
	for _, b := range g.Blocks {
		for _, in := range b.Instrs {
			switch x := in.(type) {
			case *ssa.Lookup:
				if ld, ok := x.X.(*ssa.UnOp); ok {
					if _, isG := ld.X.(*ssa.Global); isG && isStringish(x.Index.Type()) {
						return true
					}
				}
			case *ssa.Call:
				if h := staticCallee(x.Common()); h != nil && h != g && h.Pkg == g.Pkg && comparesUpToEquivalence(h, depth+1) {
					return true
				}
			}
		}
	}
	return false
}
