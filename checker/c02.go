package main

import (
	"fmt"
	"go/types"
	"sort"
	"strings"

	"golang.org/x/tools/go/ssa"

	"safecheck/relang"
)

func init() { register("C02", "other", runC02) }

func runC02(p *Program, r *Report) {
	engineConsistency(p, r, "C02.E", func(n string) bool { return strings.Contains(n, "") })

	r.Trusted = []string{"go/types + go/ssa", "C11/C12 for URLSanitized and URLSetSanitized", "C01 for the placement of actions in the inferred context", "text/template runs the inserted chain in order"}
	r.NotDecided = []string{"absence of the javascript scheme in every composed URL in general: only the structural causes (policy class, typed-only sanitizers, memo key, URL-start typestate, rel decision) are decided"}
	r.Explain = "Code-context invariants written from the statement are checked over the evaluated policy tables (script/style content, on*, style, srcdoc, code-loading URL pairs, URL-valued attributes); the sanitizers of typed-only contexts return only the contents of a value of their type; the comment sanitizer returns the empty constant; URL sanitizers return only typed values or URLSanitized/URLSetSanitized output; the memo key of context-specific template copies covers every context field the sanitizer choice reads; every action in an attribute value marks the value as started; the link rel downgrade requires every token to be URL-compatible."
	for _, m := range []struct {
		r string
		n int
	}{{"C02.R1", 12}, {"C02.R2", 6}, {"C02.R3", 1}, {"C02.R4", 3}, {"C02.R5", 1}, {"C02.R6", 2}, {"C02.R7", 1}, {"C02.R12", 4}, {"C02.R13", 2}, {"C02.R14", 1}, {"C02.R15", 1}, {"C02.R16", 1}, {"C02.R17", 1}, {"C02.R18", 2}, {"C02.R19", 5}, {"C02.R20", 1}, {"C02.R21", 1}, {"C02.R22", 4}, {"C02.R23", 2}, {"C02.R24", 1}, {"C02.R25", 1}, {"C02.R26", 2}, {"C02.R27", 1}, {"C02.R28", 1}, {"C02.R29", 1}, {"C02.R30", 1}} {
		r.Min(m.r, m.n)
	}
	pl, err := loadPolicy(p)
	if err != nil {
		r.Undec("C02.R1", "template#policy", "", err.Error())
		return
	}
	for _, pr := range pl.Problems {
		r.Viol("C02.R1", "template#policy-tables", "", pr, "")
	}
	// effective context of (element, attr) without rel, following the lookup order decided by C04.R3
	eff := func(el, attr string) (string, bool) {
		if m, ok := pl.ElemAttr[attr]; ok {
			if sc, ok := m[el]; ok {
				return pl.SC(sc), true
			}
		}
		if sc, ok := pl.GlobalAttr[attr]; ok {
			if _, okEl := pl.ElemContent[el]; okEl || pl.VoidElems[el] {
				return pl.SC(sc), true
			}
		}
		return "", false
	}
	// (a) element content of script / style
	for el, want := range map[string]string{"script": "Script", "style": "StyleSheet"} {
		sc, ok := pl.ElemContent[el]
		c := "elementContent[" + el + "]"
		if !ok {
			r.OK("C02.R1", c, "", "not listed: actions are rejected")
		} else {
			r.Check(pl.SC(sc) == want, "C02.R1", c, "", "typed-only context "+want, "content of <"+el+"> accepts "+pl.SC(sc))
		}
	}
	// (b) no on* attribute anywhere
	var onAttrs []string
	for a := range pl.GlobalAttr {
		if strings.HasPrefix(a, "on") {
			onAttrs = append(onAttrs, a)
		}
	}
	for a := range pl.ElemAttr {
		if strings.HasPrefix(a, "on") {
			onAttrs = append(onAttrs, a)
		}
	}
	sort.Strings(onAttrs)
	r.Check(len(onAttrs) == 0, "C02.R1", "policy#no-event-handlers", "", "no attribute name starting with \"on\" is listed", fmt.Sprintf("event-handler attributes are listed: %v", onAttrs))
	regs, _ := p.AllRegexes()
	if rc := regs["template.dataAttributeNamePattern"]; rc != nil {
		L := NewLang()
		L.Re(rc.Src)
		L.MustRe(`^on`)
		L.Build()
		if ok, w := relang.Disjoint(L.SearchRe(rc.Src), L.SearchRe(`^on`)); ok {
			r.OK("C02.R1", "template.dataAttributeNamePattern#no-on", p.Pos(rc.Pos), "the data-* escape hatch cannot match an on* attribute name")
		} else {
			r.Viol("C02.R1", "template.dataAttributeNamePattern#no-on", p.Pos(rc.Pos), "the data-* pattern accepts an attribute name starting with \"on\"", w)
		}
	} else {
		r.Undec("C02.R1", "template.dataAttributeNamePattern#no-on", "", "anchor not found")
	}
	// (c) style / srcdoc wherever defined
	for attr, want := range map[string]string{"style": "Style", "srcdoc": "HTMLValOnly"} {
		var bad []string
		n := 0
		if sc, ok := pl.GlobalAttr[attr]; ok {
			n++
			if pl.SC(sc) != want {
				bad = append(bad, "global:"+pl.SC(sc))
			}
		}
		for el, sc := range pl.ElemAttr[attr] {
			n++
			if pl.SC(sc) != want {
				bad = append(bad, el+":"+pl.SC(sc))
			}
		}
		sort.Strings(bad)
		r.Check(len(bad) == 0, "C02.R1", "policy["+attr+"]", "", fmt.Sprintf("%d definitions, all %s", n, want), fmt.Sprintf("attribute %s accepts %v", attr, bad))
	}
	// (d) code-loading pairs
	for _, pr := range [][2]string{{"script", "src"}, {"iframe", "src"}, {"frame", "src"}, {"embed", "src"}, {"object", "data"}, {"base", "href"}, {"link", "href"}} {
		c := "policy[" + pr[0] + "/" + pr[1] + "]"
		got, ok := eff(pr[0], pr[1])
		switch {
		case !ok:
			r.OK("C02.R1", c, "", "not accepted at all (reject)")
		case got == "TrustedResourceURL":
			r.OK("C02.R1", c, "", "TrustedResourceURL (typed-only)")
		default:
			r.Viol("C02.R1", c, "", "a URL that loads code or styles accepts context "+got, "")
		}
	}
	// (e) URL-valued attributes map only to URL-class contexts
	urlClass := map[string]bool{"URL": true, "TrustedResourceURL": true, "TrustedResourceURLOrURL": true}
	for _, attr := range []string{"href", "src", "action", "formaction"} {
		var bad []string
		if sc, ok := pl.GlobalAttr[attr]; ok && !urlClass[pl.SC(sc)] {
			bad = append(bad, "global:"+pl.SC(sc))
		}
		for el, sc := range pl.ElemAttr[attr] {
			if !urlClass[pl.SC(sc)] {
				bad = append(bad, el+":"+pl.SC(sc))
			}
		}
		sort.Strings(bad)
		r.Check(len(bad) == 0, "C02.R1", "policy["+attr+"]#url-class", "", "only URL-class contexts", fmt.Sprintf("URL-valued attribute %s accepts %v", attr, bad))
	}
	{
		var bad []string
		if sc, ok := pl.GlobalAttr["srcset"]; ok && pl.SC(sc) != "URLSet" {
			bad = append(bad, "global:"+pl.SC(sc))
		}
		for el, sc := range pl.ElemAttr["srcset"] {
			if pl.SC(sc) != "URLSet" {
				bad = append(bad, el+":"+pl.SC(sc))
			}
		}
		r.Check(len(bad) == 0, "C02.R1", "policy[srcset]#url-class", "", "only URLSet", fmt.Sprintf("srcset accepts %v", bad))
	}
	// ---- R2 typed-only ----------------------------------------------------------------
	checkTypedOnlySanitizers(p, r, pl, "C02.R2")
	// ---- R3 comments -------------------------------------------------------------------
	checkCommentChain(p, r, pl)
	// ---- R4 URL sanitizers -----------------------------------------------------------------
	pv := NewProv(p)
	pv.NoInline = true
	for _, name := range []string{"URL", "TrustedResourceURLOrURL", "URLSet"} {
		c := "sanitizer-of[" + name + "]"
		var f *ssa.Function
		for v, inf := range pl.Info {
			if inf.Name == name {
				f = pl.SanitizerFunc(v)
			}
		}
		if f == nil {
			r.Viol("C02.R4", c, "", "no sanitizer bound", "")
			continue
		}
		sum := summariseSanitizer(p, pv, f)
		want := map[string]bool{"passthrough": true, "urlsanitized": true}
		if name == "URLSet" {
			want = map[string]bool{"urlsetsanitized": true}
		}
		var bad []string
		for _, rt := range sum.Returns {
			if !want[rt.Kind] {
				bad = append(bad, rt.Kind+" "+rt.Desc+"@"+rt.Pos)
			}
			if rt.Kind == "passthrough" && !subsetOf(rt.Types, allowedPassThrough[name]) {
				bad = append(bad, fmt.Sprintf("passes %v", rt.Types))
			}
		}
		bad = append(bad, sum.Problems...)
		r.Check(len(bad) == 0 && len(sum.Returns) > 0, "C02.R4", c, p.Pos(f.Pos()), fmt.Sprintf("%s returns only %v", fnName(f), sum.Kinds()), fmt.Sprintf("%s may emit a URL that did not pass the URL sanitizer: %v", fnName(f), bad))
	}
	// ---- R8 the URL guard itself (same obligations as C11.R1–R5) ----------------------------------------------
	runURLGuardRules(p, r, "C02", false)
	// ---- R9 link rel derivation ------------------------------------------------------------------------------------
	checkLinkRelDerivation(p, r, "C02.R9")
	checkJoinNames(p, r, "C02.R10")
	checkMemoOutput(p, r, "C02.R11")
	// ---- R5 memo key ---------------------------------------------------------------------------
	checkMemoKey(p, r, "C02.R5")
	checkMemoKeyConditional(p, r, "C02.R5")
	checkElementBodyKinds(p, r, "C02.R12", pl)
	checkOpaqueBodyNotUndone(p, r, "C02.R17")
	checkJoinMergesBoth(p, r, "C02.R18", "attr.")
	checkContextEqStrict(p, r, "C02.R19")
	checkInstalledFuncMaps(p, r, "C02.R20")
	checkElementNameContinuation(p, r, "C02.R21")
	checkLookupArgumentRoles(p, r, "C02.R22")
	checkLinkRelSeesAllNames(p, r, "C02.R23")
	checkLinkRelMixedNames(p, r, "C02.R23")
	checkActionMarksStart(p, r, "C02.R25")
	checkActionMarksRelUnknown(p, r, "C02.R9")
	checkJoinAccumulatesFlags(p, r, "C02.R26")
	checkCandidateListsNonEmpty(p, r, textAfterStartValidator(p), "C02.R27")
	checkTextValidatorIgnoresValueWhenAmbiguous(p, r, "C02.R28")
	checkMemoHitNamesTheCopy(p, r, "C02.R29")
	checkSpecialNamesAreOneElement(p, r, "C02.R30")
	checkSlashSeparatesAttributes(p, r, "C02.R24")
	checkNodeDispatchPassThrough(p, r, "C02.R13")
	checkConditionalNamesBodyKind(p, r, "C02.R14")
	checkStrayLtRewrite(p, r, "C02.R15")
	checkTextAfterStartAction(p, r, "C02.R16", "")
	// ---- R6 URL-start typestate ----------------------------------------------------------------
	checkURLStartTypestate(p, r)
	// ---- R7 rel ∀ ---------------------------------------------------------------------------------
	if fn := p.Func("template", "sanitizationContextForAttrVal"); fn == nil {
		r.Undec("C02.R7", "template.sanitizationContextForAttrVal", "", "anchor not found")
	} else {
		n := 0
		for _, ret := range Returns(fn) {
			kv, ok := constInt(ret.Results[0])
			if !ok {
				continue
			}
			if k, isC := ret.Results[1].(*ssa.Const); !isC || k.Value != nil {
				continue
			}
			name := pl.SC(kv)
			if name != "URL" && name != "TrustedResourceURLOrURL" {
				continue
			}
			n++
			c := "template.sanitizationContextForAttrVal#link-rel-downgrade"
			switch relDecision(pv, ret.Block()) {
			case "all-tokens":
				r.OK("C02.R7", c, p.Pos(ret.Pos()), "href of a link is URL-typed only when every rel token is URL-compatible")
			case "any-token":
				r.Viol("C02.R7", c, p.Pos(ret.Pos()), "href of a link becomes URL-typed as soon as one rel token is URL-compatible, whatever the other tokens are", `<link rel="alternate stylesheet" href="{{.}}">`)
			default:
				r.Undec("C02.R7", c, p.Pos(ret.Pos()), "the rel decision idiom is not recognised")
			}
		}
		if n == 0 {
			r.OK("C02.R7", "template.sanitizationContextForAttrVal#link-rel-downgrade", p.Pos(fn.Pos()), "no rel-dependent downgrade exists")
		}
	}
}

func checkCommentChain(p *Program, r *Report, pl *Policy) {
	fn := p.Func("template", "sanitizerForContext")
	if fn == nil {
		r.Undec("C02.R3", "template.sanitizerForContext", "", "anchor not found")
		return
	}
	ce := newChainEval(p)
	alts := ce.FuncChains(fn, 0)
	tpk := p.Pkg("template")
	states := ConstNames(tpk, tpk.Types.Scope().Lookup("state").Type())
	var cmt int64 = -1
	for k, v := range states {
		if v == "stateHTMLCmt" {
			cmt = k
		}
	}
	found := false
	for _, alt := range alts {
		isCmt := guardHas(alt.Guards, func(a Atom) bool {
			if !a.Pol || a.E.Op != "binop" || a.E.Name != "==" || a.E.Args[0].Op != "field" || a.E.Args[0].Name != "state" {
				return false
			}
			k, ok := scConstValue(a.E.Args[1])
			return ok && k == cmt
		})
		if !isCmt {
			continue
		}
		found = true
		okChain := len(alt.Elems) == 1 && alt.Elems[0].Sym == nil
		var f *ssa.Function
		if okChain {
			f = pl.Funcs[alt.Elems[0].Const]
		}
		okConst := false
		if f != nil {
			okConst = true
			for _, ret := range Returns(f) {
				if k, ok := constString(ret.Results[0]); !ok || k != "" || len(ret.Results) != 1 {
					okConst = false
				}
			}
		}
		r.Check(okChain && okConst, "C02.R3", "template.sanitizerForContext#comment-chain", p.Pos(alt.Ret.Pos()), "inside an HTML comment the chain is one function that returns the empty string for every input", "data can be emitted inside an HTML comment: "+alt.Names())
	}
	if !found {
		r.Undec("C02.R3", "template.sanitizerForContext#comment-chain", p.Pos(fn.Pos()), "no chain guarded by state == stateHTMLCmt found")
	}
	for _, pr := range ce.Problems {
		r.Undec("C02.R3", "template.sanitizerForContext#chains", p.Pos(fn.Pos()), pr)
	}
}

// contextReads collects the field paths of the context parameter that fn (and
// the package functions it hands the context or its sub-structs to) reads.
func contextReads(p *Program, fn *ssa.Function, paramIdx int, prefix string, out map[string]bool, depth int) {
	if depth < 0 {
		// negative depth: do not follow calls (depth -1 = this function only)
	}
	if depth > 6 || fn == nil || fn.Blocks == nil || paramIdx >= len(fn.Params) {
		return
	}
	prm := fn.Params[paramIdx]
	// the parameter is spilled: find the alloc holding it
	roots := map[ssa.Value]string{prm: prefix}
	for _, ref := range *prm.Referrers() {
		if st, ok := ref.(*ssa.Store); ok && st.Val == ssa.Value(prm) {
			roots[st.Addr] = prefix
		}
	}
	var visit func(v ssa.Value, path string)
	visit = func(v ssa.Value, path string) {
		refs := v.Referrers()
		if refs == nil {
			return
		}
		for _, ref := range *refs {
			switch x := ref.(type) {
			case *ssa.FieldAddr:
				if x.X == v {
					visit(x, join2(path, fieldName(x.X.Type(), x.Field)))
				}
			case *ssa.Field:
				if x.X == v {
					visit(x, join2(path, fieldName(x.X.Type(), x.Field)))
				}
			case *ssa.UnOp:
				// load
				if _, isStruct := x.Type().Underlying().(*types.Struct); isStruct {
					visit(x, path)
				} else if path != prefix || prefix != "" {
					out[path] = true
				}
			case *ssa.Call:
				c := x.Common()
				f := staticCallee(c)
				for i, a := range c.Args {
					if a != v {
						continue
					}
					if f != nil && f.Pkg == fn.Pkg && f.Blocks != nil && depth >= 0 {
						contextReads(p, f, i, path, out, depth+1)
					} else if f != nil && f.Pkg == fn.Pkg && depth < 0 {
						// calls are not followed: passing the whole struct on is not a use of its fields
					} else if path != "" {
						out[path] = true
					}
				}
			case *ssa.Store:
				if x.Addr == v && path != "" {
					out[path] = true // assigned
				}
				if x.Val == v && x.Addr != nil {
					// copied into another local: follow it
					if al, ok := x.Addr.(*ssa.Alloc); ok {
						visit(al, path)
					}
				}
			case *ssa.BinOp, *ssa.Phi, *ssa.Slice, *ssa.Index, *ssa.IndexAddr, *ssa.Lookup, *ssa.Range, *ssa.MakeInterface, *ssa.Convert, *ssa.ChangeType:
				if path != "" {
					out[path] = true
				}
			}
		}
	}
	for v, pth := range roots {
		visit(v, pth)
	}
}

func join2(a, b string) string {
	if a == "" {
		return b
	}
	return a + "." + b
}

// checkMemoKey: C02.R5 = C06.R4. K = context fields the memo key reads;
// D = context fields the sanitizer choice reads; rule D ⊆ K.
func checkMemoKey(p *Program, r *Report, rule string) {
	mangle := findMangle(p)
	sfc := p.Func("template", "sanitizerForContext")
	const c = "template.mangle#key-completeness" // construct name kept stable across renames of the helper
	if mangle == nil || sfc == nil {
		r.Undec(rule, c, "", "anchor not found: mangle / sanitizerForContext")
		return
	}
	K, D := map[string]bool{}, map[string]bool{}
	contextReads(p, mangle, 0, "", K, 0)
	contextReads(p, sfc, 0, "", D, 0)
	var missing []string
	for f := range D {
		if !K[f] {
			missing = append(missing, f)
		}
	}
	sort.Strings(missing)
	if len(D) < 5 || len(K) < 3 {
		r.Undec(rule, c, p.Pos(mangle.Pos()), fmt.Sprintf("field extraction looks incomplete: key reads %v, sanitizer choice reads %v", sortedKeys(K), sortedKeys(D)))
		return
	}
	if len(missing) > 0 {
		// the finding is identified by the exact set of missing fields
		r.Viol(rule, c+"[missing="+strings.Join(missing, ",")+"]", p.Pos(mangle.Pos()), fmt.Sprintf("the sanitizer choice depends on context fields %v that are not part of the key %v of context-specific template copies: two call sites that differ only in them share one analysed copy, and one runs the other's sanitizers", missing, sortedKeys(K)),
			`{{define "h"}}{{.}}{{end}}<a href="/x/{{template "h" .}}">…<a href="{{template "h" .}}">`)
		return
	}
	if len(missing) == 0 {
		r.OK(rule, c, p.Pos(mangle.Pos()), fmt.Sprintf("the memo key reads %v ⊇ everything the sanitizer choice reads", sortedKeys(K)))
	} else {
		r.Viol(rule, c, p.Pos(mangle.Pos()), fmt.Sprintf("the sanitizer choice depends on context fields %v that are not part of the key %v of context-specific template copies: two call sites that differ only in them share one analysed copy, and one runs the other's sanitizers", missing, sortedKeys(K)),
			`{{define "h"}}{{.}}{{end}}<a href="/x/{{template "h" .}}">…<a href="{{template "h" .}}">`)
	}
}

// scEqualsAny: do the guards contain sc == v (polarity returned)?
func scEqualsAny(gs []Atom, v int64) (bool, bool) {
	for _, a := range gs {
		if k, ok := scEquals(a); ok && k == v {
			return a.Pol, true
		}
	}
	return false, false
}

// checkURLStartTypestate: C02.R6.
func checkURLStartTypestate(p *Program, r *Report) {
	ci, err := loadAttrChains(p)
	if err != nil {
		r.Undec("C02.R6", "template.sanitizersForAttributeValue", "", err.Error())
		return
	}
	// START: attr fields tested on every path to the no-prefix URL chain
	start := map[string]bool{}
	for _, alt := range ci.Alts {
		isURL := guardHas(alt.Guards, func(a Atom) bool { return isURLClassCall(a) && a.Pol })
		empty := guardHas(alt.Guards, func(a Atom) bool { return isAttrValueEmptyCmp(a) && a.Pol })
		if !isURL || !empty {
			continue
		}
		for _, g := range alt.Guards {
			g.E.Walk(func(e *Expr) bool {
				if e.Op == "field" && len(e.Args) == 1 && e.Args[0].Op == "field" && e.Args[0].Name == "attr" {
					// value == "" (Pol true) or boolean flag false
					start[e.Name] = true
				}
				return true
			})
		}
	}
	delete(start, "name")
	delete(start, "names")
	if len(start) == 0 {
		r.Undec("C02.R6", "template.sanitizersForAttributeValue#start-fields", p.Pos(ci.Fn.Pos()), "no context field guards the start-of-URL chain")
		return
	}
	r.OK("C02.R6", "template.sanitizersForAttributeValue#start-fields", p.Pos(ci.Fn.Pos()), fmt.Sprintf("the start-of-URL chain is chosen only while attr fields %v are empty/false", sortedKeys(start)))
	// escapeAction must store one of them on its success path in stateAttr
	ea := p.Func("template", "(*escaper).escapeAction")
	if ea == nil {
		r.Undec("C02.R6", "template.(*escaper).escapeAction", "", "anchor not found")
		return
	}
	var edit *ssa.Call
	for _, b := range ea.Blocks {
		for _, in := range b.Instrs {
			if c, ok := in.(*ssa.Call); ok {
				if f := staticCallee(c.Common()); f != nil && cname(f) == "editActionNode" {
					edit = c
				}
			}
		}
	}
	marked := ""
	if edit != nil {
		// the blocks of escapeAction after the edit is recorded, and the helpers it hands the context to there
		var scan []*ssa.BasicBlock
		for _, b := range ea.Blocks {
			if forwardReach(edit.Block(), b) {
				scan = append(scan, b)
			}
		}
		for _, f := range actionTailFuncs(p) {
			if f != ea {
				scan = append(scan, f.Blocks...)
			}
		}
		for _, b := range scan {
			for _, in := range b.Instrs {
				st, ok := in.(*ssa.Store)
				if !ok {
					continue
				}
				fa, ok := st.Addr.(*ssa.FieldAddr)
				if !ok {
					continue
				}
				fa2, ok := fa.X.(*ssa.FieldAddr)
				if !ok || fieldName(fa2.X.Type(), fa2.Field) != "attr" {
					continue
				}
				name := fieldName(fa.X.Type(), fa.Field)
				if !start[name] {
					continue
				}
				// stored value makes the START test fail
				if bv, ok := constBool(st.Val); ok && bv {
					marked = name
				}
				if _, isC := constString(st.Val); !isC && isStringish(st.Val.Type()) {
					marked = name
				}
				if k, isC := constString(st.Val); isC && k != "" {
					marked = name
				}
			}
		}
	}
	if marked != "" {
		r.OK("C02.R6", "template.(*escaper).escapeAction#marks-value-started", p.Pos(ea.Pos()), "after an action in an attribute value the context records that the value has started (attr."+marked+")")
	} else {
		r.Viol("C02.R6", "template.(*escaper).escapeAction#marks-value-started", p.Pos(ea.Pos()), fmt.Sprintf("an action inside an attribute value leaves attr fields %v untouched, so a following action is again treated as the start of the URL and sanitized on its own", sortedKeys(start)),
			`<a href="{{.A}}{{.B}}"> with A="java", B="script:alert(1)"`)
	}
	// URL-valued contexts outside the URL class (srcset): their sanitizer emits complete URLs, so the same
	// typestate is needed — the generic chain must not be chosen without a test of the START fields
	pl := ci.Policy
	pvs := NewProv(p)
	pvs.NoInline = true
	for _, v := range sortedInt64Keys(pl.Info) {
		f := pl.SanitizerFunc(v)
		if f == nil {
			continue
		}
		sum := summariseSanitizer(p, pvs, f)
		emitsURL := false
		for _, k := range sum.Kinds() {
			if k == "urlsanitized" || k == "urlsetsanitized" {
				emitsURL = true
			}
		}
		name := pl.Info[v].Name
		if !emitsURL || name == "URL" || name == "TrustedResourceURLOrURL" || name == "TrustedResourceURL" {
			continue
		}
		// is there a chain alternative for this context that tests the START fields?
		tested := false
		for _, alt := range ci.Alts {
			if guardHas(alt.Guards, func(a Atom) bool { return isURLClassCall(a) && a.Pol }) {
				continue
			}
			for _, g := range alt.Guards {
				g.E.Walk(func(e *Expr) bool {
					if e.Op == "field" && start[e.Name] && len(e.Args) == 1 && e.Args[0].Op == "field" && e.Args[0].Name == "attr" {
						// a test of a START field that is specific to this context
						if sv, ok := scEqualsAny(alt.Guards, v); ok && sv {
							tested = true
						}
					}
					return true
				})
			}
		}
		c := "template.sanitizersForAttributeValue#url-start-typestate[" + name + "]"
		if tested {
			r.OK("C02.R6", c, p.Pos(ci.Fn.Pos()), "the chain for this URL-valued context is chosen under a test of the start-of-value fields")
		} else {
			r.Viol("C02.R6", c, p.Pos(ci.Fn.Pos()), "context "+name+" emits complete URLs but its chain is chosen without looking at the static text or earlier actions of the attribute value: each action is sanitized on its own and the pieces concatenate",
				`<img srcset="java{{.}}"> with "script:alert(1) 1x" → srcset="javascript:alert(1) 1x"`)
		}
	}
	// static text appends to attr.value
	cat := p.Func("template", "contextAfterText")
	okText := false
	if cat != nil {
		for _, b := range cat.Blocks {
			for _, in := range b.Instrs {
				if st, ok := in.(*ssa.Store); ok {
					if fa, ok := st.Addr.(*ssa.FieldAddr); ok && fieldName(fa.X.Type(), fa.Field) == "value" {
						if bo, ok := st.Val.(*ssa.BinOp); ok && bo.Op.String() == "+" {
							okText = true
						}
					}
				}
			}
		}
	}
	r.Check(okText, "C02.R6", "template.contextAfterText#appends-value", "", "static text inside an attribute value is appended to attr.value", "static text inside an attribute value is not recorded in attr.value")
}
