package main

import (
	"fmt"
	"go/types"
	"sort"
	"strings"

	"golang.org/x/tools/go/ssa"
)

// checkNewAttributeStartsClean (C04.R10 / C01.R18): when the tag state meets the name of a new attribute, nothing
// recorded for the previous attribute may survive in the context: the candidate names left by a conditional
// attribute name, the static value, the ambiguity and dynamic-start marks all steer the choice of sanitizers for the
// attribute value, and a value-less attribute (<input {{if .C}}checked{{else}}disabled{{end}} madeup="{{.X}}">)
// returns to the tag state with them intact. Every return of the tag-state function that names a new attribute
// must either build the context afresh or overwrite every field of attr.
func checkNewAttributeStartsClean(p *Program, r *Report, rule string) {
	tpk := p.Pkg("template")
	stObj := tpk.Types.Scope().Lookup("state")
	disp, _, err := stateDispatch(p)
	if stObj == nil || err != nil {
		r.Undec(rule, "template.transitionFunc", "", "anchor not found")
		return
	}
	var fn *ssa.Function
	for v, n := range ConstNames(tpk, stObj.Type()) {
		if n == "stateTag" {
			fn = disp[v]
		}
	}
	attrObj, _ := tpk.Types.Scope().Lookup("attr").(*types.TypeName)
	if fn == nil || attrObj == nil {
		r.Undec(rule, "template.transitionFunc[stateTag]", "", "anchor not found")
		return
	}
	ast, ok := attrObj.Type().Underlying().(*types.Struct)
	if !ok {
		r.Undec(rule, "template.attr", "", "not a struct")
		return
	}
	var ctxParam *ssa.Parameter
	for _, prm := range fn.Params {
		if isNamedType(prm.Type(), "context") {
			ctxParam = prm
		}
	}
	c := strings.TrimPrefix(fnName(fn), pkgTemplate+".") + "#new-attribute-starts-clean"
	n := 0
	for _, ret := range Returns(fn) {
		u, ok := ret.Results[0].(*ssa.UnOp)
		if !ok {
			continue
		}
		al, ok := u.X.(*ssa.Alloc)
		if !ok {
			continue
		}
		// does this return name a new attribute? a store to attr.name of the returned local
		namesAttr := false
		stored := map[string]bool{}
		wholeAttrFresh := false
		copiesParam := ctxParam != nil && allocHoldsParam(al, ctxParam)
		for _, ref := range *al.Referrers() {
			fa, ok := ref.(*ssa.FieldAddr)
			if !ok || fieldName(fa.X.Type(), fa.Field) != "attr" {
				continue
			}
			for _, rr := range *fa.Referrers() {
				switch y := rr.(type) {
				case *ssa.FieldAddr:
					for _, r3 := range *y.Referrers() {
						if st, ok := r3.(*ssa.Store); ok && st.Addr == ssa.Value(y) {
							fname := fieldName(y.X.Type(), y.Field)
							stored[fname] = true
							if fname == "name" {
								namesAttr = true
							}
						}
					}
				case *ssa.Store:
					if y.Addr == ssa.Value(fa) {
						// the whole attr replaced: fresh if it is a literal built in place
						if lu, ok := y.Val.(*ssa.UnOp); ok {
							if _, isAl := lu.X.(*ssa.Alloc); isAl {
								wholeAttrFresh = true
								namesAttr = true
							}
						}
					}
				}
			}
		}
		if !namesAttr {
			continue
		}
		n++
		if !copiesParam || wholeAttrFresh {
			r.OK(rule, c, p.Pos(ret.Pos()), "the context of a new attribute is built afresh: nothing of the previous attribute is carried over")
			continue
		}
		var kept []string
		for i := 0; i < ast.NumFields(); i++ {
			f := ast.Field(i).Name()
			if !stored[f] {
				kept = append(kept, f)
			}
		}
		sort.Strings(kept)
		r.Check(len(kept) == 0, rule, c, p.Pos(ret.Pos()), "every field of attr is overwritten when a new attribute begins", fmt.Sprintf("a new attribute begins with attr.%s of the previous attribute still set: after a value-less attribute whose name a conditional chose, the sanitizers of the next attribute's value are chosen for the stale candidate names (<a {{if .C}}title{{else}}lang{{end}} href=\"{{.X}}\"> emits javascript: unsanitized)", strings.Join(kept, ", attr.")))
	}
	if n == 0 {
		r.Undec(rule, c, p.Pos(fn.Pos()), "no return of the tag-state function names a new attribute")
	}
}

// checkPredefinedEscaperTest (C03.R12): the escaper lets a predefined escaper at the end of a pipeline stand in for
// its own equivalent sanitizer. That is sound for text/template's built-in "html" and "urlquery", which escape
// whatever the type of the value. The test "is this a predefined escaper" must therefore look the identifier up
// as written: a lookup of a normalised name would also accept the module's own _sanitizeHTML, which passes safe
// HTML through, in place of the attribute escaper.
func checkPredefinedEscaperTest(p *Program, r *Report, rule string) {
	pv := NewProv(p)
	fn := p.Func("template", "ensurePipelineContains")
	if fn == nil {
		r.Undec(rule, "template.ensurePipelineContains", "", "anchor not found")
		return
	}
	// a membership test on a name: a lookup in a package-level map keyed by strings, or a predicate of the module
	// over one string; the name tested must be the identifier as written (the Ident field), not a transformation of it
	n := 0
	derivesFromIdent := func(e *Expr) (raw, transformed bool) {
		if e.Op == "field" && e.Name == "Ident" {
			return true, false
		}
		found := false
		e.Walk(func(x *Expr) bool {
			if x.Op == "field" && x.Name == "Ident" {
				found = true
			}
			return true
		})
		return false, found
	}
	for _, b := range fn.Blocks {
		for _, in := range b.Instrs {
			var arg ssa.Value
			switch x := in.(type) {
			case *ssa.Lookup:
				if u, ok := x.X.(*ssa.UnOp); ok {
					if _, isG := u.X.(*ssa.Global); isG && isStringish(x.Index.Type()) {
						// only maps that answer "is it one of these names": bool or empty-struct values
						if mt, ok := u.Type().Underlying().(*types.Map); ok {
							if bt, ok := mt.Elem().Underlying().(*types.Basic); ok && bt.Info()&types.IsBoolean != 0 {
								arg = x.Index
							}
							if st, ok := mt.Elem().Underlying().(*types.Struct); ok && st.NumFields() == 0 {
								arg = x.Index
							}
						}
					}
				}
			case *ssa.Call:
				g := staticCallee(x.Common())
				if g != nil && g.Pkg == fn.Pkg && len(x.Common().Args) == 1 && isStringish(x.Common().Args[0].Type()) && g.Signature.Results().Len() == 1 {
					if bt, ok := g.Signature.Results().At(0).Type().Underlying().(*types.Basic); ok && bt.Info()&types.IsBoolean != 0 {
						arg = x.Common().Args[0]
					}
				}
			}
			if arg == nil {
				continue
			}
			e := pv.Of(arg)
			raw, transformed := derivesFromIdent(e)
			if !raw && !transformed {
				continue
			}
			n++
			c := strings.TrimPrefix(fnName(fn), modulePath+"/") + "#predefined-escaper-test"
			r.Check(raw, rule, c, p.Pos(in.Pos()), "the predefined-escaper test looks at the identifier as written in the pipeline", "the predefined-escaper test looks at "+trunc(e.String(), 120)+" instead of the identifier as written: a contextual sanitizer left by an earlier rewrite (_sanitizeHTML, which passes safe HTML through) is then taken for the built-in html escaper and stands in for the attribute escaper")
		}
	}
	if n == 0 {
		r.Undec(rule, "template.ensurePipelineContains#predefined-escaper-test", "", "no membership test on the last identifier of the pipeline found")
	}
}

// checkParsedTextGoesToRegisteredMember (C08.R10 / C07.R6): the execution gate records the outcome of an analysis
// (sticky error, emptied tree) on the member registered in the name space under the template's name. A wrapper
// that is handed parsed text must therefore be that registered member (a lookup in the set, or a member created
// for the name): a method that stores the text template or the tree into its own receiver fills a handle that New
// may have detached from the set, and a failed analysis then empties the shared text tree without marking the
// handle — its next execution dereferences a nil tree.
func checkParsedTextGoesToRegisteredMember(p *Program, r *Report, rule string) {
	n := 0
	for _, fn := range p.SrcFuncs() {
		if fn.Pkg == nil || fn.Pkg.Pkg.Path() != modulePath+"/template" || fn.Signature.Recv() == nil || len(fn.Params) == 0 {
			continue
		}
		if !isNamed(fn.Params[0].Type(), pkgTemplate, "Template") {
			continue
		}
		recv := fn.Params[0]
		for _, b := range fn.Blocks {
			for _, in := range b.Instrs {
				st, ok := in.(*ssa.Store)
				if !ok {
					continue
				}
				fa, ok := st.Addr.(*ssa.FieldAddr)
				if !ok || !isNamed(fa.X.Type(), pkgTemplate, "Template") {
					continue
				}
				f := fieldName(fa.X.Type(), fa.Field)
				if f != "text" && f != "Tree" {
					continue
				}
				n++
				// can the base be the receiver?
				isRecv := false
				seen := map[ssa.Value]bool{}
				var walk func(v ssa.Value, depth int)
				walk = func(v ssa.Value, depth int) {
					if depth > 6 || seen[v] {
						return
					}
					seen[v] = true
					switch x := v.(type) {
					case *ssa.Parameter:
						if x == recv {
							isRecv = true
						}
					case *ssa.Phi:
						for _, e := range x.Edges {
							walk(e, depth+1)
						}
					case *ssa.UnOp:
						if al, ok := x.X.(*ssa.Alloc); ok {
							for _, ref := range *al.Referrers() {
								if s2, ok := ref.(*ssa.Store); ok && s2.Addr == ssa.Value(al) {
									walk(s2.Val, depth+1)
								}
							}
						}
					}
				}
				walk(fa.X, 0)
				// an unexported helper method fills whatever wrapper it is called on: judged at its call sites
				if isRecv && fn.Object() != nil && !fn.Object().Exported() {
					isRecv = false
					for _, g := range p.SrcFuncs() {
						if g.Pkg != fn.Pkg || g.Signature.Recv() == nil || len(g.Params) == 0 {
							continue
						}
						for _, gb := range g.Blocks {
							for _, gi := range gb.Instrs {
								call, ok := gi.(ssa.CallInstruction)
								if !ok || staticCallee(call.Common()) != fn || len(call.Common().Args) == 0 {
									continue
								}
								if call.Common().Args[0] == ssa.Value(g.Params[0]) && g.Object() != nil && g.Object().Exported() {
									isRecv = true
								}
							}
						}
					}
				}
				c := fmt.Sprintf("%s#stores-%s", strings.TrimPrefix(fnName(fn), pkgTemplate+"."), f)
				r.Check(!isRecv, rule, c, p.Pos(in.Pos()), "the wrapper that is filled is a member looked up in (or created for) the set", "the method stores parsed text into its own receiver: a handle that New has detached from the set is filled, the analysis outcome is recorded on the registered member only, and after a failed analysis the handle's next execution dereferences the emptied tree")
			}
		}
	}
	if n == 0 {
		r.OK(rule, "template#wrapper-fills", "", "no method of Template stores a text template or tree")
	}
}

// checkChainAppendedUnconditionally (C03.R13 / C06.R10): the pipeline rewriter appends every sanitizer of the chain
// chosen for the context. The only substitution it may make is the one it makes beforehand for a predefined escaper
// written by the template author. A test inside the appending loop ("already present", "an equivalent one is
// there") makes what is inserted depend on what an earlier rewrite left in the tree: the equivalence table treats
// _sanitizeHTML, which passes safe HTML through, like the attribute escaper.
func checkChainAppendedUnconditionally(p *Program, r *Report, rule string) {
	fn := p.Func("template", "ensurePipelineContains")
	if fn == nil || len(fn.Params) < 2 {
		r.Undec(rule, "template.ensurePipelineContains", "", "anchor not found")
		return
	}
	chain := fn.Params[1]
	c := "template.ensurePipelineContains#appends-every-sanitizer"
	n := 0
	for _, h := range loopHeaders(fn) {
		in := loopBlocks(h)
		// a loop that reads elements of the chain parameter and builds a command from them
		var build ssa.Instruction
		for b := range in {
			for _, ins := range b.Instrs {
				call, ok := ins.(*ssa.Call)
				if !ok {
					continue
				}
				g := staticCallee(call.Common())
				if g == nil || g.Pkg != fn.Pkg {
					continue
				}
				for _, a := range call.Common().Args {
					if ld, ok := a.(*ssa.UnOp); ok {
						if ia, ok := ld.X.(*ssa.IndexAddr); ok && ia.X == ssa.Value(chain) {
							build = ins
						}
					}
				}
			}
		}
		if build == nil {
			continue
		}
		// is the result appended? (the loop that only compares names with the predefined escaper builds nothing)
		appended := false
		for _, ref := range *build.(*ssa.Call).Referrers() {
			if _, ok := ref.(*ssa.Store); ok {
				appended = true
			}
			if cl, ok := ref.(*ssa.Call); ok {
				if bi, ok := cl.Common().Value.(*ssa.Builtin); ok && bi.Name() == "append" {
					appended = true
				}
			}
		}
		if !appended {
			continue
		}
		n++
		every := true
		for _, pr := range h.Preds {
			if in[pr] && !build.Block().Dominates(pr) {
				every = false
			}
		}
		r.Check(every, rule, c, p.Pos(build.Pos()), "every sanitizer of the chain is appended on every iteration", "a sanitizer of the chain is appended only under a condition: what is inserted depends on what the pipeline already contains, so a copy of an already rewritten tree (a helper used in text first, in an attribute later) keeps _sanitizeHTML, which passes safe HTML through, in place of the attribute escaper")
	}
	if n == 0 {
		r.Undec(rule, c, p.Pos(fn.Pos()), "the loop that appends the chain was not found")
	}
}
