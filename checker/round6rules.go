package main

import (
	"fmt"
	"go/types"
	"sort"
	"strings"

	"golang.org/x/tools/go/ssa"
)

// checkNewAttributeStartsClean (C04.R10 / C01.R18): when the tag state meets the name of a new attribute, nothing
// recorded for the previous attribute may survive in the context: the candidate names left by a conditional
// attribute name, the static value, the ambiguity and dynamic-start marks all steer the choice of sanitizers for the
// attribute value, and a value-less attribute (<input {{if .C}}checked{{else}}disabled{{end}} madeup="{{.X}}">)
// returns to the tag state with them intact. Every return of the tag-state function that names a new attribute
// must either build the context afresh or overwrite every field of attr.
func checkNewAttributeStartsClean(p *Program, r *Report, rule string) {
	tpk := p.Pkg("template")
	stObj := tpk.Types.Scope().Lookup("state")
	disp, _, err := stateDispatch(p)
	if stObj == nil || err != nil {
		r.Undec(rule, "template.transitionFunc", "", "anchor not found")
		return
	}
	var fn *ssa.Function
	for v, n := range ConstNames(tpk, stObj.Type()) {
		if n == "stateTag" {
			fn = disp[v]
		}
	}
	attrObj, _ := tpk.Types.Scope().Lookup("attr").(*types.TypeName)
	if fn == nil || attrObj == nil {
		r.Undec(rule, "template.transitionFunc[stateTag]", "", "anchor not found")
		return
	}
	ast, ok := attrObj.Type().Underlying().(*types.Struct)
	if !ok {
		r.Undec(rule, "template.attr", "", "not a struct")
		return
	}
	var ctxParam *ssa.Parameter
	for _, prm := range fn.Params {
		if isNamedType(prm.Type(), "context") {
			ctxParam = prm
		}
	}
	c := strings.TrimPrefix(fnName(fn), pkgTemplate+".") + "#new-attribute-starts-clean"
	n := 0
	for _, ret := range Returns(fn) {
		u, ok := ret.Results[0].(*ssa.UnOp)
		if !ok {
			continue
		}
		al, ok := u.X.(*ssa.Alloc)
		if !ok {
			continue
		}
		// does this return name a new attribute? a store to attr.name of the returned local
		namesAttr := false
		stored := map[string]bool{}
		wholeAttrFresh := false
		copiesParam := ctxParam != nil && allocHoldsParam(al, ctxParam)
		for _, ref := range *al.Referrers() {
			fa, ok := ref.(*ssa.FieldAddr)
			if !ok || fieldName(fa.X.Type(), fa.Field) != "attr" {
				continue
			}
			for _, rr := range *fa.Referrers() {
				switch y := rr.(type) {
				case *ssa.FieldAddr:
					for _, r3 := range *y.Referrers() {
						if st, ok := r3.(*ssa.Store); ok && st.Addr == ssa.Value(y) {
							fname := fieldName(y.X.Type(), y.Field)
							stored[fname] = true
							if fname == "name" {
								namesAttr = true
							}
						}
					}
				case *ssa.Store:
					if y.Addr == ssa.Value(fa) {
						// the whole attr replaced: fresh if it is a literal built in place
						if lu, ok := y.Val.(*ssa.UnOp); ok {
							if _, isAl := lu.X.(*ssa.Alloc); isAl {
								wholeAttrFresh = true
								namesAttr = true
							}
						}
					}
				}
			}
		}
		if !namesAttr {
			continue
		}
		n++
		if !copiesParam || wholeAttrFresh {
			r.OK(rule, c, p.Pos(ret.Pos()), "the context of a new attribute is built afresh: nothing of the previous attribute is carried over")
			continue
		}
		var kept []string
		for i := 0; i < ast.NumFields(); i++ {
			f := ast.Field(i).Name()
			if !stored[f] {
				kept = append(kept, f)
			}
		}
		sort.Strings(kept)
		r.Check(len(kept) == 0, rule, c, p.Pos(ret.Pos()), "every field of attr is overwritten when a new attribute begins", fmt.Sprintf("a new attribute begins with attr.%s of the previous attribute still set: after a value-less attribute whose name a conditional chose, the sanitizers of the next attribute's value are chosen for the stale candidate names (<a {{if .C}}title{{else}}lang{{end}} href=\"{{.X}}\"> emits javascript: unsanitized)", strings.Join(kept, ", attr.")))
	}
	if n == 0 {
		r.Undec(rule, c, p.Pos(fn.Pos()), "no return of the tag-state function names a new attribute")
	}
}

// checkPredefinedEscaperTest (C03.R12): the escaper lets a predefined escaper at the end of a pipeline stand in for
// its own equivalent sanitizer. That is sound for text/template's built-in "html" and "urlquery", which escape
// whatever the type of the value. The test "is this a predefined escaper" must therefore look the identifier up
// as written: a lookup of a normalised name would also accept the module's own _sanitizeHTML, which passes safe
// HTML through, in place of the attribute escaper.
func checkPredefinedEscaperTest(p *Program, r *Report, rule string) {
	pv := NewProv(p)
	n := 0
	for _, fn := range p.SrcFuncs() {
		if fn.Pkg == nil || fn.Pkg.Pkg.Path() != modulePath+"/template" {
			continue
		}
		for _, b := range fn.Blocks {
			for _, in := range b.Instrs {
				lk, ok := in.(*ssa.Lookup)
				if !ok {
					continue
				}
				u, ok := lk.X.(*ssa.UnOp)
				if !ok {
					continue
				}
				g, ok := u.X.(*ssa.Global)
				if !ok || cname(g) != "predefinedEscapers" {
					continue
				}
				n++
				e := pv.Of(lk.Index)
				okIdent := e.Op == "field" && e.Name == "Ident"
				c := strings.TrimPrefix(fnName(fn), modulePath+"/") + "#predefined-escaper-test"
				r.Check(okIdent, rule, c, p.Pos(in.Pos()), "the predefined-escaper test looks up the identifier as written in the pipeline", "the predefined-escaper test looks up "+trunc(e.String(), 120)+" instead of the identifier as written: a contextual sanitizer left by an earlier rewrite (_sanitizeHTML, which passes safe HTML through) is then taken for the built-in html escaper and stands in for the attribute escaper")
			}
		}
	}
	if n == 0 {
		r.Undec(rule, "template#predefined-escaper-test", "", "no lookup in the table of predefined escapers found")
	}
}
