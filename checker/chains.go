package main

// E8: sanitizer-chain evaluator. An abstract interpreter for []string values
// that are built from constants by composite literals, append, and the two
// local helpers "append the non-empty arguments" and "reverse in place" (each
// summarised only after a shape check). Domain: finite sets of sequences of
// sanitizer-name constants / the symbolic name of the sanitization context,
// each tagged with the dominating guards of the return it belongs to.

import (
	"fmt"
	"go/constant"
	"go/token"
	"go/types"
	"strings"

	"golang.org/x/tools/go/ssa"
)

type chainElem struct {
	Const    string    // a sanitizer-name constant
	Sym      ssa.Value // or: a dynamic string (e.g. sc.sanitizerName())
	Optional bool      // dropped when empty (appendIfNotEmpty)
}

func (e chainElem) String() string {
	s := e.Const
	if e.Sym != nil {
		s = "⟨" + e.Sym.Name() + "⟩"
		if c, ok := e.Sym.(*ssa.Call); ok {
			if f := staticCallee(c.Common()); f != nil {
				s = "⟨" + f.Name() + "⟩"
			}
		}
	}
	if e.Optional {
		s += "?"
	}
	return s
}

type chainAlt struct {
	Elems  []chainElem
	Guards []Atom // dominating guards of the return (provenance atoms)
	Ret    *ssa.Return
	Fn     *ssa.Function
	Via    []*ssa.BasicBlock // blocks of the forwarding returns in the callers (outermost last)
	Edges  [][2]*ssa.BasicBlock
}

func (a chainAlt) Names() string {
	var ss []string
	for _, e := range a.Elems {
		ss = append(ss, e.String())
	}
	return "[" + strings.Join(ss, " ") + "]"
}

type chainEval struct {
	p        *Program
	pv       *Prov
	Problems []string
	helpers  map[*ssa.Function]string // "appendNonEmpty" | "reverse" | ""
	bind     map[*ssa.Parameter][]sliceAlt
	depth    int
}

func newChainEval(p *Program) *chainEval {
	pv := NewProv(p)
	pv.NoInline = true
	return &chainEval{p: p, pv: pv, helpers: map[*ssa.Function]string{}}
}

// helperKind shape-checks the two local helpers.
func (ce *chainEval) helperKind(f *ssa.Function) string {
	if k, ok := ce.helpers[f]; ok {
		return k
	}
	kind := ""
	defer func() { ce.helpers[f] = kind }()
	if f.Blocks == nil || f.Signature.Results().Len() != 1 {
		return ""
	}
	if _, ok := f.Signature.Results().At(0).Type().Underlying().(*types.Slice); !ok {
		return ""
	}
	// appendNonEmpty(slice, strings...): a range loop over the variadic parameter whose only
	// append is append(acc, s) guarded by s != "", and which returns the accumulated slice.
	if len(f.Params) == 2 && f.Signature.Variadic() {
		var appends []*ssa.Call
		for _, b := range f.Blocks {
			for _, in := range b.Instrs {
				if c, ok := in.(*ssa.Call); ok {
					if bi, ok := c.Common().Value.(*ssa.Builtin); ok && bi.Name() == "append" {
						appends = append(appends, c)
					}
				}
			}
		}
		if len(appends) == 1 {
			ap := appends[0]
			elems, ok := variadicArgs(ap.Common().Args[1])
			acc, isPhi := ap.Common().Args[0].(*ssa.Phi)
			if ok && len(elems) == 1 && isPhi {
				// element = strings[i]
				e := ce.pv.Of(elems[0])
				isElem := e.Op == "index" && e.Args[0].Op == "param" && e.Args[0].Idx == 1
				guarded := false
				for _, a := range ce.pv.Atoms(ap.Block()) {
					if !a.Pol && a.E.Op == "binop" && a.E.Name == "==" && a.E.Args[0].Val == elems[0] {
						if k, ok := a.E.Args[1].IsConstString(); ok && k == "" {
							guarded = true
						}
					}
				}
				// acc phi: initial = param 0, loop edges = acc or the append
				accOK := true
				for _, ed := range acc.Edges {
					if ed != ssa.Value(f.Params[0]) && ed != ssa.Value(acc) && ed != ssa.Value(ap) {
						accOK = false
					}
				}
				retOK := true
				for _, ret := range Returns(f) {
					if ret.Results[0] != ssa.Value(acc) {
						retOK = false
					}
				}
				// the loop visits the elements in index order
				ordered := false
				for _, b := range f.Blocks {
					for _, in := range b.Instrs {
						if ph, ok := in.(*ssa.Phi); ok && ph.Comment == "rangeindex" {
							ordered = true
						}
					}
				}
				if isElem && guarded && accOK && retOK && ordered {
					kind = "appendNonEmpty"
				}
			}
		}
		return kind
	}
	// reverse(s): head/tail swap loop over the parameter, returns the parameter
	if len(f.Params) == 1 {
		retOK := len(Returns(f)) > 0
		for _, ret := range Returns(f) {
			if ret.Results[0] != ssa.Value(f.Params[0]) {
				retOK = false
			}
		}
		// stores: s[head] = s[tail], s[tail] = s[head]; head starts 0 and increments, tail starts len-1 and decrements; loop while head < tail
		var stores []*ssa.Store
		for _, b := range f.Blocks {
			for _, in := range b.Instrs {
				if st, ok := in.(*ssa.Store); ok {
					stores = append(stores, st)
				}
			}
		}
		if retOK && len(stores) == 2 {
			ia0, ok0 := stores[0].Addr.(*ssa.IndexAddr)
			ia1, ok1 := stores[1].Addr.(*ssa.IndexAddr)
			if ok0 && ok1 && ia0.X == ssa.Value(f.Params[0]) && ia1.X == ssa.Value(f.Params[0]) {
				h, okh := ia0.Index.(*ssa.Phi)
				t, okt := ia1.Index.(*ssa.Phi)
				if okh && okt && h != t {
					ld := func(v ssa.Value) (ssa.Value, bool) {
						u, ok := v.(*ssa.UnOp)
						if !ok || u.Op != token.MUL {
							return nil, false
						}
						ia, ok := u.X.(*ssa.IndexAddr)
						if !ok || ia.X != ssa.Value(f.Params[0]) {
							return nil, false
						}
						return ia.Index, true
					}
					v0, okv0 := ld(stores[0].Val)
					v1, okv1 := ld(stores[1].Val)
					swap := okv0 && okv1 && v0 == ssa.Value(t) && v1 == ssa.Value(h)
					phiOK := func(ph *ssa.Phi, startsZero bool, step token.Token) bool {
						okInit, okStep := false, false
						for _, e := range ph.Edges {
							if k, ok := constInt(e); ok && startsZero && k == 0 {
								okInit = true
								continue
							}
							if bo, ok := e.(*ssa.BinOp); ok {
								if bo.X == ssa.Value(ph) && bo.Op == step {
									if k, ok := constInt(bo.Y); ok && k == 1 {
										okStep = true
										continue
									}
								}
								if !startsZero && bo.Op == token.SUB {
									if c, ok := bo.X.(*ssa.Call); ok {
										if bi, ok := c.Common().Value.(*ssa.Builtin); ok && bi.Name() == "len" && c.Common().Args[0] == ssa.Value(f.Params[0]) {
											if k, ok := constInt(bo.Y); ok && k == 1 {
												okInit = true
												continue
											}
										}
									}
								}
							}
							return false
						}
						return okInit && okStep
					}
					cond := false
					for _, b := range f.Blocks {
						if iff, ok := b.Instrs[len(b.Instrs)-1].(*ssa.If); ok {
							if bo, ok := iff.Cond.(*ssa.BinOp); ok && bo.Op == token.LSS && bo.X == ssa.Value(h) && bo.Y == ssa.Value(t) {
								cond = true
							}
						}
					}
					if swap && phiOK(h, true, token.ADD) && phiOK(t, false, token.SUB) && cond {
						kind = "reverse"
					}
				}
			}
		}
	}
	return kind
}

// evalSlice returns the alternatives a []string value can take.
type sliceAlt struct {
	Elems  []chainElem
	Guards []Atom
	Edges  [][2]*ssa.BasicBlock // phi edges taken (pred, phi block)
}

func (ce *chainEval) evalSlice(v ssa.Value, depth int) ([][]chainElem, bool) {
	alts, ok := ce.evalSliceG(v, depth)
	if !ok {
		return nil, false
	}
	var out [][]chainElem
	for _, a := range alts {
		out = append(out, a.Elems)
	}
	return out, true
}

// evalSliceG is evalSlice with guards: the edge guards of the phi edges taken and the
// guards of the returns of slice-building helpers that were followed.
func (ce *chainEval) evalSliceG(v ssa.Value, depth int) ([]sliceAlt, bool) {
	if depth > 14 {
		return nil, false
	}
	cross := func(base, add []sliceAlt, combine func(b, a []chainElem) []chainElem) []sliceAlt {
		var out []sliceAlt
		for _, b := range base {
			for _, a := range add {
				out = append(out, sliceAlt{combine(b.Elems, a.Elems), append(append([]Atom{}, b.Guards...), a.Guards...), append(append([][2]*ssa.BasicBlock{}, b.Edges...), a.Edges...)})
			}
		}
		return out
	}
	switch x := v.(type) {
	case *ssa.Const:
		if x.Value == nil {
			return []sliceAlt{{}}, true
		}
	case *ssa.Parameter:
		if alts, ok := ce.bind[x]; ok {
			return alts, true
		}
	case *ssa.Slice:
		if elems, ok := variadicArgs(x); ok {
			var out []chainElem
			for _, e := range elems {
				out = append(out, ce.elemOf(e))
			}
			return []sliceAlt{{Elems: out}}, true
		}
	case *ssa.Phi:
		var out []sliceAlt
		for i, e := range x.Edges {
			alts, ok := ce.evalSliceG(e, depth+1)
			if !ok {
				return nil, false
			}
			var eg []Atom
			for _, g := range EdgeGuards(x.Block().Preds[i], x.Block()) {
				eg = append(eg, normAtom(ce.pv.Of(g.Cond), g.Pol))
			}
			for _, a := range alts {
				out = append(out, sliceAlt{a.Elems, append(append([]Atom{}, eg...), a.Guards...), append([][2]*ssa.BasicBlock{{x.Block().Preds[i], x.Block()}}, a.Edges...)})
			}
		}
		return out, true
	case *ssa.Call:
		c := x.Common()
		if bi, ok := c.Value.(*ssa.Builtin); ok && bi.Name() == "append" {
			base, ok := ce.evalSliceG(c.Args[0], depth+1)
			if !ok {
				return nil, false
			}
			add, ok := ce.evalSliceG(c.Args[1], depth+1)
			if !ok {
				return nil, false
			}
			return cross(base, add, func(b, a []chainElem) []chainElem { return append(append([]chainElem{}, b...), a...) }), true
		}
		f := staticCallee(c)
		if f == nil {
			return nil, false
		}
		switch ce.helperKind(f) {
		case "appendNonEmpty":
			base, ok := ce.evalSliceG(c.Args[0], depth+1)
			if !ok {
				return nil, false
			}
			add, ok := ce.evalSliceG(c.Args[1], depth+1)
			if !ok {
				return nil, false
			}
			return cross(base, add, func(b, a []chainElem) []chainElem {
				seq := append([]chainElem{}, b...)
				for _, e := range a {
					if e.Sym == nil && e.Const == "" {
						continue // empty constant: dropped
					}
					if e.Sym != nil {
						e.Optional = true
					}
					seq = append(seq, e)
				}
				return seq
			}), true
		case "reverse":
			base, ok := ce.evalSliceG(c.Args[0], depth+1)
			if !ok {
				return nil, false
			}
			var out []sliceAlt
			for _, b := range base {
				rv := make([]chainElem, len(b.Elems))
				for i := range b.Elems {
					rv[len(b.Elems)-1-i] = b.Elems[i]
				}
				out = append(out, sliceAlt{rv, b.Guards, b.Edges})
			}
			return out, true
		}
		// a helper of the package that builds and returns a chain fragment ([]string, no error)
		if f.Pkg != nil && f.Blocks != nil && f.Signature.Results().Len() == 1 && isStringSlice(f.Signature.Results().At(0).Type()) && ce.depth < 4 {
			saved := ce.bindArgs(f, c.Args, depth)
			ce.depth++
			var out []sliceAlt
			okAll := true
			for _, ret := range Returns(f) {
				sub, ok := ce.evalSliceG(ret.Results[0], depth+1)
				if !ok {
					okAll = false
					break
				}
				g := ce.pv.Atoms(ret.Block())
				for _, a := range sub {
					out = append(out, sliceAlt{a.Elems, append(append([]Atom{}, g...), a.Guards...), a.Edges})
				}
			}
			ce.depth--
			ce.restore(saved)
			if okAll {
				return out, true
			}
		}
	}
	return nil, false
}

func isStringSlice(t types.Type) bool {
	sl, ok := t.Underlying().(*types.Slice)
	if !ok {
		return false
	}
	b, ok := sl.Elem().Underlying().(*types.Basic)
	return ok && b.Kind() == types.String
}

// bindArgs binds the []string parameters of f to the alternatives of the arguments (evaluated in the
// caller) and returns the previous bindings.
func (ce *chainEval) bindArgs(f *ssa.Function, args []ssa.Value, depth int) map[*ssa.Parameter][]sliceAlt {
	saved := map[*ssa.Parameter][]sliceAlt{}
	if ce.bind == nil {
		ce.bind = map[*ssa.Parameter][]sliceAlt{}
	}
	for i, prm := range f.Params {
		if i >= len(args) || !isStringSlice(prm.Type()) {
			continue
		}
		if alts, ok := ce.evalSliceG(args[i], depth+1); ok {
			if old, had := ce.bind[prm]; had {
				saved[prm] = old
			} else {
				saved[prm] = nil
			}
			ce.bind[prm] = alts
		}
	}
	return saved
}

func (ce *chainEval) restore(saved map[*ssa.Parameter][]sliceAlt) {
	for prm, old := range saved {
		if old == nil {
			delete(ce.bind, prm)
		} else {
			ce.bind[prm] = old
		}
	}
}

func (ce *chainEval) evalSlicePlain(v ssa.Value, depth int) ([][]chainElem, bool) {
	return ce.evalSlice(v, depth)
}

func (ce *chainEval) elemOf(v ssa.Value) chainElem {
	if k, ok := constString(v); ok {
		return chainElem{Const: k}
	}
	return chainElem{Sym: v}
}

// FuncChains lists the chains fn can return with a nil error, following calls
// to other chain functions of the package.
func (ce *chainEval) FuncChains(fn *ssa.Function, depth int) []chainAlt {
	var out []chainAlt
	if depth > 4 {
		ce.Problems = append(ce.Problems, "chain functions nest too deeply")
		return nil
	}
	for _, ret := range Returns(fn) {
		if len(ret.Results) != 2 {
			ce.Problems = append(ce.Problems, fnName(fn)+": unexpected result arity")
			continue
		}
		// error result: skip returns that are certainly errors
		if _, isErrorf := isCallTo(ret.Results[1], "fmt.Errorf"); isErrorf {
			continue
		}
		guards := ce.pv.Atoms(ret.Block())
		rv := ret.Results[0]
		errV := ret.Results[1]
		if k, ok := errV.(*ssa.Const); !ok || k.Value != nil {
			// (x, err) forwarded from a callee: both results extracted from the same call
			ex0, ok0 := rv.(*ssa.Extract)
			ex1, ok1 := errV.(*ssa.Extract)
			if ok0 && ok1 && ex0.Tuple == ex1.Tuple {
				if call, ok := ex0.Tuple.(*ssa.Call); ok {
					if f := staticCallee(call.Common()); f != nil && f.Pkg == fn.Pkg {
						saved := ce.bindArgs(f, call.Common().Args, 0)
						subs := ce.FuncChains(f, depth+1)
						ce.restore(saved)
						for _, sub := range subs {
							sub.Via = append(append([]*ssa.BasicBlock{}, sub.Via...), ret.Block())
							sub.Guards = append(append([]Atom{}, guards...), sub.Guards...)
							out = append(out, sub)
						}
						continue
					}
				}
			}
			// error under "err != nil" guard
			nonNil := false
			for _, a := range guards {
				if !a.Pol && a.E.Op == "binop" && a.E.Name == "==" && a.E.Args[0].Val == errV {
					nonNil = true
				}
			}
			if nonNil {
				continue
			}
			// appendIfNotEmpty([]string{}, name), err  — string-returning callee with error
			if call, ok := isCallToPkg(rv, fn); ok && ce.helperKind(staticCallee(call.Common())) == "appendNonEmpty" {
				// elements may come from (string, error) callee
				alts, ok := ce.evalSlice(rv, 0)
				if ok {
					for _, a := range alts {
						out = append(out, chainAlt{Elems: a, Guards: guards, Ret: ret, Fn: fn})
					}
					continue
				}
			}
			ce.Problems = append(ce.Problems, fmt.Sprintf("%s: return with an error value that is neither nil, fmt.Errorf nor forwarded (%s)", fnName(fn), ce.p.Pos(ret.Pos())))
			continue
		}
		if k, ok := rv.(*ssa.Const); ok && k.Value == nil {
			out = append(out, chainAlt{Elems: nil, Guards: guards, Ret: ret, Fn: fn})
			continue
		}
		alts, ok := ce.evalSliceG(rv, 0)
		if !ok {
			ce.Problems = append(ce.Problems, fmt.Sprintf("%s: chain value not evaluable: %s (%s)", fnName(fn), ce.pv.Of(rv), ce.p.Pos(ret.Pos())))
			continue
		}
		for _, a := range alts {
			out = append(out, chainAlt{Elems: a.Elems, Guards: append(append([]Atom{}, guards...), a.Guards...), Ret: ret, Fn: fn, Edges: a.Edges})
		}
	}
	return out
}

func isCallToPkg(v ssa.Value, fn *ssa.Function) (*ssa.Call, bool) {
	c, ok := v.(*ssa.Call)
	if !ok {
		return nil, false
	}
	f := staticCallee(c.Common())
	if f == nil || f.Pkg != fn.Pkg {
		return nil, false
	}
	return c, true
}

// guardHas looks for a guard atom satisfying pred.
func guardHas(gs []Atom, pred func(a Atom) bool) bool {
	for _, g := range gs {
		if pred(g) {
			return true
		}
	}
	return false
}

// scConstName resolves a constant of type sanitizationContext to its name.
func scConstValue(e *Expr) (int64, bool) {
	if e.Op == "const" && e.Const != nil && e.Const.Kind() == constant.Int {
		return constant.Int64Val(e.Const)
	}
	return 0, false
}
